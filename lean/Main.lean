/-
  Line-protocol driver: one request per line `op<TAB>payload`, one answer line per request.
  Runs the executable definitions of the model (the same definitions the theorems are about).
-/
import Lessm.Model.Color
import Lessm.Model.Sign
import Lessm.Model.NumE
import Lessm.Model.IdentFmt
import Lessm.Model.Builtins
import Lessm.Model.Guard
import Lessm.Model.ExprGen
import Lessm.Model.ColorFn
import Lessm.Model.Nest
import Lean.Data.Json
import Lessm.Model.Batch
import Lessm.Model.Term
import Lessm.Model.Import
import Lessm.Gen.LexRules
import Lessm.Gen.Words
import Lessm.Gen.BigWords
import Lessm.Spec.VarsSpec
import Lessm.Spec.MediaSpec
import Lessm.Model.Mixin
import Lessm.Model.AtRule
import Lessm.Model.Str
import Lessm.Model.Print
import Lessm.Model.Lex
import Lessm.Spec.FixSpec
import Lessm.Model.LR
import Lessm.Gen.Grammar
import Lessm.Gen.Lalr

open Lessm

def parseOp (s : String) : Option Color.Op :=
  match s with
  | "+" => some .add | "-" => some .sub | "*" => some .mul | "/" => some .div
  | _ => none

def optStr (o : Option (List Char)) : String :=
  match o with
  | some l => String.ofList l
  | none => "none"

def parseRat (s : String) : Option Rat :=
  match s.splitOn "/" with
  | [n, d] => do
      let n ← n.toInt?
      let d ← d.toNat?
      if d = 0 then none else some ((n : Rat) / (d : Rat))
  | [n] => (n.toInt?).map (fun (i : Int) => (i : Rat))
  | _ => none

def parseCmp : String → Option Guard.Cmp
  | ">" => some .gt | "<" => some .lt | "=" => some .eq | ">=" => some .ge | "=<" => some .le
  | _ => none

def parseCond (s : String) : Option Guard.Cond :=
  match (s.splitOn " ").filter (· ≠ "") with
  | [n, a, c, b] => do
      let a ← parseRat a
      let b ← parseRat b
      let c ← parseCmp c
      some ⟨n == "1", .lit a, c, .lit b⟩
  | _ => none

def parseGuard (s : String) : Option Guard.Guard :=
  (s.splitOn " | ").mapM (fun ch => (ch.splitOn " & ").mapM parseCond)

def rgbStr (c : ColorFn.RGB) : String := s!"{c.1} {c.2.1} {c.2.2}"
def exactStr (c : Rat × Rat × Rat) : String := Num.ratStr c.1 ++ " " ++ Num.ratStr c.2.1 ++ " " ++ Num.ratStr c.2.2

def colorFn (args : List String) : String :=
  let nat (s : String) : Nat := s.toNat?.getD 0
  let rat (s : String) : Rat := (parseRat s).getD 0
  match args with
  | [f, r, g, b, d] =>
      let c : ColorFn.RGB := (nat r, nat g, nat b)
      let d := rat d
      match f with
      | "lighten" => rgbStr (ColorFn.lighten c d) ++ " | " ++ exactStr (ColorFn.ophslExact c d 1 1)
      | "darken" => rgbStr (ColorFn.darken c d) ++ " | " ++ exactStr (ColorFn.ophslExact c d 1 (-1))
      | "saturate" => rgbStr (ColorFn.saturate c d) ++ " | " ++ exactStr (ColorFn.ophslExact c d 2 1)
      | "desaturate" => rgbStr (ColorFn.desaturate c d) ++ " | " ++ exactStr (ColorFn.ophslExact c d 2 (-1))
      | "spin" => rgbStr (ColorFn.spin c d) ++ " | " ++ exactStr (ColorFn.spinExact c d)
      | _ => "bad-op"
  | [f, r, g, b] =>
      let c : ColorFn.RGB := (nat r, nat g, nat b)
      match f with
      | "greyscale" => rgbStr (ColorFn.greyscale c) ++ " | " ++ exactStr (ColorFn.ophslExact c 100 2 (-1))
      | "hue" => Num.ratStr (ColorFn.hue c)
      | "saturation" => Num.ratStr (ColorFn.saturation c)
      | "lightness" => Num.ratStr (ColorFn.lightness c)
      | "hsl" => match r.toInt? with
          | some h => rgbStr (ColorFn.hsl h (rat g) (rat b)) ++ " | " ++ exactStr (ColorFn.hslExact h (rat g) (rat b))
          | none => "bad-op"
      | _ => "bad-op"
  | ["mix", r, g, b, r2, g2, b2, w] =>
      let c1 : ColorFn.RGB := (nat r, nat g, nat b)
      let c2 : ColorFn.RGB := (nat r2, nat g2, nat b2)
      rgbStr (ColorFn.mix c1 c2 (rat w)) ++ " | " ++ exactStr (ColorFn.mixExact c1 c2 (rat w))
  | _ => "bad-op"

open Lean in
partial def itemOfJson (j : Json) : Except String Nest.Item := do
  match j.getObjVal? "d" with
  | .ok d =>
      let a ← d.getArr?
      let p ← (a[0]!).getStr?
      let v ← (a[1]!).getStr?
      pure (.decl ⟨p, v⟩)
  | .error _ =>
      let r ← j.getObjValAs? (Array String) "r"
      let b ← (← j.getObjVal? "b").getArr?
      let items ← b.toList.mapM itemOfJson
      pure (.rule r.toList items)

open Lean in
/-- c01.identfmt: {"ws": s, "nl": s, "parsed": [[tok, …], …]} -> the text `Identifier.fmt` prints, as a JSON string -/
def identFmt (payload : String) : String :=
  match Json.parse payload with
  | .error e => "bad-json " ++ e
  | .ok j =>
      match (do
          let ws ← j.getObjValAs? String "ws"
          let nl ← j.getObjValAs? String "nl"
          let parsed ← j.getObjValAs? (Array (Array String)) "parsed"
          pure (ws, nl, parsed) : Except String (String × String × Array (Array String))) with
      | .error e => "bad-json " ++ e
      | .ok (ws, nl, parsed) =>
          (Json.str (String.ofList (IdentFmt.fmt ws.toList nl.toList
            (parsed.toList.map (fun p => p.toList.map String.toList))))).compress

open Lean in
def nestFlat (payload : String) : String :=
  match Json.parse payload with
  | .error e => "bad-json " ++ e
  | .ok j =>
      match j.getArr? with
      | .error e => "bad-json " ++ e
      | .ok arr =>
          match arr.toList.mapM itemOfJson with
          | .error e => "bad-item " ++ e
          | .ok items =>
              let out := Nest.compileSheet items
              let js : Json := Json.arr (out.toArray.map (fun r =>
                Json.arr #[Json.arr (r.sels.toArray.map (fun s => Json.str (Sel.fmtOne "" s))),
                           Json.arr (r.decls.toArray.map (fun d => Json.arr #[Json.str d.prop, Json.str d.value]))]))
              js.compress

namespace VarsIO
open Lean Lessm.Vars

def vtok (j : Json) : Except String VTok := do
  let a ← j.getArr?
  let k ← (a[0]!).getStr?
  let s ← (a[1]!).getStr?
  if k == "r" then pure (.ref s) else pure (.lit s)

def stok (j : Json) : Except String STok := do
  let a ← j.getArr?
  let k ← (a[0]!).getStr?
  let s ← (a[1]!).getStr?
  if k == "i" then pure (.interp s) else pure (.lit s)

partial def item (j : Json) : Except String Item := do
  match j.getObjVal? "d" with
  | .ok d =>
      let a ← d.getArr?
      let p ← (a[0]!).getStr?
      let v ← (← (a[1]!).getArr?).toList.mapM vtok
      pure (.decl p v)
  | .error _ =>
    match j.getObjVal? "v" with
    | .ok d =>
        let a ← d.getArr?
        let p ← (a[0]!).getStr?
        let v ← (← (a[1]!).getArr?).toList.mapM vtok
        pure (.vdef p v)
    | .error _ =>
        let r ← (← (← j.getObjVal? "r").getArr?).toList.mapM stok
        let b ← (← (← j.getObjVal? "b").getArr?).toList.mapM item
        pure (.rule r b)

def outJson (r : Except Err (List OutRule)) : Json :=
  match r with
  | .error (.unknownVar n) => Json.mkObj [("err", Json.str ("unknown " ++ n))]
  | .error .hang => Json.mkObj [("err", Json.str "hang")]
  | .ok rs => Json.arr (rs.toArray.map (fun r =>
      Json.arr #[Json.arr (r.path.toArray.map (fun p => Json.str (String.join p))),
                 Json.arr (r.decls.toArray.map (fun d => Json.arr #[Json.str d.1, Json.str (String.join d.2)]))]))

def run (payload : String) : String :=
  match Json.parse payload with
  | .error e => "bad-json " ++ e
  | .ok j =>
    match j.getArr? with
    | .error e => "bad-json " ++ e
    | .ok arr =>
      match arr.toList.mapM item with
      | .error e => "bad-item " ++ e
      | .ok sheet =>
          (Json.mkObj [("model", outJson (compile 64 sheet)), ("spec", outJson (specCompile 64 sheet)),
                       ("varok", Json.bool (VarOK sheet))]).compress
end VarsIO

namespace MediaIO
open Lean Lessm.Media

partial def item (j : Json) : Except String Item := do
  match j.getObjVal? "d" with
  | .ok d =>
      let a ← d.getArr?
      pure (.decl ⟨← (a[0]!).getStr?, ← (a[1]!).getStr?⟩)
  | .error _ =>
    match j.getObjValAs? (Array String) "m" with
    | .ok q =>
        let b ← (← (← j.getObjVal? "b").getArr?).toList.mapM item
        pure (.media q.toList b)
    | .error _ =>
        let r ← j.getObjValAs? (Array String) "r"
        let b ← (← (← j.getObjVal? "b").getArr?).toList.mapM item
        pure (.rule r.toList b)

def tripleJson (t : STriple) : Json :=
  Json.arr #[match t.media with | none => Json.null | some q => Json.str (String.intercalate " " q),
             Json.arr (t.sels.toArray.map (fun s => Json.str (Lessm.Sel.fmtOne "" s))),
             Json.arr (t.decls.toArray.map (fun d => Json.arr #[Json.str d.prop, Json.str d.value]))]

def run (payload : String) : String :=
  match Json.parse payload with
  | .error e => "bad-json " ++ e
  | .ok j =>
    match j.getArr? with
    | .error e => "bad-json " ++ e
    | .ok arr =>
      match arr.toList.mapM item with
      | .error e => "bad-item " ++ e
      | .ok sheet =>
          (Json.mkObj [("model", Json.arr ((observe sheet).map toSTriple |>.toArray.map tripleJson)),
                       ("spec", Json.arr ((specSheet sheet).toArray.map tripleJson))]).compress
end MediaIO

namespace MixinIO
open Lean Lessm.Mixin Lessm.Vars

def value (j : Json) : Except String Value := do (← j.getArr?).toList.mapM VarsIO.vtok

def arg (j : Json) : Except String Arg := do
  match j.getObjVal? "arith" with
  | .ok a =>
      let arr ← a.getArr?
      let n ← (arr[0]!).getStr?
      let k ← (arr[1]!).getInt?
      pure (.arith n k)
  | .error _ => do
      let v ← value (← j.getObjVal? "val")
      pure (.val v)

partial def item (j : Json) : Except String Mixin.Item := do
  match j.getObjVal? "d" with
  | .ok d =>
      let a ← d.getArr?
      pure (.decl (← (a[0]!).getStr?) (← value (a[1]!)))
  | .error _ =>
    match j.getObjVal? "call" with
    | .ok c =>
        let a ← c.getArr?
        let args ← (← (a[1]!).getArr?).toList.mapM arg
        pure (.call (← (a[0]!).getStr?) args)
    | .error _ =>
        let r ← j.getObjValAs? (Array String) "r"
        let b ← (← (← j.getObjVal? "b").getArr?).toList.mapM item
        pure (.rule r.toList b)

def cmpOf (s : String) : Guard.Cmp :=
  match s with | ">" => .gt | "<" => .lt | "=" => .eq | ">=" => .ge | "=<" => .le | _ => .ne

def gcond (j : Json) : Except String GCond := do
  let a ← j.getArr?
  let neg ← (a[0]!).getBool?
  let p ← (a[1]!).getStr?
  let c ← (a[2]!).getStr?
  let l ← (a[3]!).getStr?
  pure ⟨neg, p, cmpOf c, (parseRat l).getD 0⟩

def top (j : Json) : Except String Top := do
  match j.getObjVal? "mdef" with
  | .ok m =>
      let name ← m.getObjValAs? String "name"
      let ps ← (← (← m.getObjVal? "params").getArr?).toList.mapM (fun pj => do
        let a ← pj.getArr?
        let n ← (a[0]!).getStr?
        let d ← if (a[1]!).isNull then pure none else (do let v ← value (a[1]!); pure (some v))
        pure (n, d))
      let g ← (← (← m.getObjVal? "guard").getArr?).toList.mapM (fun ch => do (← ch.getArr?).toList.mapM gcond)
      let b ← (← (← m.getObjVal? "b").getArr?).toList.mapM item
      pure (.mdef name ⟨ps, g, b⟩)
  | .error _ =>
      let r ← j.getObjValAs? (Array String) "r"
      let b ← (← (← j.getObjVal? "b").getArr?).toList.mapM item
      pure (.rule r.toList b)

def run (payload : String) : String :=
  match Json.parse payload with
  | .error e => "bad-json " ++ e
  | .ok j =>
    match j.getArr? with
    | .error e => "bad-json " ++ e
    | .ok arr =>
      match arr.toList.mapM top with
      | .error e => "bad-item " ++ e
      | .ok sheet =>
          match compile 400 sheet with
          | .error (.unknownVar n) => (Json.mkObj [("err", Json.str ("unknown " ++ n))]).compress
          | .error (.nameError n) => (Json.mkObj [("err", Json.str ("nameerror " ++ n))]).compress
          | .error .crash => (Json.mkObj [("err", Json.str "crash")]).compress
          | .error .hang => (Json.mkObj [("err", Json.str "hang")]).compress
          | .error .notNumeric => (Json.mkObj [("err", Json.str "notnumeric")]).compress
          | .ok out => (Json.arr (out.toArray.map (fun r =>
              Json.arr #[Json.arr (r.sels.toArray.map (fun s => Json.str (Lessm.Sel.fmtOne "" s))),
                         Json.arr (r.decls.toArray.map (fun d => Json.arr #[Json.str d.1, Json.str d.2]))]))).compress
end MixinIO

namespace AtIO
open Lean Lessm.AtRule

def decls (j : Json) : Except String (List Decl) := do
  (← j.getArr?).toList.mapM (fun d => do
    let a ← d.getArr?
    pure ⟨← (a[0]!).getStr?, ← (a[1]!).getStr?⟩)

partial def item (j : Json) : Except String Item := do
  match j.getObjValAs? String "stmt" with
  | .ok t => pure (.stmt t)
  | .error _ =>
    match j.getObjVal? "kf" with
    | .ok k =>
        let a ← k.getArr?
        let fs ← (← (a[2]!).getArr?).toList.mapM (fun f => do
          let fa ← f.getArr?
          pure (⟨← (fa[0]!).getStr?, ← decls (fa[1]!)⟩ : Frame))
        pure (.keyframes (← (a[0]!).getStr?) (← (a[1]!).getStr?) fs)
    | .error _ =>
      match j.getObjVal? "db" with
      | .ok k =>
          let a ← k.getArr?
          pure (.declBlock (← (a[0]!).getStr?) (← decls (a[1]!)))
      | .error _ =>
        match j.getObjVal? "rule" with
        | .ok k =>
            let a ← k.getArr?
            pure (.rule (← (a[0]!).getStr?) (← decls (a[1]!)))
        | .error _ =>
            let q ← j.getObjValAs? String "media"
            let b ← (← (← j.getObjVal? "b").getArr?).toList.mapM item
            pure (.media q b)

def run (payload : String) : String :=
  match Json.parse payload with
  | .error e => "bad-json " ++ e
  | .ok j =>
    match (do
      let env ← (← (← j.getObjVal? "env").getArr?).toList.mapM (fun p => do
        let a ← p.getArr?
        pure ((← (a[0]!).getStr?), (← (a[1]!).getStr?)))
      let sheet ← (← (← j.getObjVal? "sheet").getArr?).toList.mapM item
      pure (env, sheet) : Except String (List (String × String) × List Item)) with
    | .error e => "bad-item " ++ e
    | .ok (env, sheet) =>
        let ev : String → String := fun v => match env.find? (·.1 == v) with | some p => p.2 | none => v
        printList (evalList ev sheet) |>.replace "\n" "\\n"
end AtIO

namespace StrIO
open Lean Lessm.Str

def run (payload : String) : String :=
  match Json.parse payload with
  | .error e => "bad-json " ++ e
  | .ok j =>
    match (do
      let q ← j.getObjValAs? String "q"
      let t ← j.getObjValAs? String "text"
      let env ← (← (← j.getObjVal? "env").getArr?).toList.mapM (fun p => do
        let a ← p.getArr?
        pure ((← (a[0]!).getStr?), (← (a[1]!).getStr?)))
      pure (q, t, env) : Except String (String × String × List (String × String))) with
    | .error e => "bad-item " ++ e
    | .ok (q, t, env) =>
        let qc := q.toList.headD '"'
        match scan qc (t.length + 2) t.toList with
        | none => (Json.mkObj [("scan", Json.null)]).compress
        | some (ps, rest) =>
            let ρ : List Char → Option (List Char) := fun n =>
              (env.find? (·.1 == String.ofList n)).map (·.2.toList)
            let ev := match evalString ρ qc ps with
              | some v => Json.str (String.ofList v)
              | none => Json.null
            (Json.mkObj [("parts", Json.arr (ps.toArray.map (fun p => match p with
                | .text s => Json.arr #[Json.str "t", Json.str (String.ofList s)]
                | .interp n => Json.arr #[Json.str "i", Json.str (String.ofList n)]))),
              ("rest", Json.str (String.ofList rest)), ("eval", ev)]).compress
end StrIO

namespace PrintIO
open Lean Lessm.Print

def selPiece (j : Json) : Except String SelPiece := do
  let a ← j.getArr?
  let k ← (a[0]!).getStr?
  let s ← (a[1]!).getStr?
  pure (if k == "c" then .comb s else .text s)

def valPiece (j : Json) : Except String ValPiece := do
  match j.getStr? with
  | .ok "sp" => pure .sp
  | .ok "comma" => pure .comma
  | .ok s => pure (.tok s)
  | .error _ =>
      let a ← j.getArr?
      pure (.tok (← (a[1]!).getStr?))

def decl (j : Json) : Except String Decl := do
  let a ← j.getArr?
  let p ← (a[0]!).getStr?
  let v ← (← (a[1]!).getArr?).toList.mapM valPiece
  let i ← (a[2]!).getBool?
  pure ⟨p, v, i⟩

partial def node (j : Json) : Except String Node := do
  match j.getObjValAs? String "stmt" with
  | .ok t => pure (.stmt t)
  | .error _ =>
    match j.getObjValAs? String "nest" with
    | .ok p =>
        let b ← (← (← j.getObjVal? "b").getArr?).toList.mapM node
        pure (.nest p b)
    | .error _ =>
        let sels ← (← (← j.getObjVal? "rule").getArr?).toList.mapM (fun s => do (← s.getArr?).toList.mapM selPiece)
        let ds ← (← (← j.getObjVal? "decls").getArr?).toList.mapM decl
        pure (.rule sels ds)

def esc (s : String) : String := (s.replace "\\" "\\\\").replace "\n" "\\n" |>.replace "\t" "\\t"

def run (payload : String) : String :=
  match Json.parse payload with
  | .error e => "bad-json " ++ e
  | .ok j =>
    match (do
      let sheet ← (← (← j.getObjVal? "sheet").getArr?).toList.mapM node
      let vs ← (← (← j.getObjVal? "opts").getArr?).toList.mapM (fun o => do
        let a ← o.getArr?
        pure (⟨← (a[0]!).getBool?, ← (a[1]!).getBool?, ← (a[2]!).getBool?, ← (a[3]!).getNat?⟩ : Opts))
      pure (sheet, vs) : Except String (List Node × List Opts)) with
    | .error e => "bad-item " ++ e
    | .ok (sheet, vs) => (Json.arr (vs.toArray.map (fun o => Json.str (format o sheet)))).compress
end PrintIO

def lrAction : LR.Table := LR.decode Gen.actionEnc
def lrGoto : LR.Table := LR.decode Gen.gotoEnc

def lrRecognise (ws : List String) : String :=
  let ids := ws.map (fun w => Gen.terminals.idxOf w)
  if ids.any (fun i => i ≥ Gen.terminals.length) then "unknown-token"
  else
    let bal (tw : List (Nat × Int)) : String := if LR.balanced (Cfg.look tw) ids then "1" else "0"
    let r := match LR.recognise Gen.prods lrAction lrGoto 0 Gen.startNt ids with
      | .accept => "accept"
      | .error k => "error " ++ toString k
      | .stuck => "stuck"
    r ++ " | " ++ bal Gen.braceTw ++ bal Gen.parenTw ++ bal Gen.istrTw ++ bal Gen.estrTw

open Lean in
def fixRun (payload : String) : String :=
  match Json.parse payload with
  | .error e => "bad-json " ++ e
  | .ok j =>
      match j.getArr? with
      | .error e => "bad-json " ++ e
      | .ok arr =>
          match arr.toList.mapM itemOfJson with
          | .error e => "bad-item " ++ e
          | .ok items =>
              let out := Nest.compileSheet items
              let again := Nest.compileSheet (Nest.embed out)
              (Json.mkObj [("canon", Json.bool (Nest.CanonOut out)), ("fixed", Json.bool (again == out)),
                           ("rules", Json.num out.length)]).compress

namespace BatchIO
open Lean Lessm.Batch

partial def treeOfJson (j : Json) : Except String Tree := do
  let fs ← (← j.getObjVal? "f").getArr?
  let ds ← (← j.getObjVal? "d").getArr?
  let files ← fs.toList.mapM (fun e => do
    let a ← e.getArr?
    match a.toList with
    | [n, b, m] => pure ((← n.getStr?), (⟨← b.getStr?, ← m.getNat?⟩ : File))
    | _ => throw "file")
  let subs ← ds.toList.mapM (fun e => do
    let a ← e.getArr?
    match a.toList with
    | [n, t] => pure ((← n.getStr?), (← treeOfJson t))
    | _ => throw "sub")
  pure (.mk files subs)

partial def treeToJson : Tree → Json
  | .mk files subs => Json.mkObj
      [("f", Json.arr (files.toArray.map (fun (n, f) => Json.arr #[Json.str n, Json.str f.bytes, Json.num f.mtime]))),
       ("d", Json.arr (subs.toArray.map (fun (n, t) => Json.arr #[Json.str n, treeToJson t])))]

def run (payload : String) : String :=
  match Json.parse payload with
  | .error e => "bad-json " ++ e
  | .ok j =>
    let r : Except String String := do
      let flj ← j.getObjVal? "fl"
      let fl : Flags := ⟨← (← flj.getObjVal? "force").getBool?, ← (← flj.getObjVal? "dry").getBool?,
                         ← (← flj.getObjVal? "min").getBool?, ← (← flj.getObjVal? "recurse").getBool?⟩
      let inp ← treeOfJson (← j.getObjVal? "in")
      let outj ← j.getObjVal? "out"
      let out ← if outj.isNull then pure none else (some <$> treeOfJson outj)
      let clock ← (← j.getObjVal? "clock").getNat?
      let ccj ← (← j.getObjVal? "cc").getArr?
      let tbl ← ccj.toList.mapM (fun e => do
        let a ← e.getArr?
        match a.toList with
        | [s, c] => pure ((← s.getStr?), (← c.getStr?))
        | _ => throw "cc")
      let cc (src : String) : String := match tbl.find? (·.1 == src) with
        | some (_, c) => c
        | none => "<not-compiled>"
      let (o, clock', log) := runDir cc fl (← (← j.getObjVal? "indir").getStr?) (← (← j.getObjVal? "outdir").getStr?) inp out clock
      pure (Json.mkObj [("out", match o with | some t => treeToJson t | none => Json.null),
                        ("clock", Json.num clock'), ("log", Json.arr (log.toArray.map Json.str))]).compress
    match r with
    | .ok s => s
    | .error e => "bad-payload " ++ e
end BatchIO

namespace TermIO
open Lean Lessm.Term

partial def tokOfJson (j : Json) : Except String Tok := do
  match j.getObjVal? "l" with
  | .ok l => pure (.lit (← l.getStr?))
  | .error _ =>
    match j.getObjVal? "r" with
    | .ok r => pure (.ref (← r.getStr?))
    | .error _ => do
        let n ← (← j.getObjVal? "n").getArr?
        pure (.node (← n.toList.mapM tokOfJson))

def toks (j : Json) : Except String (List Tok) := do (← j.getArr?).toList.mapM tokOfJson

def vars (payload : String) : String :=
  match Json.parse payload with
  | .error e => "bad-json " ++ e
  | .ok j =>
    let r : Except String String := do
      let envj ← (← j.getObjVal? "env").getArr?
      let env ← envj.toList.mapM (fun e => do
        let a ← e.getArr?
        match a.toList with
        | [n, v] => pure ((← n.getStr?), (← toks v))
        | _ => throw "env")
      let ts ← toks (← j.getObjVal? "ts")
      pure (match eval env ts with
        | .ok v => (Json.mkObj [("ok", Json.str (String.join v))]).compress
        | .error .recursive => (Json.mkObj [("err", Json.str "recursive")]).compress
        | .error (.unknown n) => (Json.mkObj [("err", Json.str ("unknown " ++ n))]).compress)
    match r with
    | .ok s => s
    | .error e => "bad-payload " ++ e

def imports (payload : String) : String :=
  match Json.parse payload with
  | .error e => "bad-json " ++ e
  | .ok j =>
    let r : Except String String := do
      let fj ← (← j.getObjVal? "files").getArr?
      let files ← fj.toList.mapM (fun e => do
        let a ← e.getArr?
        match a.toList with
        | [n, us] => do
            let units ← (← us.getArr?).toList.mapM (fun u => do
              match u.getObjVal? "rule" with
              | .ok t => pure (Unit'.rule (← t.getStr?))
              | .error _ => pure (Unit'.imp (← (← u.getObjVal? "imp").getStr?)))
            pure ((← n.getStr?), units)
        | _ => throw "file")
      let root ← (← j.getObjVal? "root").getStr?
      let (out, errs) := compileFile files root
      let ej := Json.arr (errs.toArray.map (fun e => match e with
        | .tooDeep => Json.str "toodeep"
        | .missing f => Json.str ("missing " ++ f)))
      pure (Json.mkObj [("out", match out with | some o => Json.arr (o.toArray.map Json.str) | none => Json.null), ("errs", ej)]).compress
    match r with
    | .ok s => s
    | .error e => "bad-payload " ++ e
end TermIO

namespace ImpIO
open Lean Lessm.Imp

def load (payload : String) : String :=
  match Json.parse payload with
  | .error e => "bad-json " ++ e
  | .ok j =>
    let r : Except String String := do
      let fj ← (← j.getObjVal? "files").getArr?
      let files ← fj.toList.mapM (fun e => do
        let a ← e.getArr?
        match a.toList with
        | [n, us] => do
            let units ← (← us.getArr?).toList.mapM (fun u => do
              match u.getObjVal? "u" with
              | .ok t => pure (Unit'.other (← t.getStr?))
              | .error _ => pure (Unit'.imp (← (← u.getObjVal? "i").getStr?) (← (← u.getObjVal? "raw").getStr?)))
            pure (normalize (splitSlash (← n.getStr?)), units)
        | _ => throw "file")
      let root ← (← j.getObjVal? "root").getStr?
      let (out, errs) := loadRoot files (normalize (splitSlash root))
      let ej := Json.arr (errs.toArray.map (fun e => match e with
        | .tooDeep => Json.str "toodeep"
        | .missing f => Json.str ("missing " ++ String.intercalate "/" f)))
      pure (Json.mkObj [("out", match out with | some o => Json.arr (o.toArray.map Json.str) | none => Json.null), ("errs", ej)]).compress
    match r with
    | .ok s => s
    | .error e => "bad-payload " ++ e
end ImpIO

namespace Lex0IO
open Lean Lessm.Lex0

def tables : Tables :=
  { rules := Lessm.Gen.lexRules, literals := Lessm.Gen.literals.toList, reserved := Lessm.Gen.reserved,
    properties := Lessm.Gen.cssPropertiesEnc.splitOn "\n",
    elements := Lessm.Gen.domElementsEnc.splitOn "\n" }

def tokJson (p : Item) : Json :=
  Json.arr #[Json.str p.1.type, Json.str p.1.value, Json.num p.1.line, Json.str p.2.2.cur, Json.bool p.2.2.inProp]

def run (payload : String) : String :=
  match Json.parse payload with
  | .error e => "bad-json " ++ e
  | .ok j =>
    match j.getStr? with
    | .error e => "bad-json " ++ e
    | .ok text =>
      match lexAll tables {} text.toList with
      | .ok ts => (Json.mkObj [("toks", Json.arr ((ts.filter (·.2.1)).toArray.map tokJson))]).compress
      | .illegal ts c l => (Json.mkObj [("toks", Json.arr ((ts.filter (·.2.1)).toArray.map tokJson)), ("illegal", Json.str (String.singleton c)), ("line", Json.num l)]).compress
      | .stuck ts => (Json.mkObj [("toks", Json.arr ((ts.filter (·.2.1)).toArray.map tokJson)), ("stuck", Json.bool true)]).compress
end Lex0IO

namespace FrontIO
open Lean Lessm.Lex0

def run (payload : String) : String :=
  match Json.parse payload with
  | .error e => "bad-json " ++ e
  | .ok j =>
    match j.getStr? with
    | .error e => "bad-json " ++ e
    | .ok text =>
      let (toks, lexres) : List Tok × String := match frontEnd Lex0IO.tables Gen.significantWs text with
        | .ok ts => (ts, "ok")
        | .illegal ts c l => (ts, "illegal " ++ String.singleton c ++ " " ++ toString l)
        | .stuck ts => (ts, "stuck")
      let ids := toks.map (fun t => Gen.terminals.idxOf t.type)
      let parse : String :=
        if lexres != "ok" then "-"
        else if toks.isEmpty then "accept"          -- p_error(None) before any token: an empty sheet (parser.py)
        else match LR.recognise Gen.prods lrAction lrGoto 0 Gen.startNt ids with
          | .accept => "accept"
          | .error k => "error " ++ toString k ++ " " ++ (match toks[k]? with | some t => t.type ++ " " ++ toString t.line | none => "eof")
          | .stuck => "stuck"
      (Json.mkObj [("toks", Json.arr (toks.toArray.map (fun t => Json.arr #[Json.str t.type, Json.str t.value, Json.num t.line]))),
                   ("lex", Json.str lexres), ("parse", Json.str parse)]).compress
end FrontIO

def handle (op : String) (payload : String) : String :=
  let args := (payload.splitOn " ").filter (· ≠ "")
  match op, args with
  | "c08.fmt", [s] => optStr (Color.fmt s.toList)
  | "c08.op", [a, o, b] =>
      match parseOp o with
      | some o => optStr (Color.processLit a.toList o b.toList)
      | none => "bad-op"
  | "c17.call", [f, lex] =>
      match Builtins.fnOfName f with
      | some fn =>
          match Builtins.callLexeme fn lex.toList with
          | some (v, u) => Num.ratStr v ++ " " ++ String.ofList u
          | none => "none"
      | none => "bad-op"
  | "c15.rec", ws => lrRecognise ws
  | "c12.filter", ws => String.intercalate " " (Lex.filter Gen.significantWs ws)
  | "c09.fn", ws => colorFn ws
  | "c17.split", [lex] =>
      -- utility.split_unit / analyze_number with the exponent group
      match Num.splitUnitE lex.toList with
      | none => "none"
      | some (n, u) =>
          String.ofList n ++ " [" ++ String.ofList u ++ "] " ++
            (match Num.analyzeE lex.toList with | some (v, _) => Num.ratStr v | none => "nan")
  | "c04.signs", ws =>
      -- tokens of a resolved value; `<S>` is the sign of a negated variable (utility.Sign)
      String.intercalate " " ((Sign.foldSigns (ws.map (fun w => if w == "<S>" then Sign.Tok.sign else Sign.Tok.txt w))).map
        (fun t => match t with | .sign => "<S>" | .txt w => w))
  | "c04.eval", ws =>
      match Expr.evalText ws with
      | some (.ok v u) => Num.ratStr v ++ " " ++ u
      | some .zeroDiv => "zerodiv"
      | some .literalZeroSlash => "literal0slash"
      | none => "none"
  | _, _ =>
    -- payloads whose fields may contain spaces are separated by U+001F
    match op, payload.splitOn "\x1f" with
    | "c02.flat", [j] => nestFlat j
    | "c01.identfmt", [j] => identFmt j
    | "c10.fix", [j] => fixRun j
    | "c03.run", [j] => VarsIO.run j
    | "c07.run", [j] => MediaIO.run j
    | "c05.run", [j] => MixinIO.run j
    | "c19.run", [j] => AtIO.run j
    | "c18.scan", [j] => StrIO.run j
    | "c11.fmt", [j] => PrintIO.run j
    | "c16.run", [j] => BatchIO.run j
    | "c12.lex0", [j] => Lex0IO.run j
    | "c15.text", [j] => FrontIO.run j
    | "c14.load", [j] => ImpIO.load j
    | "c20.vars", [j] => TermIO.vars j
    | "c20.imports", [j] => TermIO.imports j
    | "c17.unknown", name :: rest => Builtins.callUnknown name rest
    | "c06.guard", [g] =>
        match parseGuard g with
        | some g => if Guard.passes g (fun _ => 0) then "1" else "0"
        | none => "bad-op"
    | "c06.first", gs =>
        match gs.mapM parseGuard with
        | some gs =>
            match Guard.firstMatch (gs.zipIdx) (fun _ => 0) with
            | some i => toString i
            | none => "none"
        | none => "bad-op"
    | _, _ => "bad-op"

partial def loop (h : IO.FS.Stream) (out : IO.FS.Stream) : IO Unit := do
  let line ← h.getLine
  if line.isEmpty then return ()
  let line := (line.dropRightWhile (fun c => c == '\n' || c == '\r'))
  match line.splitOn "\t" with
  | [op, payload] => out.putStrLn (handle op payload)
  | [op] => out.putStrLn (handle op "")
  | _ => out.putStrLn "bad-line"
  loop h out

def main : IO Unit := do
  let stdin ← IO.getStdin
  let stdout ← IO.getStdout
  loop stdin stdout
