/-
  Line-protocol driver: one request per line `op<TAB>payload`, one answer line per request.
  Runs the executable definitions of the model (the same definitions the theorems are about).
-/
import Lessm.Model.Color
import Lessm.Model.Builtins
import Lessm.Model.Guard
import Lessm.Model.ExprGen

open Lessm

def parseOp (s : String) : Option Color.Op :=
  match s with
  | "+" => some .add | "-" => some .sub | "*" => some .mul | "/" => some .div
  | _ => none

def optStr (o : Option (List Char)) : String :=
  match o with
  | some l => String.ofList l
  | none => "none"

def parseRat (s : String) : Option Rat :=
  match s.splitOn "/" with
  | [n, d] => do
      let n ← n.toInt?
      let d ← d.toNat?
      if d = 0 then none else some ((n : Rat) / (d : Rat))
  | [n] => (n.toInt?).map (fun (i : Int) => (i : Rat))
  | _ => none

def parseCmp : String → Option Guard.Cmp
  | ">" => some .gt | "<" => some .lt | "=" => some .eq | ">=" => some .ge | "=<" => some .le
  | _ => none

def parseCond (s : String) : Option Guard.Cond :=
  match (s.splitOn " ").filter (· ≠ "") with
  | [n, a, c, b] => do
      let a ← parseRat a
      let b ← parseRat b
      let c ← parseCmp c
      some ⟨n == "1", .lit a, c, .lit b⟩
  | _ => none

def parseGuard (s : String) : Option Guard.Guard :=
  (s.splitOn " | ").mapM (fun ch => (ch.splitOn " & ").mapM parseCond)

def handle (op : String) (payload : String) : String :=
  let args := (payload.splitOn " ").filter (· ≠ "")
  match op, args with
  | "c08.fmt", [s] => optStr (Color.fmt s.toList)
  | "c08.op", [a, o, b] =>
      match parseOp o with
      | some o => optStr (Color.processLit a.toList o b.toList)
      | none => "bad-op"
  | "c17.call", [f, lex] =>
      match Builtins.fnOfName f with
      | some fn =>
          match Builtins.callLexeme fn lex.toList with
          | some (v, u) => Num.ratStr v ++ " " ++ String.ofList u
          | none => "none"
      | none => "bad-op"
  | "c04.eval", ws =>
      match Expr.evalText ws with
      | some (.ok v u) => Num.ratStr v ++ " " ++ u
      | some .zeroDiv => "zerodiv"
      | some .literalZeroSlash => "literal0slash"
      | none => "none"
  | _, _ =>
    -- payloads whose fields may contain spaces are separated by U+001F
    match op, payload.splitOn "\x1f" with
    | "c17.unknown", name :: rest => Builtins.callUnknown name rest
    | "c06.guard", [g] =>
        match parseGuard g with
        | some g => if Guard.passes g (fun _ => 0) then "1" else "0"
        | none => "bad-op"
    | "c06.first", gs =>
        match gs.mapM parseGuard with
        | some gs =>
            match Guard.firstMatch (gs.zipIdx) (fun _ => 0) with
            | some i => toString i
            | none => "none"
        | none => "bad-op"
    | _, _ => "bad-op"

partial def loop (h : IO.FS.Stream) (out : IO.FS.Stream) : IO Unit := do
  let line ← h.getLine
  if line.isEmpty then return ()
  let line := (line.dropRightWhile (fun c => c == '\n' || c == '\r'))
  match line.splitOn "\t" with
  | [op, payload] => out.putStrLn (handle op payload)
  | [op] => out.putStrLn (handle op "")
  | _ => out.putStrLn "bad-line"
  loop h out

def main : IO Unit := do
  let stdin ← IO.getStdin
  let stdout ← IO.getStdout
  loop stdin stdout
