/-
  Line-protocol driver: one request per line `op<TAB>payload`, one answer line per request.
  Runs the executable definitions of the model (the same definitions the theorems are about).
-/
import Lessm.Model.Color
import Lessm.Model.Builtins

open Lessm

def parseOp (s : String) : Option Color.Op :=
  match s with
  | "+" => some .add | "-" => some .sub | "*" => some .mul | "/" => some .div
  | _ => none

def optStr (o : Option (List Char)) : String :=
  match o with
  | some l => String.ofList l
  | none => "none"

def handle (op : String) (payload : String) : String :=
  let args := (payload.splitOn " ").filter (· ≠ "")
  match op, args with
  | "c08.fmt", [s] => optStr (Color.fmt s.toList)
  | "c08.op", [a, o, b] =>
      match parseOp o with
      | some o => optStr (Color.processLit a.toList o b.toList)
      | none => "bad-op"
  | "c17.call", [f, lex] =>
      match Builtins.fnOfName f with
      | some fn =>
          match Builtins.callLexeme fn lex.toList with
          | some (v, u) => Num.ratStr v ++ " " ++ String.ofList u
          | none => "none"
      | none => "bad-op"
  | _, _ =>
    -- payloads whose fields may contain spaces are separated by U+001F
    match op, payload.splitOn "\x1f" with
    | "c17.unknown", name :: rest => Builtins.callUnknown name rest
    | _, _ => "bad-op"

partial def loop (h : IO.FS.Stream) (out : IO.FS.Stream) : IO Unit := do
  let line ← h.getLine
  if line.isEmpty then return ()
  let line := (line.dropRightWhile (fun c => c == '\n' || c == '\r'))
  match line.splitOn "\t" with
  | [op, payload] => out.putStrLn (handle op payload)
  | [op] => out.putStrLn (handle op "")
  | _ => out.putStrLn "bad-line"
  loop h out

def main : IO Unit := do
  let stdin ← IO.getStdin
  let stdout ← IO.getStdout
  loop stdin stdout
