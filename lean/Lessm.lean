import Lessm.Model.Color
import Lessm.Model.Cfg
import Lessm.Gen.Grammar
import Lessm.Gen.Lalr
import Lessm.Gen.Words
import Lessm.Gen.BigWords
import Lessm.Props.C08
import Lessm.Props.C17
