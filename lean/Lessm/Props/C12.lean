/-
  C12  Whitespace, comments and the last semicolon of a block are irrelevant: any non-empty run of
       whitespace between two tokens may be replaced by any other, comments (whatever their body)
       produce no token, at a statement boundary any gap at all is irrelevant, and the `;` the lexer
       injects before `}` is exactly the one that could have been written. Line numbers count the
       line feeds before a token, comments included.
-/
import Lessm.Model.Lex
import Lessm.Gen.Words

namespace Lessm.Lex

/-! ### the regenerated table -/

/-- the token types after which a blank must survive for CSS to keep its meaning
    (`.a .b` vs `.a.b`, `1px 2px`, `@a @b`, `& .x` vs `&.x`, `a b` ...) -/
def mustKeepWsAfter : List Ty :=
  ["css_class", "css_id", "css_dom", "css_ident", "css_number", "css_color", "css_filter",
   "less_variable", "&", "css_property"]

/-- **C12_table**: in the `significant_ws` set of the current source whitespace is never significant
    after whitespace, `{`, `}`, `;`, `,`, `:`; and it is significant after every token type after
    which CSS needs it. -/
theorem C12_table :
    (tWs ∉ Gen.significantWs ∧ tBopen ∉ Gen.significantWs ∧ tBclose ∉ Gen.significantWs
      ∧ tSemi ∉ Gen.significantWs ∧ "t_comma" ∉ Gen.significantWs ∧ "t_colon" ∉ Gen.significantWs)
    ∧ mustKeepWsAfter.all (Gen.significantWs.contains ·) = true := by decide

/-! ### helper lemmas -/

theorem ws_ne_bclose : tWs ≠ tBclose := by decide
theorem semi_ne_ws : tSemi ≠ tWs := by decide
theorem semi_ne_bclose : tSemi ≠ tBclose := by decide
theorem bclose_ne_ws : tBclose ≠ tWs := by decide

theorem ty_beq_false {a b : Ty} (h : a ≠ b) : (a == b) = false := by simpa using h

/-- a `t_ws` met in state `last` is dropped -/
def drops (sig : List Ty) : Option Ty → Bool
  | none => true
  | some l => !sig.contains l

/-- a `t_bclose` met in state `last` is preceded by an injected `t_semicolon` -/
def injects : Option Ty → Bool
  | none => false
  | some l => l != tBopen && l != tBclose && l != tSemi

theorem filterFrom_nil (sig : List Ty) (last : Option Ty) : filterFrom sig last [] = [] := by
  cases last <;> rfl

/-- the defining equation of `filterFrom`, with the two conditions named -/
theorem filterFrom_cons (sig : List Ty) (last : Option Ty) (t : Ty) (ts : List Ty) :
    filterFrom sig last (t :: ts) =
      if t == tWs && drops sig last then filterFrom sig last ts
      else if t == tBclose && injects last then tSemi :: tBclose :: filterFrom sig (some tSemi) ts
      else t :: filterFrom sig (some t) ts := by
  cases last <;> rfl

theorem drops_some {sig : List Ty} {l : Ty} (h : l ∉ sig) : drops sig (some l) = true := by
  simp [drops, h]

theorem filterFrom_ws_drop {sig : List Ty} {last : Option Ty} (h : drops sig last = true)
    (ts : List Ty) : filterFrom sig last (tWs :: ts) = filterFrom sig last ts := by
  simp [filterFrom_cons, h]

theorem filterFrom_ws_keep {sig : List Ty} {last : Option Ty} (h : drops sig last = false)
    (ts : List Ty) : filterFrom sig last (tWs :: ts) = tWs :: filterFrom sig (some tWs) ts := by
  simp [filterFrom_cons, h, ws_ne_bclose]

/-- the state (`last`) of the filter after it has consumed `pre` -/
def lastAfter (sig : List Ty) : Option Ty → List Ty → Option Ty
  | last, [] => last
  | last, t :: ts =>
      if t == tWs && drops sig last then lastAfter sig last ts
      else if t == tBclose && injects last then lastAfter sig (some tSemi) ts
      else lastAfter sig (some t) ts

/-- the filter is a one-state transducer: it can be run on a prefix and resumed -/
theorem filterFrom_append (sig : List Ty) (last : Option Ty) (pre ts : List Ty) :
    filterFrom sig last (pre ++ ts)
      = filterFrom sig last pre ++ filterFrom sig (lastAfter sig last pre) ts := by
  induction pre generalizing last with
  | nil => simp [filterFrom_nil, lastAfter]
  | cons t pre ih =>
    simp only [List.cons_append, filterFrom_cons, lastAfter]
    split
    · exact ih _
    · split
      · simp [ih]
      · simp [ih]

/-- what follows a prefix may be replaced by anything the filter treats alike -/
theorem filterFrom_append_congr {sig : List Ty} {r r' : List Ty}
    (h : ∀ last, filterFrom sig last r = filterFrom sig last r') (last : Option Ty) (pre : List Ty) :
    filterFrom sig last (pre ++ r) = filterFrom sig last (pre ++ r') := by
  rw [filterFrom_append, filterFrom_append, h]

/-! ### (2) runs of whitespace tokens -/

/-- **C12_run**: two consecutive whitespace tokens are filtered like one. -/
theorem C12_run {sig : List Ty} (hws : tWs ∉ sig) (last : Option Ty) (ts : List Ty) :
    filterFrom sig last (tWs :: tWs :: ts) = filterFrom sig last (tWs :: ts) := by
  cases h : drops sig last with
  | true => rw [filterFrom_ws_drop h, filterFrom_ws_drop h]
  | false =>
    rw [filterFrom_ws_keep h, filterFrom_ws_keep h, filterFrom_ws_drop (drops_some hws)]

/-- **C12_run_n**: a run of `n+1` whitespace tokens is filtered like one. -/
theorem C12_run_n {sig : List Ty} (hws : tWs ∉ sig) (last : Option Ty) (n : Nat) (ts : List Ty) :
    filterFrom sig last (List.replicate (n + 1) tWs ++ ts) = filterFrom sig last (tWs :: ts) := by
  induction n with
  | zero => rfl
  | succ n ih =>
    rw [List.replicate_succ, List.cons_append, List.replicate_succ, List.cons_append, C12_run hws,
      ← List.cons_append, ← List.replicate_succ, ih]

/-! ### (3) gaps -/

/-- a gap lexes to whitespace tokens only, one per run of blanks or of line breaks; comments give
    nothing -/
def wsRuns : List Piece → Nat
  | [] => 0
  | .blanks _ :: r => wsRuns r + 1
  | .newlines _ :: r => wsRuns r + 1
  | _ :: r => wsRuns r

theorem lexGap_eq_replicate (g : List Piece) : lexGap g = List.replicate (wsRuns g) tWs := by
  induction g with
  | nil => rfl
  | cons p r ih => cases p <;> simp [lexGap, wsRuns, ih, List.replicate_succ]

theorem hasSpace_iff (g : List Piece) : hasSpace g = true ↔ 0 < wsRuns g := by
  induction g with
  | nil => simp [hasSpace, wsRuns]
  | cons p r ih => cases p <;> simp [hasSpace, wsRuns, ih]

theorem lexGap_nil_of_not_hasSpace {g : List Piece} (h : hasSpace g = false) : lexGap g = [] := by
  have : wsRuns g = 0 := by
    cases hn : wsRuns g with
    | zero => rfl
    | succ n => have := (hasSpace_iff g).2 (by omega); simp [h] at this
  rw [lexGap_eq_replicate, this]; rfl

/-- a gap with some blank or line break is filtered like a single whitespace token -/
theorem filterFrom_gap_space {sig : List Ty} (hws : tWs ∉ sig) (last : Option Ty)
    {g : List Piece} (h : hasSpace g = true) (ts : List Ty) :
    filterFrom sig last (lexGap g ++ ts) = filterFrom sig last (tWs :: ts) := by
  obtain ⟨n, hn⟩ : ∃ n, wsRuns g = n + 1 := ⟨wsRuns g - 1, by have := (hasSpace_iff g).1 h; omega⟩
  rw [lexGap_eq_replicate, hn, C12_run_n hws]

/-- a gap without blank or line break (empty, or comments only, whatever their bodies) is filtered
    like nothing -/
theorem filterFrom_gap_nospace (sig : List Ty) (last : Option Ty)
    {g : List Piece} (h : hasSpace g = false) (ts : List Ty) :
    filterFrom sig last (lexGap g ++ ts) = filterFrom sig last ts := by
  rw [lexGap_nil_of_not_hasSpace h, List.nil_append]

/-- **C12_gap_tokens**: a gap matters only through whether it contains any blank / line-break run:
    blanks, tabs, LF, CRLF, several of them, with comments in between, comment bodies — all alike. -/
theorem C12_gap_tokens {sig : List Ty} (hws : tWs ∉ sig) (last : Option Ty) {g g' : List Piece}
    (h : hasSpace g = hasSpace g') (ts : List Ty) :
    filterFrom sig last (lexGap g ++ ts) = filterFrom sig last (lexGap g' ++ ts) := by
  cases hg : hasSpace g with
  | true =>
    rw [filterFrom_gap_space hws last hg, filterFrom_gap_space hws last (h ▸ hg)]
  | false =>
    rw [filterFrom_gap_nospace sig last hg, filterFrom_gap_nospace sig last (h ▸ hg)]

/-- comment text never reaches the token stream: bodies (and line counts) are not even looked at -/
theorem C12_comment_body (b b' : String) (k k' : Nat) (r : List Piece) :
    lexGap (.blockComment b k :: r) = lexGap r
    ∧ lexGap (.lineComment b :: r) = lexGap r
    ∧ lexGap (.blockComment b k :: r) = lexGap (.blockComment b' k' :: r)
    ∧ lexGap (.lineComment b :: r) = lexGap (.lineComment b' :: r) := ⟨rfl, rfl, rfl, rfl⟩

/-- gaps concatenate: the tokens of a gap are those of its parts -/
theorem lexGap_append (g g' : List Piece) : lexGap (g ++ g') = lexGap g ++ lexGap g' := by
  induction g with
  | nil => rfl
  | cons p r ih => cases p <;> simp [lexGap, ih]

theorem hasSpace_append (g g' : List Piece) : hasSpace (g ++ g') = (hasSpace g || hasSpace g') := by
  induction g with
  | nil => rfl
  | cons p r ih => cases p <;> simp [hasSpace, ih]

/-- **C12_comment_in_gap**: inserting a block or line comment (any body) in the middle of any gap
    leaves the filtered stream unchanged — also between two tokens that are not separated by
    whitespace: the comment does not introduce a `t_ws`, and does not hide what follows. -/
theorem C12_comment_in_gap (sig : List Ty) (last : Option Ty) (g g' : List Piece) (c : Piece)
    (hc : (∃ b k, c = .blockComment b k) ∨ (∃ b, c = .lineComment b)) (ts : List Ty) :
    filterFrom sig last (lexGap (g ++ c :: g') ++ ts) = filterFrom sig last (lexGap (g ++ g') ++ ts) := by
  have : lexGap (g ++ c :: g') = lexGap (g ++ g') := by
    rw [lexGap_append, lexGap_append]
    rcases hc with ⟨b, k, rfl⟩ | ⟨b, rfl⟩ <;> rfl
  rw [this]

/-! ### (5) statement boundaries -/

/-- when whitespace is dropped in state `last`, a whole gap is dropped -/
theorem filterFrom_gap_drop {sig : List Ty} {last : Option Ty} (h : drops sig last = true)
    (g : List Piece) (ts : List Ty) :
    filterFrom sig last (lexGap g ++ ts) = filterFrom sig last ts := by
  induction g with
  | nil => rfl
  | cons p r ih => cases p <;> simp [lexGap, filterFrom_ws_drop h, ih]

/-- **C12_boundary**: after a token whose type is not in `significant_ws` (by `C12_table`: after
    `;`, `{`, `}`, `,`, `:`) ANY gap is irrelevant -/
theorem C12_boundary {sig : List Ty} {l : Ty} (hl : l ∉ sig) (g : List Piece) (ts : List Ty) :
    filterFrom sig (some l) (lexGap g ++ ts) = filterFrom sig (some l) ts :=
  filterFrom_gap_drop (drops_some hl) g ts

/-- **C12_boundary_start**: before the first token any gap is irrelevant (no hypothesis at all) -/
theorem C12_boundary_start (sig : List Ty) (g : List Piece) (ts : List Ty) :
    filterFrom sig none (lexGap g ++ ts) = filterFrom sig none ts :=
  filterFrom_gap_drop rfl g ts

/-- after a non-whitespace token `b` with `b ∉ sig` the gap is dropped, in whatever state `b` is met
    (also when `b` is a `}` before which a `;` is injected) -/
theorem filterFrom_tok_gap {sig : List Ty} (hsemi : tSemi ∉ sig) {b : Ty} (hb : b ∉ sig)
    (hbw : b ≠ tWs) (last : Option Ty) (g : List Piece) (ts : List Ty) :
    filterFrom sig last (b :: (lexGap g ++ ts)) = filterFrom sig last (b :: ts) := by
  simp only [filterFrom_cons, ty_beq_false hbw, Bool.false_and, if_false, Bool.false_eq_true]
  rw [C12_boundary hsemi, C12_boundary hb]

/-- **C12_comment_at_boundary**, the property's words: in any token stream, inserting after a `;`,
    `{` or `}` (any token type `b ∉ sig`) a gap made of comments — with or without whitespace around
    or between them, whatever the comment bodies — leaves the filtered stream unchanged; everything
    after the comment is still there. -/
theorem C12_comment_at_boundary {sig : List Ty} (hsemi : tSemi ∉ sig) {b : Ty} (hb : b ∉ sig)
    (hbw : b ≠ tWs) (pre : List Ty) (g : List Piece) (ts : List Ty) :
    filter sig (pre ++ b :: (lexGap g ++ ts)) = filter sig (pre ++ b :: ts) :=
  filterFrom_append_congr (fun last => filterFrom_tok_gap hsemi hb hbw last g ts) none pre

/-! ### (4) whole programs -/

/-- two lexeme sequences with the same token types, whose gaps agree on having a space or not -/
def SameUpToGaps : List Lexeme → List Lexeme → Prop
  | [], [] => True
  | x :: xs, y :: ys => x.ty = y.ty ∧ hasSpace x.gap = hasSpace y.gap ∧ SameUpToGaps xs ys
  | _, _ => False

theorem filterFrom_lexemes {sig : List Ty} (hws : tWs ∉ sig) :
    ∀ (xs ys : List Lexeme), SameUpToGaps xs ys → ∀ last,
      filterFrom sig last (xs.flatMap (fun p => p.ty :: lexGap p.gap))
        = filterFrom sig last (ys.flatMap (fun p => p.ty :: lexGap p.gap))
  | [], [], _, _ => rfl
  | [], _ :: _, h, _ => h.elim
  | _ :: _, [], h, _ => h.elim
  | x :: xs, y :: ys, h, last => by
    obtain ⟨hty, hgap, hrest⟩ := h
    have ih := filterFrom_lexemes hws xs ys hrest
    simp only [List.flatMap_cons]
    rw [hty]
    show filterFrom sig last ([y.ty] ++ (lexGap x.gap ++ _)) = filterFrom sig last ([y.ty] ++ (lexGap y.gap ++ _))
    apply filterFrom_append_congr
    intro last'
    rw [C12_gap_tokens hws last' hgap]
    exact filterFrom_append_congr ih last' _

/-- **C12_gap_program**: two programs with the same lexemes, whose gaps pointwise agree on whether
    they contain any whitespace (leading gaps arbitrary), have the same filtered token stream —
    the stream the parser sees, hence the same CSS. -/
theorem C12_gap_program {sig : List Ty} (hws : tWs ∉ sig) (lead lead' : List Piece)
    (xs xs' : List Lexeme) (h : SameUpToGaps xs xs') :
    filter sig (lexProgram lead xs) = filter sig (lexProgram lead' xs') := by
  unfold filter lexProgram
  rw [C12_boundary_start, C12_boundary_start]
  exact filterFrom_lexemes hws xs xs' h none

/-! ### (6) the last semicolon of a block -/

/-- after `;` and after `}` the filter behaves alike -/
theorem filterFrom_semi_eq_bclose {sig : List Ty} (hsemi : tSemi ∉ sig) (hbc : tBclose ∉ sig)
    (ts : List Ty) : filterFrom sig (some tSemi) ts = filterFrom sig (some tBclose) ts := by
  induction ts with
  | nil => rfl
  | cons t ts ih =>
    simp only [filterFrom_cons, drops_some hsemi, drops_some hbc, injects]
    split
    · exact ih
    · simp

/-- **C12_semi**: before a `}` that follows a token other than `{`, `}`, `;` (whitespace included:
    `last` may be `t_ws`) the filter yields exactly what it yields when the `;` is written. -/
theorem C12_semi {sig : List Ty} (hsemi : tSemi ∉ sig) (hbc : tBclose ∉ sig) {l : Ty}
    (h1 : l ≠ tBopen) (h2 : l ≠ tBclose) (h3 : l ≠ tSemi) (ts : List Ty) :
    filterFrom sig (some l) (tBclose :: ts) = filterFrom sig (some l) (tSemi :: tBclose :: ts) := by
  have hinj : injects (some l) = true := by simp [injects, h1, h2, h3]
  have hs : injects (some tSemi) = false := by decide
  simp only [filterFrom_cons, hinj, hs, ty_beq_false bclose_ne_ws, ty_beq_false semi_ne_ws,
    ty_beq_false semi_ne_bclose, beq_self_eq_true, Bool.false_and, Bool.true_and, if_true,
    if_false, Bool.false_eq_true]
  rw [filterFrom_semi_eq_bclose hsemi hbc]

/-- the side conditions of `C12_semi` are necessary: after `{`, `}` or `;` nothing is injected, the
    two streams differ -/
theorem C12_semi_not_after {sig : List Ty} {l : Ty} (h : l = tBopen ∨ l = tBclose ∨ l = tSemi)
    (ts : List Ty) :
    filterFrom sig (some l) (tBclose :: ts) = tBclose :: filterFrom sig (some tBclose) ts := by
  rcases h with rfl | rfl | rfl <;>
    simp [filterFrom_cons, injects, bclose_ne_ws]

/-- **C12_semi_idem**: when the `;` is written (with any gap before the `}`), no second one is
    injected, in whatever state the `;` is met. -/
theorem C12_semi_idem {sig : List Ty} (hsemi : tSemi ∉ sig) (last : Option Ty) (g : List Piece)
    (ts : List Ty) :
    filterFrom sig last (tSemi :: (lexGap g ++ tBclose :: ts))
      = tSemi :: tBclose :: filterFrom sig (some tBclose) ts := by
  rw [filterFrom_tok_gap hsemi hsemi semi_ne_ws]
  simp [filterFrom_cons, injects, semi_ne_ws, semi_ne_bclose, bclose_ne_ws]

/-- the state after a token `d` that is none of whitespace, `{`, `}`, `;`, followed by any gap, is
    one in which a `;` is injected before `}` -/
theorem injects_after_decl_tok (sig : List Ty) {d : Ty} (h0 : d ≠ tWs) (h1 : d ≠ tBopen)
    (h2 : d ≠ tBclose) (h3 : d ≠ tSemi) (last : Option Ty) (g : List Piece) :
    ∃ l, lastAfter sig last (d :: lexGap g) = some l ∧ l ≠ tBopen ∧ l ≠ tBclose ∧ l ≠ tSemi := by
  have hstep : lastAfter sig last (d :: lexGap g) = lastAfter sig (some d) (lexGap g) := by
    simp [lastAfter, h0, h2]
  rw [hstep, lexGap_eq_replicate]
  generalize wsRuns g = n
  -- invariant: the state is `some l` with `l` one of `d`, `t_ws`
  suffices H : ∀ (n : Nat) (l : Ty), (l = d ∨ l = tWs) →
      ∃ l', lastAfter sig (some l) (List.replicate n tWs) = some l' ∧ (l' = d ∨ l' = tWs) by
    obtain ⟨l', hl', hd⟩ := H n d (Or.inl rfl)
    refine ⟨l', hl', ?_⟩
    rcases hd with rfl | rfl
    · exact ⟨h1, h2, h3⟩
    · exact ⟨by decide, by decide, by decide⟩
  intro n
  induction n with
  | zero => intro l hl; exact ⟨l, rfl, hl⟩
  | succ n ih =>
    intro l hl
    simp only [List.replicate_succ, lastAfter, beq_self_eq_true, Bool.true_and]
    split
    · exact ih l hl
    · have : (tWs == tBclose) = false := by decide
      simp only [this, Bool.false_and, Bool.false_eq_true, if_false]
      exact ih tWs (Or.inr rfl)

/-- **C12_semi_block**, the property's words: in any token stream, a block whose last declaration
    ends in a token `d` (not whitespace, `{`, `}`, `;`), followed by any gap `g` and the `}`, is
    filtered exactly like the same stream with `;` written after the gap (and any further gap `g'`
    between `;` and `}`). -/
theorem C12_semi_block {sig : List Ty} (hsemi : tSemi ∉ sig) (hbc : tBclose ∉ sig) {d : Ty}
    (h0 : d ≠ tWs) (h1 : d ≠ tBopen) (h2 : d ≠ tBclose) (h3 : d ≠ tSemi)
    (pre : List Ty) (g g' : List Piece) (ts : List Ty) :
    filter sig (pre ++ d :: (lexGap g ++ tBclose :: ts))
      = filter sig (pre ++ d :: (lexGap g ++ tSemi :: (lexGap g' ++ tBclose :: ts))) := by
  apply filterFrom_append_congr
  intro last
  rw [← List.cons_append, ← List.cons_append, filterFrom_append, filterFrom_append]
  congr 1
  obtain ⟨l, hl, l1, l2, l3⟩ := injects_after_decl_tok sig h0 h1 h2 h3 last g
  rw [hl, filterFrom_tok_gap hsemi hsemi semi_ne_ws]
  exact C12_semi hsemi hbc l1 l2 l3 ts

/-! ### (8) the filter is idempotent -/

theorem filterFrom_idem {sig : List Ty} (hsemi : tSemi ∉ sig) (hbc : tBclose ∉ sig)
    (last : Option Ty) (ts : List Ty) :
    filterFrom sig last (filterFrom sig last ts) = filterFrom sig last ts := by
  induction ts generalizing last with
  | nil => simp [filterFrom_nil]
  | cons t ts ih =>
    rw [filterFrom_cons]
    split
    · exact ih last
    · rename_i hdrop
      split
      · have := C12_semi_idem hsemi last [] (filterFrom sig (some tSemi) ts)
        simp only [lexGap, List.nil_append] at this
        rw [this, ← filterFrom_semi_eq_bclose hsemi hbc, ih]
      · rename_i hinj
        rw [filterFrom_cons, if_neg hdrop, if_neg hinj, ih]

/-- **C12_filter_idem**: filtering a filtered stream changes nothing (`tWs ∉ sig` is not needed). -/
theorem C12_filter_idem {sig : List Ty} (hsemi : tSemi ∉ sig) (hbc : tBclose ∉ sig) (ts : List Ty) :
    filter sig (filter sig ts) = filter sig ts :=
  filterFrom_idem hsemi hbc none ts

/-! ### (7) line numbers -/

theorem gapLines_append (g g' : List Piece) : gapLines (g ++ g') = gapLines g + gapLines g' := by
  induction g with
  | nil => simp [gapLines]
  | cons p r ih => cases p <;> simp [gapLines, ih] <;> omega

/-- line feeds per piece: blanks and `//` comments none (the line end after a `//` comment is a
    `newlines` piece of its own), `n+1` line breaks `n+1`, a block comment exactly those it contains -/
theorem gapLines_piece (n k : Nat) (b : String) (r : List Piece) :
    gapLines (.blanks n :: r) = gapLines r
    ∧ gapLines (.lineComment b :: r) = gapLines r
    ∧ gapLines (.newlines n :: r) = (n + 1) + gapLines r
    ∧ gapLines (.blockComment b k :: r) = k + gapLines r := ⟨rfl, rfl, rfl, rfl⟩

/-- **C12_lines** -/
theorem C12_lines_zero (lead : List Piece) (xs : List Lexeme) : lineOf lead xs 0 = 1 + gapLines lead := by
  simp [lineOf]

theorem C12_lines_succ (lead : List Piece) (xs : List Lexeme) (i : Nat) (h : i < xs.length) :
    lineOf lead xs (i + 1) = lineOf lead xs i + (xs[i]).innerLines + gapLines (xs[i]).gap := by
  simp only [lineOf, List.take_succ_eq_append_getElem h, List.map_append, List.sum_append,
    List.map_cons, List.map_nil, List.sum_cons, List.sum_nil]
  omega

theorem C12_lines (lead : List Piece) (xs : List Lexeme) :
    lineOf lead xs 0 = 1 + gapLines lead
    ∧ ∀ i (h : i < xs.length),
        lineOf lead xs (i + 1) = lineOf lead xs i + (xs[i]).innerLines + gapLines (xs[i]).gap :=
  ⟨C12_lines_zero lead xs, C12_lines_succ lead xs⟩

/-- line numbers never decrease -/
theorem C12_lines_mono (lead : List Piece) (xs : List Lexeme) (i : Nat) (h : i < xs.length) :
    lineOf lead xs i ≤ lineOf lead xs (i + 1) := by
  rw [C12_lines_succ lead xs i h]; omega

/-- whitespace and comments in the leading gap: the first token is on line 1 + line feeds before it;
    a block comment with `k` line feeds put in front shifts every line number by `k`, a `//` comment
    or blanks by nothing -/
theorem C12_lines_lead_shift (c : Piece) (lead : List Piece) (xs : List Lexeme) (i : Nat) :
    lineOf (c :: lead) xs i = lineOf lead xs i + gapLines [c] := by
  cases c <;> simp [lineOf, gapLines] <;> omega

/-! ### instances for the regenerated `significant_ws` -/

theorem gen_ws : tWs ∉ Gen.significantWs := C12_table.1.1
theorem gen_bopen : tBopen ∉ Gen.significantWs := C12_table.1.2.1
theorem gen_bclose : tBclose ∉ Gen.significantWs := C12_table.1.2.2.1
theorem gen_semi : tSemi ∉ Gen.significantWs := C12_table.1.2.2.2.1
theorem gen_comma : "t_comma" ∉ Gen.significantWs := C12_table.1.2.2.2.2.1
theorem gen_colon : "t_colon" ∉ Gen.significantWs := C12_table.1.2.2.2.2.2

/-- the tokens that end a statement or open / separate one: after them any gap is irrelevant -/
def boundaryToks : List Ty := [tSemi, tBopen, tBclose, "t_comma", "t_colon"]

theorem boundary_not_sig : ∀ b ∈ boundaryToks, b ∉ Gen.significantWs ∧ b ≠ tWs := by decide

/-- **C12_gen_gap**: with the compiler's own table, whitespace between tokens may be replaced by
    any other non-empty whitespace, comments included -/
theorem C12_gen_gap (last : Option Ty) {g g' : List Piece} (h : hasSpace g = hasSpace g')
    (ts : List Ty) :
    filterFrom Gen.significantWs last (lexGap g ++ ts)
      = filterFrom Gen.significantWs last (lexGap g' ++ ts) :=
  C12_gap_tokens gen_ws last h ts

theorem C12_gen_program (lead lead' : List Piece) (xs xs' : List Lexeme)
    (h : SameUpToGaps xs xs') :
    filter Gen.significantWs (lexProgram lead xs) = filter Gen.significantWs (lexProgram lead' xs') :=
  C12_gap_program gen_ws lead lead' xs xs' h

/-- **C12_gen_boundary**: with the compiler's own table, after `;`, `{`, `}`, `,`, `:` any gap —
    whitespace, comments with any body, or nothing — is irrelevant, in any token stream -/
theorem C12_gen_boundary {b : Ty} (hb : b ∈ boundaryToks) (pre : List Ty) (g : List Piece)
    (ts : List Ty) :
    filter Gen.significantWs (pre ++ b :: (lexGap g ++ ts))
      = filter Gen.significantWs (pre ++ b :: ts) :=
  C12_comment_at_boundary gen_semi (boundary_not_sig b hb).1 (boundary_not_sig b hb).2 pre g ts

theorem C12_gen_start (g : List Piece) (ts : List Ty) :
    filter Gen.significantWs (lexGap g ++ ts) = filter Gen.significantWs ts :=
  C12_boundary_start _ g ts

/-- **C12_gen_semi**: with the compiler's own table, the last `;` of a block is optional -/
theorem C12_gen_semi {d : Ty} (h0 : d ≠ tWs) (h1 : d ≠ tBopen) (h2 : d ≠ tBclose) (h3 : d ≠ tSemi)
    (pre : List Ty) (g g' : List Piece) (ts : List Ty) :
    filter Gen.significantWs (pre ++ d :: (lexGap g ++ tBclose :: ts))
      = filter Gen.significantWs
          (pre ++ d :: (lexGap g ++ tSemi :: (lexGap g' ++ tBclose :: ts))) :=
  C12_semi_block gen_semi gen_bclose h0 h1 h2 h3 pre g g' ts

theorem C12_gen_filter_idem (ts : List Ty) :
    filter Gen.significantWs (filter Gen.significantWs ts) = filter Gen.significantWs ts :=
  C12_filter_idem gen_semi gen_bclose ts

/-! ### concrete streams (non-vacuity; the table as generated) -/

/-- `.a{color:red}` written tightly -/
def tight : List Lexeme :=
  [⟨"css_class", 0, []⟩, ⟨tBopen, 0, []⟩, ⟨"css_property", 0, []⟩, ⟨"t_colon", 0, []⟩,
   ⟨"css_ident", 0, []⟩, ⟨tBclose, 0, []⟩]

/-- the same with a leading block comment over two lines, CRLF-style line breaks, tabs, a `//`
    comment after `{`, a block comment after the value and the `;` written -/
def loose : List Lexeme :=
  [⟨"css_class", 0, []⟩,
   ⟨tBopen, 0, [.blanks 0, .lineComment "} .b { x: y", .newlines 0, .blanks 3]⟩,
   ⟨"css_property", 0, []⟩, ⟨"t_colon", 0, [.blanks 1]⟩,
   ⟨"css_ident", 0, []⟩,
   ⟨tSemi, 0, [.blanks 0, .blockComment " ; color: blue; " 0, .newlines 1]⟩,
   ⟨tBclose, 0, [.newlines 0]⟩]

example : filter Gen.significantWs (lexProgram [] tight)
    = ["css_class", tBopen, "css_property", "t_colon", "css_ident", tSemi, tBclose] := by decide

example : filter Gen.significantWs (lexProgram [.blockComment "a\n b" 1, .newlines 0] loose)
    = filter Gen.significantWs (lexProgram [] tight) := by decide

/-- a blank between two selectors parts is kept (descendant combinator), and any other whitespace
    run or whitespace-with-comment gives the same stream; no whitespace gives another one -/
example : filter Gen.significantWs (lexProgram [] [⟨"css_class", 0, [.blanks 0]⟩, ⟨"css_class", 0, []⟩])
    = ["css_class", tWs, "css_class"] := by decide
example : filter Gen.significantWs (lexProgram [] [⟨"css_class", 0,
      [.newlines 2, .blockComment "x" 4, .blanks 7, .lineComment "y", .newlines 0]⟩, ⟨"css_class", 0, []⟩])
    = ["css_class", tWs, "css_class"] := by decide
example : filter Gen.significantWs (lexProgram [] [⟨"css_class", 0, [.blockComment "x" 0]⟩, ⟨"css_class", 0, []⟩])
    = ["css_class", "css_class"] := by decide

/-- the injected `;` when whitespace precedes the `}` (`last` is `t_ws`) -/
example : filter Gen.significantWs ["css_ident", tWs, tBclose] = ["css_ident", tWs, tSemi, tBclose] := by
  decide
example : filter Gen.significantWs ["css_ident", tWs, tSemi, tWs, tBclose]
    = ["css_ident", tWs, tSemi, tBclose] := by decide
/-- no `;` is injected into an empty block or after a nested block -/
example : filter Gen.significantWs ["css_class", tBopen, tWs, tBclose, tWs, tBclose]
    = ["css_class", tBopen, tBclose, tBclose] := by decide

/-- line numbers: the class is on line 3 (two line feeds in front), the property on line 4,
    the `}` on line 6 -/
example : lineOf [.blockComment "a\n b" 1, .newlines 0] loose 0 = 3 := by decide
example : lineOf [.blockComment "a\n b" 1, .newlines 0] loose 2 = 4 := by decide
example : lineOf [.blockComment "a\n b" 1, .newlines 0] loose 6 = 6 := by decide

/-- the hypotheses of `C12_filter_idem` are needed: were `;` significant but `}` not, a filtered
    stream would filter further -/
example : filter [tSemi] (filter [tSemi] ["x", tBclose, tWs]) ≠ filter [tSemi] ["x", tBclose, tWs] := by
  decide

end Lessm.Lex
