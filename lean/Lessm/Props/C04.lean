/-
  C04  Arithmetic follows precedence, left associativity, parentheses and unit rules.
-/
import Lessm.Model.Expr
import Lessm.Lemmas.ExprParse
import Lessm.Model.ExprGen
import Lessm.Gen.Grammar

namespace Lessm.Expr

def allOps : List Op := [.add, .sub, .mul, .div]

/-- **C04_table**: in the precedence declaration of the current source every arithmetic operator is
    declared, all are `left`, `+` and `-` share a level, `*` and `/` share a strictly higher one. -/
theorem C04_table :
    (∀ o ∈ allOps, (precLookup Gen.precedence (opName o)).map (·.1) = some "left")
    ∧ genLvl .add = genLvl .sub ∧ genLvl .mul = genLvl .div
    ∧ genLvl .add < genLvl .mul ∧ 0 < genLvl .add := by decide

/-- index of a name in a generated name table -/
def idx (l : List String) (s : String) : Nat := l.idxOf s

/-- the binary productions `expression : expression op expression` of the regenerated grammar and the
    precedence PLY attached to each -/
def binProdPrec (o : Op) : Option (String × Nat) :=
  let e := idx Gen.nonterminals "expression"
  let t := idx Gen.terminals (opName o)
  let i := Gen.prods.idxOf ⟨e, [.nt e, .t t, .nt e]⟩
  if i < Gen.prods.length then
    (Gen.prodPrec.find? (·.1 == i)).map (·.2)
  else none

/-- **C04_prodprec**: each of the four binary productions exists in the grammar the code runs and
    carries exactly the precedence of its operator (so yacc's rule is `reduces genLvl`). -/
theorem C04_prodprec : ∀ o ∈ allOps, binProdPrec o = some ("left", genLvl o) := by decide +kernel

/-- **C04_parse**: flat text is read back as its standard reading — for every tree `e` (any shape and
    size, any operands) that is the standard reading of its own text under the regenerated
    precedence levels, parsing `toks e` yields `e`. -/
theorem C04_parse {α : Type} (e : E α) (h : Canon genLvl e) : parse genLvl (toks e) = some e :=
  parse_toks genLvl e h

/-- fully parenthesised input is read as written, whatever the levels -/
def FullParen {α : Type} : E α → Prop
  | .leaf _ => True
  | .paren e => FullParen e
  | .neg e => FullParen e
  | .bin _ l r => FullParen l ∧ FullParen r ∧ rootLvl genLvl l = none ∧ rootLvl genLvl r = none

theorem C04_parse_paren {α : Type} (e : E α) (h : FullParen e) : parse genLvl (toks e) = some e := by
  apply C04_parse
  induction e with
  | leaf _ => trivial
  | paren e ih => exact ih h
  | neg e ih => exact ih h
  | bin o l r ihl ihr =>
    obtain ⟨hl, hr, h1, h2⟩ := h
    refine ⟨ihl hl, ihr hr, ?_, ?_⟩
    · intro k hk; rw [h1] at hk; cases hk
    · intro k hk; rw [h2] at hk; cases hk

/-- **C04_eval**: on every tree whose proper sub-expressions are non-zero (hence all divisors are),
    the model of Expression.parse / NegatedExpression.parse returns the value of ordinary arithmetic
    and the unit of the leftmost operand that has one. -/
theorem C04_eval (e : E Operand) (h : SubNonzero e) (hv : val e ≠ 0) :
    evalE e = .ok (val e) (unitOf e) := by
  induction e with
  | leaf a => rfl
  | paren e ih => exact ih h hv
  | neg e ih =>
    have hv' : val e ≠ 0 := by
      intro h0; apply hv; simp [val, h0]
    simp only [evalE, ih h hv', val, unitOf]
  | bin o l r ihl ihr =>
    obtain ⟨hl, hr, hl0, hr0⟩ := h
    simp only [evalE, ihl hl hl0, ihr hr hr0]
    have h1 : ¬ (val l = 0 ∧ o = .div) := fun h => hl0 h.1
    have h2 : ¬ (val r = 0 ∧ o = .div) := fun h => hr0 h.1
    simp only [h1, h2, if_false, withUnits]
    have : applyOp o (val l) (val r) ≠ 0 := hv
    simp only [this, if_false, val, unitOf]

/-- when the whole expression is zero the result is a bare `0` (documented: a zero loses its unit) -/
theorem C04_eval_zero (e : E Operand) (h : SubNonzero e) (hv : val e = 0) :
    ∃ u, evalE e = .ok 0 u := by
  induction e with
  | leaf a => exact ⟨a.unit, by simp [evalE]; exact hv⟩
  | paren e ih => exact ih h hv
  | neg e ih =>
    have hv' : val e = 0 := by
      have : - val e = 0 := hv
      have h2 : val e = - (- val e) := by rw [Rat.neg_neg]
      rw [h2, this]; rfl
    obtain ⟨u, hu⟩ := ih h hv'
    exact ⟨u, by simp [evalE, hu]⟩
  | bin o l r _ _ =>
    obtain ⟨hl, hr, hl0, hr0⟩ := h
    refine ⟨"", ?_⟩
    simp only [evalE, C04_eval l hl hl0, C04_eval r hr hr0]
    have h1 : ¬ (val l = 0 ∧ o = .div) := fun h => hl0 h.1
    have h2 : ¬ (val r = 0 ∧ o = .div) := fun h => hr0 h.1
    simp only [h1, h2, if_false, withUnits]
    have : applyOp o (val l) (val r) = 0 := hv
    simp [this]

/-- **C04** (text to value): for every canonical tree, parsing its text with the regenerated
    precedence and evaluating gives ordinary arithmetic. -/
theorem C04 (e : E Operand) (hc : Canon genLvl e) (h : SubNonzero e) (hv : val e ≠ 0) :
    (parse genLvl (toks e)).map evalE = some (.ok (val e) (unitOf e)) := by
  rw [C04_parse e hc, Option.map_some, C04_eval e h hv]

/-! non-vacuity and the two classic readings -/
def n (k : Int) (u : String := "") : E Operand := .leaf ⟨k, u⟩
example : parse genLvl (toks (.bin .sub (.bin .sub (n 1) (n 2)) (n 3))) = some (.bin .sub (.bin .sub (n 1) (n 2)) (n 3)) := by
  decide +kernel
example : parse genLvl [Tok.num (1 : Nat), .op .sub, .num 2, .op .mul, .num 3]
    = some (.bin .sub (.leaf 1) (.bin .mul (.leaf 2) (.leaf 3))) := by decide +kernel
example : Canon genLvl (.bin .sub (n 1 "px") (.bin .mul (n 2) (n 3))) := by
  refine ⟨trivial, ⟨trivial, trivial, ?_, ?_⟩, ?_, ?_⟩ <;> intro k hk <;> simp [rootLvl, n] at hk
  subst hk; decide
example : evalE (.bin .sub (n 1 "px") (.bin .mul (n 2) (n 3 "em"))) = .ok (-5) "px" := by decide +kernel

end Lessm.Expr
