/-
  CrossAt  The at-rule model agrees with the media model where their fragments overlap.

  `Lessm.AtRule` and `Lessm.Media` both speak about `@media` blocks, each tied to the code on its own
  (C19 and C07).  The theorem below ties them to each other.

  Vocabulary (Lessm/Lemmas/CrossAtLemmas.lean):
    `declAM ev d`        the AtRule declaration `d` as a Nest/Media declaration, its value evaluated by `ev`
    `embedAM ev sheet`   the AtRule sheet in Media: a flat rule `sel { decls }` becomes a rule with the ONE
                         selector token `sel` and the declarations `declAM ev`; `@media q { … }` becomes an
                         `@media` with the ONE query token `q`; statements, keyframes and `@font-face`-like
                         blocks have no counterpart and are left out
    `obsAList ctx items` an evaluated AtRule tree observed the way `Media.obs` observes its blocks: one
                         `Media.Triple` (media context outermost first, selector list, declarations) for
                         every rule with declarations, in order; the selector list of `sel` is `[[sel]]`
    `plainOne s`         `plainTok s` (none of `*` `,` `&` `>` `+` `~`, not of the form `?c?`) and `s ≠ " "`
    `commonAM false sheet`  the sheet consists of rules with a `plainOne` selector and of `@media` blocks
                         that hold only such rules

  Why the restrictions (they are properties of the models, not of the proof):
    * AtRule knows a selector as one opaque string; Media runs `identParse` over it.  `plainOne` is the
      shape that `identParse none [s]` returns as `[[s]]`.  The blank has to be excluded on top of
      `plainTok`: `identParse none [" "] = [[]]` (example below).
    * AtRule keeps an `@media` inside an `@media` nested, Media merges the two into `a and b` as lesscpy
      does (example below); AtRule's subject is what stands NEXT to `@media`, not nesting.
    * statements, keyframes and declaration blocks do not exist in Media.
-/
import Lessm.Lemmas.CrossAtLemmas

namespace Lessm.Cross
open Lessm.Sel

/-- **X6**: AtRule agrees with Media on their common fragment.  For every value evaluator `ev` and every
    sheet of `commonAM`: evaluating the sheet with the at-rule model (rules without declarations and
    `@media` blocks left empty are dropped, values evaluated by `ev`) and observing the result as
    (media context, selector list, declarations) triples gives exactly what the media model observes on
    the embedded sheet — the same rules, in the same order, under the same media context. -/
theorem atrule_agrees_with_media (ev : String → String) (sheet : List AtRule.Item)
    (hc : commonAM false sheet = true) :
    obsAList [] (AtRule.evalList ev sheet) = Media.observe (embedAM ev sheet) :=
  obs_commonAM ev [] sheet hc

/-! ### non-vacuity: both sides evaluated in the kernel -/

/-- `.a { x:1; y:2 }  .e { }  @media screen { .b { z:3 }  .e { }  #c { w:4; v:5 } }  @media print { .e { } }
    .d { k:0 }` -/
private def sheetA : List AtRule.Item :=
  [ .rule ".a" [⟨"x", "1"⟩, ⟨"y", "2"⟩],
    .rule ".e" [],
    .media "screen" [.rule ".b" [⟨"z", "3"⟩], .rule ".e" [], .rule "#c" [⟨"w", "4"⟩, ⟨"v", "5"⟩]],
    .media "print" [.rule ".e" []],
    .rule ".d" [⟨"k", "0"⟩] ]

/-- a value evaluator that is not the identity -/
private def evA (v : String) : String := v ++ "px"

private def obsA : List Media.Triple :=
  [ ⟨[], [[".a"]], [⟨"x", "1px"⟩, ⟨"y", "2px"⟩]⟩,
    ⟨[["screen"]], [[".b"]], [⟨"z", "3px"⟩]⟩,
    ⟨[["screen"]], [["#c"]], [⟨"w", "4px"⟩, ⟨"v", "5px"⟩]⟩,
    ⟨[], [[".d"]], [⟨"k", "0px"⟩]⟩ ]

example : commonAM false sheetA = true := by decide +kernel

/-- X6 on `sheetA`: the empty rules and the `@media print` block holding only an empty rule are gone on
    both sides -/
example : obsAList [] (AtRule.evalList evA sheetA) = obsA
    ∧ Media.observe (embedAM evA sheetA) = obsA := by decide +kernel

/-- what AtRule itself returns: a tree, the surviving `@media` block still a block -/
example : AtRule.evalList id sheetA =
    [ .rule ".a" [⟨"x", "1"⟩, ⟨"y", "2"⟩],
      .media "screen" [.rule ".b" [⟨"z", "3"⟩], .rule "#c" [⟨"w", "4"⟩, ⟨"v", "5"⟩]],
      .rule ".d" [⟨"k", "0"⟩] ] := rfl

/-- `inMedia` is not superfluous: an `@media` inside an `@media` stays nested in AtRule and is merged
    into one `a and b` block by Media -/
example :
    commonAM false [.media "a" [.media "b" [.rule ".x" [⟨"p", "1"⟩]]]] = false
    ∧ obsAList [] (AtRule.evalList id [.media "a" [.media "b" [.rule ".x" [⟨"p", "1"⟩]]]])
        = [⟨[["a"], ["b"]], [[".x"]], [⟨"p", "1"⟩]⟩]
    ∧ Media.observe (embedAM id [.media "a" [.media "b" [.rule ".x" [⟨"p", "1"⟩]]]])
        = [⟨[["a", "and", "b"]], [[".x"]], [⟨"p", "1"⟩]⟩] := by decide +kernel

/-- `s ≠ " "` in `plainOne` is not superfluous: the blank is a `plainTok`, and `Identifier.parse`
    filters a lone blank away -/
example :
    plainTok " " = true ∧ plainOne " " = false
    ∧ obsAList [] (AtRule.evalList id [.rule " " [⟨"p", "1"⟩]]) = [⟨[], [[" "]], [⟨"p", "1"⟩]⟩]
    ∧ Media.observe (embedAM id [.rule " " [⟨"p", "1"⟩]]) = [⟨[], [[]], [⟨"p", "1"⟩]⟩] := by
  decide +kernel

/-- `plainTok` is not superfluous: a selector string that is a comma, a combinator or `*` is rewritten by
    `Identifier.parse` -/
example :
    Media.observe (embedAM id [.rule "," [⟨"p", "1"⟩]]) = [⟨[], [[], []], [⟨"p", "1"⟩]⟩]
    ∧ Media.observe (embedAM id [.rule ">" [⟨"p", "1"⟩]]) = [⟨[], [["?>?"]], [⟨"p", "1"⟩]⟩]
    ∧ Media.observe (embedAM id [.rule "*" [⟨"p", "1"⟩]]) = [⟨[], [["* "]], [⟨"p", "1"⟩]⟩] := by
  decide +kernel

end Lessm.Cross
