/-
  C17 (exponent notation)  The repaired `split_unit` / `analyze_number` (`Lessm.Num.splitUnitE`, `analyzeE`):
  they cut the text without losing anything, coincide with `Lessm.Num.splitUnit` / `analyze` on every lexeme whose
  unit does not begin with an exponent, and read `mantissa e[-+]?digits unit` as mantissa * 10^(±digits).
  Core Lean only.
-/
import Lessm.Model.NumE

namespace Lessm.Num

/-! ## Helper lemmas -/
section Helpers

/-- `splitUnit` cuts the text in two -/
theorem splitUnit_partition (s n u : List Char) (h : splitUnit s = some (n, u)) : n ++ u = s := by
  unfold splitUnit at h
  split at h
  next sign rest heq =>
    simp only at h
    split at h
    · exact absurd h (by simp)
    · simp only [Option.some.injEq, Prod.mk.injEq] at h
      obtain ⟨hn, hu⟩ := h
      subst hn hu
      rw [List.append_assoc, List.takeWhile_append_dropWhile]
      split at heq
      · simp only [Prod.mk.injEq] at heq
        obtain ⟨h1, h2⟩ := heq
        subst h1 h2
        rfl
      · simp only [Prod.mk.injEq] at heq
        obtain ⟨h1, h2⟩ := heq
        subst h1 h2
        rfl

theorem expPart_neg (t : List Char) :
    expPart ('e' :: '-' :: t) =
      if (t.takeWhile isDigit).isEmpty then ([], 'e' :: '-' :: t)
      else ('e' :: '-' :: t.takeWhile isDigit, t.dropWhile isDigit) := rfl

theorem expPart_pos (t : List Char) :
    expPart ('e' :: '+' :: t) =
      if (t.takeWhile isDigit).isEmpty then ([], 'e' :: '+' :: t)
      else ('e' :: '+' :: t.takeWhile isDigit, t.dropWhile isDigit) := rfl

theorem expPart_e_nil : expPart ['e'] = ([], ['e']) := rfl

theorem expPart_nosign (c : Char) (t : List Char) (h2 : c ≠ '-') (h3 : c ≠ '+') :
    expPart ('e' :: c :: t) =
      if ((c :: t).takeWhile isDigit).isEmpty then ([], 'e' :: c :: t)
      else ('e' :: (c :: t).takeWhile isDigit, (c :: t).dropWhile isDigit) := by
  unfold expPart
  simp only
  split
  · next t' heq => simp only [List.cons.injEq] at heq; exact absurd heq.1 h2
  · next t' heq => simp only [List.cons.injEq] at heq; exact absurd heq.1 h3
  · rfl

theorem expPart_not_e (c : Char) (r : List Char) (hc : c ≠ 'e') : expPart (c :: r) = ([], c :: r) := by
  unfold expPart
  split
  · next r' heq => simp only [List.cons.injEq] at heq; exact absurd heq.1 hc
  · rfl

theorem expPart_nil : expPart [] = ([], []) := rfl

/-- `expPart` cuts the text in two -/
theorem expPart_partition (s : List Char) : (expPart s).1 ++ (expPart s).2 = s := by
  match s with
  | [] => rfl
  | c :: r =>
    by_cases hc : c = 'e'
    · subst hc
      match r with
      | [] => rfl
      | d :: t =>
        by_cases h2 : d = '-'
        · subst h2
          rw [expPart_neg]
          split
          · rfl
          · simp [List.takeWhile_append_dropWhile]
        · by_cases h3 : d = '+'
          · subst h3
            rw [expPart_pos]
            split
            · rfl
            · simp [List.takeWhile_append_dropWhile]
          · rw [expPart_nosign d t h2 h3]
            split
            · rfl
            · simp only [List.cons_append, List.takeWhile_append_dropWhile]
    · rw [expPart_not_e c r hc]; rfl

/-- when the optional group does not match, nothing is consumed -/
theorem expPart_eq_of_fst_nil (u : List Char) (h : (expPart u).1 = []) : expPart u = ([], u) := by
  have hp := expPart_partition u
  rw [h, List.nil_append] at hp
  exact Prod.ext h hp

theorem takeWhile_digits (ds u : List Char) (hd : ∀ c ∈ ds, isDigit c = true)
    (hu : ∀ c, u.head? = some c → isDigit c = false) :
    (ds ++ u).takeWhile isDigit = ds ∧ (ds ++ u).dropWhile isDigit = u := by
  induction ds with
  | nil =>
    match u, hu with
    | [], _ => exact ⟨rfl, rfl⟩
    | c :: t, hu =>
      have hc : isDigit c = false := hu c rfl
      simp [hc]
  | cons d ds ih =>
    have hd0 : isDigit d = true := hd d (List.mem_cons_self ..)
    have ih' := ih (fun c hc => hd c (List.mem_cons_of_mem _ hc))
    simp only [List.cons_append, List.takeWhile_cons, List.dropWhile_cons, hd0, if_true, ih'.1, ih'.2,
      and_self]

theorem isDigit_ne_minus (c : Char) (h : isDigit c = true) : c ≠ '-' := by
  intro hc; subst hc; exact absurd h (by decide)

theorem isDigit_ne_plus (c : Char) (h : isDigit c = true) : c ≠ '+' := by
  intro hc; subst hc; exact absurd h (by decide)

/-- the exponent group matches `e sg ds` in front of a unit that does not start with a digit -/
theorem expPart_reads (ds u sg : List Char) (hsg : sg = [] ∨ sg = ['-'] ∨ sg = ['+'])
    (hds : ds ≠ []) (hd : ∀ c ∈ ds, isDigit c = true) (hu : ∀ c, u.head? = some c → isDigit c = false) :
    expPart ('e' :: (sg ++ (ds ++ u))) = ('e' :: (sg ++ ds), u) := by
  obtain ⟨ht, hdr⟩ := takeWhile_digits ds u hd hu
  have hne : (List.takeWhile isDigit (ds ++ u)).isEmpty = false := by
    rw [ht]; cases ds with
    | nil => exact absurd rfl hds
    | cons _ _ => rfl
  rcases hsg with h | h | h
  · subst h
    match ds, hds, hd, ht, hdr, hne with
    | d :: ds', _, hd, ht, hdr, hne =>
      have hd0 : isDigit d = true := hd d (List.mem_cons_self ..)
      simp only [List.nil_append, List.cons_append] at ht hdr hne ⊢
      rw [expPart_nosign d (ds' ++ u) (isDigit_ne_minus d hd0) (isDigit_ne_plus d hd0), hne, ht, hdr]
      rfl
  · subst h
    simp only [List.cons_append, List.nil_append]
    rw [expPart_neg, hne, ht, hdr]; rfl
  · subst h
    simp only [List.cons_append, List.nil_append]
    rw [expPart_pos, hne, ht, hdr]; rfl

theorem expVal_nil : expVal [] = 1 := rfl

end Helpers

/-! ## Property theorems -/
section Properties

/-- **C17_exp_partition**: the repaired splitter cuts the text into number and unit, losing and inventing nothing. -/
theorem C17_exp_partition (s n u : List Char) (h : splitUnitE s = some (n, u)) : n ++ u = s := by
  unfold splitUnitE at h
  split at h
  · exact absurd h (by simp)
  · next n0 u0 h0 =>
    simp only [Option.some.injEq, Prod.mk.injEq] at h
    obtain ⟨hn, hu⟩ := h
    subst hn hu
    rw [List.append_assoc, expPart_partition]
    exact splitUnit_partition s n0 u0 h0

/-- **C17_exp_conservative**: on every lexeme whose unit does not begin with an exponent the repaired functions are
    the ones of `Lessm.Num` that the evaluator models use. -/
theorem C17_exp_conservative (s n u : List Char) (h : splitUnit s = some (n, u)) (hne : (expPart u).1 = []) :
    splitUnitE s = some (n, u) ∧ analyzeE s = analyze s := by
  have he := expPart_eq_of_fst_nil u hne
  constructor
  · simp only [splitUnitE, h, he, List.append_nil]
  · simp only [analyzeE, analyze, h, he, parseDecE, expVal_nil, Rat.mul_one, Option.bind_eq_bind, Option.bind_some,
      Option.pure_def]
    cases parseDec n <;> rfl

/-- **C17_exp_nil**: no unit, no exponent. -/
theorem C17_exp_nil : (expPart []).1 = [] := rfl

/-- **C17_exp_unit_no_exp**: a unit that does not start with `e` (px, %, s, …) carries no exponent. -/
theorem C17_exp_unit_no_exp (c : Char) (r : List Char) (hc : c ≠ 'e') : (expPart (c :: r)).1 = [] := by
  rw [expPart_not_e c r hc]

/-- **C17_exp_e_letter**: `e` followed by anything but a sign or a digit is a unit, not an exponent. -/
theorem C17_exp_e_letter (c : Char) (r : List Char) (h1 : isDigit c = false) (h2 : c ≠ '-') (h3 : c ≠ '+') :
    (expPart ('e' :: c :: r)).1 = [] := by
  rw [expPart_nosign c r h2 h3]
  simp [h1]

/-- **C17_exp_em**: `em…` is a unit. -/
theorem C17_exp_em (r : List Char) : (expPart ('e' :: 'm' :: r)).1 = [] :=
  C17_exp_e_letter 'm' r (by decide) (by decide) (by decide)

/-- **C17_exp_reads**: a mantissa followed by an exponent and a unit is split after the exponent. -/
theorem C17_exp_reads (n ds u : List Char) (sg : List Char) (hsg : sg = [] ∨ sg = ['-'] ∨ sg = ['+'])
    (hn : splitUnit (n ++ 'e' :: sg ++ ds ++ u) = some (n, 'e' :: sg ++ ds ++ u))
    (hds : ds ≠ []) (hd : ∀ c ∈ ds, isDigit c = true) (hu : ∀ c, u.head? = some c → isDigit c = false) :
    splitUnitE (n ++ 'e' :: sg ++ ds ++ u) = some (n ++ 'e' :: sg ++ ds, u) := by
  have he := expPart_reads ds u sg hsg hds hd hu
  simp only [List.append_assoc, List.cons_append] at hn ⊢
  simp only [splitUnitE, hn, he]

/-- **C17_exp_value_neg**: `e-ds` divides by the power of ten. -/
theorem C17_exp_value_neg (n ds : List Char) (q : Rat) (hq : parseDec n = some q) :
    parseDecE n ('e' :: '-' :: ds) = some (q / ((10 ^ digitsVal ds : Nat) : Rat)) := by
  simp only [parseDecE, hq, Option.map_some, expVal, Rat.div_def, Rat.one_mul]

/-- **C17_exp_value_pos**: `e+ds` multiplies by the power of ten. -/
theorem C17_exp_value_pos (n ds : List Char) (q : Rat) (hq : parseDec n = some q) :
    parseDecE n ('e' :: '+' :: ds) = some (q * ((10 ^ digitsVal ds : Nat) : Rat)) := by
  simp only [parseDecE, hq, Option.map_some, expVal]

/-- **C17_exp_value_nosign**: `e` followed directly by digits multiplies by the power of ten. -/
theorem C17_exp_value_nosign (n : List Char) (d : Char) (ds : List Char) (q : Rat) (hq : parseDec n = some q)
    (hd : isDigit d = true) :
    parseDecE n ('e' :: d :: ds) = some (q * ((10 ^ digitsVal (d :: ds) : Nat) : Rat)) := by
  have h2 := isDigit_ne_minus d hd
  have h3 := isDigit_ne_plus d hd
  simp only [parseDecE, hq, Option.map_some]
  unfold expVal
  split
  · next ds' heq => simp only [List.cons.injEq, true_and] at heq; exact absurd heq.1 h2
  · next ds' heq => simp only [List.cons.injEq, true_and] at heq; exact absurd heq.1 h3
  · next ds' heq => simp only [List.cons.injEq, true_and] at heq; rw [← heq]
  · next hno => exact absurd rfl (hno (d :: ds))

end Properties

/-! ## Non-vacuity  (the two `Rat` values are checked by the kernel, `decide +kernel`: no `native_decide`, no extra axiom) -/
section Examples

example : splitUnitE "1e-05em".toList = some ("1e-05".toList, "em".toList) := by decide
example : splitUnitE "1em".toList = some ("1".toList, "em".toList) := by decide
example : splitUnitE "-.5e".toList = some ("-.5".toList, "e".toList) := by decide
example : splitUnitE "3e2em".toList = some ("3e2".toList, "em".toList) := by decide
example : splitUnitE "2ex".toList = some ("2".toList, "ex".toList) := by decide
example : (analyzeE "1e-05em".toList).map (fun p => (ratStr p.1, p.2)) = some ("1/100000", "em".toList) := by decide +kernel
example : (analyzeE "-5e-05px".toList).map (fun p => (ratStr p.1, p.2)) = some ("-1/20000", "px".toList) := by decide +kernel

end Examples

end Lessm.Num
