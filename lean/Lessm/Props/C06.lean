/-
  C06  A guarded mixin is applied exactly when its guard is true.
-/
import Lessm.Model.Guard
import Mathlib.Tactic.Linarith

namespace Lessm.Guard

/-- **C06_cmp**: every comparison spelling has its arithmetic meaning, for all rationals. -/
theorem C06_cmp (c : Cmp) (a b : ℚ) : c.eval a b = true ↔ c.holds a b := by
  cases c <;> simp [Cmp.eval, Cmp.holds]

/-- **C06_not**: for each of the five operators that can be written, the stored reversed
    comparison is the negation of the written one. -/
theorem C06_not (c : Cmp) (hc : c ≠ .ne) (a b : ℚ) : (reverseGuard c).eval a b = !(c.eval a b) := by
  cases c <;> simp [reverseGuard, Cmp.eval] at hc ⊢
  all_goals
    first
    | (by_cases h : a < b <;> by_cases h2 : b ≤ a <;> simp [h, h2] <;> linarith)
    | (by_cases h : b < a <;> by_cases h2 : a ≤ b <;> simp [h, h2] <;> linarith)

/-- a well-formed guard: at least one chain, no empty chain, only writable operators -/
def GuardOK (g : Guard) : Prop :=
  g ≠ [] ∧ (∀ ch ∈ g, ch ≠ []) ∧ (∀ ch ∈ g, ∀ c ∈ ch, c.cmp ≠ .ne)

theorem condTok_eval (ρ : Nat → ℚ) (c : Cond) (hc : c.cmp ≠ .ne) :
    (match condTok c with
      | .cond a k b => k.eval (a.val ρ) (b.val ρ)
      | _ => false) = condHolds ρ c := by
  unfold condTok condHolds
  by_cases hn : c.neg
  · simp [hn, C06_not c.cmp hc]
  · simp [hn]

theorem chain_eval (ρ : Nat → ℚ) (ch : List Cond) (hne : ch ≠ []) (hok : ∀ c ∈ ch, c.cmp ≠ .ne)
    (flag : Bool) (rest : List GTok) :
    parseGuardsFrom ρ flag (chainToks ch ++ rest) = parseGuardsFrom ρ (flag && ch.all (condHolds ρ)) rest := by
  induction ch generalizing flag with
  | nil => exact absurd rfl hne
  | cons c cs ih =>
    have hc := condTok_eval ρ c (hok c (by simp))
    cases cs with
    | nil =>
      simp only [chainToks, List.cons_append, List.nil_append, List.all_cons, List.all_nil, Bool.and_true]
      unfold condTok at hc ⊢
      simp only [parseGuardsFrom]
      simp only at hc
      rw [hc]
    | cons d ds =>
      have ih' := ih (by simp) (fun x hx => hok x (by simp [hx]))
      simp only [chainToks, List.cons_append, List.all_cons]
      unfold condTok at hc ⊢
      simp only [parseGuardsFrom]
      simp only at hc
      rw [hc]
      have := ih' (flag && condHolds ρ c)
      simp only [chainToks, List.cons_append, List.all_cons] at this
      rw [this, Bool.and_assoc]

/-- **C06**: on every well-formed guard (any number of chains, any chain length, any mix of
    operators and `not`) and every argument assignment the implementation's verdict is the
    declarative one: some chain has all its conditions true. -/
theorem C06 (g : Guard) (ρ : Nat → ℚ) (h : GuardOK g) : passes g ρ = holds g ρ := by
  obtain ⟨hne, hch, hok⟩ := h
  unfold passes parseGuards holds
  induction g with
  | nil => exact absurd rfl hne
  | cons ch rest ih =>
    cases rest with
    | nil =>
      have := chain_eval ρ ch (hch ch (by simp)) (hok ch (by simp)) true []
      simp only [List.append_nil, Bool.true_and] at this
      simp [toTokens, this, parseGuardsFrom]
    | cons ch2 rest2 =>
      have h1 := chain_eval ρ ch (hch ch (by simp)) (hok ch (by simp)) true (.comma :: toTokens (ch2 :: rest2))
      simp only [Bool.true_and] at h1
      have ih' := ih (by simp) (fun c hc => hch c (by simp [hc])) (fun c hc => hok c (by simp [hc]))
      simp only [toTokens] at h1 ⊢
      rw [h1]
      simp only [parseGuardsFrom, List.any_cons]
      by_cases hx : ch.all (condHolds ρ) = true
      · simp [hx]
      · simp only [Bool.not_eq_true] at hx
        simp only [hx, Bool.false_eq_true, if_false, Bool.false_or]
        simpa [toTokens] using ih'

/-- **C06_and / C06_or** (corollaries in the property's own words). -/
theorem C06_and (ch : List Cond) (ρ : Nat → ℚ) (h : GuardOK [ch]) :
    passes [ch] ρ = true ↔ ∀ c ∈ ch, condHolds ρ c = true := by
  rw [C06 _ _ h]; simp [holds]

theorem C06_or (g : Guard) (ρ : Nat → ℚ) (h : GuardOK g) :
    passes g ρ = true ↔ ∃ ch ∈ g, ∀ c ∈ ch, condHolds ρ c = true := by
  rw [C06 _ _ h]; simp [holds]

/-- **C06_excl**: among same-named mixins with pairwise exclusive guards, the one whose guard
    holds is the one applied, wherever it stands in the definition order. -/
theorem C06_excl {β} (ms : List (Guard × β)) (ρ : Nat → ℚ)
    (hok : ∀ m ∈ ms, GuardOK m.1)
    (i : Nat) (hi : i < ms.length)
    (hhold : holds (ms[i]).1 ρ = true)
    (hexcl : ∀ j (hj : j < ms.length), j ≠ i → holds (ms[j]).1 ρ = false) :
    firstMatch ms ρ = some (ms[i]).2 := by
  induction ms generalizing i with
  | nil => simp at hi
  | cons m rest ih =>
    obtain ⟨g, b⟩ := m
    cases i with
    | zero =>
      have : passes g ρ = true := by rw [C06 g ρ (hok (g, b) (by simp))]; simpa using hhold
      simp [firstMatch, this]
    | succ k =>
      have h0 : holds g ρ = false := hexcl 0 (by simp) (by simp)
      have : passes g ρ = false := by rw [C06 g ρ (hok (g, b) (by simp))]; exact h0
      simp only [firstMatch, this, Bool.false_eq_true, if_false]
      have hk : k < rest.length := by simpa using hi
      have := ih (fun m hm => hok m (by simp [hm])) k hk (by simpa using hhold)
        (fun j hj hne => by
          have := hexcl (j + 1) (by simpa using hj) (by omega)
          simpa using this)
      simpa using this

/-! non-vacuity: a comma list of and-chains with `not`, evaluated on concrete arguments -/
def exGuard : Guard :=
  [[⟨false, .param 0, .gt, .lit 3⟩, ⟨false, .param 0, .lt, .lit 10⟩], [⟨true, .param 0, .eq, .lit 20⟩]]
example : GuardOK exGuard := by
  refine ⟨by simp [exGuard], ?_, ?_⟩ <;> simp [exGuard]
example : passes exGuard (fun _ => 5) = true := by decide +kernel
example : passes exGuard (fun _ => 20) = false := by decide +kernel
example : passes exGuard (fun _ => 25) = true := by decide +kernel

end Lessm.Guard
