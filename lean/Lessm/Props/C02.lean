/-
  C02  Nested rules flatten to the correct selectors, once each, in source order.
-/
import Lessm.Model.Nest

namespace Lessm.Nest
open Lessm.Sel

theorem ownDecls_passGList (st : Stack) (body : List Item) : ownDecls (passGList st body) = srcDecls body := by
  induction body with
  | nil => rfl
  | cons i is ih =>
    cases i with
    | decl d => simp [passGList, passG, ownDecls, srcDecls, ih]
    | rule s b => simp [passGList, passG, ownDecls, srcDecls, ih]

mutual
/-- **C02** (model = spec): the two passes over the scope stack compute the plain recursive
    flattening, for every tree (any depth, any width), from any stack. -/
theorem C02_stack (st : Stack) : ∀ t : Item, passE (passG st t) = flat (scopename st) t
  | .decl d => by simp [passG, passE, flat]
  | .rule sel body => by
      simp only [passG, passE, flat, scopename, ownDecls_passGList]
      rw [C02_stackL (some (identParse (scopename st) sel) :: st) body]
      simp [scopename]
theorem C02_stackL (st : Stack) : ∀ ts : List Item, passEList (passGList st ts) = flatList (scopename st) ts
  | [] => by simp [passGList, passEList, flatList]
  | i :: is => by
      simp only [passGList, passEList, flatList]
      rw [C02_stack st i, C02_stackL st is]
end

theorem C02 (t : Item) : compile t = flat none t := by
  unfold compile; rw [C02_stack]; rfl

theorem C02_sheet (ts : List Item) : compileSheet ts = flatList none ts := by
  unfold compileSheet; rw [C02_stackL]; rfl

mutual
/-- **C02_once_dfs**: every source rule that has declarations yields exactly one output rule,
    carrying exactly its own declarations in order; rules without declarations yield none; the output
    order is depth-first source order with a rule before its nested rules. -/
theorem C02_once_dfs (p : Option (List Sel)) : ∀ t : Item, (flat p t).map (·.decls) = preorderDecls t
  | .decl d => by simp [flat, preorderDecls]
  | .rule sel body => by
      simp only [flat, preorderDecls, List.map_append]
      rw [C02_once_dfsL (some (identParse p sel)) body]
      by_cases h : srcDecls body = [] <;> simp [h]
theorem C02_once_dfsL (p : Option (List Sel)) : ∀ ts : List Item, (flatList p ts).map (·.decls) = preorderDeclsList ts
  | [] => by simp [flatList, preorderDeclsList]
  | i :: is => by
      simp only [flatList, preorderDeclsList, List.map_append]
      rw [C02_once_dfs p i, C02_once_dfsL p is]
end

/-! ### selector combination -/

theorem sum_const {α} (l : List α) (k : Nat) : (l.map (fun _ => k)).sum = l.length * k := by
  induction l with
  | nil => simp
  | cons a r ih => simp [ih, Nat.succ_mul, Nat.add_comm]

theorem tuples_length {α} (pool : List α) (r : Nat) : (tuples pool r).length = pool.length ^ r := by
  induction r with
  | zero => simp [tuples]
  | succ r ih =>
    simp only [tuples, List.length_flatMap, List.length_map, ih]
    rw [sum_const, Nat.pow_succ, Nat.mul_comm]

theorem tuples_mem {α} (pool : List α) (r : Nat) (t : List α) :
    t ∈ tuples pool r ↔ t.length = r ∧ ∀ x ∈ t, x ∈ pool := by
  induction r generalizing t with
  | zero =>
    simp only [tuples, List.mem_singleton]
    constructor
    · intro h; subst h; simp
    · intro h; exact List.length_eq_zero_iff.mp h.1
  | succ r ih =>
    simp only [tuples, List.mem_flatMap, List.mem_map]
    constructor
    · rintro ⟨p, hp, t', ht', rfl⟩
      have := (ih t').mp ht'
      refine ⟨by simp [this.1], ?_⟩
      intro x hx
      rcases List.mem_cons.mp hx with rfl | hx
      · exact hp
      · exact this.2 x hx
    · intro ⟨hl, hm⟩
      cases t with
      | nil => simp at hl
      | cons p t' =>
        refine ⟨p, hm p (by simp), t', (ih t').mpr ⟨by simpa using hl, fun x hx => hm x (by simp [hx])⟩, rfl⟩

/-- **C02_count**: a child selector without `&` is combined with every parent selector (one output
    selector per parent); with k occurrences of `&` it yields one selector per k-tuple of parents. -/
theorem C02_count (ps : List Sel) (name : Sel) :
    (rootOne ps name).length = if countAmp name = 0 then ps.length else ps.length ^ countAmp name := by
  unfold rootOne
  by_cases h : countAmp name = 0
  · simp [h]
  · simp [h, tuples_length]

/-- plain substitution of the i-th `&` by the i-th member of the tuple -/
def substSpec : Sel → List Sel → Sel
  | [], _ => []
  | t :: ts, perm =>
      if t == "&" then
        match perm with
        | p :: perm' => p ++ substSpec ts perm'
        | [] => substSpec ts []
      else t :: substSpec ts perm

/-- no token that ends in `]` stands directly before an `&` (otherwise the code inserts a space: the
    documented `[attr] &` hack, covered by the correspondence run) and parents carry no trailing space -/
def PlainAmp (name : Sel) : Prop := ∀ t ∈ name, endsWithBracket t = false
def NoTrail (p : Sel) : Prop := p.getLast? ≠ some " "

theorem dropLastSpace_id (p : Sel) (h : NoTrail p) : dropLastSpace p = p := by
  unfold dropLastSpace
  have : p.reverse.head? ≠ some " " := by simpa [NoTrail, List.head?_reverse] using h
  cases hr : p.reverse with
  | nil => rfl
  | cons a r =>
    rw [hr] at this
    have ha : a ≠ " " := by simpa using this
    split
    · rename_i r' heq
      simp only [List.cons.injEq] at heq
      exact absurd heq.1 ha
    · rfl

theorem getLast_bracket (acc : Sel) (h : ∀ t ∈ acc, endsWithBracket t = false) :
    lastEndsBracket acc = false := by
  unfold lastEndsBracket
  cases hl : acc.getLast? with
  | none => rfl
  | some l => exact h l (List.mem_of_getLast? hl)

/-- **C02_amp**: every `&` is replaced, textually and in order, by the corresponding parent selector
    of the tuple; everything else of the child selector is kept. -/
theorem C02_amp (name : Sel) (perm : List Sel) (acc : Sel)
    (hn : PlainAmp name) (hp : ∀ p ∈ perm, NoTrail p ∧ ∀ t ∈ p, endsWithBracket t = false)
    (ha : ∀ t ∈ acc, endsWithBracket t = false) :
    substAmp name perm acc = acc ++ substSpec name perm := by
  induction name generalizing perm acc with
  | nil => simp [substAmp, substSpec]
  | cons t ts ih =>
    have hts : PlainAmp ts := fun x hx => hn x (by simp [hx])
    by_cases ht : (t == "&") = true
    · cases perm with
      | nil =>
        simp only [substAmp, substSpec, ht, if_true]
        exact ih [] acc hts (by simp) ha
      | cons p perm' =>
        simp only [substAmp, substSpec, ht, if_true]
        rw [getLast_bracket acc ha]
        simp only [Bool.false_eq_true, if_false]
        have hp1 := hp p (by simp)
        rw [dropLastSpace_id p hp1.1]
        rw [ih perm' (acc ++ p) hts (fun q hq => hp q (by simp [hq]))
          (fun x hx => by
            rcases List.mem_append.mp hx with h | h
            · exact ha x h
            · exact hp1.2 x h)]
        simp
    · simp only [substAmp, substSpec, ht, if_false, Bool.false_eq_true]
      rw [ih perm (acc ++ [t]) hts hp
        (fun x hx => by
          rcases List.mem_append.mp hx with h | h
          · exact ha x h
          · have : x = t := by simpa using h
            subst this; exact hn x (by simp))]
      simp

/-- **C02_desc**: without `&` the child is appended to each parent after one descendant space. -/
theorem C02_desc (ps : List Sel) (name : Sel) (h0 : countAmp name = 0)
    (hps : ∀ p ∈ ps, p ≠ [] ∧ NoTrail p) :
    rootOne ps name = ps.map (fun p => p ++ " " :: name) := by
  unfold rootOne
  simp only [h0, ne_eq, not_true_eq_false, if_false]
  apply List.map_congr_left
  intro p hp
  obtain ⟨hne, hnt⟩ := hps p hp
  have h1 : p.isEmpty = false := by
    cases p with
    | nil => exact absurd rfl hne
    | cons a r => rfl
  have h2 : (p.getLast? != some " ") = true := by
    simp only [bne_iff_ne, ne_eq]; exact hnt
  simp [h1, h2]

/-- **C02_comb**: a descendant space that would precede a written combinator is dropped — the child's
    leading `>`, `+` or `~` replaces the space. -/
theorem C02_comb (a r : Sel) (e : Tok) (he : isEncLike e = true) (ha : NoTrail a) :
    pairwiseFilter (a ++ " " :: e :: r) = pairwiseFilter (a ++ e :: r) := by
  induction a with
  | nil => simp [pairwiseFilter, he]
  | cons x xs ih =>
    cases xs with
    | nil =>
      have hx : x ≠ " " := by simpa [NoTrail] using ha
      have hx' : (x == " ") = false := by simpa using hx
      simp [pairwiseFilter, hx', he]
    | cons y ys =>
      have ha' : NoTrail (y :: ys) := by
        simpa [NoTrail, List.getLast?_cons_cons] using ha
      have := ih ha'
      simp only [List.cons_append] at this ⊢
      simp only [pairwiseFilter, this]

/-! non-vacuity: the combinations the property names, computed by the model -/
example : identParse (some [[".a"], [".b"]]) [".c", ",", ".d", " "]
    = [[".a", " ", ".c"], [".b", " ", ".c"], [".a", " ", ".d"], [".b", " ", ".d"]] := by decide +kernel
example : identParse (some [[".a"]]) [">", ".b", " "] = [[".a", "?>?", ".b"]] := by decide +kernel
example : identParse (some [[".a"], [".b"]]) ["&", " ", "+", "&", " "]
    = [[".a", "?+?", ".a"], [".a", "?+?", ".b"], [".b", "?+?", ".a"], [".b", "?+?", ".b"]] := by decide +kernel
example : compile (.rule [".a"] [.decl ⟨"x", "1"⟩, .rule [".b", " "] [.decl ⟨"y", "2"⟩, .rule [".c"] [.decl ⟨"z", "3"⟩]], .decl ⟨"w", "4"⟩])
    = [⟨[[".a"]], [⟨"x", "1"⟩, ⟨"w", "4"⟩]⟩, ⟨[[".a", " ", ".b"]], [⟨"y", "2"⟩]⟩, ⟨[[".a", " ", ".b", " ", ".c"]], [⟨"z", "3"⟩]⟩] := by
  decide +kernel

end Lessm.Nest
