/-
  C19  At-rule blocks keep their structure.
-/
import Lessm.Model.AtRule
namespace Lessm.AtRule

theorem evalFrames_full (ev : String → String) (fs : List Frame)
    (h : fs.all (fun f => !f.decls.isEmpty) = true) :
    evalFrames ev fs = fs.map (fun f => ⟨f.sel, evalDecls ev f.decls⟩) := by
  induction fs with
  | nil => rfl
  | cons f r ih =>
    simp only [List.all_cons, Bool.and_eq_true, Bool.not_eq_true'] at h
    simp only [evalFrames, h.1, List.map_cons]
    simp [ih h.2]

mutual
/-- **C19**: on every sheet without empty blocks the evaluator returns the same items in the same
    order — same at-rule keyword and name, same frames in the same order with the same selectors,
    same declarations in the same order — with exactly the values mapped through the value
    evaluator: nothing is flattened, hoisted, renamed, prefixed, dropped or duplicated. -/
theorem C19_item (ev : String → String) : ∀ i : Item, Full i = true →
    ∃ j, evalItem ev i = [j] ∧ shape j = shape i
  | .stmt t, _ => ⟨.stmt t, rfl, rfl⟩
  | .keyframes kw n fs, h => by
      simp only [Full, Bool.and_eq_true, Bool.not_eq_true'] at h
      refine ⟨.keyframes kw n (fs.map (fun f => ⟨f.sel, evalDecls ev f.decls⟩)), ?_, ?_⟩
      · simp only [evalItem, evalFrames_full ev fs h.2]
        cases fs with
        | nil => simp at h
        | cons f r => simp
      · simp [shape, evalDecls, Function.comp_def]
  | .declBlock p ds, h => by
      simp only [Full, Bool.not_eq_true'] at h
      exact ⟨.declBlock p (evalDecls ev ds), by simp [evalItem, h], by simp [shape, evalDecls, Function.comp_def]⟩
  | .rule s ds, h => by
      simp only [Full, Bool.not_eq_true'] at h
      exact ⟨.rule s (evalDecls ev ds), by simp [evalItem, h], by simp [shape, evalDecls, Function.comp_def]⟩
  | .media q body, h => by
      simp only [Full, Bool.and_eq_true, Bool.not_eq_true'] at h
      obtain ⟨b, hb, hs⟩ := C19_list ev body h.2
      refine ⟨.media q b, ?_, by simp [shape, hs]⟩
      simp only [evalItem, hb]
      cases body with
      | nil => simp at h
      | cons i is =>
        have : b ≠ [] := by
          intro hb0; subst hb0
          simp [shapeList] at hs
        cases b with
        | nil => exact absurd rfl this
        | cons x xs => simp
theorem C19_list (ev : String → String) : ∀ is : List Item, FullList is = true →
    ∃ js, evalList ev is = js ∧ shapeList js = shapeList is
  | [], _ => ⟨[], rfl, rfl⟩
  | i :: is, h => by
      simp only [FullList, Bool.and_eq_true] at h
      obtain ⟨j, hj, hsj⟩ := C19_item ev i h.1
      obtain ⟨js, hjs, hsjs⟩ := C19_list ev is h.2
      exact ⟨j :: js, by simp [evalList, hj, hjs], by simp [shapeList, hsj, hsjs]⟩
end

/-- **C19_values**: every declaration value of the output is the evaluated source value (and only
    that): declarations are mapped one to one, in order. -/
theorem C19_values (ev : String → String) (ds : List Decl) :
    evalDecls ev ds = ds.map (fun d => ⟨d.prop, ev d.value⟩) := rfl

/-- **C19_stmt**: @charset and non-LESS @import statements are kept verbatim, at their position. -/
theorem C19_stmt (ev : String → String) (a b : List Item) (t : String) :
    evalList ev (a ++ .stmt t :: b) = evalList ev a ++ .stmt t :: evalList ev b := by
  induction a with
  | nil => simp [evalList, evalItem]
  | cons i is ih => simp [evalList, ih]

/-- **C19_identity**: with nothing to evaluate the sheet is a fixed point. -/
theorem C19_identity (is : List Item) (h : FullList is = true) :
    shapeList (evalList id is) = shapeList is := by
  obtain ⟨js, hjs, hs⟩ := C19_list id is h
  rw [hjs, hs]

def exSheet : List Item :=
  [.stmt "@charset \"utf-8\";",
   .keyframes "@-webkit-keyframes" "spin" [⟨"from", [⟨"top", "@a"⟩]⟩, ⟨"50%", [⟨"top", "1px"⟩, ⟨"left", "2px"⟩]⟩, ⟨"to", [⟨"top", "0"⟩]⟩],
   .media "print" [.declBlock "@font-face" [⟨"font-family", "\"x\""⟩], .rule ".a" [⟨"color", "red"⟩]]]
example : FullList exSheet = true := by decide
example : ∃ js, evalList (fun v => if v == "@a" then "5px" else v) exSheet = js ∧ shapeList js = shapeList exSheet :=
  C19_list _ exSheet (by decide)
end Lessm.AtRule
