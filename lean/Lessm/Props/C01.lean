/-
  C01  Plain CSS passes through with its meaning unchanged.

  The plain-CSS statement is assembled from the models of the other properties:
    * selectors       — Lessm.Sel.identParse on a top-level rule (no parent, no `&`) only re-encodes the
                        combinators and drops separator spaces next to them (this file);
    * rules           — Lessm.Nest.compileSheet on rules that contain only declarations is the identity
                        on (selector list, declarations): nothing dropped, duplicated, merged, reordered (this file);
    * whitespace      — the token types after which a descendant / value-separating space must survive are in
                        the regenerated significant-whitespace set (Props/C12: C12_table, C12_gap_tokens);
    * colour literals — Props/C08: C08_fmt, C08_idem;
    * printing        — tokens are emitted verbatim under every option vector (Props/C11: C11_erase, C11_layout).
-/
import Lessm.Model.Nest
import Lessm.Props.C02
namespace Lessm.Nest
open Lessm.Sel

/-- a sheet of plain rules: every top-level item is a rule whose body holds declarations only -/
def PlainRule : Item → Bool
  | .rule _ body => body.all (fun i => match i with | .decl _ => true | _ => false)
  | .decl _ => false

def declsOfBody : List Item → List Decl
  | [] => []
  | .decl d :: r => d :: declsOfBody r
  | _ :: r => declsOfBody r

theorem srcDecls_eq (body : List Item) : srcDecls body = declsOfBody body := by
  induction body with
  | nil => rfl
  | cons i r ih => cases i <;> simp [srcDecls, declsOfBody, ih]

theorem flatList_plain_body (p : Option (List Sel)) (body : List Item)
    (h : body.all (fun i => match i with | .decl _ => true | _ => false) = true) :
    flatList p body = [] := by
  induction body with
  | nil => rfl
  | cons i r ih =>
    cases i with
    | decl d =>
      simp only [List.all_cons, Bool.and_eq_true] at h
      simp [flatList, flat, ih h.2]
    | rule s b => simp at h

/-- **C01_rules**: a sheet of plain rules compiles to exactly those rules: one output rule per source
    rule that has declarations, in source order, each with its own selector list (re-encoded by
    `identParse none`) and exactly its declarations in order. -/
theorem C01_rules (sheet : List Item) (h : sheet.all PlainRule = true) :
    compileSheet sheet =
      sheet.flatMap (fun i => match i with
        | .rule sel body => if declsOfBody body = [] then [] else [⟨identParse none sel, declsOfBody body⟩]
        | .decl _ => []) := by
  rw [C02_sheet]
  induction sheet with
  | nil => rfl
  | cons i r ih =>
    simp only [List.all_cons, Bool.and_eq_true] at h
    cases i with
    | decl d => simp [PlainRule] at h
    | rule sel body =>
      have hb : body.all (fun i => match i with | .decl _ => true | _ => false) = true := by
        simpa [PlainRule] using h.1
      simp only [flatList, flat, List.flatMap_cons, srcDecls_eq, flatList_plain_body _ body hb, List.append_nil]
      rw [ih h.2]

/-- with no enclosing rule a selector is not combined with anything -/
theorem C01_no_parent (toks : List Tok) : identParse none toks = (encode toks).map pairwiseFilter := rfl

/-- one selector (no comma) made of simple tokens and descendant spaces only is kept token by token -/
theorem encodeLoop_plain (toks cur : List Tok) (done : List Sel)
    (h : ∀ t ∈ toks, t ≠ "*" ∧ isComb t = false ∧ t ≠ ",") :
    encodeLoop toks cur done = (done.reverse ++ [cur.reverse ++ toks]) := by
  induction toks generalizing cur with
  | nil => simp [encodeLoop]
  | cons t ts ih =>
    have ht := h t (by simp)
    have h1 : (t == "*") = false := by simpa using ht.1
    have h3 : (t == ",") = false := by simpa using ht.2.2
    simp only [encodeLoop, h1, ht.2.1, h3, Bool.false_eq_true, if_false]
    rw [ih (t :: cur) (fun x hx => h x (by simp [hx]))]
    simp

theorem C01_simple_selector (toks : List Tok) (h : ∀ t ∈ toks, t ≠ "*" ∧ isComb t = false ∧ t ≠ ",") :
    encode toks = [toks] := by
  unfold encode
  rw [encodeLoop_plain toks [] [] h]
  simp

example : compileSheet [.rule [".a", " ", ".b", ",", "p"] [.decl ⟨"color", "red"⟩, .decl ⟨"top", "0"⟩], .rule ["div"] []]
    = [⟨[[".a", " ", ".b"], ["p"]], [⟨"color", "red"⟩, ⟨"top", "0"⟩]⟩] := by decide +kernel

end Lessm.Nest
