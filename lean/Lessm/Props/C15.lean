/-
  C15  Structurally broken input is never compiled silently (the part proved here):
       no token stream whose braces — or parentheses, interpolated-string delimiters, escape
       delimiters — are unbalanced is a sentence of the grammar the code actually runs; hence the
       validating LR driver never accepts it, whatever the tables. An open block or string at end of
       input, a stray `}`, a missing `{`, an unclosed `(` all make `balanced` false.

       The grammar (`Gen.prods`) and the weight certificates (`Gen.…Tw/Nw/Low`) are regenerated from
       the working tree on every run; the certificates are untrusted and re-checked here by `decide`.
-/
import Lessm.Lemmas.CfgLemmas
import Lessm.Gen.Grammar
import Lessm.Gen.Lalr

namespace Lessm.LR
open Lessm.Cfg

/-! ### soundness of the validating driver (generic in grammar and tables) -/

/-- **C15_sound**: whatever the tables, if the validating driver accepts `w` then `w` is a sentence of
    the grammar -/
theorem C15_sound (prods : List Rule) (action goto : Table) (eof start : Nat) (w : List Nat)
    (h : recognise prods action goto eof start w = .accept) :
    Derives ⟨prods⟩ (.nt start) w := by
  unfold recognise at h
  exact run_sound prods action goto eof start w _ _ _ _ h ⟨[], DerivesL.nil, rfl⟩

/-! ### generic consequence of a checked certificate -/

/-- a certificate accepted by the two executable checks, with weight and bound `0` at the start
    symbol, makes every sentence balanced: total weight zero and no prefix negative -/
theorem balanced_of_cert {prods : List Rule} {twL nwL lowL : List (Nat × Int)} {start : Nat}
    (hcert : consistentB prods twL nwL = true ∧ lowOkB prods twL nwL lowL = true
      ∧ look nwL start = 0 ∧ look lowL start = 0)
    (w : List Nat) (h : Derives ⟨prods⟩ (.nt start) w) :
    sumT (look twL) w = 0 ∧ ∀ p, p <+: w → 0 ≤ sumT (look twL) p := by
  obtain ⟨hc, hl, hn, hlo⟩ := hcert
  have hC := consistent_of_B hc
  have hL := lowOk_of_B hl
  constructor
  · have := (derives_weight _ _ _ hC).1 _ _ h
    rw [this]; exact hn
  · intro p hp
    have := (derives_prefix _ _ _ _ hC hL).1 _ _ h p hp
    rw [lowSym, hlo] at this
    exact this

/-- total-weight part alone, from the weight certificate alone -/
theorem weight_zero_of_cert {prods : List Rule} {twL nwL : List (Nat × Int)} {start : Nat}
    (hc : consistentB prods twL nwL = true) (hn : look nwL start = 0)
    (w : List Nat) (h : Derives ⟨prods⟩ (.nt start) w) : sumT (look twL) w = 0 := by
  have := (derives_weight _ _ _ (consistent_of_B hc)).1 _ _ h
  rw [this]; exact hn

/-! ### braces -/

/-- **C15_cert_brace**: the regenerated brace certificate passes both checks on the regenerated
    grammar, and gives the start symbol weight `0` and prefix bound `0` -/
theorem C15_cert_brace :
    consistentB Gen.prods Gen.braceTw Gen.braceNw = true
    ∧ lowOkB Gen.prods Gen.braceTw Gen.braceNw Gen.braceLow = true
    ∧ look Gen.braceNw Gen.startNt = 0 ∧ look Gen.braceLow Gen.startNt = 0 := by decide +kernel

/-- **C15_balanced_brace**: every sentence of the grammar has as many `{` as `}` and no prefix closes
    more than it opened -/
theorem C15_balanced_brace (w : List Nat) (h : Derives Gen.grammar (.nt Gen.startNt) w) :
    sumT (look Gen.braceTw) w = 0 ∧ ∀ p, p <+: w → 0 ≤ sumT (look Gen.braceTw) p :=
  balanced_of_cert C15_cert_brace w h

theorem C15_sentence_balanced_brace {w : List Nat} (h : Derives Gen.grammar (.nt Gen.startNt) w) :
    balanced (look Gen.braceTw) w = true :=
  (balanced_iff _ _).mpr (C15_balanced_brace w h)

/-- **C15_reject_brace**: a token stream with unbalanced braces is never accepted, whatever the tables -/
theorem C15_reject_brace (action goto : Table) (w : List Nat)
    (h : balanced (look Gen.braceTw) w = false) :
    recognise Gen.prods action goto 0 Gen.startNt w ≠ .accept := by
  intro hacc
  have := C15_sentence_balanced_brace (C15_sound _ _ _ _ _ _ hacc)
  rw [h] at this; cases this

/-! ### parentheses -/

theorem C15_cert_paren :
    consistentB Gen.prods Gen.parenTw Gen.parenNw = true
    ∧ lowOkB Gen.prods Gen.parenTw Gen.parenNw Gen.parenLow = true
    ∧ look Gen.parenNw Gen.startNt = 0 ∧ look Gen.parenLow Gen.startNt = 0 := by decide +kernel

theorem C15_balanced_paren (w : List Nat) (h : Derives Gen.grammar (.nt Gen.startNt) w) :
    sumT (look Gen.parenTw) w = 0 ∧ ∀ p, p <+: w → 0 ≤ sumT (look Gen.parenTw) p :=
  balanced_of_cert C15_cert_paren w h

theorem C15_sentence_balanced_paren {w : List Nat} (h : Derives Gen.grammar (.nt Gen.startNt) w) :
    balanced (look Gen.parenTw) w = true :=
  (balanced_iff _ _).mpr (C15_balanced_paren w h)

/-- **C15_reject_paren**: a token stream with unbalanced parentheses is never accepted -/
theorem C15_reject_paren (action goto : Table) (w : List Nat)
    (h : balanced (look Gen.parenTw) w = false) :
    recognise Gen.prods action goto 0 Gen.startNt w ≠ .accept := by
  intro hacc
  have := C15_sentence_balanced_paren (C15_sound _ _ _ _ _ _ hacc)
  rw [h] at this; cases this

/-! ### interpolated strings -/

theorem C15_cert_istr :
    consistentB Gen.prods Gen.istrTw Gen.istrNw = true
    ∧ lowOkB Gen.prods Gen.istrTw Gen.istrNw Gen.istrLow = true
    ∧ look Gen.istrNw Gen.startNt = 0 ∧ look Gen.istrLow Gen.startNt = 0 := by decide +kernel

theorem C15_balanced_istr (w : List Nat) (h : Derives Gen.grammar (.nt Gen.startNt) w) :
    sumT (look Gen.istrTw) w = 0 ∧ ∀ p, p <+: w → 0 ≤ sumT (look Gen.istrTw) p :=
  balanced_of_cert C15_cert_istr w h

theorem C15_sentence_balanced_istr {w : List Nat} (h : Derives Gen.grammar (.nt Gen.startNt) w) :
    balanced (look Gen.istrTw) w = true :=
  (balanced_iff _ _).mpr (C15_balanced_istr w h)

/-- **C15_reject_istr**: a token stream with an unclosed (or unopened) interpolated string is never
    accepted -/
theorem C15_reject_istr (action goto : Table) (w : List Nat)
    (h : balanced (look Gen.istrTw) w = false) :
    recognise Gen.prods action goto 0 Gen.startNt w ≠ .accept := by
  intro hacc
  have := C15_sentence_balanced_istr (C15_sound _ _ _ _ _ _ hacc)
  rw [h] at this; cases this

/-! ### escapes -/

theorem C15_cert_estr :
    consistentB Gen.prods Gen.estrTw Gen.estrNw = true
    ∧ lowOkB Gen.prods Gen.estrTw Gen.estrNw Gen.estrLow = true
    ∧ look Gen.estrNw Gen.startNt = 0 ∧ look Gen.estrLow Gen.startNt = 0 := by decide +kernel

theorem C15_balanced_estr (w : List Nat) (h : Derives Gen.grammar (.nt Gen.startNt) w) :
    sumT (look Gen.estrTw) w = 0 ∧ ∀ p, p <+: w → 0 ≤ sumT (look Gen.estrTw) p :=
  balanced_of_cert C15_cert_estr w h

theorem C15_sentence_balanced_estr {w : List Nat} (h : Derives Gen.grammar (.nt Gen.startNt) w) :
    balanced (look Gen.estrTw) w = true :=
  (balanced_iff _ _).mpr (C15_balanced_estr w h)

/-- **C15_reject_estr**: a token stream with an unclosed (or unopened) escape is never accepted -/
theorem C15_reject_estr (action goto : Table) (w : List Nat)
    (h : balanced (look Gen.estrTw) w = false) :
    recognise Gen.prods action goto 0 Gen.startNt w ≠ .accept := by
  intro hacc
  have := C15_sentence_balanced_estr (C15_sound _ _ _ _ _ _ hacc)
  rw [h] at this; cases this

/-- **C15_reject**: all four families at once -/
theorem C15_reject (action goto : Table) (w : List Nat)
    (h : (balanced (look Gen.braceTw) w && balanced (look Gen.parenTw) w
          && balanced (look Gen.istrTw) w && balanced (look Gen.estrTw) w) = false) :
    recognise Gen.prods action goto 0 Gen.startNt w ≠ .accept := by
  intro hacc
  have hd := C15_sound _ _ _ _ _ _ hacc
  rw [C15_sentence_balanced_brace hd, C15_sentence_balanced_paren hd,
    C15_sentence_balanced_istr hd, C15_sentence_balanced_estr hd] at h
  cases h

/-! ### examples on concrete token streams -/

/-- number of a terminal of the regenerated grammar -/
def tok (name : String) : Nat := Gen.terminals.idxOf name

/-- `.a{color:red;}` -/
def okBlock : List Nat :=
  [tok "css_class", tok "t_bopen", tok "css_property", tok "t_colon", tok "css_ident",
   tok "t_semicolon", tok "t_bclose"]

/-- `.a{color:red;`  — block left open at end of input -/
def openBlock : List Nat :=
  [tok "css_class", tok "t_bopen", tok "css_property", tok "t_colon", tok "css_ident",
   tok "t_semicolon"]

/-- `.a{color:red;}}` — stray closing brace -/
def strayClose : List Nat := okBlock ++ [tok "t_bclose"]

/-- `.a color:red;}` — missing opening brace -/
def missingOpen : List Nat :=
  [tok "css_class", tok "css_property", tok "t_colon", tok "css_ident", tok "t_semicolon",
   tok "t_bclose"]

/-- `.a{color:f(red;}` — unclosed parenthesis -/
def openParen : List Nat :=
  [tok "css_class", tok "t_bopen", tok "css_property", tok "t_colon", tok "css_ident",
   tok "t_popen", tok "css_ident", tok "t_semicolon", tok "t_bclose"]

/-- `.a{color:"x@{v};}` — interpolated string left open -/
def openIstr : List Nat :=
  [tok "css_class", tok "t_bopen", tok "css_property", tok "t_colon", tok "t_isopen",
   tok "css_ident", tok "less_variable", tok "t_semicolon", tok "t_bclose"]

/-- `.a{color:~"x;}` — escape left open -/
def openEstr : List Nat :=
  [tok "css_class", tok "t_bopen", tok "css_property", tok "t_colon", tok "t_eopen",
   tok "css_ident", tok "t_semicolon", tok "t_bclose"]

example : balanced (look Gen.braceTw) okBlock = true := by decide +kernel
example : balanced (look Gen.braceTw) openBlock = false := by decide +kernel
example : balanced (look Gen.braceTw) strayClose = false := by decide +kernel
example : balanced (look Gen.braceTw) missingOpen = false := by decide +kernel
example : balanced (look Gen.parenTw) openParen = false := by decide +kernel
example : balanced (look Gen.istrTw) openIstr = false := by decide +kernel
example : balanced (look Gen.estrTw) openEstr = false := by decide +kernel

/-- whatever tables are plugged in, none of the broken streams is accepted -/
example (action goto : Table) :
    recognise Gen.prods action goto 0 Gen.startNt openBlock ≠ .accept
    ∧ recognise Gen.prods action goto 0 Gen.startNt strayClose ≠ .accept
    ∧ recognise Gen.prods action goto 0 Gen.startNt missingOpen ≠ .accept
    ∧ recognise Gen.prods action goto 0 Gen.startNt openParen ≠ .accept
    ∧ recognise Gen.prods action goto 0 Gen.startNt openIstr ≠ .accept
    ∧ recognise Gen.prods action goto 0 Gen.startNt openEstr ≠ .accept :=
  ⟨C15_reject_brace _ _ _ (by decide +kernel), C15_reject_brace _ _ _ (by decide +kernel),
   C15_reject_brace _ _ _ (by decide +kernel), C15_reject_paren _ _ _ (by decide +kernel),
   C15_reject_istr _ _ _ (by decide +kernel), C15_reject_estr _ _ _ (by decide +kernel)⟩

/-! ### the driver is not vacuous

  `LR.decode` goes through `String.splitOn`/`String.toNat?`, which the kernel does not reduce in this
  Lean version, and a list-based re-decoding of the 50 kB of regenerated tables did not finish under
  `decide +kernel` within ten minutes; so acceptance/rejection with the REAL tables is exercised by the
  test harness (`#eval`: `okBlock` ↦ `accept`, `openBlock` ↦ `error 6`, `strayClose` ↦ `error 7`,
  `missingOpen` ↦ `error 1`, `openParen` ↦ `error 7`), not stated here. A hand-made table for the
  grammar `S → a` shows the driver itself accepting and rejecting. -/

def toyProds : List Rule := [⟨0, [.t 1]⟩]
def toyAction : Table := [(0, [(1, 1)]), (1, [(0, -1)]), (2, [(0, 0)])]
def toyGoto : Table := [(0, [(0, 2)])]

example : recognise toyProds toyAction toyGoto 0 0 [1] = .accept := by decide +kernel
example : recognise toyProds toyAction toyGoto 0 0 [1, 1] = .error 1 := by decide +kernel
example : recognise toyProds toyAction toyGoto 0 0 [] = .error 0 := by decide +kernel
/-- wrong tables (reduce by `S → a` on an empty stack) are caught by the validation: `stuck` -/
example : recognise toyProds [(0, [(0, -1)])] toyGoto 0 0 [] = .stuck := by decide +kernel

end Lessm.LR
