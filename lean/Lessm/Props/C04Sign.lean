/-
  C04 (sign of a negated variable): properties of `foldSigns` (model of `utility.fold_signs`).

  `Clean`            : nothing left to fold
  C04_sign_clean     : the output is clean (no `--3px`)
  C04_sign_fixed     : clean lists are fixed points; idempotence; lists without a sign token are untouched
  C04_sign_value     : closed form of the n-fold negation of a value
  C04_sign_reading   : folding preserves the denoted signed value
  C04_sign_local     : a clean prefix not ending in a sign is copied and does not influence the rest
-/
import Lessm.Model.Sign

namespace Lessm.Sign

/-- nothing left to fold: no two adjacent signs, no sign directly in front of a negative number -/
def Clean : List Tok → Bool
  | .sign :: .sign :: _ => false
  | .sign :: .txt s :: r => !isNegNum s && Clean (.txt s :: r)
  | _ :: r => Clean r
  | [] => true

/-! ## Helper lemmas -/

section Helpers

/-- `a` directly in front of `b` is something `fold_signs` would fold -/
def bad (a b : Tok) : Bool :=
  match a, b with
  | .sign, .sign => true
  | .sign, .txt s => isNegNum s
  | _, _ => false

theorem bad_txt (u : String) (b : Tok) : bad (.txt u) b = false := by
  cases b <;> rfl

theorem Clean_nil : Clean [] = true := by simp [Clean]

theorem Clean_single (a : Tok) : Clean [a] = true := by
  cases a <;> simp [Clean]

theorem Clean_cons_cons (a b : Tok) (r : List Tok) :
    Clean (a :: b :: r) = (!bad a b && Clean (b :: r)) := by
  cases a <;> cases b <;> simp [Clean, bad]

theorem Clean_tail {a : Tok} {r : List Tok} (h : Clean (a :: r) = true) : Clean r = true := by
  cases r with
  | nil => exact Clean_nil
  | cons b r =>
    rw [Clean_cons_cons] at h
    simp only [Bool.and_eq_true] at h
    exact h.2

/-- `Clean` of a list extended at the end -/
theorem Clean_snoc_snoc (l : List Tok) (a t : Tok) :
    Clean (l ++ [a] ++ [t]) = (Clean (l ++ [a]) && !bad a t) := by
  induction l with
  | nil =>
    show Clean [a, t] = (Clean [a] && !bad a t)
    rw [Clean_cons_cons, Clean_single, Clean_single]
    simp
  | cons x l ih =>
    cases l with
    | nil =>
      show Clean [x, a, t] = (Clean [x, a] && !bad a t)
      rw [Clean_cons_cons, Clean_cons_cons a t, Clean_cons_cons x a, Clean_single, Clean_single]
      simp
    | cons y l =>
      show Clean (x :: y :: (l ++ [a] ++ [t])) = (Clean (x :: y :: (l ++ [a])) && !bad a t)
      rw [Clean_cons_cons, Clean_cons_cons x y]
      have ih' : Clean (y :: (l ++ [a] ++ [t])) = (Clean (y :: (l ++ [a])) && !bad a t) := ih
      rw [ih', Bool.and_assoc]

theorem Clean_snoc_left {l : List Tok} {t : Tok} (h : Clean (l ++ [t]) = true) : Clean l = true := by
  cases hl : l.reverse with
  | nil =>
    have : l = [] := by simpa using hl
    subst this; exact Clean_nil
  | cons a m =>
    have : l = m.reverse ++ [a] := by
      have := congrArg List.reverse hl
      simpa using this
    subst this
    rw [Clean_snoc_snoc] at h
    simp only [Bool.and_eq_true] at h
    exact h.1

/-! ### equations of `stepFold` -/

theorem stepFold_nil (t : Tok) : stepFold [] t = [t] := by cases t <;> rfl

theorem stepFold_txt (u : String) (rest : List Tok) (t : Tok) :
    stepFold (.txt u :: rest) t = t :: .txt u :: rest := by cases t <;> rfl

theorem stepFold_sign_sign (rest : List Tok) : stepFold (.sign :: rest) .sign = rest := rfl

theorem stepFold_sign_txt (rest : List Tok) (s : String) :
    stepFold (.sign :: rest) (.txt s)
      = if isNegNum s then .txt (dropSign s) :: rest else .txt s :: .sign :: rest := rfl

theorem foldSigns_eq (ts : List Tok) : foldSigns ts = (ts.foldl stepFold []).reverse := rfl

/-! ### property 1: the accumulator stays clean -/

theorem step_clean (acc : List Tok) (t : Tok) (h : Clean acc.reverse = true) :
    Clean (stepFold acc t).reverse = true := by
  cases acc with
  | nil => rw [stepFold_nil]; exact Clean_single t
  | cons a rest =>
    cases a with
    | txt u =>
      rw [stepFold_txt, List.reverse_cons, List.reverse_cons, Clean_snoc_snoc, bad_txt]
      rw [List.reverse_cons] at h
      simp [h]
    | sign =>
      rw [List.reverse_cons] at h
      cases t with
      | sign => rw [stepFold_sign_sign]; exact Clean_snoc_left h
      | txt s =>
        rw [stepFold_sign_txt]
        by_cases hs : isNegNum s = true
        · rw [if_pos hs, List.reverse_cons]
          cases rest with
          | nil => exact Clean_single _
          | cons b rest =>
            rw [List.reverse_cons] at h ⊢
            rw [Clean_snoc_snoc] at h ⊢
            simp only [Bool.and_eq_true] at h ⊢
            refine ⟨h.1, ?_⟩
            cases b with
            | sign => have := h.2; simp [bad] at this
            | txt u => rw [bad_txt]; rfl
        · rw [if_neg hs, List.reverse_cons, List.reverse_cons, Clean_snoc_snoc, h]
          simp [bad, hs]

theorem foldl_clean (ts : List Tok) (acc : List Tok) (h : Clean acc.reverse = true) :
    Clean (ts.foldl stepFold acc).reverse = true := by
  induction ts generalizing acc with
  | nil => exact h
  | cons t ts ih => exact ih _ (step_clean acc t h)

/-! ### property 2: clean input is copied -/

theorem foldl_fixed (ts : List Tok) (acc : List Tok) (h : Clean ts = true)
    (hs : ∀ rest, acc = .sign :: rest → Clean (.sign :: ts) = true) :
    ts.foldl stepFold acc = ts.reverse ++ acc := by
  induction ts generalizing acc with
  | nil => rfl
  | cons t ts ih =>
    rw [List.foldl_cons, List.reverse_cons, List.append_assoc]
    have hts : Clean ts = true := Clean_tail h
    cases acc with
    | nil =>
      rw [stepFold_nil]
      exact ih [t] hts (fun rest e => by
        have : t = .sign := (List.cons.inj e).1
        subst this; exact h)
    | cons a rest =>
      cases a with
      | txt u =>
        rw [stepFold_txt]
        exact ih _ hts (fun rest' e => by
          have : t = .sign := (List.cons.inj e).1
          subst this; exact h)
      | sign =>
        have hc := hs rest rfl
        rw [Clean_cons_cons] at hc
        simp only [Bool.and_eq_true, Bool.not_eq_true'] at hc
        cases t with
        | sign => have := hc.1; simp [bad] at this
        | txt s =>
          have hn : isNegNum s = false := by have := hc.1; simpa [bad] using this
          rw [stepFold_sign_txt, hn]
          exact ih _ hts (fun rest' e => by cases e)

/-! ### property 5: a tail of the accumulator not starting with a sign is inert -/

theorem stepFold_append (a b : List Tok) (t : Tok) (hb : b.head? ≠ some .sign) :
    stepFold (a ++ b) t = stepFold a t ++ b := by
  cases a with
  | nil =>
    rw [List.nil_append, stepFold_nil]
    cases b with
    | nil => exact stepFold_nil t
    | cons x b =>
      cases x with
      | sign => exact absurd rfl hb
      | txt u => exact stepFold_txt u b t
  | cons x a =>
    cases x with
    | txt u => rw [List.cons_append, stepFold_txt, stepFold_txt]; rfl
    | sign =>
      cases t with
      | sign => rfl
      | txt s =>
        rw [List.cons_append, stepFold_sign_txt, stepFold_sign_txt]
        split <;> rfl

theorem foldl_append_inert (ts : List Tok) (a b : List Tok) (hb : b.head? ≠ some .sign) :
    ts.foldl stepFold (a ++ b) = ts.foldl stepFold a ++ b := by
  induction ts generalizing a with
  | nil => rfl
  | cons t ts ih => rw [List.foldl_cons, List.foldl_cons, stepFold_append a b t hb, ih]

/-! ### property 3: a run of signs -/

theorem foldl_signs (n : Nat) :
    (List.replicate n Tok.sign).foldl stepFold [] = if n % 2 = 1 then [.sign] else [] := by
  induction n with
  | zero => rfl
  | succ n ih =>
    rw [List.replicate_succ', List.foldl_append, ih]
    by_cases h : n % 2 = 1
    · have h' : ¬ (n + 1) % 2 = 1 := by omega
      rw [if_pos h, if_neg h']; rfl
    · have h' : (n + 1) % 2 = 1 := by omega
      rw [if_neg h, if_pos h']; rfl

/-! ### property 4: readings -/

theorem reading_signs (n : Nat) (s : String) :
    reading (List.replicate n .sign ++ [.txt s]) = some (decide (n % 2 = 1), s) := by
  induction n with
  | zero => rfl
  | succ n ih =>
    rw [List.replicate_succ, List.cons_append]
    show (reading (List.replicate n .sign ++ [.txt s])).map (fun p => (!p.1, p.2)) = _
    rw [ih]
    by_cases h : n % 2 = 1
    · have h' : ¬ (n + 1) % 2 = 1 := by omega
      simp [h, h']
    · have h' : (n + 1) % 2 = 1 := by omega
      simp [h, h']

theorem reading_shape (ts : List Tok) (p : Bool × String) (h : reading ts = some p) :
    ∃ n s, ts = List.replicate n .sign ++ [.txt s] := by
  induction ts generalizing p with
  | nil => simp [reading] at h
  | cons t ts ih =>
    cases t with
    | sign =>
      have h' : (reading ts).map (fun p => (!p.1, p.2)) = some p := h
      cases hr : reading ts with
      | none => rw [hr] at h'; cases h'
      | some q =>
        obtain ⟨n, s, e⟩ := ih q hr
        exact ⟨n + 1, s, by rw [e, List.replicate_succ, List.cons_append]⟩
    | txt s =>
      cases ts with
      | nil => exact ⟨0, s, rfl⟩
      | cons x ts => simp [reading] at h

/-- a negative number without its sign is not a negative number -/
theorem isNegNum_dropSign (s : String) (h : isNegNum s = true) : isNegNum (dropSign s) = false := by
  have hd : (dropSign s).toList = s.toList.drop 1 := String.toList_ofList
  unfold isNegNum at h ⊢
  rw [hd]
  generalize s.toList = l at h
  have hminus : isDigit '-' = false := by decide
  split at h
  · rfl
  · next d r _ =>
    show (match d :: r with
      | '-' :: '.' :: d :: _ => isDigit d
      | '-' :: d :: _ => isDigit d
      | _ => false) = false
    split
    · next heq => rw [(List.cons.inj heq).1, hminus] at h; cases h
    · next heq => rw [(List.cons.inj heq).1, hminus] at h; cases h
    · rfl
  · cases h

end Helpers

/-! ## Property theorems -/

/-- the output never contains a double sign or a sign in front of a negative number -/
theorem C04_sign_clean (ts : List Tok) : Clean (foldSigns ts) = true :=
  foldl_clean ts [] Clean_nil

/-- a list with nothing to fold is unchanged -/
theorem C04_sign_fixed (ts : List Tok) (h : Clean ts = true) : foldSigns ts = ts := by
  rw [foldSigns_eq, foldl_fixed ts [] h (fun _ e => by cases e)]
  simp

theorem C04_sign_idem (ts : List Tok) : foldSigns (foldSigns ts) = foldSigns ts :=
  C04_sign_fixed _ (C04_sign_clean ts)

theorem C04_sign_conservative (ts : List Tok) (h : ∀ t ∈ ts, t ≠ .sign) : foldSigns ts = ts := by
  apply C04_sign_fixed
  induction ts with
  | nil => exact Clean_nil
  | cons a r ih =>
    have hr : Clean r = true := ih (fun t ht => h t (List.mem_cons_of_mem _ ht))
    cases a with
    | sign => exact absurd rfl (h .sign (List.mem_cons_self))
    | txt u =>
      cases r with
      | nil => exact Clean_single _
      | cons b r => rw [Clean_cons_cons, bad_txt, hr]; rfl

/-- n-fold negation of a value: parity decides, a negative number loses its sign instead of gaining one -/
theorem C04_sign_value (n : Nat) (s : String) :
    foldSigns (List.replicate n .sign ++ [.txt s])
      = if isNegNum s then (if n % 2 = 1 then [.txt (dropSign s)] else [.txt s])
        else (if n % 2 = 1 then [.sign, .txt s] else [.txt s]) := by
  rw [foldSigns_eq, List.foldl_append, foldl_signs]
  by_cases hn : n % 2 = 1 <;> by_cases hs : isNegNum s = true <;>
    simp [hn, hs, stepFold_sign_txt, stepFold_nil]

/-- folding preserves the denoted signed value -/
theorem C04_sign_reading (ts : List Tok) (p : Bool × String) (h : reading ts = some p) :
    (reading (foldSigns ts)).map normal = some (normal p) := by
  obtain ⟨n, s, e⟩ := reading_shape ts p h
  subst e
  rw [reading_signs] at h
  have hp : p = (decide (n % 2 = 1), s) := (Option.some.inj h).symm
  subst hp
  rw [C04_sign_value]
  by_cases hn : n % 2 = 1 <;> by_cases hs : isNegNum s = true
  · have hd := isNegNum_dropSign s hs
    simp [hn, hs, hd, reading, normal]
  · simp [hn, hs, reading, normal]
  · simp [hn, hs, reading, normal]
  · simp [hn, hs, reading, normal]

/-- folding is local: a clean prefix that does not end in a sign is copied and does not influence what follows -/
theorem C04_sign_local (pre : List Tok) (ts : List Tok) (h : Clean pre = true)
    (hl : pre.getLast? ≠ some .sign) :
    foldSigns (pre ++ ts) = pre ++ foldSigns ts := by
  rw [foldSigns_eq, foldSigns_eq, List.foldl_append,
    foldl_fixed pre [] h (fun _ e => by cases e), List.append_nil]
  have hb : pre.reverse.head? ≠ some .sign := by rw [List.head?_reverse]; exact hl
  have := foldl_append_inert ts [] pre.reverse hb
  rw [List.nil_append] at this
  rw [this, List.reverse_append, List.reverse_reverse]

/-! ## Non-vacuity -/

example : foldSigns [.sign, .txt "-3px"] = [.txt "3px"] := by decide
example : foldSigns [.sign, .sign, .sign, .txt "-.5em"] = [.txt ".5em"] := by decide
example : foldSigns [.txt "1px", .txt "-", .sign, .txt "-3"] = [.txt "1px", .txt "-", .txt "3"] := by decide
example : foldSigns [.sign, .txt "-moz-x"] = [.sign, .txt "-moz-x"] := by decide
example : Clean [.sign, .txt "-3"] = false := by decide

end Lessm.Sign
