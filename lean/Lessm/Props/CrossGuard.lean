/-
  CrossGuard  Two more cross-model theorems (continuing Props/Cross.lean).

    X7  the guard test of the mixin evaluator (`Mixin.guardHolds`, any/all over `Mixin.condHolds`) is the
        verdict of the guard model (`Guard.passes`: lesscpy's token loop `parse_guards` over the token list
        the grammar builds), on the guard translated condition by condition.
    X8  the arithmetic of a mixin call argument `@n + k` (`Mixin.evalArg sc (.arith n k)`) is the
        arithmetic model's `Expr.evalE` on `leaf ⟨q,u⟩ + leaf ⟨k,""⟩`, printed.
-/
import Lessm.Model.Mixin
import Lessm.Model.Expr
import Lessm.Props.C06

namespace Lessm.Cross

/-! ### vocabulary -/

/-- a Mixin guard condition `[not] (@param cmp lit)` as a condition of the guard model; `idx` numbers
    the parameter names -/
def toCond (idx : String → Nat) (c : Mixin.GCond) : Guard.Cond :=
  ⟨c.neg, .param (idx c.param), c.cmp, .lit c.lit⟩

def toGuard (idx : String → Nat) (g : List (List Mixin.GCond)) : Guard.Guard :=
  g.map (List.map (toCond idx))

/-- ρ gives, for every parameter named in the guard, the number the mixin evaluator compares: the
    frame's value if it is numeric, else the scope's -/
def Reads (fr : Vars.Frame) (sc : Vars.Scope) (idx : String → Nat) (ρ : Nat → Rat)
    (g : List (List Mixin.GCond)) : Prop :=
  ∀ ch ∈ g, ∀ c ∈ ch,
    ((Vars.Frame.get fr c.param).bind Mixin.numOf = some (ρ (idx c.param))) ∨
    ((Vars.Frame.get fr c.param).bind Mixin.numOf = none ∧
      (Vars.lookup sc c.param).bind Mixin.numOf = some (ρ (idx c.param)))

/-- how an outcome of the arithmetic model is written in the mixin model's value text -/
def outcomeText : Expr.Outcome → Option String
  | .ok v u => some (toString v.num ++ (if v.den = 1 then "" else "/" ++ toString v.den) ++ u)
  | _ => none

/-! ### helper lemmas -/

theorem all_congr_mem {α : Type} (l : List α) (p q : α → Bool) (h : ∀ x ∈ l, p x = q x) :
    l.all p = l.all q := by
  induction l with
  | nil => rfl
  | cons a r ih =>
    simp only [List.all_cons]
    rw [h a (by simp), ih (fun x hx => h x (by simp [hx]))]

theorem any_congr_mem {α : Type} (l : List α) (p q : α → Bool) (h : ∀ x ∈ l, p x = q x) :
    l.any p = l.any q := by
  induction l with
  | nil => rfl
  | cons a r ih =>
    simp only [List.any_cons]
    rw [h a (by simp), ih (fun x hx => h x (by simp [hx]))]

/-- one condition: when ρ holds the number the mixin evaluator reads, the two verdicts coincide -/
theorem condHolds_toCond (fr : Vars.Frame) (sc : Vars.Scope) (idx : String → Nat) (ρ : Nat → Rat)
    (c : Mixin.GCond)
    (h : ((Vars.Frame.get fr c.param).bind Mixin.numOf = some (ρ (idx c.param))) ∨
      ((Vars.Frame.get fr c.param).bind Mixin.numOf = none ∧
        (Vars.lookup sc c.param).bind Mixin.numOf = some (ρ (idx c.param)))) :
    Mixin.condHolds fr sc c = Guard.condHolds ρ (toCond idx c) := by
  rcases h with h | ⟨h1, h2⟩
  · simp only [Mixin.condHolds, h]
    rfl
  · simp only [Mixin.condHolds, h1, h2]
    rfl

theorem outcomeText_zero : outcomeText (.ok 0 "") = some "0" := by
  decide +kernel

/-- `evalE` on a sum of two leaves: no special case applies, the result is `withUnits` -/
theorem evalE_add_leaves (a b : Expr.Operand) :
    Expr.evalE (.bin .add (.leaf a) (.leaf b)) = Expr.withUnits (a.val + b.val) a.unit b.unit := by
  simp [Expr.evalE, Expr.applyOp]

theorem evalE_sub_leaves (a b : Expr.Operand) :
    Expr.evalE (.bin .sub (.leaf a) (.leaf b)) = Expr.withUnits (a.val - b.val) a.unit b.unit := by
  simp [Expr.evalE, Expr.applyOp]

/-- the value `evalArg` computes once the variable is expanded to a numeric value -/
theorem evalArg_arith_num (sc : Vars.Scope) (n : String) (k : Int) (v : Vars.Value) (q : Rat)
    (hv : Vars.expand sc 64 [.ref n] = .ok v) (hq : Mixin.numOf v = some q) :
    Mixin.evalArg sc (.arith n k) =
      if q + (k : Rat) = 0 then .ok [.lit "0"]
      else .ok [.lit (toString (q + (k : Rat)).num ++
        (if (q + (k : Rat)).den = 1 then "" else "/" ++ toString (q + (k : Rat)).den) ++ Mixin.unitOf v)] := by
  simp only [Mixin.evalArg, hv, Mixin.liftV, bind, Except.bind, hq]

/-- printing of `withUnits r u ""` -/
theorem outcomeText_withUnits (r : Rat) (u : String) :
    outcomeText (Expr.withUnits r u "") =
      some (if r = 0 then "0"
        else toString r.num ++ (if r.den = 1 then "" else "/" ++ toString r.den) ++ u) := by
  unfold Expr.withUnits
  by_cases h : r = 0
  · simp only [h, if_true]
    exact outcomeText_zero
  · simp only [h, if_false]
    by_cases hu : u = ""
    · simp [hu, outcomeText]
    · simp [hu, outcomeText]

/-! ### X7 -/

/-- **X7**: on every well-formed guard (`Guard.GuardOK` of the translated guard: at least one chain, no
    empty chain, no written `!=`) and every assignment ρ that holds, for each parameter the guard names,
    the number the mixin evaluator reads for it (`Reads`), the mixin evaluator's guard test is the
    verdict of lesscpy's token loop on the tokens the grammar builds. -/
theorem mixin_guard_is_guard_model (fr : Vars.Frame) (sc : Vars.Scope) (idx : String → Nat) (ρ : Nat → Rat)
    (g : List (List Mixin.GCond)) (hok : Guard.GuardOK (toGuard idx g))
    (hr : Reads fr sc idx ρ g) :
    Mixin.guardHolds fr sc g = Guard.passes (toGuard idx g) ρ := by
  have hne : g.isEmpty = false := by
    cases g with
    | nil => exact absurd rfl hok.1
    | cons _ _ => rfl
  rw [Guard.C06 _ _ hok]
  unfold Mixin.guardHolds Guard.holds toGuard
  rw [hne, Bool.false_or, List.any_map]
  apply any_congr_mem
  intro ch hch
  simp only [Function.comp, List.all_map]
  apply all_congr_mem
  intro c hc
  exact condHolds_toCond fr sc idx ρ c (hr ch hch c hc)

/-- **X7, complement**: a condition on a parameter that is numeric neither in the frame nor in the
    scope fails, with or without `not` (so its chain fails); no ρ describes it. -/
theorem mixin_guard_nonnumeric_fails (fr : Vars.Frame) (sc : Vars.Scope) (c : Mixin.GCond)
    (h1 : (Vars.Frame.get fr c.param).bind Mixin.numOf = none)
    (h2 : (Vars.lookup sc c.param).bind Mixin.numOf = none) :
    Mixin.condHolds fr sc c = false := by
  simp only [Mixin.condHolds, h1, h2]

/-- the chain of such a condition fails -/
theorem mixin_guard_nonnumeric_chain_fails (fr : Vars.Frame) (sc : Vars.Scope) (ch : List Mixin.GCond)
    (c : Mixin.GCond) (hc : c ∈ ch)
    (h1 : (Vars.Frame.get fr c.param).bind Mixin.numOf = none)
    (h2 : (Vars.lookup sc c.param).bind Mixin.numOf = none) :
    ch.all (Mixin.condHolds fr sc) = false := by
  rw [List.all_eq_false]
  exact ⟨c, hc, by simp [mixin_guard_nonnumeric_fails fr sc c h1 h2]⟩

/-! ### X8 -/

/-- **X8**: when `@n` expands to a numeric value `q` with unit `u`, the argument `@n + k` evaluates to
    the one literal token that prints `Expr.evalE (q u + k)`: the sum, a zero bare, an integral result
    without fraction, the unit of `@n` kept.  All `k : Int` (a negative `k` is `@n - |k|`, see
    `mixin_arith_is_expr_model_sub`), all `q`, `q = 0` included: no extra hypothesis. -/
theorem mixin_arith_is_expr_model (sc : Vars.Scope) (n : String) (k : Int) (v : Vars.Value) (q : Rat)
    (hv : Vars.expand sc 64 [.ref n] = .ok v) (hq : Mixin.numOf v = some q) :
    ∃ s, outcomeText (Expr.evalE (.bin .add (.leaf ⟨q, Mixin.unitOf v⟩) (.leaf ⟨(k : Rat), ""⟩))) = some s
      ∧ Mixin.evalArg sc (.arith n k) = .ok [.lit s] := by
  rw [evalE_add_leaves, outcomeText_withUnits, evalArg_arith_num sc n k v q hv hq]
  refine ⟨_, rfl, ?_⟩
  by_cases h : q + (k : Rat) = 0
  · simp only [h, if_true]
  · simp only [h, if_false]

/-- **X8, as written with a minus**: `@n - j` is the argument `.arith n (-j)`, and the arithmetic
    model's subtraction. -/
theorem mixin_arith_is_expr_model_sub (sc : Vars.Scope) (n : String) (j : Int) (v : Vars.Value) (q : Rat)
    (hv : Vars.expand sc 64 [.ref n] = .ok v) (hq : Mixin.numOf v = some q) :
    ∃ s, outcomeText (Expr.evalE (.bin .sub (.leaf ⟨q, Mixin.unitOf v⟩) (.leaf ⟨(j : Rat), ""⟩))) = some s
      ∧ Mixin.evalArg sc (.arith n (-j)) = .ok [.lit s] := by
  obtain ⟨s, h1, h2⟩ := mixin_arith_is_expr_model sc n (-j) v q hv hq
  refine ⟨s, ?_, h2⟩
  rw [evalE_sub_leaves]
  rw [evalE_add_leaves] at h1
  simpa [Rat.sub_eq_add_neg] using h1

/-! ### non-vacuity -/

/-- `when (@a > 3) and (@b < 10), not (@a = 20)` with `@a` bound in the frame (`25px`), `@b` not numeric
    in the frame (`foo`) and read from the caller's scope (`4`; `tryMixin` tests the guard against the
    callee's frame and the caller's scope) -/
private def exFr : Vars.Frame := [("a", [.lit "25px"]), ("b", [.lit "foo"])]
private def exSc : Vars.Scope := [[("c", [.lit "x"])], [("b", [.lit "4"]), ("a", [.lit "1"])]]
private def exIdx : String → Nat := fun s => if s = "a" then 0 else 1
private def exRho : Nat → Rat := fun i => if i = 0 then 25 else 4
private def exG : List (List Mixin.GCond) :=
  [[⟨false, "a", .gt, 3⟩, ⟨false, "b", .lt, 10⟩], [⟨true, "a", .eq, 20⟩]]

example : Guard.GuardOK (toGuard exIdx exG) := by
  refine ⟨by simp [toGuard, exG], ?_, ?_⟩ <;> simp [toGuard, exG, toCond]

example : Reads exFr exSc exIdx exRho exG := by
  intro ch hch c hc
  simp only [exG, List.mem_cons, List.not_mem_nil, or_false] at hch
  rcases hch with rfl | rfl
  · simp only [List.mem_cons, List.not_mem_nil, or_false] at hc
    rcases hc with rfl | rfl
    · exact Or.inl (by decide +kernel)
    · exact Or.inr (by decide +kernel)
  · simp only [List.mem_cons, List.not_mem_nil, or_false] at hc
    subst hc
    exact Or.inl (by decide +kernel)

example : Mixin.guardHolds exFr exSc exG = true ∧ Guard.passes (toGuard exIdx exG) exRho = true := by
  decide +kernel

/-- the second chain alone (`not (@a = 20)` with `@a = 20`) and the first alone with `@b = 12` fail on both sides -/
example : Mixin.guardHolds [("a", [.lit "20"])] [] [[⟨true, "a", .eq, 20⟩]] = false
    ∧ Guard.passes (toGuard exIdx [[⟨true, "a", .eq, 20⟩]]) (fun _ => 20) = false := by decide +kernel

/-- the complement: `@b` numeric nowhere — the condition fails with and without `not` -/
example : Mixin.condHolds exFr [exFr] ⟨false, "b", .lt, 10⟩ = false
    ∧ Mixin.condHolds exFr [exFr] ⟨true, "b", .lt, 10⟩ = false := by decide +kernel

/-- X8 on `@w: 5px`: `@w + -5` is `0` (bare), `@w + 2` is `7px` -/
private def exW : Vars.Scope := [[("w", [.lit "5px"])]]

example : Vars.expand exW 64 [.ref "w"] = .ok [.lit "5px"] ∧ Mixin.numOf [.lit "5px"] = some 5
    ∧ Mixin.unitOf [.lit "5px"] = "px" := by decide +kernel

example : Mixin.evalArg exW (.arith "w" (-5)) = .ok [.lit "0"]
    ∧ outcomeText (Expr.evalE (.bin .add (.leaf ⟨5, "px"⟩) (.leaf ⟨((-5 : Int) : Rat), ""⟩))) = some "0" := by
  decide +kernel

example : Mixin.evalArg exW (.arith "w" 2) = .ok [.lit "7px"]
    ∧ outcomeText (Expr.evalE (.bin .add (.leaf ⟨5, "px"⟩) (.leaf ⟨((2 : Int) : Rat), ""⟩))) = some "7px" := by
  decide +kernel

/-- a zero operand is no special case of `+` in the arithmetic model: `@z: 0px`, `@z + 3` is `3px` -/
example : Mixin.evalArg [[("z", [.lit "0px"])]] (.arith "z" 3) = .ok [.lit "3px"]
    ∧ outcomeText (Expr.evalE (.bin .add (.leaf ⟨0, "px"⟩) (.leaf ⟨((3 : Int) : Rat), ""⟩))) = some "3px" := by
  decide +kernel

/-- a fractional value: `@h: 0.5em`, `@h + 1` is printed `3/2em` on both sides -/
example : Mixin.evalArg [[("h", [.lit "0.5em"])]] (.arith "h" 1) = .ok [.lit "3/2em"]
    ∧ outcomeText (Expr.evalE (.bin .add (.leaf ⟨1/2, "em"⟩) (.leaf ⟨((1 : Int) : Rat), ""⟩))) = some "3/2em" := by
  decide +kernel

end Lessm.Cross
