/-
  C12 (character level)  The lexer front end: regular-expression matcher, ply's token loop, the stream the parser sees.

  Models: `Lessm/Model/Regex.lean` (`Re.m`, `repLoop`, `Re.matchPrefix`, `Re.nullable`, `Re.repsOK`),
          `Lessm/Model/Lex0.lean` (`step`, `lexAll`, `action`, `classifyIdent`, `front`, `frontEnd`),
          `Lessm/Gen/LexRules.lean` (GENERATED: `Lessm.Gen.lexRules`, the rules of the lexer object of the source tree;
          the facts about it below are `decide +kernel`, so they are re-checked whenever the file is regenerated).
  Vocabulary (`Lessm/Lemmas/Lex0Lemmas.lean`):
    `AgreeOn s k k'`    two continuations agree on every suffix of `s`;
    `charsOf items`     the concatenated lexemes of a raw stream (`items.flatMap (·.1.lexeme.toList)`);
    `countingFns`       the five rule functions that add the newlines of their lexeme to `lineno`;
    `FRes.toks`         the token list of a `front` result;   `semiTok n`  the injected `;` (`lexeme = ""`, line `n`);
    `FromStep tb t`     `t` is the token of some turn of `step tb`.
  Only theorems and examples here (plus the example tables `Ex.*`); helper lemmas are in the Lemmas file.
  Non-vacuity examples on the real rules are evaluated by the kernel (`decide +kernel`).
-/
import Lessm.Lemmas.Lex0Lemmas
import Lessm.Gen.LexRules
import Lessm.Gen.Words

/-! ## example data -/
namespace Lessm.Lex0.Ex
open Lessm.Rx

/-- the real rules, literals and reserved words of the source tree; two properties and two elements -/
def tb : Tables :=
  { rules := Lessm.Gen.lexRules, literals := Lessm.Gen.literals.toList, reserved := Lessm.Gen.reserved,
    properties := ["color", "b"], elements := ["a", "div"] }

/-- three hand-written rules and one literal -/
def tiny : Tables :=
  { rules := [("INITIAL", [⟨"t_newline", "t_ws", .rep 1 none true (.ch '\n')⟩,
                           ⟨"t_css_ident", "css_ident", .rep 1 none true (.cls false [.word])⟩,
                           ⟨"t_t_bclose", "t_bclose", .ch '}'⟩])],
    literals := ['{'], reserved := [], properties := [], elements := [] }

/-- a table ply would refuse: its rule matches the empty string -/
def bad : Tables :=
  { rules := [("INITIAL", [⟨"t_a", "a", .rep 0 none true (.ch 'a')⟩])],
    literals := [], reserved := [], properties := [], elements := [] }

end Lessm.Lex0.Ex

/-! ## R  the matcher -/
namespace Lessm.Rx

/-- **R1 `m_suffix`**: whenever `r.m s k` succeeds, the continuation succeeded on a suffix of the input: the matcher
    never invents, reorders or skips characters. -/
theorem m_suffix {α : Type} (r : Re) (s : List Char) (k : List Char → Option α) (x : α)
    (h : r.m s k = some x) : ∃ p rest, s = p ++ rest ∧ k rest = some x :=
  m_suffix_lem r s k x h

example : (Re.seq (.ch 'a') (.rep 0 none true (.ch 'b'))).m "abbc".toList some = some ['c'] := by decide +kernel
example : ∃ p rest, "abbc".toList = p ++ rest ∧ some rest = some ['c'] :=
  m_suffix (Re.seq (.ch 'a') (.rep 0 none true (.ch 'b'))) _ some _ (by decide +kernel)

/-- **R1 for the loop**: the same for `repLoop`, given it for the body `step`. -/
theorem repLoop_suffix {α : Type} {step : List Char → (List Char → Option α) → Option α}
    (hstep : ∀ s k x, step s k = some x → ∃ p rest, s = p ++ rest ∧ k rest = some x)
    (greedy : Bool) (fuel min : Nat) (max : Option Nat) (s : List Char) (k : List Char → Option α) (x : α)
    (h : repLoop step greedy fuel min max s k = some x) : ∃ p rest, s = p ++ rest ∧ k rest = some x :=
  repLoop_suffix_lem hstep greedy fuel min max s k x h

example : repLoop (fun s k => (Re.ch 'b').m s k) false 5 1 (some 2) "bbbc".toList some = some ['b', 'b', 'c'] := by
  decide +kernel

/-- **R1 corollary `matchPrefix_suffix`**: `re.match` returns a suffix of its input. -/
theorem matchPrefix_suffix (r : Re) (s rest : List Char) (h : r.matchPrefix s = some rest) : ∃ p, s = p ++ rest :=
  matchPrefix_suffix_lem r s rest h

example : (Re.rep 1 none true (.cls false [.word])).matchPrefix "ab{".toList = some ['{'] := by decide +kernel

/-- **R2 `m_progress`**: an expression that is not nullable consumes at least one character on every successful path. -/
theorem m_progress {α : Type} (r : Re) (s : List Char) (k : List Char → Option α) (x : α)
    (hn : r.nullable = false) (h : r.m s k = some x) :
    ∃ p rest, p ≠ [] ∧ s = p ++ rest ∧ k rest = some x :=
  m_progress_lem r s k x hn h

example : (Re.seq (.rep 0 none true (.ch 'b')) (.ch 'a')).nullable = false := by decide
/-- the hypothesis is needed: a nullable expression may succeed without consuming -/
example : (Re.rep 0 none true (.ch 'b')).matchPrefix ['a'] = some ['a'] := by decide +kernel

/-- **R2 corollary `matchPrefix_progress`**: a match of a non-nullable expression is non-empty. -/
theorem matchPrefix_progress (r : Re) (s rest : List Char) (hn : r.nullable = false)
    (h : r.matchPrefix s = some rest) : rest.length < s.length :=
  matchPrefix_progress_lem r s rest hn h

example : ['{'].length < "ab{".toList.length :=
  matchPrefix_progress (Re.rep 1 none true (.cls false [.word])) _ _ (by decide) (by decide +kernel)

/-- **R3 `m_mono_k`**: the result depends on the continuation only through its values on suffixes of the input. -/
theorem m_mono_k {α : Type} (r : Re) (s : List Char) (k k' : List Char → Option α)
    (h : AgreeOn s k k') : r.m s k = r.m s k' :=
  m_mono_k_lem r s k k' h

example : AgreeOn ['a'] (fun s => if s.length ≤ 1 then some s else none) some := by
  intro p rest h
  have : rest.length ≤ 1 := by
    have := congrArg List.length h
    simp only [List.length_cons, List.length_nil, List.length_append] at this
    omega
  simp [this]

/-- **R4** exactness, one character. -/
theorem matchPrefix_ch (c : Char) (t : List Char) : (Re.ch c).matchPrefix (c :: t) = some t :=
  matchPrefix_ch_lem c t

/-- **R4** exactness, sequence: the second part is matched behind every way the first part matches, in order. -/
theorem matchPrefix_seq (a b : Re) (s : List Char) :
    (Re.seq a b).matchPrefix s = a.m s (fun s' => b.matchPrefix s') :=
  matchPrefix_seq_lem a b s

/-- **R4** exactness, alternation: the left alternative first. -/
theorem matchPrefix_alt (a b : Re) (s : List Char) :
    (Re.alt a b).matchPrefix s = (match a.matchPrefix s with | some r => some r | none => b.matchPrefix s) :=
  matchPrefix_alt_lem a b s

/-- "first alternative, not longest": `a|ab` on "ab" leaves "b" -/
example : (Re.alt (.ch 'a') (.seq (.ch 'a') (.ch 'b'))).matchPrefix ['a', 'b'] = some ['b'] := by decide +kernel

/-- **R4** exactness, greedy star of a class: on `xs ++ t`, all of `xs` in the class and the first character of `t` (if
    there is one) outside it, `[items]*` leaves exactly `t` — the maximal run. -/
theorem cls_star_maximal (items : List CC) (xs t : List Char)
    (hxs : ∀ x ∈ xs, items.any (ccMatch x) = true)
    (ht : ∀ y ∈ t.head?, items.any (ccMatch y) = false) :
    (Re.rep 0 none true (.cls false items)).matchPrefix (xs ++ t) = some t :=
  cls_star_maximal_lem items xs t hxs ht

example : (Re.rep 0 none true (.cls false [.digit])).matchPrefix (['1', '2'] ++ ['p', 'x']) = some ['p', 'x'] :=
  cls_star_maximal [.digit] ['1', '2'] ['p', 'x'] (by decide) (by decide)

end Lessm.Rx

/-! ## G  the generated rules -/
namespace Lessm.Gen
open Lessm.Rx Lessm.Lex0

/-- **G1 `lexRules_nonnullable`**: no rule of the lexer of the source tree can match the empty string (ply demands that). -/
theorem lexRules_nonnullable : ∀ p ∈ lexRules, ∀ r ∈ p.2, r.re.nullable = false := by decide +kernel

/-- **G2 `lexRules_repsOK`**: every repeated body in every rule consumes input, so the matcher's "an iteration must
    consume" cut never discards a match Python would find. -/
theorem lexRules_repsOK : ∀ p ∈ lexRules, ∀ r ∈ p.2, r.re.repsOK = true := by decide +kernel

/-- the statements are about something: there are rules, every state has some, and INITIAL is among the states -/
example : lexRules ≠ [] ∧ (∀ p ∈ lexRules, p.2 ≠ []) ∧ "INITIAL" ∈ lexRules.map (·.1) := by decide +kernel
/-- and they can fail: the table `Ex.bad` is rejected -/
example : ¬ ∀ p ∈ Lessm.Lex0.Ex.bad.rules, ∀ r ∈ p.2, r.re.nullable = false := by decide +kernel

end Lessm.Gen

/-! ## L  the lexer -/
namespace Lessm.Lex0
open Lessm.Rx

/-- **L1 `step_split`**: a turn of the token loop that hands out a token (rule match or literal character) splits the
    input into the token's lexeme — never empty — and the rest. -/
theorem step_split {tb : Tables} {st st' : LState} {s rest : List Char} {t : Tok} {emit : Bool}
    (h : step tb st s = .tok t emit st' rest) : s = t.lexeme.toList ++ rest ∧ t.lexeme.toList ≠ [] :=
  step_split_lem h

example : (match step Ex.tb {} ".a{b:c}".toList with
    | .tok t emit st' rest => t.lexeme == ".a" && t.type == "css_class" && emit && st'.cur == "iselector"
        && rest == "{b:c}".toList
    | _ => false) = true := by decide +kernel
/-- a literal character -/
example : (match step Ex.tb {} "+1".toList with
    | .tok t _ _ rest => t.lexeme == "+" && t.type == "+" && rest == ['1']
    | _ => false) = true := by decide +kernel

/-- **L2 `lexAll_partition`**: the lexemes of all items (tokens and comments) concatenate to a prefix of the input, and
    to exactly the input if the lexer ran to the end: nothing is lost, nothing invented.  If the lexer stopped at an
    illegal character, that character is the first one behind the prefix. -/
theorem lexAll_partition (tb : Tables) (st : LState) (s : List Char) :
    ∃ rest, s = (lexAll tb st s).items.flatMap (fun it => it.1.lexeme.toList) ++ rest ∧
      (∀ items, lexAll tb st s = .ok items → rest = []) ∧
      (∀ items c l, lexAll tb st s = .illegal items c l → ∃ rest', rest = c :: rest') :=
  lexAll_partition_full tb st s

example : (lexAll Ex.tb {} ".a{b:c}".toList).items.map (·.1.lexeme) = [".a", "{", "b", ":", "c", "}"] := by
  decide +kernel
example : (match lexAll Ex.tb {} "a{b:c}$x".toList with
    | .illegal items c l => charsOf items == "a{b:c}".toList && c == '$' && l == 1
    | _ => false) = true := by decide +kernel
/-- the comment is an item (not handed out), so its characters are accounted for -/
example : (lexAll Ex.tb {} "a/*x*/b".toList).items.map (fun it => (it.1.lexeme, it.2.1))
    = [("a", true), ("/*x*/", false), ("b", true)] := by decide +kernel

/-- **L3 `lexAll_never_stuck`**: if no rule is nullable the loop never gets stuck (every turn consumes input, hands
    out an illegal character, or the input is exhausted). -/
theorem lexAll_never_stuck {tb : Tables} (hnn : ∀ p ∈ tb.rules, ∀ r ∈ p.2, r.re.nullable = false)
    (st : LState) (s : List Char) (items : List Item) : lexAll tb st s ≠ .stuck items :=
  lexAll_never_stuck_of hnn st s items

/-- **L3 instantiated with G1**: the tables built from the rules of the source tree, whatever the literals, reserved
    words, properties and elements. -/
theorem lexAll_never_stuck_gen (literals : List Char) (reserved : List (String × String))
    (properties elements : List String) (st : LState) (s : List Char) (items : List Item) :
    lexAll { rules := Lessm.Gen.lexRules, literals, reserved, properties, elements } st s ≠ .stuck items :=
  lexAll_never_stuck_of Lessm.Gen.lexRules_nonnullable st s items

/-- the same for the stream the parser sees -/
theorem front_never_stuck_gen (literals : List Char) (reserved : List (String × String))
    (properties elements : List String) (sig : List String) (last : Option String) (st : LState) (s : List Char)
    (x : List Tok) :
    front { rules := Lessm.Gen.lexRules, literals, reserved, properties, elements } sig last st s ≠ .stuck x :=
  front_never_stuck_of Lessm.Gen.lexRules_nonnullable sig last st s x

/-- the hypothesis is needed: with a nullable rule the loop does get stuck -/
example : (match lexAll Ex.bad {} "aab".toList with | .stuck items => items.length == 1 | _ => false) = true := by
  decide +kernel

/-- **L4 `action_lineno`**: a rule function advances the line counter by the newlines of the lexeme if it is one of
    t_newline, t_css_comment, t_css_string, t_istringquotes_css_string, t_istringapostrophe_css_string (`countingFns`),
    and leaves it alone otherwise (in particular `push`, `pop`, `classifyIdent` do not touch it). -/
theorem action_lineno (tb : Tables) (st : LState) (r : Rule) (lexeme : List Char) :
    (action tb st r lexeme).2.2.2.lineno = st.lineno + (if r.fn ∈ countingFns then countNl lexeme else 0) :=
  action_lineno_lem tb st r lexeme

example : countingFns = ["t_newline", "t_css_comment", "t_css_string", "t_istringquotes_css_string",
    "t_istringapostrophe_css_string"] := rfl
example : (action Ex.tb {} ⟨"t_css_comment", "css_comment", .eps⟩ "/*\n\n*/".toList).2.2.2.lineno = 3 := by
  decide +kernel
example : (action Ex.tb {} ⟨"t_less_comment", "less_comment", .eps⟩ "//\n".toList).2.2.2.lineno = 1 := by
  decide +kernel

/-- **L4** `push`, `pop` and `classifyIdent` do not touch the line counter. -/
theorem lineno_untouched (tb : Tables) (st : LState) (s : String) :
    (push st s).lineno = st.lineno ∧ (pop st).lineno = st.lineno ∧ (classifyIdent tb st s).2.lineno = st.lineno :=
  ⟨push_lineno st s, pop_lineno st, classifyIdent_lineno tb st s⟩

/-- **L4 `step_lineno`**: token.lineno is the counter *before* the rule function runs; the counter after the turn is
    the counter before plus the newlines of the lexeme (rule with a counting function) or plus nothing (any other rule,
    literal characters); so always between `st.lineno` and `st.lineno + countNl lexeme`. -/
theorem step_lineno {tb : Tables} {st st' : LState} {s rest : List Char} {t : Tok} {emit : Bool}
    (h : step tb st s = .tok t emit st' rest) :
    t.line = st.lineno ∧
    st'.lineno = st.lineno + (match firstMatch (rulesOf tb st.cur) s with
      | some (r, _) => if r.fn ∈ countingFns then countNl t.lexeme.toList else 0
      | none => 0) ∧
    st.lineno ≤ st'.lineno ∧ st'.lineno ≤ st.lineno + countNl t.lexeme.toList :=
  ⟨(step_lineno_delta h).1, (step_lineno_delta h).2, (step_lineno_lem h).2.1, (step_lineno_lem h).2.2⟩

/-- **L4 `lexAll_lines`**: in the raw stream of `lexAll tb st s`
    (1) the first item's line is `st.lineno`;
    (2) every further item's line is the counter of the lexer state after the item before it;
    (3) lines never decrease;
    (4) the `i`-th item's line is at least `st.lineno` and at most `st.lineno` plus the number of newlines among the
        characters consumed before it (`charsOf (items.take i)`, a prefix of `s` by `lexAll_item_offset`). -/
theorem lexAll_lines (tb : Tables) (st : LState) (s : List Char) :
    (∀ it, (lexAll tb st s).items.head? = some it → it.1.line = st.lineno) ∧
    (∀ i a b, (lexAll tb st s).items[i]? = some a → (lexAll tb st s).items[i + 1]? = some b →
        b.1.line = a.2.2.lineno) ∧
    (∀ (i j : Nat) (a b : Item), i ≤ j → (lexAll tb st s).items[i]? = some a → (lexAll tb st s).items[j]? = some b →
        a.1.line ≤ b.1.line) ∧
    (∀ i a, (lexAll tb st s).items[i]? = some a →
        st.lineno ≤ a.1.line ∧ a.1.line ≤ st.lineno + countNl (charsOf ((lexAll tb st s).items.take i))) :=
  have h := lexAll_linesOK tb st s
  ⟨fun _ hh => h.head hh, fun _ _ _ ha hb => h.next ha hb, fun _ _ _ _ hij ha hb => h.mono hij ha hb,
   fun _ _ ha => ⟨(h.at ha).1, (h.at ha).2.1⟩⟩

/-- **L4 `lexAll_lines_exact`**: if every item before the `i`-th advanced the counter by exactly the newlines of its
    lexeme (by `step_lineno`: it contains no newline, or it comes from one of the five counting rule functions), the
    `i`-th item's line is exactly `st.lineno` plus the newlines consumed before it. -/
theorem lexAll_lines_exact (tb : Tables) (st : LState) (s : List Char) (i : Nat) (a : Item)
    (ha : (lexAll tb st s).items[i]? = some a)
    (hex : ∀ j b, j < i → (lexAll tb st s).items[j]? = some b →
        b.2.2.lineno = b.1.line + countNl b.1.lexeme.toList) :
    a.1.line = st.lineno + countNl (charsOf ((lexAll tb st s).items.take i)) :=
  ((lexAll_linesOK tb st s).at ha).2.2 hex

/-- **L4 `lexAll_item_offset`**: the characters consumed before the `i`-th item are a prefix of the input. -/
theorem lexAll_item_offset (tb : Tables) (st : LState) (s : List Char) (i : Nat) :
    ∃ rest, s = charsOf ((lexAll tb st s).items.take i) ++ rest := by
  obtain ⟨rest, h, -⟩ := lexAll_partition_full tb st s
  refine ⟨charsOf ((lexAll tb st s).items.drop i) ++ rest, ?_⟩
  rw [← List.append_assoc]
  simp only [charsOf, ← List.flatMap_append, List.take_append_drop]
  exact h

/-- lines on the real rules: a comment over three lines, a `//` comment, newlines as tokens -/
example : (lexAll Ex.tb {} "a {\n  color: red /* x\n\n y */\n}\n// c\n.b{}".toList).items.map
      (fun it => (it.1.type, it.1.line, it.2.2.lineno))
    = [("css_dom", 1, 1), ("t_ws", 1, 1), ("t_bopen", 1, 1), ("t_ws", 1, 2), ("t_ws", 2, 2), ("css_property", 2, 2),
       ("t_colon", 2, 2), ("t_ws", 2, 2), ("css_ident", 2, 2), ("t_ws", 2, 2), ("css_comment", 2, 4), ("t_ws", 4, 5),
       ("t_bclose", 5, 5), ("t_ws", 5, 6), ("less_comment", 6, 6), ("t_ws", 6, 7), ("css_class", 7, 7),
       ("t_bopen", 7, 7), ("t_bclose", 7, 7)] := by decide +kernel
/-- the three hand-written rules: two newlines in one token -/
example : (lexAll Ex.tiny {} "ab{\n\nc}".toList).items.map (fun it => (it.1.type, it.1.lexeme, it.1.line))
    = [("css_ident", "ab", 1), ("{", "{", 1), ("t_ws", "\n\n", 1), ("css_ident", "c", 3), ("t_bclose", "}", 3)] := by
  decide +kernel
/-- the inequality in (4) can be strict: a rule function outside `countingFns` whose lexeme holds a newline
    (here a table that names its newline rule differently) does not advance the counter -/
example : (lexAll { Ex.tiny with rules := [("INITIAL", [⟨"t_nl", "t_ws", .ch '\n'⟩, ⟨"t_x", "x", .ch 'x'⟩])] } {}
      "\nx".toList).items.map (fun it => (it.1.type, it.1.line)) = [("t_ws", 1), ("x", 1)] := by decide +kernel

/-- **L5a `front_semicolon_before_brace`**: in the output of `front`, a token without characters (`lexeme = ""`) is an
    injected `;` — type "t_semicolon", value ";", the line of the next token — and the next token exists, has type
    "t_bclose" and is a token of the loop; every token with characters is a token of the loop (`FromStep`), and tokens
    of the loop have characters. -/
theorem front_semicolon_before_brace (tb : Tables) (sig : List String) (last : Option String) (st : LState)
    (s : List Char) :
    (∀ i q, (front tb sig last st s).toks[i]? = some q → q.lexeme = "" →
        ∃ p, (front tb sig last st s).toks[i + 1]? = some p ∧ p.type = "t_bclose" ∧ FromStep tb p ∧
          q = ⟨"t_semicolon", ";", p.line, ""⟩) ∧
    (∀ t ∈ (front tb sig last st s).toks, t.lexeme ≠ "" → FromStep tb t) ∧
    (∀ t, FromStep tb t → t.lexeme ≠ "") := by
  have h := front_out tb sig last st s
  refine ⟨fun i q hi hq => h.semi hi hq, fun t ht hne => ?_, fun t ht => ht.lexeme_ne⟩
  rcases h.origin ht with hfs | ⟨n, rfl⟩
  · exact hfs
  · exact absurd rfl hne

example : (frontEnd Ex.tb Lessm.Gen.significantWs ".a {b: c}").toks.map (fun t => (t.type, t.lexeme))
    = [("css_class", ".a"), ("t_ws", " "), ("t_bopen", "{"), ("css_property", "b"), ("t_colon", ":"),
       ("css_ident", "c"), ("t_semicolon", ""), ("t_bclose", "}")] := by decide +kernel
/-- no `;` is put behind `{`, `}` or `;` -/
example : (frontEnd Ex.tb Lessm.Gen.significantWs "a{b:c;}div{}").toks.map (fun t => (t.type, t.lexeme))
    = [("css_dom", "a"), ("t_bopen", "{"), ("css_property", "b"), ("t_colon", ":"), ("css_ident", "c"),
       ("t_semicolon", ";"), ("t_bclose", "}"), ("css_dom", "div"), ("t_bopen", "{"), ("t_bclose", "}")] := by
  decide +kernel

/-- **L5b `front_no_leading_ws`**: the first token the parser sees is never a blank. -/
theorem front_no_leading_ws (tb : Tables) (sig : List String) (text : String) (t : Tok)
    (h : (frontEnd tb sig text).toks.head? = some t) : t.type ≠ "t_ws" := by
  intro hw
  have hout := front_out tb sig none {} text.toList
  rw [List.head?_eq_getElem?] at h
  rcases hout.ws (i := 0) h hw with ⟨-, l, hl, -⟩ | ⟨j, p, hj, -⟩
  · cases hl
  · omega

example : (frontEnd Ex.tb Lessm.Gen.significantWs "  \n .a .b{color:red}").toks.map (fun t => (t.type, t.lexeme))
    = [("css_class", ".a"), ("t_ws", " "), ("css_class", ".b"), ("t_bopen", "{"), ("css_property", "color"),
       ("t_colon", ":"), ("css_ident", "red"), ("t_semicolon", ""), ("t_bclose", "}")] := by decide +kernel

/-- **L5c `front_ws_after_sig`** (general form): a blank in the output of `front` stands at the very beginning only if
    `last` is significant; otherwise directly behind a token of significant type — or, the one exception, behind a `}`
    that had a `;` injected before it (the `;` stays "the last token"), which needs "t_semicolon" to be significant. -/
theorem front_ws_after_sig_gen (tb : Tables) (sig : List String) (last : Option String) (st : LState)
    (s : List Char) (i : Nat) (w : Tok) (hi : (front tb sig last st s).toks[i]? = some w) (hw : w.type = "t_ws") :
    (i = 0 ∧ ∃ l, last = some l ∧ l ∈ sig) ∨
    (∃ j p, i = j + 1 ∧ (front tb sig last st s).toks[j]? = some p ∧
      (p.type ∈ sig ∨ (p.type = "t_bclose" ∧ "t_semicolon" ∈ sig ∧
        ∃ j' n, j = j' + 1 ∧ (front tb sig last st s).toks[j']? = some ⟨"t_semicolon", ";", n, ""⟩))) :=
  (front_out tb sig last st s).ws hi hw

/-- **L5c `front_ws_after_sig`**: if "t_semicolon" is not significant, or "t_bclose" is (the list of the source tree
    holds neither), every blank the parser sees is immediately preceded by a token of significant type. -/
theorem front_ws_after_sig (tb : Tables) (sig : List String) (hsig : "t_semicolon" ∈ sig → "t_bclose" ∈ sig)
    (text : String) (i : Nat) (w : Tok) (hi : (frontEnd tb sig text).toks[i]? = some w) (hw : w.type = "t_ws") :
    ∃ j p, i = j + 1 ∧ (frontEnd tb sig text).toks[j]? = some p ∧ p.type ∈ sig := by
  rcases (front_out tb sig none {} text.toList).ws hi hw with ⟨-, l, hl, -⟩ | ⟨j, p, hj, hp, hps⟩
  · cases hl
  · refine ⟨j, p, hj, hp, ?_⟩
    rcases hps with hps | ⟨h1, h2, -⟩
    · exact hps
    · rw [h1]
      exact hsig h2

/-- the side condition holds for the list of the source tree -/
theorem significantWs_side : "t_semicolon" ∈ Lessm.Gen.significantWs → "t_bclose" ∈ Lessm.Gen.significantWs := by
  decide +kernel

/-- blanks behind `{`, `:`, and at the start are dropped, the one behind `.a` (css_class, significant) is kept -/
example : (frontEnd Ex.tb Lessm.Gen.significantWs " .a { color : red }").toks.map (fun t => (t.type, t.lexeme))
    = [("css_class", ".a"), ("t_ws", " "), ("t_bopen", "{"), ("css_property", "color"), ("t_ws", " "), ("t_colon", ":"),
       ("css_ident", "red"), ("t_ws", " "), ("t_semicolon", ""), ("t_bclose", "}")] := by decide +kernel
/-- the side condition is needed: were "t_semicolon" significant, a blank would follow a `}` -/
example : (frontEnd Ex.tb ["t_semicolon"] "a{b:c} ").toks.map (fun t => t.type)
    = ["css_dom", "t_bopen", "css_property", "t_colon", "css_ident", "t_semicolon", "t_bclose", "t_ws"] := by
  decide +kernel

/-- **L5d `front_partition_le`**: the characters of the tokens the parser sees are a subsequence of the input (dropped
    blanks and comments are missing, injected `;` add nothing); in particular there are at most as many. -/
theorem front_partition_le (tb : Tables) (sig : List String) (last : Option String) (st : LState) (s : List Char) :
    ((front tb sig last st s).toks.flatMap (fun t => t.lexeme.toList)).Sublist s ∧
    ((front tb sig last st s).toks.flatMap (fun t => t.lexeme.toList)).length ≤ s.length :=
  ⟨front_sublist tb sig last st s, (front_sublist tb sig last st s).length_le⟩

example : String.ofList ((frontEnd Ex.tb Lessm.Gen.significantWs " .a { color : red } /* c */").toks.flatMap
    (fun t => t.lexeme.toList)) = ".a {color :red }" := by decide +kernel

end Lessm.Lex0
