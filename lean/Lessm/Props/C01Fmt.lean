/-
  Properties of the character-level model of `Identifier.fmt` (`Lessm.Model.IdentFmt`).
-/
import Lessm.Model.IdentFmt

namespace Lessm.IdentFmt

section Helpers

theorem replaceChar_append (c : Char) (b x y : List Char) :
    replaceChar c b (x ++ y) = replaceChar c b x ++ replaceChar c b y := by
  induction x with
  | nil => simp [replaceChar]
  | cons a x ih =>
    simp only [List.cons_append, replaceChar]
    split <;> simp [ih]

theorem replaceChar_of_not_mem (c : Char) (b t : List Char) (h : c ∉ t) :
    replaceChar c b t = t := by
  induction t with
  | nil => rfl
  | cons a t ih =>
    simp only [List.mem_cons, not_or] at h
    have hac : (a == c) = false := by
      simp only [beq_eq_false_iff_ne, ne_eq]
      exact fun e => h.1 e.symm
    simp [replaceChar, hac, ih h.2]

theorem markOf_eq_some (t : List Char) (c : Char) :
    markOf t = some c ↔ (t = ['?', c, '?'] ∧ (c = '>' ∨ c = '+' ∨ c = '~')) := by
  constructor
  · intro h
    unfold markOf at h
    split at h
    · split at h
      · rename_i hc
        simp at h; subst h
        simp only [Bool.or_eq_true, beq_iff_eq] at hc
        exact ⟨rfl, by rcases hc with (hc | hc) | hc <;> simp [hc]⟩
      · simp at h
    · simp at h
  · rintro ⟨rfl, h⟩
    rcases h with rfl | rfl | rfl <;> rfl

/-- the fuel of `collapseOutsideAux` is irrelevant once it is at least the length of the remaining text -/
theorem collapseOutsideAux_fuel : ∀ (f1 f2 : Nat) (acc s : List Char), s.length ≤ f1 → s.length ≤ f2 →
    collapseOutsideAux f1 acc s = collapseOutsideAux f2 acc s := by
  intro f1
  induction f1 with
  | zero =>
    intro f2 acc s h1 h2
    have hs : s = [] := List.eq_nil_of_length_eq_zero (by omega)
    subst hs
    cases f2 <;> simp [collapseOutsideAux]
  | succ f1 ih =>
    intro f2 acc s h1 h2
    cases s with
    | nil => cases f2 <;> simp [collapseOutsideAux]
    | cons c r =>
      cases f2 with
      | zero => simp at h2
      | succ f2 =>
        simp only [List.length_cons, Nat.add_le_add_iff_right] at h1 h2
        simp only [collapseOutsideAux]
        split
        · have hlen : (r.dropWhile (· != c)).length ≤ r.length :=
            (List.dropWhile_sublist _).length_le
          split
          · rename_i x rest heq
            rw [heq] at hlen
            simp only [List.length_cons] at hlen
            rw [ih f2 [] rest (by omega) (by omega)]
          · exact ih f2 _ r h1 h2
        · exact ih f2 _ r h1 h2

/-- an unquoted prefix is moved to the accumulator -/
theorem collapseOutsideAux_prefix (pre : List Char) (hpre : ∀ c ∈ pre, c ≠ '"' ∧ c ≠ '\'') :
    ∀ (fuel : Nat) (acc r : List Char),
      collapseOutsideAux (fuel + pre.length) acc (pre ++ r) = collapseOutsideAux fuel (pre.reverse ++ acc) r := by
  induction pre with
  | nil => intros; simp
  | cons c p ih =>
    intro fuel acc r
    have hc := hpre c (List.mem_cons_self ..)
    have hq : (c == '"' || c == '\'') = false := by simp [hc.1, hc.2]
    have e : fuel + (c :: p).length = (fuel + p.length) + 1 := by
      simp only [List.length_cons]; omega
    rw [e, List.cons_append]
    simp only [collapseOutsideAux, hq]
    rw [ih (fun c hc => hpre c (List.mem_cons_of_mem _ hc))]
    simp

theorem dropWhile_ne_append (q : Char) (body post : List Char) (h : q ∉ body) :
    (body ++ q :: post).dropWhile (· != q) = q :: post := by
  induction body with
  | nil => simp
  | cons a b ih =>
    simp only [List.mem_cons, not_or] at h
    have : (a != q) = true := by simp [bne_iff_ne]; exact fun e => h.1 e.symm
    simp [this, ih h.2]

theorem takeWhile_ne_append (q : Char) (body post : List Char) (h : q ∉ body) :
    (body ++ q :: post).takeWhile (· != q) = body := by
  induction body with
  | nil => simp
  | cons a b ih =>
    simp only [List.mem_cons, not_or] at h
    have : (a != q) = true := by simp [bne_iff_ne]; exact fun e => h.1 e.symm
    simp [this, ih h.2]

end Helpers

section Properties

theorem C01_fmt_mark_only (t : List Char) (h : markOf t = none) : markTok t = t := by
  simp [markTok, h]

theorem C01_fmt_marks (t : List Char) (c : Char) :
    markOf t = some c ↔ (t = ['?', c, '?'] ∧ (c = '>' ∨ c = '+' ∨ c = '~')) :=
  markOf_eq_some t c

theorem C01_fmt_decode (ws : List Char) (ts : List (List Char)) (hn : ∀ t ∈ ts, nul ∉ t) :
    replaceChar nul ws (ts.flatMap markTok)
      = ts.flatMap (fun t => match markOf t with | some c => ws ++ [c] ++ ws | none => t) := by
  induction ts with
  | nil => simp [replaceChar]
  | cons t ts ih =>
    simp only [List.flatMap_cons, replaceChar_append]
    rw [ih (fun t ht => hn t (List.mem_cons_of_mem _ ht))]
    congr 1
    have hnt := hn t (List.mem_cons_self ..)
    unfold markTok
    cases hm : markOf t with
    | none => simp [replaceChar_of_not_mem _ _ _ hnt]
    | some c =>
      rcases (markOf_eq_some t c).1 hm with ⟨_, rfl | rfl | rfl⟩ <;> simp [replaceChar, nul]

theorem C01_fmt_collapse_id (s : List Char)
    (h : ∀ i, ¬ (s[i]? = some ' ' ∧ s[i+1]? = some ' ')) : collapse s = s := by
  fun_induction collapse s with
  | case1 r ih => exact absurd ⟨rfl, rfl⟩ (h 0)
  | case2 x r hne ih =>
    rw [ih (fun i => by simpa using h (i+1))]
  | case3 => rfl

theorem C01_fmt_noquote (s : List Char) (h : ∀ c ∈ s, c ≠ '"' ∧ c ≠ '\'') :
    collapseOutside s = collapse s := by
  have := collapseOutsideAux_prefix s h 1 [] []
  simp only [List.append_nil] at this
  unfold collapseOutside
  rw [Nat.add_comm, this]
  simp [collapseOutsideAux]

theorem C01_fmt_quoted (pre body post : List Char) (q : Char) (hq : q = '"' ∨ q = '\'')
    (hpre : ∀ c ∈ pre, c ≠ '"' ∧ c ≠ '\'') (hbody : q ∉ body) :
    collapseOutside (pre ++ q :: body ++ q :: post)
      = collapse pre ++ q :: body ++ q :: collapseOutside post := by
  unfold collapseOutside
  have e1 : pre ++ q :: body ++ q :: post = pre ++ (q :: (body ++ q :: post)) := by simp
  have e2 : (pre ++ q :: body ++ q :: post).length + 1
      = ((body.length + post.length + 2) + 1) + pre.length := by
    simp only [List.length_append, List.length_cons]; omega
  rw [e2, e1, collapseOutsideAux_prefix pre hpre]
  have hqb : (q == '"' || q == '\'') = true := by
    rcases hq with rfl | rfl <;> rfl
  simp only [collapseOutsideAux, hqb, if_true, dropWhile_ne_append q body post hbody,
    takeWhile_ne_append q body post hbody]
  rw [collapseOutsideAux_fuel (body.length + post.length + 2) (post.length + 1) [] post
    (by omega) (by omega)]
  simp

end Properties

section NonVacuity

example : String.ofList (fmt " ".toList "\n".toList
    [["a".toList, "?>?".toList, "b[t=\"x  ?y?\"]".toList, " ".toList],
     ["c".toList, "  ".toList, "d".toList]]) = "a > b[t=\"x  ?y?\"],\nc d" := by decide +kernel

example : String.ofList (fmt [] [] [["a".toList, "?>?".toList, "b[t=\"x  ?y?\"]".toList]])
    = "a>b[t=\"x  ?y?\"]" := by decide +kernel

example : collapse "a   b".toList = "a  b".toList := by decide +kernel

-- an attribute string holding question marks is not a mark
example : markOf "x?y?z".toList = none := by decide +kernel
example : markTok "?x?".toList = "?x?".toList := by decide +kernel

end NonVacuity

end Lessm.IdentFmt
