/-
  C15 / C12 on TEXT.  The three front-end models tied together:

    text ──`Lex0.front` (character-level lexer + `LessLexer.token` filter)──▶ tokens ──`LR.recognise` (validating driver)──▶ verdict

  F1  `front_is_filterE`, `front_is_filter`, `frontEnd_is_filter`, `front_types_eq_of_filter_eq`:
        the token types `front` hands to the parser are the type-level filter of C12 (`Lessm.Lex.filterFrom`) applied to the
        raw stream `front` meets — so the theorems of Props/C12.lean about `filterFrom` speak about the stream the parser
        gets from text;
  F2  `accepted_text_balanced`, `accepted_toks_balanced`, `unbalanced_text_rejected`, `unbalanced_text_rejected_any`:
        whatever the LR tables, a text the driver accepts has a token stream that is a sentence of the regenerated grammar
        and balanced in all four delimiter families (`C15_sound`, `C15_sentence_balanced_*` reused);
  F3  `front_brace_count` (and `front_paren_count`, `front_istr_count`, `front_estr_count`): the balance read as token counts;
  F4  `illegal_char_never_accepted`, `stuck_never_accepted`, `illegal_is_unmatched`, `front_illegal_is_unmatched`.

  Vocabulary (`Lessm/Lemmas/FrontLemmas.lean`):
    `escFlag st`            the lexer state is "escapequotes" or "escapeapostrophe";
    `rawUnderF tb sig last st s : List (Tok × Bool)`
                            the emitted raw tokens `front` meets, in order, lexed under `front`'s own state feedback (the same
                            recursion as `front`; blanks that `front` drops are in it, comments and the injected `;` are not),
                            each with `escFlag` of the lexer state right after it;
    `rawUnder … : List Tok` the tokens of `rawUnderF` alone;
    `Lex.filterFromE`       `Lex.filterFrom` on flagged types: a `}` whose flag is set gets no `;` injected;
    `tokIds ts`             the terminal numbers (`Gen.terminals.idxOf`) of the types of `ts`;
    `Accepts tb sig action goto text`
                            `∃ ts, frontEnd tb sig text = .ok ts ∧ ts ≠ [] ∧ recognise Gen.prods action goto 0 Gen.startNt (tokIds ts) = .accept`
                            (decidable: `acceptsB`);
    `endState st items`     the lexer state behind a raw stream started in `st` (`endState_eq_getLast`).
  Only theorems and kernel-checked examples here .
-/
import Lessm.Lemmas.FrontLemmas
import Lessm.Props.C12
import Lessm.Props.C12Lex
import Lessm.Props.C15

/-! ## example data -/
namespace Lessm.Lex0.Ex

/-- the significant-whitespace set of the source tree -/
abbrev sg : List String := Lessm.Gen.significantWs

end Lessm.Lex0.Ex

namespace Lessm.Lex0
open Lessm.Rx Lessm.Cfg Lessm.LR

/-! ## F1  `front` is the type-level filter of C12 on the raw stream it meets -/

/-- **F1 (general) `front_is_filterE`**: the types of the tokens `front` hands out are `filterFromE` — `filterFrom` with
    the one exception it does not know, "no `;` before a `}` lexed inside `~"…"` / `~'…'`" — applied to the flagged types
    of `rawUnderF`. No hypothesis. -/
theorem front_is_filterE (tb : Tables) (sig : List String) (last : Option String) (st : LState) (s : List Char) :
    (front tb sig last st s).toks.map (·.type)
      = Lessm.Lex.filterFromE sig last ((rawUnderF tb sig last st s).map (fun p => (p.1.type, p.2))) :=
  front_is_filterE_lem tb sig last st s

/-- `filterFromE` is `filterFrom` when no `}` is flagged (in particular when nothing is) -/
theorem filterFromE_is_filterFrom (sig : List String) (last : Option String) (l : List (String × Bool))
    (h : ∀ p ∈ l, p.1 = "t_bclose" → p.2 = false) :
    Lessm.Lex.filterFromE sig last l = Lessm.Lex.filterFrom sig last (l.map (·.1)) :=
  Lessm.Lex.filterFromE_eq_filterFrom sig last l h

/-- **F1 `front_is_filter`**: if no `t_bclose` token of the raw stream leaves the lexer in an escape state, the types of
    the tokens `front` hands out are exactly `Lex.filterFrom` applied to the types of the raw stream. -/
theorem front_is_filter (tb : Tables) (sig : List String) (last : Option String) (st : LState) (s : List Char)
    (h : ∀ p ∈ rawUnderF tb sig last st s, p.1.type = "t_bclose" → p.2 = false) :
    (front tb sig last st s).toks.map (·.type)
      = Lessm.Lex.filterFrom sig last ((rawUnder tb sig last st s).map (·.type)) := by
  rw [front_is_filterE, Lessm.Lex.filterFromE_eq_filterFrom]
  · simp only [rawUnder, List.map_map]
    rfl
  · intro p hp hty
    obtain ⟨q, hq, rfl⟩ := List.mem_map.mp hp
    exact h q hq hty

/-- **F1 for a whole text**: `Lex.filter` (the filter from `pretok`) on the raw stream of the text. -/
theorem frontEnd_is_filter (tb : Tables) (sig : List String) (text : String)
    (h : ∀ p ∈ rawUnderF tb sig none {} text.toList, p.1.type = "t_bclose" → p.2 = false) :
    (frontEnd tb sig text).toks.map (·.type)
      = Lessm.Lex.filter sig ((rawUnder tb sig none {} text.toList).map (·.type)) :=
  front_is_filter tb sig none {} text.toList h

/-- the raw stream is made of tokens of the loop (nothing else is fed to the filter) -/
theorem rawUnder_fromStep (tb : Tables) (sig : List String) (last : Option String) (st : LState) (s : List Char) :
    ∀ t ∈ rawUnder tb sig last st s, FromStep tb t := by
  intro t ht
  obtain ⟨p, hp, rfl⟩ := List.mem_map.mp ht
  exact rawUnderF_fromStep tb sig last st s p hp

/-- **F1 transfer**: two inputs (texts, start states) whose raw type streams the filter of C12 does not distinguish hand
    the parser the same token types.  Every equation `filterFrom sig last a = filterFrom sig last b` of Props/C12.lean
    (`C12_run`, `C12_gap_tokens`, `C12_comment_in_gap`, `C12_boundary`, `C12_semi`, …) is a hypothesis `hf` of this. -/
theorem front_types_eq_of_filter_eq (tb : Tables) (sig : List String) (last : Option String) (st st2 : LState)
    (s s2 : List Char)
    (h : ∀ p ∈ rawUnderF tb sig last st s, p.1.type = "t_bclose" → p.2 = false)
    (h2 : ∀ p ∈ rawUnderF tb sig last st2 s2, p.1.type = "t_bclose" → p.2 = false)
    (hf : Lessm.Lex.filterFrom sig last ((rawUnder tb sig last st s).map (·.type))
        = Lessm.Lex.filterFrom sig last ((rawUnder tb sig last st2 s2).map (·.type))) :
    (front tb sig last st s).toks.map (·.type) = (front tb sig last st2 s2).toks.map (·.type) := by
  rw [front_is_filter _ _ _ _ _ h, front_is_filter _ _ _ _ _ h2, hf]

/-! non-vacuity on the real rules -/

/-- the raw stream of ".a{b:c}": six tokens, none flagged -/
example : (rawUnderF Ex.tb Ex.sg none {} ".a{b:c}".toList).map (fun p => (p.1.type, p.2))
    = [("css_class", false), ("t_bopen", false), ("css_property", false), ("t_colon", false), ("css_ident", false),
       ("t_bclose", false)] := by decide +kernel
/-- the hypothesis of `front_is_filter` holds there, and on the text left open -/
example : ∀ p ∈ rawUnderF Ex.tb Ex.sg none {} ".a{b:c}".toList, p.1.type = "t_bclose" → p.2 = false := by
  decide +kernel
example : ∀ p ∈ rawUnderF Ex.tb Ex.sg none {} ".a{b:c".toList, p.1.type = "t_bclose" → p.2 = false := by
  decide +kernel
/-- so the theorem applies; both sides are the seven types with the injected `;` -/
example : (frontEnd Ex.tb Ex.sg ".a{b:c}").toks.map (·.type)
    = Lessm.Lex.filter Ex.sg ((rawUnder Ex.tb Ex.sg none {} ".a{b:c}".toList).map (·.type)) :=
  frontEnd_is_filter _ _ _ (by decide +kernel)
example : Lessm.Lex.filter Ex.sg ((rawUnder Ex.tb Ex.sg none {} ".a{b:c}".toList).map (·.type))
    = ["css_class", "t_bopen", "css_property", "t_colon", "css_ident", "t_semicolon", "t_bclose"] := by decide +kernel
example : (frontEnd Ex.tb Ex.sg ".a{b:c").toks.map (·.type)
    = ["css_class", "t_bopen", "css_property", "t_colon", "css_ident"] := by decide +kernel
/-- blanks that `front` drops are in the raw stream -/
example : (rawUnder Ex.tb Ex.sg none {} " .a { b : c } ".toList).map (·.type)
    = ["t_ws", "css_class", "t_ws", "t_bopen", "t_ws", "css_property", "t_ws", "t_colon", "t_ws", "css_ident", "t_ws",
       "t_bclose", "t_ws"] := by decide +kernel
/-- the hypothesis of `front_is_filter` is needed: a `}` inside `~"…"` is flagged, `front` injects no `;` before it,
    `filterFrom` would; `filterFromE` (the general theorem) gets it right -/
example : (rawUnderF Ex.tb Ex.sg none {} "a{b:~\"x}\";}".toList).map (fun p => (p.1.type, p.2))
    = [("css_dom", false), ("t_bopen", false), ("css_property", false), ("t_colon", false), ("t_eopen", true),
       ("css_ident", true), ("t_bclose", true), ("t_eclose", false), ("t_semicolon", false), ("t_bclose", false)] := by
  decide +kernel
example : (frontEnd Ex.tb Ex.sg "a{b:~\"x}\";}").toks.map (·.type)
    = ["css_dom", "t_bopen", "css_property", "t_colon", "t_eopen", "css_ident", "t_bclose", "t_eclose", "t_semicolon",
       "t_bclose"] := by decide +kernel
example : Lessm.Lex.filter Ex.sg ((rawUnder Ex.tb Ex.sg none {} "a{b:~\"x}\";}".toList).map (·.type))
    = ["css_dom", "t_bopen", "css_property", "t_colon", "t_eopen", "css_ident", "t_semicolon", "t_bclose", "t_eclose",
       "t_semicolon", "t_bclose"] := by decide +kernel
/-- a theorem of Props/C12.lean read on text: by `C12_run` (a second blank changes nothing) ".a \n.b{}" and ".a .b{}"
    hand the parser the same types — proved through F1, not by evaluating `front` -/
example : (frontEnd Ex.tb Ex.sg ".a \n.b{}").toks.map (·.type) = (frontEnd Ex.tb Ex.sg ".a .b{}").toks.map (·.type) := by
  refine front_types_eq_of_filter_eq _ _ _ _ _ _ _ (by decide +kernel) (by decide +kernel) ?_
  have e1 : (rawUnder Ex.tb Ex.sg none {} ".a \n.b{}".toList).map (·.type)
      = ["css_class"] ++ ("t_ws" :: "t_ws" :: ["css_class", "t_bopen", "t_bclose"]) := by decide +kernel
  have e2 : (rawUnder Ex.tb Ex.sg none {} ".a .b{}".toList).map (·.type)
      = ["css_class"] ++ ("t_ws" :: ["css_class", "t_bopen", "t_bclose"]) := by decide +kernel
  rw [e1, e2]
  exact Lessm.Lex.filterFrom_append_congr
    (fun last => Lessm.Lex.C12_run (sig := Ex.sg) (by decide) last _) none _

/-! ## F2  accepted text is a balanced sentence, whatever the tables -/

/-- **F2 `accepted_text_balanced`**: for ANY tables `action`, `goto` (in particular the regenerated LALR ones): if the
    text is accepted, its token ids are a sentence of the regenerated grammar, and hence balanced — total weight zero
    and no prefix negative — in braces, parentheses, interpolated-string and escape delimiters. -/
theorem accepted_text_balanced (tb : Tables) (sig : List String) (action goto : Table) (text : String)
    (h : Accepts tb sig action goto text) :
    ∃ ts, frontEnd tb sig text = .ok ts ∧ ts ≠ [] ∧
      Derives Lessm.Gen.grammar (.nt Lessm.Gen.startNt) (tokIds ts) ∧
      balanced (look Lessm.Gen.braceTw) (tokIds ts) = true ∧ balanced (look Lessm.Gen.parenTw) (tokIds ts) = true ∧
      balanced (look Lessm.Gen.istrTw) (tokIds ts) = true ∧ balanced (look Lessm.Gen.estrTw) (tokIds ts) = true := by
  obtain ⟨ts, h1, h2, h3⟩ := h
  have hd : Derives Lessm.Gen.grammar (.nt Lessm.Gen.startNt) (tokIds ts) := C15_sound _ _ _ _ _ _ h3
  exact ⟨ts, h1, h2, hd, C15_sentence_balanced_brace hd, C15_sentence_balanced_paren hd,
    C15_sentence_balanced_istr hd, C15_sentence_balanced_estr hd⟩

/-- the same about `(frontEnd tb sig text).toks` (no existential) -/
theorem accepted_toks_balanced (tb : Tables) (sig : List String) (action goto : Table) (text : String)
    (h : Accepts tb sig action goto text) :
    Derives Lessm.Gen.grammar (.nt Lessm.Gen.startNt) (tokIds (frontEnd tb sig text).toks) ∧
      balanced (look Lessm.Gen.braceTw) (tokIds (frontEnd tb sig text).toks) = true ∧
      balanced (look Lessm.Gen.parenTw) (tokIds (frontEnd tb sig text).toks) = true ∧
      balanced (look Lessm.Gen.istrTw) (tokIds (frontEnd tb sig text).toks) = true ∧
      balanced (look Lessm.Gen.estrTw) (tokIds (frontEnd tb sig text).toks) = true := by
  obtain ⟨ts, h1, -, h3⟩ := accepted_text_balanced tb sig action goto text h
  rw [FRes.toks_of_eq_ok h1]
  exact h3

/-- **F2 `unbalanced_text_rejected`**: if the brace weights (`Gen.braceTw`, the weight function of C15) of the tokens of
    a text do not sum to zero, the driver does not accept the text, for any tables. -/
theorem unbalanced_text_rejected (tb : Tables) (sig : List String) (action goto : Table) (text : String)
    (h : sumT (look Lessm.Gen.braceTw) (tokIds (frontEnd tb sig text).toks) ≠ 0) :
    ¬ Accepts tb sig action goto text := by
  intro hacc
  exact h ((balanced_iff _ _).mp (accepted_toks_balanced tb sig action goto text hacc).2.1).1

/-- the same with the executable check of C15, for any of the four families (a negative prefix counts too) -/
theorem unbalanced_text_rejected_any (tb : Tables) (sig : List String) (action goto : Table) (text : String)
    (h : (balanced (look Lessm.Gen.braceTw) (tokIds (frontEnd tb sig text).toks)
          && balanced (look Lessm.Gen.parenTw) (tokIds (frontEnd tb sig text).toks)
          && balanced (look Lessm.Gen.istrTw) (tokIds (frontEnd tb sig text).toks)
          && balanced (look Lessm.Gen.estrTw) (tokIds (frontEnd tb sig text).toks)) = false) :
    ¬ Accepts tb sig action goto text := by
  intro hacc
  obtain ⟨-, h1, h2, h3, h4⟩ := accepted_toks_balanced tb sig action goto text hacc
  rw [h1, h2, h3, h4] at h
  cases h

/-- `Accepts` is decidable (given tables), by running the two models -/
theorem accepts_iff_run (tb : Tables) (sig : List String) (action goto : Table) (text : String) :
    Accepts tb sig action goto text ↔ acceptsB tb sig action goto text = true :=
  accepts_iff tb sig action goto text

/-! non-vacuity.  `LR.decode` of the regenerated tables is not kernel-reducible (Props/C15.lean) and an excerpt of them would
    hard-code LALR state numbers that change with every harmless edit of the grammar; that `Accepts` holds of real texts on the real
    tables is what the correspondence run (driver op c15.text) shows on every fixture.  Here the theorems are instantiated with
    abstract tables on broken texts. -/

/-- … and NO tables do: the brace weights of its five tokens sum to 1 -/
example : sumT (look Lessm.Gen.braceTw) (tokIds (frontEnd Ex.tb Ex.sg ".a{b:c").toks) = 1 := by decide +kernel
example (action goto : Table) : ¬ Accepts Ex.tb Ex.sg action goto ".a{b:c" :=
  unbalanced_text_rejected _ _ _ _ _ (by decide +kernel)
/-- a stray `}` (sum −1, and a negative prefix), an unclosed `(`, an unclosed `~"`: rejected by any tables -/
example (action goto : Table) :
    ¬ Accepts Ex.tb Ex.sg action goto ".a{b:c}}" ∧ ¬ Accepts Ex.tb Ex.sg action goto "}.a{b:c" ∧
    ¬ Accepts Ex.tb Ex.sg action goto ".a{b:f(c}" ∧ ¬ Accepts Ex.tb Ex.sg action goto ".a{b:~\"c}" :=
  ⟨unbalanced_text_rejected _ _ _ _ _ (by decide +kernel), unbalanced_text_rejected_any _ _ _ _ _ (by decide +kernel),
   unbalanced_text_rejected_any _ _ _ _ _ (by decide +kernel), unbalanced_text_rejected_any _ _ _ _ _ (by decide +kernel)⟩
/-- "}.a{b:c" has weight sum zero: only the prefix condition catches it -/
example : sumT (look Lessm.Gen.braceTw) (tokIds (frontEnd Ex.tb Ex.sg "}.a{b:c").toks) = 0 := by decide +kernel

/-! ## F3  the balance as token counts -/

/-- the regenerated brace weights are `t_bopen ↦ +1`, `t_bclose ↦ −1`, every other terminal (and every token type that
    is no terminal) `0`: the weighted sum over the tokens is a difference of counts -/
theorem brace_weight_is_count (ts : List Tok) :
    sumT (look Lessm.Gen.braceTw) (tokIds ts)
      = (ts.countP (fun t => t.type == "t_bopen") : Int) - (ts.countP (fun t => t.type == "t_bclose") : Int) :=
  brace_sum ts

/-- **F3 `front_brace_count`**: in the tokens of an accepted text there are as many of type "t_bopen" as of type
    "t_bclose", and in no prefix more "t_bclose" than "t_bopen". -/
theorem front_brace_count (tb : Tables) (sig : List String) (action goto : Table) (text : String)
    (h : Accepts tb sig action goto text) :
    ∃ ts, frontEnd tb sig text = .ok ts ∧
      ts.countP (fun t => t.type == "t_bopen") = ts.countP (fun t => t.type == "t_bclose") ∧
      ∀ k, (ts.take k).countP (fun t => t.type == "t_bclose") ≤ (ts.take k).countP (fun t => t.type == "t_bopen") := by
  obtain ⟨ts, h1, -, -, hb, -⟩ := accepted_text_balanced tb sig action goto text h
  exact ⟨ts, h1, counts_of_balanced (opens := countTy "t_bopen") (closes := countTy "t_bclose") brace_sum hb⟩

/-- parentheses: "t_popen" and "less_open_format" (`~\`…(` / `%(`) open, "t_pclose" closes -/
theorem front_paren_count (tb : Tables) (sig : List String) (action goto : Table) (text : String)
    (h : Accepts tb sig action goto text) :
    ∃ ts, frontEnd tb sig text = .ok ts ∧
      ts.countP (fun t => t.type == "less_open_format") + ts.countP (fun t => t.type == "t_popen")
        = ts.countP (fun t => t.type == "t_pclose") ∧
      ∀ k, (ts.take k).countP (fun t => t.type == "t_pclose")
        ≤ (ts.take k).countP (fun t => t.type == "less_open_format") + (ts.take k).countP (fun t => t.type == "t_popen") := by
  obtain ⟨ts, h1, -, -, -, hp, -⟩ := accepted_text_balanced tb sig action goto text h
  exact ⟨ts, h1, counts_of_balanced
    (opens := fun ts => countTy "less_open_format" ts + countTy "t_popen" ts) (closes := countTy "t_pclose")
    (fun ts => by rw [paren_sum]; simp only [Int.natCast_add]) hp⟩

/-- interpolated strings: "t_isopen" / "t_isclose" -/
theorem front_istr_count (tb : Tables) (sig : List String) (action goto : Table) (text : String)
    (h : Accepts tb sig action goto text) :
    ∃ ts, frontEnd tb sig text = .ok ts ∧
      ts.countP (fun t => t.type == "t_isopen") = ts.countP (fun t => t.type == "t_isclose") ∧
      ∀ k, (ts.take k).countP (fun t => t.type == "t_isclose") ≤ (ts.take k).countP (fun t => t.type == "t_isopen") := by
  obtain ⟨ts, h1, -, -, -, -, hi, -⟩ := accepted_text_balanced tb sig action goto text h
  exact ⟨ts, h1, counts_of_balanced (opens := countTy "t_isopen") (closes := countTy "t_isclose") istr_sum hi⟩

/-- escapes: "t_eopen" / "t_eclose" -/
theorem front_estr_count (tb : Tables) (sig : List String) (action goto : Table) (text : String)
    (h : Accepts tb sig action goto text) :
    ∃ ts, frontEnd tb sig text = .ok ts ∧
      ts.countP (fun t => t.type == "t_eopen") = ts.countP (fun t => t.type == "t_eclose") ∧
      ∀ k, (ts.take k).countP (fun t => t.type == "t_eclose") ≤ (ts.take k).countP (fun t => t.type == "t_eopen") := by
  obtain ⟨ts, h1, -, -, -, -, -, he⟩ := accepted_text_balanced tb sig action goto text h
  exact ⟨ts, h1, counts_of_balanced (opens := countTy "t_eopen") (closes := countTy "t_eclose") estr_sum he⟩

/-- the weight tables are what the counting theorems assume (re-checked on every regeneration) -/
example : Lessm.Gen.braceTw = [(Lessm.Gen.terminals.idxOf "t_bclose", -1), (Lessm.Gen.terminals.idxOf "t_bopen", 1)] := by
  decide +kernel
example : (frontEnd Ex.tb Ex.sg ".a{b:c}").toks.countP (fun t => t.type == "t_bopen") = 1
    ∧ (frontEnd Ex.tb Ex.sg ".a{b:c}").toks.countP (fun t => t.type == "t_bclose") = 1 := by decide +kernel
/-- and the counts can differ: the text left open has one `{` and no `}` -/
example : (frontEnd Ex.tb Ex.sg ".a{b:c").toks.countP (fun t => t.type == "t_bopen") = 1
    ∧ (frontEnd Ex.tb Ex.sg ".a{b:c").toks.countP (fun t => t.type == "t_bclose") = 0 := by decide +kernel

/-! ## F4  illegal characters -/

/-- **F4 `illegal_char_never_accepted`**: a text on which the lexer raises (t_error) is not accepted, whatever the tables
    (by the definition of `Accepts`: the driver is never run). -/
theorem illegal_char_never_accepted (tb : Tables) (sig : List String) (action goto : Table) (text : String)
    (ts : List Tok) (c : Char) (l : Nat) (h : frontEnd tb sig text = .illegal ts c l) :
    ¬ Accepts tb sig action goto text := by
  rintro ⟨ts', h1, -⟩
  rw [h] at h1
  cases h1

/-- the same for a stuck lexer (impossible with the rules of the source tree: `front_never_stuck_gen`) -/
theorem stuck_never_accepted (tb : Tables) (sig : List String) (action goto : Table) (text : String)
    (ts : List Tok) (h : frontEnd tb sig text = .stuck ts) : ¬ Accepts tb sig action goto text := by
  rintro ⟨ts', h1, -⟩
  rw [h] at h1
  cases h1

/-- **F4 `illegal_is_unmatched`**: if `lexAll` stops with `illegal items c l`, the input is the characters of `items`,
    then `c`, then a rest; in the lexer state reached behind `items` (the state after the last item, `st` if there is
    none) no rule of that state, nor of INITIAL, matches at `c …` (so in particular none "matches emptily": that would be
    `stuck`), `c` is not a literal, and `l` is the line counter there. -/
theorem illegal_is_unmatched (tb : Tables) (st : LState) (s : List Char) (items : List Item) (c : Char) (l : Nat)
    (h : lexAll tb st s = .illegal items c l) :
    ∃ rest, s = items.flatMap (fun it => it.1.lexeme.toList) ++ c :: rest ∧
      firstMatch (rulesOf tb ((items.getLast?.map (·.2.2)).getD st).cur) (c :: rest) = none ∧
      (∀ r ∈ rulesOf tb ((items.getLast?.map (·.2.2)).getD st).cur, r.re.matchPrefix (c :: rest) = none) ∧
      c ∉ tb.literals ∧ l = ((items.getLast?.map (·.2.2)).getD st).lineno := by
  obtain ⟨rest, h1, h2, h3, h4⟩ := lexAll_illegal_full tb st s items c l h
  rw [endState_eq_getLast] at h2 h4
  refine ⟨rest, h1, h2, firstMatch_none h2, ?_, h4⟩
  intro hc
  have : tb.literals.contains c = true := by simpa using hc
  rw [h3] at this
  cases this

/-- the same for the stream the parser sees: the text splits at `c`, the characters of the tokens handed out so far are
    a subsequence of what lies before `c`, and in the lexer state reached there no rule matches and `c` is no literal. -/
theorem front_illegal_is_unmatched (tb : Tables) (sig : List String) (last : Option String) (st : LState)
    (s : List Char) (ts : List Tok) (c : Char) (l : Nat) (h : front tb sig last st s = .illegal ts c l) :
    ∃ (pre rest : List Char) (st1 : LState), s = pre ++ c :: rest ∧
      (ts.flatMap (fun t => t.lexeme.toList)).Sublist pre ∧
      (∀ r ∈ rulesOf tb st1.cur, r.re.matchPrefix (c :: rest) = none) ∧ c ∉ tb.literals ∧ l = st1.lineno := by
  obtain ⟨pre, rest, st1, h1, h2, h3, h4, h5⟩ := front_illegal_full tb sig last st s ts c l h
  refine ⟨pre, rest, st1, h1, h2, firstMatch_none h3, ?_, h5⟩
  intro hc
  have : tb.literals.contains c = true := by simpa using hc
  rw [h4] at this
  cases this

/-- "a{b:c}$x": the lexer stops at `$` on line 1, in state INITIAL, behind the six tokens of "a{b:c}" -/
example : (match lexAll Ex.tb {} "a{b:c}$x".toList with
    | .illegal items c l => items.flatMap (fun it => it.1.lexeme.toList) == "a{b:c}".toList && c == '$' && l == 1
        && ((items.getLast?.map (fun (it : Item) => it.2.2)).getD {}).cur == "INITIAL"
        && (rulesOf Ex.tb "INITIAL").all (fun r => (r.re.matchPrefix "$x".toList).isNone)
        && !Ex.tb.literals.contains '$'
    | _ => false) = true := by decide +kernel
example (items : List Item) (c : Char) (l : Nat) (h : lexAll Ex.tb {} "a{b:c}$x".toList = .illegal items c l) :
    c ∉ Ex.tb.literals :=
  let ⟨_, _, _, _, hc, _⟩ := illegal_is_unmatched _ _ _ _ _ _ h
  hc
/-- the stream the parser would see breaks off there, and the text is not accepted by any tables -/
example : (match frontEnd Ex.tb Ex.sg "a{b:c}$x" with
    | .illegal ts c l => ts.map (·.type) == ["css_dom", "t_bopen", "css_property", "t_colon", "css_ident", "t_semicolon",
        "t_bclose"] && c == '$' && l == 1
    | _ => false) = true := by decide +kernel
example (action goto : Table) : ¬ Accepts Ex.tb Ex.sg action goto "a{b:c}$x" := by
  cases h : frontEnd Ex.tb Ex.sg "a{b:c}$x" with
  | illegal ts c l => exact illegal_char_never_accepted _ _ _ _ _ _ _ _ h
  | ok ts =>
    have : (frontEnd Ex.tb Ex.sg "a{b:c}$x").isOk = false := by decide +kernel
    rw [h] at this
    cases this
  | stuck ts => exact stuck_never_accepted _ _ _ _ _ _ h
/-- a literal character is not illegal -/
example : (match lexAll Ex.tb {} "a{b:c}%".toList with | .ok items => items.length == 7 | _ => false) = true := by
  decide +kernel

end Lessm.Lex0
