/-
  C11  Output options change whitespace only.

  "For one source, the outputs under every combination of minify, xminify, tabs and spaces are
   identical once insignificant whitespace is removed. Default output puts each selector and each
   declaration on its own line with declarations indented by exactly the configured unit per nesting
   level (n spaces or one tab); minified output has no newline inside a rule and no optional space
   around { } : ; , > + ~; xminify additionally has no newline between rules."

  Model: `Lessm/Model/Print.lean` (code-shaped: `Formatter.format`, `Block.fmt` with the string-level
  re-indentation `_indent` / `rstrip` / `strip`, `Property.fmt`, `Identifier.fmt`).
  Description: `Lessm/Spec/PrintSpec.lean`: printing factors through a LAYOUT — tokens emitted verbatim
  under every option vector and optional-whitespace items, the only thing the options control.
  Only theorems and examples here; helper lemmas are in `Lessm/Lemmas/PrintLemmas.lean`.
-/
import Lessm.Lemmas.PrintLemmas
namespace Lessm.Print

/-! ### (A) an optional item is whitespace, whatever the options -/

/-- **C11_ws_only**: under every option vector every optional item is rendered as a (possibly empty)
    string of whitespace characters. -/
theorem C11_ws_only (o : Opts) (k : OptK) : ((realiseOpt (fills o) k).toList).all isWs = true :=
  wsOnly_realiseOpt_fills o k

/-! ### (B) two renderings of one layout differ in whitespace-only gaps

  The token sequence `toks l` of a layout does not mention the options at all: it is the same for
  every option vector by construction. -/

/-- **C11_erase**: every rendering of a layout is its token sequence, in order, separated and
    surrounded by whitespace-only (possibly empty) strings. -/
theorem C11_erase (o : Opts) (l : List Lay) : Interleaves (toks l) (realise (fills o) l) :=
  interleaves_realise (fills o) (wsOnly_realiseOpt_fills o) l

/-- **C11_erase_gaps**: the same with the gaps made explicit: the rendering is `g₀ t₀ g₁ … tₙ₋₁ gₙ`
    where `[t₀ … tₙ₋₁] = toks l` does not depend on `o` and the `n + 1` gaps `gaps (fills o) l` are
    whitespace-only. -/
theorem C11_erase_gaps (o : Opts) (l : List Lay) :
    realise (fills o) l = weave (gaps (fills o) l) (toks l) ∧
    (gaps (fills o) l).length = (toks l).length + 1 ∧
    ∀ g ∈ gaps (fills o) l, wsOnly g = true :=
  ⟨realise_eq_weave _ l, gaps_length _ l, gaps_wsOnly _ (wsOnly_realiseOpt_fills o) l⟩

/-- **C11_erase_pair**: two option vectors render one layout as the same tokens in the same order;
    the two texts differ only in their whitespace-only gaps. -/
theorem C11_erase_pair (o₁ o₂ : Opts) (l : List Lay) :
    ∃ gs₁ gs₂ : List String,
      realise (fills o₁) l = weave gs₁ (toks l) ∧ realise (fills o₂) l = weave gs₂ (toks l) ∧
      gs₁.length = (toks l).length + 1 ∧ gs₂.length = (toks l).length + 1 ∧
      (∀ g ∈ gs₁, wsOnly g = true) ∧ (∀ g ∈ gs₂, wsOnly g = true) :=
  ⟨gaps (fills o₁) l, gaps (fills o₂) l, realise_eq_weave _ l, realise_eq_weave _ l, gaps_length _ l,
    gaps_length _ l, gaps_wsOnly _ (wsOnly_realiseOpt_fills o₁) l, gaps_wsOnly _ (wsOnly_realiseOpt_fills o₂) l⟩

/-- **C11_erase_text**: `eraseWs l` — the token text with every optional item erased — is the
    rendering with all gaps empty … -/
theorem C11_erase_text (l : List Lay) :
    eraseWs l = weave (List.replicate ((toks l).length + 1) "") (toks l) :=
  (weave_empty (toks l)).symm

/-- … and it is what `--xminify` prints. -/
theorem C11_erase_xminify (o : Opts) (h : o.xminify = true) (l : List Lay) :
    realise (fills o) l = eraseWs l := by
  rw [fills_min o (Or.inr h), h]
  exact realise_MF_empty l

/-- **C11_erase_filter**: deleting every whitespace character from two renderings of one layout
    gives the same text (that of `eraseWs l`). -/
theorem C11_erase_filter (o₁ o₂ : Opts) (l : List Lay) :
    (realise (fills o₁) l).toList.filter notWs = (realise (fills o₂) l).toList.filter notWs := by
  rw [filter_realise _ (wsOnly_realiseOpt_fills o₁), filter_realise _ (wsOnly_realiseOpt_fills o₂)]

/-! ### (C) minified output -/

/-- **C11_min**: with `minify` or `xminify` every optional item is empty — no space around
    `{ } : ; ,` and the combinators, no line break and no indentation inside a rule — except the
    end-of-block items `eb`, `ebInner`, which are one line break, and empty with `xminify`. -/
theorem C11_min (o : Opts) (h : o.minify = true ∨ o.xminify = true) :
    realiseOpt (fills o) .nl = "" ∧ realiseOpt (fills o) .ws = "" ∧
    realiseOpt (fills o) .commaWs = "" ∧ (∀ n, realiseOpt (fills o) (.indent n) = "") ∧
    (∀ n, realiseOpt (fills o) (.selSep n) = "") ∧ realiseOpt (fills o) .ebLast = "" ∧
    realiseOpt (fills o) .eb = (if o.xminify then "" else "\n") ∧
    realiseOpt (fills o) .ebInner = (if o.xminify then "" else "\n") := by
  rw [fills_min o h]
  exact ⟨roM_nl _, roM_ws _, roM_commaWs _, roM_indent _, roM_selSep _, roM_ebLast _, roM_eb _, roM_ebInner _⟩

/-- **C11_min_others**: the same, said once: every item other than `eb`, `ebInner` is empty. -/
theorem C11_min_others (o : Opts) (h : o.minify = true ∨ o.xminify = true) (k : OptK)
    (h1 : k ≠ .eb) (h2 : k ≠ .ebInner) : realiseOpt (fills o) k = "" := by
  obtain ⟨a, b, c, d, e, f, _, _⟩ := C11_min o h
  cases k with
  | nl => exact a
  | ws => exact b
  | commaWs => exact c
  | indent n => exact d n
  | selSep n => exact e n
  | ebLast => exact f
  | eb => exact absurd rfl h1
  | ebInner => exact absurd rfl h2

/-- **C11_xmin**: with `xminify` every optional item is empty: no line break at all. -/
theorem C11_xmin (o : Opts) (h : o.xminify = true) (k : OptK) : realiseOpt (fills o) k = "" := by
  rw [fills_min o (Or.inr h), h]
  exact realiseOpt_MF_empty k

/-- **C11_min_rule**: a minified rule is its bare token text followed by its end-of-block item:
    nothing optional — in particular no line break — inside the rule. -/
theorem C11_min_rule (o : Opts) (h : o.minify = true ∨ o.xminify = true) (d : Nat) (pos : Pos)
    (sels : List (List SelPiece)) (decls : List Decl) (hne : decls.isEmpty = false) :
    realise (fills o) (layNode d pos (.rule sels decls)) =
      eraseWs (layNode d pos (.rule sels decls)) ++ realiseOpt (fills o) (closeOpt pos) := by
  rw [fills_min o h, layNode_rule_front d pos sels decls hne, realise_append, eraseWs_append,
    realise_MF_noEb _ _ (noEb_ruleFront d sels decls)]
  simp [eraseWs, toks]

/-! ### (D) default output -/

/-- **C11_default**: without `minify`/`xminify`, with `unit` = one tab or `spaces` spaces: a line
    break after `{` and after each declaration, one space before `{`, after `:`, around combinators
    and after a value comma, a line at nesting level `n` indented by exactly `n` units, selectors of
    a list separated by a line break and that indentation, a line break after each block. -/
theorem C11_default (o : Opts) (h1 : o.minify = false) (h2 : o.xminify = false) :
    realiseOpt (fills o) .nl = "\n" ∧ realiseOpt (fills o) .ws = " " ∧
    realiseOpt (fills o) .commaWs = " " ∧ (∀ n, realiseOpt (fills o) (.indent n) = rep n (unitOf o)) ∧
    (∀ n, realiseOpt (fills o) (.selSep n) = "\n" ++ rep n (unitOf o)) ∧
    realiseOpt (fills o) .eb = "\n" ∧ realiseOpt (fills o) .ebInner = "\n" ∧
    realiseOpt (fills o) .ebLast = "\n" := by
  rw [fills_default o h1 h2]
  exact ⟨roD_nl _ nl_nonempty, roD_ws _ nl_nonempty, roD_commaWs _ nl_nonempty, roD_indent _ nl_nonempty,
    roD_selSep _ nl_nonempty, roD_eb _ nl_nonempty, roD_ebInner _ nl_nonempty, roD_ebLast _ nl_nonempty⟩

/-- the unit is one tab, or `spaces` spaces -/
theorem C11_unit (o : Opts) :
    unitOf o = if o.tabs then "\t" else String.ofList (List.replicate o.spaces ' ') := rfl

/-- **C11_default_decl**: a declaration at level `d` starts with the indentation item of level `d`
    and ends with `;` and a line break item. -/
theorem C11_default_decl (d : Nat) (x : Decl) :
    ∃ mid, layDecl d x = .opt (.indent d) :: mid ++ [.tok ";", .opt .nl] :=
  ⟨[.tok x.prop, .tok ":", .opt .ws] ++ layValue x.value ++
    (if x.important then [.tok " !important"] else []), by simp [layDecl]⟩

/-- **C11_default_decl_line**: so in default mode a declaration at level `d` is one line:
    exactly `d` units, `prop: value;`, line break. -/
theorem C11_default_decl_line (o : Opts) (h1 : o.minify = false) (h2 : o.xminify = false) (d : Nat)
    (x : Decl) :
    realise (fills o) (layDecl d x) =
      rep d (unitOf o) ++ (x.prop ++ (":" ++ (" " ++ (realise (fills o) (layValue x.value) ++
        ((if x.important then " !important" else "") ++ (";" ++ "\n")))))) := by
  rw [fills_default o h1 h2]
  unfold layDecl
  cases x.important <;>
    simp only [realise_append, realise_opt, realise_tok, realise_nil, roD_indent _ nl_nonempty,
      roD_ws _ nl_nonempty, roD_nl _ nl_nonempty, String.append_assoc, String.append_empty,
      String.empty_append, if_true, if_false, Bool.false_eq_true]

/-- **C11_default_rule**: the declarations of a rule at level `d` are laid out at level `d + 1`;
    the selector line and the closing `}` are at level `d`. -/
theorem C11_default_rule (d : Nat) (pos : Pos) (sels : List (List SelPiece)) (decls : List Decl)
    (h : decls.isEmpty = false) :
    layNode d pos (.rule sels decls) =
      [.opt (.indent d)] ++ laySels d sels ++ [.opt .ws, .tok "{", .opt .nl] ++ layDecls (d + 1) decls ++
        [.opt (.indent d), .tok "}", .opt (closeOpt pos)] := by
  rw [layNode_rule, h]; rfl

/-- **C11_default_sels**: two selectors of a list are separated by `,` and the item "line break +
    indentation of the rule's level". -/
theorem C11_default_sels (d : Nat) (s₁ s₂ : List SelPiece) (r : List (List SelPiece)) :
    laySels d (s₁ :: s₂ :: r) = laySel s₁ ++ [.tok ",", .opt (.selSep d)] ++ laySels d (s₂ :: r) := rfl

/-- **C11_default_nest**: the blocks inside an at-rule block at level `d` are laid out at level
    `d + 1`. -/
theorem C11_default_nest (d : Nat) (pos : Pos) (p : String) (inner : List Node)
    (h : inner.isEmpty = false) :
    layNode d pos (.nest p inner) =
      [.opt (.indent d), .tok p, .opt .ws, .tok "{", .opt .nl] ++ layNodes (d + 1) inner ++
        [.opt (.indent d), .tok "}", .opt (closeOpt pos)] := by
  rw [layNode_nest, h]; rfl

/-! ### (E) the fill table -/

/-- **C11_plumb**: the complete table, by cases on the three Booleans. -/
theorem C11_plumb (o : Opts) :
    fills o =
      if o.xminify then ⟨"", "", "", ""⟩
      else if o.minify then ⟨"", "", "", "\n"⟩
      else if o.tabs then ⟨"\n", "\t", " ", "\n"⟩
      else ⟨"\n", String.ofList (List.replicate o.spaces ' '), " ", "\n"⟩ := by
  rcases o with ⟨m, x, t, n⟩
  cases m <;> cases x <;> cases t <;> simp [fills]

/-- `xminify` implies `minify` (and ignores `tabs`, `spaces`) -/
theorem C11_plumb_xminify (m m' t t' : Bool) (n n' : Nat) :
    fills ⟨m, true, t, n⟩ = fills ⟨m', true, t', n'⟩ ∧ fills ⟨m, true, t, n⟩ = ⟨"", "", "", ""⟩ := by
  simp [fills]

/-- minified fills ignore `tabs` and `spaces` -/
theorem C11_plumb_minify (x t t' : Bool) (n n' : Nat) :
    fills ⟨true, x, t, n⟩ = fills ⟨true, x, t', n'⟩ := by
  simp [fills]

/-- `tabs` overrides `spaces` -/
theorem C11_plumb_tabs (n n' : Nat) :
    fills ⟨false, false, true, n⟩ = fills ⟨false, false, true, n'⟩ ∧
    (fills ⟨false, false, true, n⟩).tab = "\t" := by
  simp [fills]

/-- `spaces` is used only as the number of spaces of the unit -/
theorem C11_plumb_spaces (n : Nat) :
    fills ⟨false, false, false, n⟩ = ⟨"\n", String.ofList (List.replicate n ' '), " ", "\n"⟩ := by
  simp [fills]

/-- in every case the fills are either the minified ones or the default ones with unit `unitOf o` -/
theorem C11_plumb_modes (o : Opts) :
    (o.minify = true ∨ o.xminify = true) ∧ fills o = ⟨"", "", "", if o.xminify then "" else "\n"⟩ ∨
    (o.minify = false ∧ o.xminify = false) ∧ fills o = ⟨"\n", unitOf o, " ", "\n"⟩ := by
  by_cases h : o.minify = true ∨ o.xminify = true
  · exact Or.inl ⟨h, fills_min o h⟩
  · have h1 : o.minify = false := by cases hm : o.minify <;> simp [hm] at h ⊢
    have h2 : o.xminify = false := by cases hx : o.xminify <;> simp [hx] at h ⊢
    exact Or.inr ⟨⟨h1, h2⟩, fills_default o h1 h2⟩

/-! ### (F) the code-shaped printer is the layout description

  Hypothesis `Clean sheet` (decidable, `Lessm/Spec/PrintSpec.lean`): no condition on top-level rules
  and statements nor on the prelude of a top-level at-rule block; every node INSIDE an at-rule block
  (these go through `_indent`, `rstrip`, `strip`)
    * prints something (a rule has declarations, a block has inner nodes),
    * has only token texts without line break and with closed quotes (`tokOk`: `_indent` copies
      them and is outside a string literal afterwards),
    * has a text that does not start with whitespace, and — a statement — does not end with
      whitespace (`strip` of the minified body removes nothing but the final end-of-block).
  The examples at the end show that none of the four conditions can be dropped. -/

/-- **C11_layout_nodes**: before the final `strip` the two texts are already equal. In the model a
    block nested `d` times is re-indented `d` times by one unit; the layout carries the level `d`. -/
theorem C11_layout_nodes (o : Opts) (sheet : List Node) (h : Clean sheet = true) :
    fmtNodes (fills o) sheet = realise (fills o) (laySheet sheet) :=
  fmtNodes_eq_realise o sheet h

/-- **C11_layout**: `Formatter.format` prints the layout of the sheet. -/
theorem C11_layout (o : Opts) (sheet : List Node) (h : Clean sheet = true) :
    format o sheet = strip (realise (fills o) (laySheet sheet)) := by
  unfold format
  rw [fmtNodes_eq_realise o sheet h]

/-- **C11**: for one (clean) sheet the outputs under any two option vectors are identical once
    whitespace is removed … -/
theorem C11_format_erase (o₁ o₂ : Opts) (sheet : List Node) (h : Clean sheet = true) :
    (format o₁ sheet).toList.filter notWs = (format o₂ sheet).toList.filter notWs := by
  rw [C11_layout o₁ sheet h, C11_layout o₂ sheet h, filter_strip, filter_strip]
  exact C11_erase_filter o₁ o₂ _

/-- … and each output is, up to the final `strip`, the token sequence of the sheet's layout — the
    same for all option vectors — interleaved with whitespace-only gaps. -/
theorem C11_format_interleaves (o : Opts) (sheet : List Node) (h : Clean sheet = true) :
    ∃ s, Interleaves (toks (laySheet sheet)) s ∧ format o sheet = strip s :=
  ⟨_, C11_erase o (laySheet sheet), C11_layout o sheet h⟩

/-- the `--xminify` output is the stripped token text -/
theorem C11_format_xminify (o : Opts) (hx : o.xminify = true) (sheet : List Node) (h : Clean sheet = true) :
    format o sheet = strip (eraseWs (laySheet sheet)) := by
  rw [C11_layout o sheet h, C11_erase_xminify o hx]

/-! ### examples -/

def exSheet : List Node :=
  [.stmt "@charset \"utf-8\";",
   .rule [[.text "a", .comb ">", .text "b"], [.text ".c d"]]
     [⟨"color", [.tok "red"], false⟩, ⟨"font", [.tok "a", .comma, .tok "'b;\n'", .sp, .tok "c"], true⟩],
   .rule [[.text "x"]] [],
   .nest "@media screen"
     [.rule [[.text ".a"], [.text ".b"]] [⟨"top", [.tok "0"], false⟩],
      .nest "@supports (x)" [.stmt "@x y;", .rule [[.text "p"]] [⟨"content", [.tok "\"{\""], false⟩]],
      .rule [[.text ".z"]] [⟨"left", [.tok "1px"], false⟩]]]

example : Clean exSheet = true := by decide

/-- a smaller sheet (kernel evaluation of the repeated string re-indentation is slow): an at-rule
    block nested in an at-rule block is re-indented twice by the model -/
def exSmall : List Node :=
  [.rule [[.text "a", .comb ">", .text "b"], [.text "c"]] [⟨"x", [.tok "1", .comma, .tok "2"], true⟩],
   .nest "@m" [.nest "@s" [.rule [[.text "p"], [.text "q"]] [⟨"y", [.tok "0"], false⟩]]]]

example : Clean exSmall = true := by decide
example : format ⟨false, false, false, 2⟩ exSmall =
    "a > b,\nc {\n  x: 1, 2 !important;\n}\n@m {\n  @s {\n    p,\n    q {\n      y: 0;\n    }\n  }\n}" := by
  decide +kernel
example : format ⟨false, false, true, 2⟩ exSmall =
    "a > b,\nc {\n\tx: 1, 2 !important;\n}\n@m {\n\t@s {\n\t\tp,\n\t\tq {\n\t\t\ty: 0;\n\t\t}\n\t}\n}" := by
  decide +kernel
example : format ⟨true, false, true, 2⟩ exSmall = "a>b,c{x:1,2 !important;}\n@m{@s{p,q{y:0;}}}" := by
  decide +kernel
example : format ⟨true, false, true, 2⟩ exSheet =
    "@charset \"utf-8\";\na>b,.c d{color:red;font:a,'b;\n' c !important;}\n@media screen{.a,.b{top:0;}\n@supports (x){@x y;\np{content:\"{\";}}\n.z{left:1px;}}" := by
  decide +kernel
example : format ⟨false, true, false, 4⟩ exSheet =
    "@charset \"utf-8\";a>b,.c d{color:red;font:a,'b;\n' c !important;}@media screen{.a,.b{top:0;}@supports (x){@x y;p{content:\"{\";}}.z{left:1px;}}" := by
  decide +kernel
example : format ⟨false, true, false, 4⟩ exSheet = strip (eraseWs (laySheet exSheet)) :=
  C11_format_xminify _ rfl exSheet (by decide)
example : (format ⟨false, false, false, 2⟩ exSheet).toList.filter notWs =
    (format ⟨true, false, true, 0⟩ exSheet).toList.filter notWs :=
  C11_format_erase _ _ exSheet (by decide)

/-! The hypothesis is needed: with each condition on the nodes inside an at-rule block dropped in
    turn the model and the layout description differ (these are behaviours of the formatter). -/

/-- an empty rule inside a block leaves its indentation behind in default mode -/
example : format ⟨false, false, false, 2⟩ [.nest "@media x" [.rule [[.text "a"]] []]] = "@media x {\n  }"
    ∧ strip (realise (fills ⟨false, false, false, 2⟩) (laySheet [.nest "@media x" [.rule [[.text "a"]] []]]))
      = "@media x {\n}" := by decide +kernel
/-- … and a trailing empty rule changes the end of the minified body -/
example : format ⟨true, false, false, 2⟩
      [.nest "@media x" [.rule [[.text "a"]] [⟨"b", [.tok "c"], false⟩], .rule [[.text "a"]] []]] = "@media x{a{b:c;}}"
    ∧ strip (realise (fills ⟨true, false, false, 2⟩)
      (laySheet [.nest "@media x" [.rule [[.text "a"]] [⟨"b", [.tok "c"], false⟩], .rule [[.text "a"]] []]]))
      = "@media x{a{b:c;}\n}" := by decide +kernel
/-- a line break inside a token is re-indented -/
example : format ⟨false, false, true, 2⟩ [.nest "@media x" [.stmt "a\nb;"]] = "@media x {\n\ta\n\tb;\n}"
    ∧ strip (realise (fills ⟨false, false, true, 2⟩) (laySheet [.nest "@media x" [.stmt "a\nb;"]]))
      = "@media x {\n\ta\nb;\n}" := by decide +kernel
/-- an unclosed quote switches re-indentation off for the rest of the block -/
example : format ⟨false, false, true, 2⟩ [.nest "@media x" [.stmt "a'", .stmt "b"]] = "@media x {\n\ta'\nb\n}"
    ∧ strip (realise (fills ⟨false, false, true, 2⟩) (laySheet [.nest "@media x" [.stmt "a'", .stmt "b"]]))
      = "@media x {\n\ta'\n\tb\n}" := by decide +kernel
/-- whitespace at the edge of a minified body is stripped -/
example : format ⟨true, false, true, 2⟩ [.nest "@media x" [.stmt "a; "]] = "@media x{a;}"
    ∧ strip (realise (fills ⟨true, false, true, 2⟩) (laySheet [.nest "@media x" [.stmt "a; "]]))
      = "@media x{a; }" := by decide +kernel

end Lessm.Print
