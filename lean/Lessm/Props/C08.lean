/-
  C08  Colour literals are normalised and colour arithmetic is channel-wise and clamped.
  Property theorems only (helper lemmas are local and small).
-/
import Lessm.Model.Color
import Mathlib.Data.Rat.Floor
import Mathlib.Tactic.Linarith
import Mathlib.Tactic.IntervalCases

namespace Lessm.Color

def lowerHexChars : List Char := "0123456789abcdef".toList
def isLowerHexB (c : Char) : Bool := lowerHexChars.contains c

/-- a 3- or 6-digit hex literal in any letter case -/
def Valid (s : List Char) : Prop :=
  ∃ ds, s = '#' :: ds ∧ (ds.length = 3 ∨ ds.length = 6) ∧ ∀ c ∈ ds, isHexB c = true

/-! ### character-level facts: finite table, checked by `decide` -/

theorem char_facts : hexChars.all (fun c =>
    isLowerHexB (lowerC c) && isHexB (lowerC c) && (hexVal (lowerC c) == hexVal c)
      && (lowerC (lowerC c) == lowerC c) && decide (hexVal c < 16)) = true := by decide

theorem char_fact (c : Char) (h : isHexB c = true) :
    isLowerHexB (lowerC c) = true ∧ isHexB (lowerC c) = true ∧ hexVal (lowerC c) = hexVal c
      ∧ lowerC (lowerC c) = lowerC c ∧ hexVal c < 16 := by
  have hm : c ∈ hexChars := by simpa [isHexB] using h
  have := List.all_eq_true.mp char_facts c hm
  simp only [Bool.and_eq_true, beq_iff_eq, decide_eq_true_eq] at this
  obtain ⟨⟨⟨⟨a, b⟩, c'⟩, d⟩, e⟩ := this
  exact ⟨a, b, c', d, e⟩

theorem len3 {α} (l : List α) (h : l.length = 3) : ∃ a b c, l = [a, b, c] := by
  match l, h with
  | [a, b, c], _ => exact ⟨a, b, c, rfl⟩

theorem len6 {α} (l : List α) (h : l.length = 6) : ∃ a b c d e f, l = [a, b, c, d, e, f] := by
  match l, h with
  | [a, b, c, d, e, f], _ => exact ⟨a, b, c, d, e, f, rfl⟩

/-- **C08_fmt**: every 3- or 6-digit literal in any case is printed as `#` + six lower-case hex digits
    denoting the same colour. -/
theorem C08_fmt (s : List Char) (h : Valid s) :
    ∃ r, fmt s = some r ∧ r.length = 7 ∧ r.head? = some '#' ∧ (∀ c ∈ r.tail, isLowerHexB c = true)
      ∧ hexToRgb r = hexToRgb s := by
  obtain ⟨ds, rfl, hl, hc⟩ := h
  rcases hl with hl | hl
  · obtain ⟨a, b, c, rfl⟩ := len3 ds hl
    have ha := char_fact a (hc a (by simp))
    have hb := char_fact b (hc b (by simp))
    have hcc := char_fact c (hc c (by simp))
    refine ⟨['#', lowerC a, lowerC a, lowerC b, lowerC b, lowerC c, lowerC c], ?_, rfl, rfl, ?_, ?_⟩
    · simp [fmt, isColor, hc, dbl]
    · intro x hx
      simp at hx
      rcases hx with rfl | rfl | rfl | rfl | rfl | rfl <;> simp [ha.1, hb.1, hcc.1]
    · simp [hexToRgb, pairs, ha.2.2.1, hb.2.2.1, hcc.2.2.1]
  · obtain ⟨a, b, c, d, e, f, rfl⟩ := len6 ds hl
    have ha := char_fact a (hc a (by simp))
    have hb := char_fact b (hc b (by simp))
    have hcc := char_fact c (hc c (by simp))
    have hd := char_fact d (hc d (by simp))
    have he := char_fact e (hc e (by simp))
    have hf := char_fact f (hc f (by simp))
    refine ⟨['#', lowerC a, lowerC b, lowerC c, lowerC d, lowerC e, lowerC f], ?_, rfl, rfl, ?_, ?_⟩
    · simp [fmt, isColor, hc]
    · intro x hx
      simp at hx
      rcases hx with rfl | rfl | rfl | rfl | rfl | rfl <;> simp [ha.1, hb.1, hcc.1, hd.1, he.1, hf.1]
    · simp [hexToRgb, pairs, ha.2.2.1, hb.2.2.1, hcc.2.2.1, hd.2.2.1, he.2.2.1, hf.2.2.1]

/-- **C08_idem**: normalising a normalised literal changes nothing. -/
theorem C08_idem (s r : List Char) (h : Valid s) (hr : fmt s = some r) : fmt r = some r := by
  obtain ⟨ds, rfl, hl, hc⟩ := h
  rcases hl with hl | hl
  · obtain ⟨a, b, c, rfl⟩ := len3 ds hl
    have ha := char_fact a (hc a (by simp))
    have hb := char_fact b (hc b (by simp))
    have hcc := char_fact c (hc c (by simp))
    have : r = ['#', lowerC a, lowerC a, lowerC b, lowerC b, lowerC c, lowerC c] := by
      have : fmt ['#', a, b, c] = some ['#', lowerC a, lowerC a, lowerC b, lowerC b, lowerC c, lowerC c] := by
        simp [fmt, isColor, hc, dbl]
      rw [this] at hr; exact (Option.some.inj hr).symm
    subst this
    simp [fmt, isColor, ha.2.1, hb.2.1, hcc.2.1, ha.2.2.2.1, hb.2.2.2.1, hcc.2.2.2.1]
  · obtain ⟨a, b, c, d, e, f, rfl⟩ := len6 ds hl
    have ha := char_fact a (hc a (by simp))
    have hb := char_fact b (hc b (by simp))
    have hcc := char_fact c (hc c (by simp))
    have hd := char_fact d (hc d (by simp))
    have he := char_fact e (hc e (by simp))
    have hf := char_fact f (hc f (by simp))
    have : r = ['#', lowerC a, lowerC b, lowerC c, lowerC d, lowerC e, lowerC f] := by
      have : fmt ['#', a, b, c, d, e, f] = some ['#', lowerC a, lowerC b, lowerC c, lowerC d, lowerC e, lowerC f] := by
        simp [fmt, isColor, hc]
      rw [this] at hr; exact (Option.some.inj hr).symm
    subst this
    simp [fmt, isColor, ha.2.1, hb.2.1, hcc.2.1, hd.2.1, he.2.1, hf.2.1,
      ha.2.2.2.1, hb.2.2.2.1, hcc.2.2.2.1, hd.2.2.2.1, he.2.2.2.1, hf.2.2.2.1]

/-- the channel values of a valid literal are bytes -/
theorem C08_lit_range (s : List Char) (h : Valid s) :
    (hexToRgb s).length = 3 ∧ ∀ v ∈ hexToRgb s, v < 256 := by
  obtain ⟨ds, rfl, hl, hc⟩ := h
  rcases hl with hl | hl
  · obtain ⟨a, b, c, rfl⟩ := len3 ds hl
    have ha := (char_fact a (hc a (by simp))).2.2.2.2
    have hb := (char_fact b (hc b (by simp))).2.2.2.2
    have hcc := (char_fact c (hc c (by simp))).2.2.2.2
    refine ⟨by simp [hexToRgb], ?_⟩
    intro v hv
    simp [hexToRgb] at hv
    rcases hv with rfl | rfl | rfl <;> omega
  · obtain ⟨a, b, c, d, e, f, rfl⟩ := len6 ds hl
    have ha := (char_fact a (hc a (by simp))).2.2.2.2
    have hb := (char_fact b (hc b (by simp))).2.2.2.2
    have hcc := (char_fact c (hc c (by simp))).2.2.2.2
    have hd := (char_fact d (hc d (by simp))).2.2.2.2
    have he := (char_fact e (hc e (by simp))).2.2.2.2
    have hf := (char_fact f (hc f (by simp))).2.2.2.2
    refine ⟨by simp [hexToRgb, pairs], ?_⟩
    intro v hv
    simp [hexToRgb, pairs] at hv
    rcases hv with rfl | rfl | rfl <;> omega

/-! ### arithmetic -/

theorem floor_eq (q : ℚ) : q.floor = ⌊q⌋ := rfl

theorem floor_nat (n : ℕ) : Rat.floor (n : ℚ) = (n : ℤ) := by
  rw [floor_eq]; exact Int.floor_natCast n


/-- printing a byte as two hex digits and reading it back is the identity (finite table) -/
theorem hex2_table : (List.range 256).all (fun n =>
    (pairs (hex2 n) == [n]) && (hex2 n).all isLowerHexB) = true := by decide +kernel

theorem hex2_roundtrip (n : Nat) (h : n < 256) : pairs (hex2 n) = [n] ∧ ∀ c ∈ hex2 n, isLowerHexB c = true := by
  have := List.all_eq_true.mp hex2_table n (List.mem_range.mpr h)
  simp only [Bool.and_eq_true, beq_iff_eq, List.all_eq_true] at this
  exact this

theorem clampInt_le (v : ℚ) : clampInt v ≤ 255 := by
  unfold clampInt
  split
  · exact le_refl _
  · split
    · exact Nat.zero_le _
    · rename_i h1 h2
      have h1' : v ≤ 255 := not_lt.mp h1
      have : v.floor ≤ 255 := by
        have := Int.floor_le v
        have h3 : (⌊v⌋ : ℚ) ≤ 255 := le_trans this h1'
        have h4 : ⌊v⌋ ≤ 255 := by exact_mod_cast h3
        rw [floor_eq]; exact h4
      omega

/-- **C08_clamp** the channel operation written in plain natural-number arithmetic:
    `+` and `*` saturate at 255, `-` saturates at 0, `/` is the truncated quotient saturated at 255. -/
theorem C08_chan_add (a b : Nat) : chan a b .add = min 255 (a + b) := by
  unfold chan operate clampInt
  have e : ((a : ℚ) + b) = ((a + b : ℕ) : ℚ) := by push_cast; rfl
  rw [e]
  by_cases h : a + b > 255
  · have : ((a + b : ℕ) : ℚ) > 255 := by exact_mod_cast h
    rw [if_pos this]; omega
  · have h' : ¬ ((a + b : ℕ) : ℚ) > 255 := by
      intro hc; apply h; exact_mod_cast hc
    have h0 : ¬ ((a + b : ℕ) : ℚ) < 0 := by
      have : (0 : ℚ) ≤ ((a + b : ℕ) : ℚ) := Nat.cast_nonneg _
      exact not_lt.mpr this
    simp only [h', h0, if_false]
    have : Rat.floor ((a + b : ℕ) : ℚ) = ((a + b : ℕ) : ℤ) := floor_nat _
    rw [this]; simp; omega

theorem C08_chan_mul (a b : Nat) : chan a b .mul = min 255 (a * b) := by
  unfold chan operate clampInt
  have e : ((a : ℚ) * b) = ((a * b : ℕ) : ℚ) := by push_cast; rfl
  rw [e]
  by_cases h : a * b > 255
  · have : ((a * b : ℕ) : ℚ) > 255 := by exact_mod_cast h
    rw [if_pos this]; omega
  · have h' : ¬ ((a * b : ℕ) : ℚ) > 255 := by
      intro hc; apply h; exact_mod_cast hc
    have h0 : ¬ ((a * b : ℕ) : ℚ) < 0 := by
      have : (0 : ℚ) ≤ ((a * b : ℕ) : ℚ) := Nat.cast_nonneg _
      exact not_lt.mpr this
    simp only [h', h0, if_false]
    have : Rat.floor ((a * b : ℕ) : ℚ) = ((a * b : ℕ) : ℤ) := floor_nat _
    rw [this]; simp; omega

theorem C08_chan_sub (a b : Nat) (ha : a < 256) : chan a b .sub = a - b := by
  unfold chan operate clampInt
  have h255 : ¬ ((a : ℚ) - b > 255) := by
    have : (a : ℚ) ≤ 255 := by exact_mod_cast Nat.le_of_lt_succ ha
    have : (0 : ℚ) ≤ b := Nat.cast_nonneg _
    intro hc; linarith
  simp only [h255, if_false]
  by_cases h : a < b
  · have : (a : ℚ) - b < 0 := by
      have : (a : ℚ) < b := by exact_mod_cast h
      linarith
    rw [if_pos this]; omega
  · have hle : b ≤ a := Nat.le_of_not_lt h
    have : ¬ ((a : ℚ) - b < 0) := by
      have : (b : ℚ) ≤ a := by exact_mod_cast hle
      intro hc; linarith
    simp only [this, if_false]
    have e : (a : ℚ) - b = ((a - b : ℕ) : ℚ) := by push_cast [Nat.cast_sub hle]; rfl
    rw [e]
    have : Rat.floor ((a - b : ℕ) : ℚ) = ((a - b : ℕ) : ℤ) := floor_nat _
    rw [this]; simp

theorem C08_chan_div (a b : Nat) (hb : b ≠ 0) : chan a b .div = min 255 (a / b) := by
  unfold chan operate clampInt
  have hbq : (0 : ℚ) < b := by exact_mod_cast Nat.pos_of_ne_zero hb
  have h0 : ¬ ((a : ℚ) / b < 0) := by
    have : (0 : ℚ) ≤ (a : ℚ) / b := div_nonneg (Nat.cast_nonneg _) (le_of_lt hbq)
    exact not_lt.mpr this
  have hfl : Rat.floor ((a : ℚ) / b) = ((a / b : ℕ) : ℤ) := by
    rw [floor_eq]
    have := Rat.floor_natCast_div_natCast a b
    exact_mod_cast this
  by_cases h : (a : ℚ) / b > 255
  · simp only [h, if_true]
    -- a / b ≥ 255 as naturals
    have : 255 * b < a ∨ 255 * b = a ∨ a < 255 * b := Nat.lt_trichotomy _ _
    have h2 : (255 : ℚ) * b < a := by
      have := (lt_div_iff₀ hbq).mp h
      linarith
    have h3 : 255 * b < a := by exact_mod_cast h2
    have : 255 ≤ a / b := by
      rw [Nat.le_div_iff_mul_le (Nat.pos_of_ne_zero hb)]; omega
    omega
  · simp only [h, h0, if_false]
    rw [hfl]
    have hle : (a : ℚ) / b ≤ 255 := not_lt.mp h
    have h2 : (a : ℚ) ≤ 255 * b := by
      have := (div_le_iff₀ hbq).mp hle
      linarith
    have h3 : a ≤ 255 * b := by exact_mod_cast h2
    have : a / b ≤ 255 := by
      calc a / b ≤ (255 * b) / b := Nat.div_le_div_right h3
        _ = 255 := Nat.mul_div_cancel _ (Nat.pos_of_ne_zero hb)
    rw [Int.toNat_natCast, Nat.min_eq_right this]

/-- **C08_arith / C08_wf**: the printed result is `#` + six lower-case hex digits, and reading it
    back gives, channel by channel, exactly `chan aᵢ bᵢ op` — every channel depends only on the two
    corresponding input channels. -/
theorem C08_arith (a b : Nat × Nat × Nat) (o : Op)
    (hz : ¬ (o = .div ∧ (b.1 = 0 ∨ b.2.1 = 0 ∨ b.2.2 = 0))) :
    ∃ r, process a o b = some r ∧ r.length = 7 ∧ r.head? = some '#'
      ∧ (∀ c ∈ r.tail, isLowerHexB c = true)
      ∧ hexToRgb r = [chan a.1 b.1 o, chan a.2.1 b.2.1 o, chan a.2.2 b.2.2 o] := by
  have h1 := hex2_roundtrip (chan a.1 b.1 o) (Nat.lt_succ_of_le (clampInt_le _))
  have h2 := hex2_roundtrip (chan a.2.1 b.2.1 o) (Nat.lt_succ_of_le (clampInt_le _))
  have h3 := hex2_roundtrip (chan a.2.2 b.2.2 o) (Nat.lt_succ_of_le (clampInt_le _))
  refine ⟨'#' :: (hex2 (chan a.1 b.1 o) ++ hex2 (chan a.2.1 b.2.1 o) ++ hex2 (chan a.2.2 b.2.2 o)),
    by simp only [process, hz, if_false], by simp [hex2], rfl, ?_, ?_⟩
  · intro c hc
    simp only [List.tail_cons, List.mem_append] at hc
    rcases hc with (hc | hc) | hc
    · exact h1.2 c hc
    · exact h2.2 c hc
    · exact h3.2 c hc
  · have p1 := h1.1; have p2 := h2.1; have p3 := h3.1
    simp only [hex2] at p1 p2 p3 ⊢
    simp only [hexToRgb, List.cons_append, List.nil_append, List.length_cons, List.length_nil]
    simp only [pairs] at p1 p2 p3 ⊢
    simp at p1 p2 p3
    simp [p1, p2, p3]

/-- non-vacuity: a mixed-case short literal is `Valid`, and an overflowing / underflowing sum is clamped -/
example : Valid "#AbC".toList := ⟨"AbC".toList, rfl, Or.inl rfl, by decide⟩
example : fmt "#AbC".toList = some "#aabbcc".toList := by decide
example : process (200, 16, 255) .add (100, 1, 1) = some "#ff11ff".toList := by decide +kernel
example : process (1, 16, 255) .sub (2, 1, 1) = some "#000ffe".toList := by decide +kernel

end Lessm.Color
