/-
  C16  Directory (batch) mode.

  "Directory mode writes, for each .less file, a .css (or .min.css) file whose bytes equal what
   compiling that file alone with the same options and includes returns, independent of which other
   files are in the directory and of their order. An output that is newer than its source is left
   untouched unless --force is given, a missing or older output is rewritten, --recurse mirrors
   sub-directories, --dry-run changes nothing on disk."

  Model: `Lessm/Model/Batch.lean` (`compileFiles` — the loop over one directory; `runDir` / `runSubs`
  — `ldirectory` with recursion; the compiler is the parameter `cc : bytes → bytes`; a logical
  `clock` supplies the mtime of every written file).
  Vocabulary (`Lessm/Lemmas/BatchLemmas.lean` §0): `LessNodup fl files` (the out-names of the `.less`
  files of a listing are pairwise distinct — implied by pairwise distinct file names, `C16_names`),
  `outFilesOf` / `outSubsOf` (files / sub-directories of the possibly missing output directory),
  `logLine`, `maxSrcMtime`, `WF` (names pairwise distinct in every directory of the tree).
  Only theorems and examples here; helper lemmas are in `Lessm/Lemmas/BatchLemmas.lean`; the example
  directory `Ex.*` is described there (§6).

  Hypotheses that are facts of every file system are explicit and decidable:
    `LessNodup fl files`, `(subs.map (·.1)).Nodup`, `WF t = true`.
-/
import Lessm.Lemmas.BatchLemmas
namespace Lessm.Batch

/-! ### (0) distinct names give distinct out-names -/

/-- **C16_names**: in a listing with pairwise distinct file names the out-names of the `.less` files
    are pairwise distinct (`outName` is injective on `.less` names), i.e. the hypothesis `LessNodup`
    of the theorems below holds in every real directory. -/
theorem C16_names (fl : Flags) (files : List (String × File)) (h : (files.map (·.1)).Nodup) :
    LessNodup fl files :=
  lessNodup_of_names_nodup fl files h

example : (Ex.files.map (·.1)).Nodup := by decide
example : LessNodup Ex.flags Ex.files := C16_names _ _ (by decide)
example : (Ex.files.filter (fun p => isLess p.1)).map (fun p => outName Ex.flags p.1)
    = ["a.css", "b.css"] := by decide
example : (Ex.files.filter (fun p => isLess p.1)).map (fun p => outName { Ex.flags with minEnding := true } p.1)
    = ["a.min.css", "b.min.css"] := by decide

/-! ### (1) `--dry-run` changes nothing on disk -/

/-- **C16_dry**: a dry run returns the output tree it was given (also "still missing" stays
    "still missing") and does not advance the clock; only stdout is produced. -/
theorem C16_dry (cc : String → String) (fl : Flags) (hd : fl.dry = true) (i o : String) (t : Tree)
    (out : Option Tree) (clock : Nat) :
    ∃ lg, runDir cc fl i o t out clock = (out, clock, lg) := by
  obtain ⟨h1, h2⟩ := runDir_dry cc fl hd t i o out clock
  exact ⟨(runDir cc fl i o t out clock).2.2, Prod.ext h1 (Prod.ext h2 rfl)⟩

example : Ex.flagsD.dry = true := rfl
example : runDir Ex.cc Ex.flagsD "in" "out" Ex.tree Ex.out 10
    = (Ex.out, 10, ["in/a.less -> out/a.css", "in/b.less -> out/b.css",
                    "in/sub/c.less -> out/sub/c.css"]) := by rfl
example : runDir Ex.cc Ex.flagsD "in" "out" Ex.tree none 10
    = (none, 10, ["in/a.less -> out/a.css", "in/b.less -> out/b.css",
                  "in/sub/c.less -> out/sub/c.css"]) := by rfl

/-- **C16_dry_subs**: the same for the loop over the sub-directories. -/
theorem C16_dry_subs (cc : String → String) (fl : Flags) (hd : fl.dry = true) (i o : String)
    (subs outSubs : List (String × Tree)) (clock : Nat) :
    ∃ lg, runSubs cc fl i o subs outSubs clock = (outSubs, clock, lg) := by
  obtain ⟨h1, h2⟩ := runSubs_dry cc fl hd subs i o outSubs clock
  exact ⟨(runSubs cc fl i o subs outSubs clock).2.2, Prod.ext h1 (Prod.ext h2 rfl)⟩

example : runSubs Ex.cc Ex.flagsD "in" "out" Ex.subs Ex.outSubs 10
    = (Ex.outSubs, 10, ["in/sub/c.less -> out/sub/c.css"]) := by rfl

/-- **C16_dry_files**: the same for the loop over the files of one directory. -/
theorem C16_dry_files (cc : String → String) (fl : Flags) (hd : fl.dry = true) (i o : String)
    (files : List (String × File)) (st : St) :
    (compileFiles cc fl i o files st).outFiles = st.outFiles ∧
      (compileFiles cc fl i o files st).clock = st.clock :=
  compileFiles_dry cc fl i o files st hd

example : (compileFiles Ex.cc Ex.flagsD "in" "out" Ex.files ⟨Ex.outFiles, 10, []⟩).outFiles
    = Ex.outFiles := by decide

/-! ### (2) the staleness law, one directory -/

/-- **C16_file**: for every `.less` file `(name, src)` of the listing, with `on` its out-name:
    * in a dry run, or when the output is not stale, the entry `on` of the output directory is left
      exactly as it was (bytes and mtime);
    * otherwise it is rewritten: its bytes are exactly `cc src.bytes` — what the compiler returns for
      that file alone — and its mtime `t` is a fresh clock value of this run. -/
theorem C16_file (cc : String → String) (fl : Flags) (i o : String) (files : List (String × File))
    (out0 : List (String × File)) (clock : Nat) (lg : List String)
    (hnd : ((files.filter (fun p => isLess p.1)).map (fun p => outName fl p.1)).Nodup)
    (name : String) (src : File) (hmem : (name, src) ∈ files) (hl : isLess name = true) :
    ((fl.dry = true ∨ stale fl src (findFile out0 (outName fl name)) = false) →
        findFile (compileFiles cc fl i o files ⟨out0, clock, lg⟩).outFiles (outName fl name)
          = findFile out0 (outName fl name)) ∧
    ((fl.dry = false ∧ stale fl src (findFile out0 (outName fl name)) = true) →
        ∃ t, clock ≤ t ∧ t < (compileFiles cc fl i o files ⟨out0, clock, lg⟩).clock ∧
          findFile (compileFiles cc fl i o files ⟨out0, clock, lg⟩).outFiles (outName fl name)
            = some ⟨cc src.bytes, t⟩) :=
  compileFiles_file cc fl i o files ⟨out0, clock, lg⟩ hnd name src hmem hl

-- a.css (mtime 4) is older than a.less (mtime 5): rewritten; b.css (mtime 7) is newer than b.less
example : ("a.less", ⟨"a{}", 5⟩) ∈ Ex.files ∧ isLess "a.less" = true ∧ Ex.flags.dry = false ∧
    stale Ex.flags ⟨"a{}", 5⟩ (findFile Ex.outFiles (outName Ex.flags "a.less")) = true := by decide
example : ("b.less", ⟨"b{}", 3⟩) ∈ Ex.files ∧ isLess "b.less" = true ∧
    stale Ex.flags ⟨"b{}", 3⟩ (findFile Ex.outFiles (outName Ex.flags "b.less")) = false := by decide
example : (compileFiles Ex.cc Ex.flags "in" "out" Ex.files ⟨Ex.outFiles, 10, []⟩).outFiles
    = [("a.css", ⟨"/*css*/a{}", 10⟩), ("b.css", ⟨"fresh", 7⟩), ("keep.txt", ⟨"k", 0⟩)] := by decide
example : (compileFiles Ex.cc Ex.flags "in" "out" Ex.files ⟨Ex.outFiles, 10, []⟩).clock = 11 := by
  decide

/-- **C16_force**: with `--force` (and no `--dry-run`) every `.less` file is rewritten. -/
theorem C16_force (cc : String → String) (fl : Flags) (i o : String) (files : List (String × File))
    (out0 : List (String × File)) (clock : Nat) (lg : List String)
    (hnd : LessNodup fl files)
    (name : String) (src : File) (hmem : (name, src) ∈ files) (hl : isLess name = true)
    (hf : fl.force = true) (hd : fl.dry = false) :
    ∃ t, clock ≤ t ∧ t < (compileFiles cc fl i o files ⟨out0, clock, lg⟩).clock ∧
      findFile (compileFiles cc fl i o files ⟨out0, clock, lg⟩).outFiles (outName fl name)
        = some ⟨cc src.bytes, t⟩ :=
  (C16_file cc fl i o files out0 clock lg hnd name src hmem hl).2 ⟨hd, by simp [stale, hf]⟩

example : Ex.flagsF.force = true ∧ Ex.flagsF.dry = false ∧ LessNodup Ex.flagsF Ex.files := by decide
example : (compileFiles Ex.cc Ex.flagsF "in" "out" Ex.files ⟨Ex.outFiles, 10, []⟩).outFiles
    = [("a.css", ⟨"/*css*/a{}", 10⟩), ("b.css", ⟨"/*css*/b{}", 11⟩), ("keep.txt", ⟨"k", 0⟩)] := by
  decide

/-- **C16_missing_or_older**: without `--dry-run`, a `.less` file whose output is missing or older
    than the source is rewritten. -/
theorem C16_missing_or_older (cc : String → String) (fl : Flags) (i o : String)
    (files : List (String × File)) (out0 : List (String × File)) (clock : Nat) (lg : List String)
    (hnd : LessNodup fl files)
    (name : String) (src : File) (hmem : (name, src) ∈ files) (hl : isLess name = true)
    (hd : fl.dry = false)
    (h : findFile out0 (outName fl name) = none ∨
         ∃ f, findFile out0 (outName fl name) = some f ∧ f.mtime < src.mtime) :
    ∃ t, clock ≤ t ∧ t < (compileFiles cc fl i o files ⟨out0, clock, lg⟩).clock ∧
      findFile (compileFiles cc fl i o files ⟨out0, clock, lg⟩).outFiles (outName fl name)
        = some ⟨cc src.bytes, t⟩ := by
  refine (C16_file cc fl i o files out0 clock lg hnd name src hmem hl).2 ⟨hd, ?_⟩
  rcases h with h | ⟨f, h, hlt⟩
  · simp [stale, h]
  · simp [stale, h, hlt]

-- older: a.css; missing: every output when the output directory is empty
example : ∃ f, findFile Ex.outFiles (outName Ex.flags "a.less") = some f ∧ f.mtime < 5 :=
  ⟨⟨"old", 4⟩, by decide⟩
example : findFile [] (outName Ex.flags "b.less") = none := by decide
example : (compileFiles Ex.cc Ex.flags "in" "out" Ex.files ⟨[], 10, []⟩).outFiles
    = [("a.css", ⟨"/*css*/a{}", 10⟩), ("b.css", ⟨"/*css*/b{}", 11⟩)] := by decide

/-- **C16_newer_untouched**: without `--force`, an output that exists and is not older than its
    source is left untouched (bytes and mtime). -/
theorem C16_newer_untouched (cc : String → String) (fl : Flags) (i o : String)
    (files : List (String × File)) (out0 : List (String × File)) (clock : Nat) (lg : List String)
    (hnd : LessNodup fl files)
    (name : String) (src : File) (hmem : (name, src) ∈ files) (hl : isLess name = true)
    (hf : fl.force = false) (f : File) (h : findFile out0 (outName fl name) = some f)
    (hle : src.mtime ≤ f.mtime) :
    findFile (compileFiles cc fl i o files ⟨out0, clock, lg⟩).outFiles (outName fl name) = some f := by
  rw [← h]
  refine (C16_file cc fl i o files out0 clock lg hnd name src hmem hl).1 (Or.inr ?_)
  simp [stale, hf, h]
  omega

example : findFile Ex.outFiles (outName Ex.flags "b.less") = some ⟨"fresh", 7⟩ ∧ 3 ≤ 7 := by decide
example : findFile (compileFiles Ex.cc Ex.flags "in" "out" Ex.files ⟨Ex.outFiles, 10, []⟩).outFiles
    "b.css" = some ⟨"fresh", 7⟩ := by decide

/-! ### (3) nothing else in the output directory is touched -/

/-- **C16_untouched**: a name that is not the out-name of a `.less` file of the listing keeps its
    entry (or stays absent). No distinctness hypothesis is needed. -/
theorem C16_untouched (cc : String → String) (fl : Flags) (i o : String)
    (files : List (String × File)) (out0 : List (String × File)) (clock : Nat) (lg : List String)
    (n : String) (h : ∀ p ∈ files, isLess p.1 = true → outName fl p.1 ≠ n) :
    findFile (compileFiles cc fl i o files ⟨out0, clock, lg⟩).outFiles n = findFile out0 n :=
  compileFiles_untouched cc fl i o files ⟨out0, clock, lg⟩ n h

example : ∀ p ∈ Ex.files, isLess p.1 = true → outName Ex.flagsF p.1 ≠ "keep.txt" := by decide
example : ∀ p ∈ Ex.files, isLess p.1 = true → outName Ex.flagsF p.1 ≠ "readme.css" := by decide
example : findFile (compileFiles Ex.cc Ex.flagsF "in" "out" Ex.files ⟨Ex.outFiles, 10, []⟩).outFiles
    "keep.txt" = some ⟨"k", 0⟩ := by decide
example : findFile (compileFiles Ex.cc Ex.flagsF "in" "out" Ex.files ⟨Ex.outFiles, 10, []⟩).outFiles
    "readme.css" = none := by decide

/-! ### (4) independence of the siblings and of the listing order -/

/-- **C16_iso**: two listings of the same directory entries in different orders (`List.Perm`)
    produce, under every name, outputs with the same bytes (present in the one iff present in the
    other). Only the mtimes — positions in the run — and the order of the stdout lines can differ;
    the two runs may even start at different clocks. -/
theorem C16_iso (cc : String → String) (fl : Flags) (i o : String)
    (files₁ files₂ : List (String × File)) (hp : files₁.Perm files₂)
    (hnd : ((files₁.filter (fun p => isLess p.1)).map (fun p => outName fl p.1)).Nodup)
    (out0 : List (String × File)) (clock₁ clock₂ : Nat) (lg₁ lg₂ : List String) (n : String) :
    (findFile (compileFiles cc fl i o files₁ ⟨out0, clock₁, lg₁⟩).outFiles n).map (·.bytes)
      = (findFile (compileFiles cc fl i o files₂ ⟨out0, clock₂, lg₂⟩).outFiles n).map (·.bytes) := by
  have hnd₂ : LessNodup fl files₂ := LessNodup.perm hp hnd
  by_cases hex : ∃ p ∈ files₁, isLess p.1 = true ∧ outName fl p.1 = n
  · obtain ⟨⟨name, src⟩, hmem, hl, rfl⟩ := hex
    have k₁ := compileFiles_file cc fl i o files₁ ⟨out0, clock₁, lg₁⟩ hnd name src hmem hl
    have k₂ := compileFiles_file cc fl i o files₂ ⟨out0, clock₂, lg₂⟩ hnd₂ name src
      (hp.subset hmem) hl
    by_cases hc : fl.dry = true ∨ stale fl src (findFile out0 (outName fl name)) = false
    · rw [k₁.1 hc, k₂.1 hc]
    · have hc' : fl.dry = false ∧ stale fl src (findFile out0 (outName fl name)) = true := by
        simpa using hc
      obtain ⟨t₁, _, _, e₁⟩ := k₁.2 hc'
      obtain ⟨t₂, _, _, e₂⟩ := k₂.2 hc'
      rw [e₁, e₂]; rfl
  · have hno : ∀ p ∈ files₁, isLess p.1 = true → outName fl p.1 ≠ n :=
      fun p hp1 hl e => hex ⟨p, hp1, hl, e⟩
    rw [compileFiles_untouched cc fl i o files₁ _ n hno,
      compileFiles_untouched cc fl i o files₂ _ n (fun p hp2 => hno p (hp.symm.subset hp2))]

example : Ex.files.Perm Ex.filesRev := by decide
example : (compileFiles Ex.cc Ex.flagsF "in" "out" Ex.filesRev ⟨Ex.outFiles, 10, []⟩).outFiles
    = [("a.css", ⟨"/*css*/a{}", 11⟩), ("b.css", ⟨"/*css*/b{}", 10⟩), ("keep.txt", ⟨"k", 0⟩)] := by
  decide   -- compare with the example after `C16_force`: same bytes, other mtimes

/-- **C16_iso_alone**: the bytes written for a `.less` file are those of the run over that file
    alone — the other files of the directory have no influence. -/
theorem C16_iso_alone (cc : String → String) (fl : Flags) (i o : String)
    (files : List (String × File)) (hnd : LessNodup fl files)
    (out0 : List (String × File)) (clock clock' : Nat) (lg lg' : List String)
    (name : String) (src : File) (hmem : (name, src) ∈ files) (hl : isLess name = true) :
    (findFile (compileFiles cc fl i o files ⟨out0, clock, lg⟩).outFiles (outName fl name)).map (·.bytes)
      = (findFile (compileFiles cc fl i o [(name, src)] ⟨out0, clock', lg'⟩).outFiles
          (outName fl name)).map (·.bytes) := by
  have hnd₁ : LessNodup fl [(name, src)] := by simp [LessNodup, hl]
  have k₁ := compileFiles_file cc fl i o files ⟨out0, clock, lg⟩ hnd name src hmem hl
  have k₂ := compileFiles_file cc fl i o [(name, src)] ⟨out0, clock', lg'⟩ hnd₁ name src
    List.mem_cons_self hl
  by_cases hc : fl.dry = true ∨ stale fl src (findFile out0 (outName fl name)) = false
  · rw [k₁.1 hc, k₂.1 hc]
  · have hc' : fl.dry = false ∧ stale fl src (findFile out0 (outName fl name)) = true := by
      simpa using hc
    obtain ⟨t₁, _, _, e₁⟩ := k₁.2 hc'
    obtain ⟨t₂, _, _, e₂⟩ := k₂.2 hc'
    rw [e₁, e₂]; rfl

example : findFile (compileFiles Ex.cc Ex.flagsF "in" "out" [("b.less", ⟨"b{}", 3⟩)]
    ⟨Ex.outFiles, 10, []⟩).outFiles "b.css" = some ⟨"/*css*/b{}", 10⟩ := by decide
example : findFile (compileFiles Ex.cc Ex.flagsF "in" "out" Ex.files
    ⟨Ex.outFiles, 10, []⟩).outFiles "b.css" = some ⟨"/*css*/b{}", 11⟩ := by decide

/-! ### (5) stdout -/

/-- the lines expected on stdout for one directory: one per stale `.less` file, in listing order,
    staleness judged against the output directory as it was *before* the run -/
def expectedLog (fl : Flags) (i o : String) (out0 : List (String × File))
    (files : List (String × File)) : List String :=
  files.filterMap (fun p =>
    if isLess p.1 && stale fl p.2 (findFile out0 (outName fl p.1))
    then some (i ++ "/" ++ p.1 ++ " -> " ++ o ++ "/" ++ outName fl p.1) else none)

/-- **C16_log**: the loop appends to stdout exactly `expectedLog`, in a dry run and in a real run
    alike (in a real run the staleness of a later file is tested against the updated directory; with
    distinct out-names that is the same as testing against the directory before the run). -/
theorem C16_log (cc : String → String) (fl : Flags) (i o : String) (files : List (String × File))
    (out0 : List (String × File)) (clock : Nat) (lg : List String)
    (hnd : ((files.filter (fun p => isLess p.1)).map (fun p => outName fl p.1)).Nodup) :
    (compileFiles cc fl i o files ⟨out0, clock, lg⟩).log = lg ++ expectedLog fl i o out0 files :=
  compileFiles_log cc fl i o files ⟨out0, clock, lg⟩ hnd

example : expectedLog Ex.flags "in" "out" Ex.outFiles Ex.files = ["in/a.less -> out/a.css"] := by
  decide
example : expectedLog Ex.flagsD "in" "out" Ex.outFiles Ex.files
    = ["in/a.less -> out/a.css", "in/b.less -> out/b.css"] := by decide
example : (compileFiles Ex.cc Ex.flags "in" "out" Ex.files ⟨Ex.outFiles, 10, ["x"]⟩).log
    = ["x", "in/a.less -> out/a.css"] := by decide

/-! ### (6) `--recurse` mirrors the sub-directories -/

/-- **C16_dir_files**: the files of the directory returned by `runDir` are the result of the loop
    `compileFiles` started on the files of the given output directory — so (2)–(5) speak about every
    directory `ldirectory` visits. -/
theorem C16_dir_files (cc : String → String) (fl : Flags) (i o : String)
    (files : List (String × File)) (subs : List (String × Tree)) (out : Option Tree) (clock : Nat)
    (res : Tree) (h : (runDir cc fl i o (.mk files subs) out clock).1 = some res) :
    res.files = (compileFiles cc fl i o files ⟨outFilesOf out, clock, []⟩).outFiles :=
  runDir_files cc fl i o files subs out clock res h

example : (runDir Ex.cc Ex.flags "in" "out" Ex.tree Ex.out 10).1
    = some (.mk [("a.css", ⟨"/*css*/a{}", 10⟩), ("b.css", ⟨"fresh", 7⟩), ("keep.txt", ⟨"k", 0⟩)]
        Ex.outSubs) := by rfl

/-- **C16_rec**: with `--recurse` (no `--dry-run`), sub-directory names pairwise distinct: the output
    directory exists afterwards and
    * every non-hidden sub-directory `name` of the input is mirrored: the output has a sub-directory
      `name`, and it is exactly what `ldirectory` returns for `in/name → out/name`, started at some
      clock `c` of this run against the `out/name` that was there before;
    * sub-directories of the output that are hidden, or have no counterpart in the input, are
      unchanged. -/
theorem C16_rec (cc : String → String) (fl : Flags) (hrec : fl.recurse = true) (hd : fl.dry = false)
    (i o : String) (files : List (String × File)) (subs : List (String × Tree))
    (hnd : (subs.map (·.1)).Nodup) (out : Option Tree) (clock : Nat) :
    ∃ res, (runDir cc fl i o (.mk files subs) out clock).1 = some res ∧
      (∀ name t, (name, t) ∈ subs → hidden name = false →
        ∃ c t', clock ≤ c ∧ c ≤ (runDir cc fl i o (.mk files subs) out clock).2.1 ∧
          findSub res.subs name = some t' ∧
          (runDir cc fl (i ++ "/" ++ name) (o ++ "/" ++ name) t
              (findSub (outSubsOf out) name) c).1 = some t') ∧
      (∀ n, (hidden n = true ∨ n ∉ subs.map (·.1)) →
        findSub res.subs n = findSub (outSubsOf out) n) := by
  rw [runDir_eq]
  simp only [hrec, hd, if_true, Bool.not_false, Bool.or_true]
  refine ⟨_, rfl, ?_, ?_⟩
  · intro name t hmem hh
    obtain ⟨c, h1, h2, h3⟩ := runSubs_visited cc fl hd i o subs hnd (outSubsOf out)
      (compileFiles cc fl i o files ⟨outFilesOf out, clock, []⟩).clock name t hmem hh
    obtain ⟨t', ht'⟩ := runDir_some cc fl hd (i ++ "/" ++ name) (o ++ "/" ++ name) t
      (findSub (outSubsOf out) name) c
    refine ⟨c, t', Nat.le_trans
      (compileFiles_clock_le cc fl i o files ⟨outFilesOf out, clock, []⟩) h1, h2, ?_, ht'⟩
    rw [← ht', ← h3]; rfl
  · intro n hn
    refine runSubs_untouched cc fl i o subs (outSubsOf out) _ n ?_
    intro p hp hh e
    rcases hn with hn | hn
    · rw [e, hn] at hh; cases hh
    · exact hn (List.mem_map.mpr ⟨p, hp, e⟩)

example : Ex.flagsR.recurse = true ∧ Ex.flagsR.dry = false ∧ (Ex.subs.map (·.1)).Nodup ∧
    hidden "sub" = false ∧ hidden ".git" = true ∧ "other" ∉ Ex.subs.map (·.1) := by decide
example : ("sub", Ex.sub) ∈ Ex.subs := List.mem_cons_self
example : runDir Ex.cc Ex.flagsR "in" "out" Ex.tree Ex.out 10
    = (some (.mk [("a.css", ⟨"/*css*/a{}", 10⟩), ("b.css", ⟨"fresh", 7⟩), ("keep.txt", ⟨"k", 0⟩)]
              [("other", .mk [] []), ("sub", .mk [("c.css", ⟨"/*css*/c{}", 11⟩)] [])]),
       12, ["in/a.less -> out/a.css", "in/sub/c.less -> out/sub/c.css"]) := by rfl
example : (runDir Ex.cc Ex.flagsR "in/sub" "out/sub" Ex.sub (findSub Ex.outSubs "sub") 11).1
    = some (.mk [("c.css", ⟨"/*css*/c{}", 11⟩)] []) := by rfl

/-- **C16_norec**: without `--recurse` the sub-directories of the output directory are unchanged
    (none when it had to be created). -/
theorem C16_norec (cc : String → String) (fl : Flags) (hrec : fl.recurse = false)
    (i o : String) (files : List (String × File)) (subs : List (String × Tree))
    (out : Option Tree) (clock : Nat) (res : Tree)
    (h : (runDir cc fl i o (.mk files subs) out clock).1 = some res) :
    res.subs = outSubsOf out := by
  rw [runDir_eq] at h
  simp only [hrec, Bool.false_eq_true, if_false] at h
  split at h
  · cases h; rfl
  · cases h

example : Ex.flags.recurse = false := rfl
example : ((runDir Ex.cc Ex.flags "in" "out" Ex.tree Ex.out 10).1.map Tree.subs) = some Ex.outSubs := by
  rfl
example : ((runDir Ex.cc Ex.flags "in" "out" Ex.tree none 10).1.map Tree.subs) = some [] := by rfl

/-! ### (7) a second run has nothing to do -/

/-- **C16_idem**: a real run (no `--dry-run`) over a well-formed tree, started after the last
    modification of any source (`maxSrcMtime t < clock` — true of every real run), leaves a state in
    which a second run without `--force` (all other flags the same) rewrites nothing and announces
    nothing: it returns the very same output tree — equality of trees, not only of look-ups — the
    same clock, and an empty stdout. -/
theorem C16_idem (cc : String → String) (fl : Flags) (hd : fl.dry = false) (i o : String) (t : Tree)
    (out : Option Tree) (clock : Nat) (hwf : WF t = true) (hm : maxSrcMtime t < clock)
    (out1 : Option Tree) (clock1 : Nat) (lg1 : List String)
    (hrun : runDir cc fl i o t out clock = (out1, clock1, lg1)) :
    runDir cc { fl with force := false } i o t out1 clock1 = (out1, clock1, []) := by
  have h := runDir_idem cc fl { fl with force := false } hd rfl rfl rfl t i o out clock hwf hm clock1
  rw [hrun] at h
  exact h

/-- **C16_idem_any_clock**: the same, the second run started at an arbitrary later (or earlier)
    time `c2`, and with `--dry-run` switched on or off at will. -/
theorem C16_idem_any_clock (cc : String → String) (fl : Flags) (hd : fl.dry = false) (i o : String)
    (t : Tree) (out : Option Tree) (clock : Nat) (hwf : WF t = true) (hm : maxSrcMtime t < clock)
    (dry2 : Bool) (c2 : Nat) :
    runDir cc { fl with force := false, dry := dry2 } i o t (runDir cc fl i o t out clock).1 c2
      = ((runDir cc fl i o t out clock).1, c2, []) :=
  runDir_idem cc fl { fl with force := false, dry := dry2 } hd rfl rfl rfl t i o out clock hwf hm c2

example : WF Ex.tree = true ∧ maxSrcMtime Ex.tree < 10 ∧ Ex.flagsF.dry = false := by decide
example : runDir Ex.cc Ex.flagsF "in" "out" Ex.tree Ex.out 10
    = (some (.mk [("a.css", ⟨"/*css*/a{}", 10⟩), ("b.css", ⟨"/*css*/b{}", 11⟩), ("keep.txt", ⟨"k", 0⟩)]
              [("other", .mk [] []), ("sub", .mk [("c.css", ⟨"/*css*/c{}", 12⟩)] [])]),
       13, ["in/a.less -> out/a.css", "in/b.less -> out/b.css", "in/sub/c.less -> out/sub/c.css"]) := by
  rfl
example : runDir Ex.cc { Ex.flagsF with force := false } "in" "out" Ex.tree
      (some (.mk [("a.css", ⟨"/*css*/a{}", 10⟩), ("b.css", ⟨"/*css*/b{}", 11⟩), ("keep.txt", ⟨"k", 0⟩)]
              [("other", .mk [] []), ("sub", .mk [("c.css", ⟨"/*css*/c{}", 12⟩)] [])])) 13
    = (some (.mk [("a.css", ⟨"/*css*/a{}", 10⟩), ("b.css", ⟨"/*css*/b{}", 11⟩), ("keep.txt", ⟨"k", 0⟩)]
              [("other", .mk [] []), ("sub", .mk [("c.css", ⟨"/*css*/c{}", 12⟩)] [])]), 13, []) := by
  rfl
-- the clock hypothesis matters: were the run started at time 4, before a.less (mtime 5) was last
-- modified, a.css would get mtime 4 < 5 and be stale again
example : ¬ maxSrcMtime Ex.tree < 4 := by decide
example : (runDir Ex.cc { Ex.flags with force := false } "in" "out" Ex.tree
      (runDir Ex.cc Ex.flags "in" "out" Ex.tree Ex.out 4).1 5).2.2 = ["in/a.less -> out/a.css"] := by
  rfl

end Lessm.Batch
