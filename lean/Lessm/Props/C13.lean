/-
  C13  Compilation is a pure function of source text and options: theorems about Lessm.Pure.

  The model makes the sharing explicit: the only thing a compilation reads that it did not create itself is the
  package table module (`cfg.pkg`); the only thing it leaves behind is the table file in the temporary directory.
  The theorems say that under the hypothesis the harness checks on every run (the package table module is absent, or
  holds the tables of this grammar) every output of every schedule of every number of processes, with any crash points
  and any initial content of the table file, is `run gen src opt`.  That the real code has exactly this footprint is
  checked by the correspondence run (strace of the file accesses, histories, hash seeds, concurrent processes).
-/
import Lessm.Model.Purity
namespace Lessm.Pure

/-- the hypothesis on the installation: no package table module, or one that carries this grammar's tables -/
def PkgOK (cfg : Config) : Prop := (yaccTables cfg.curVersion cfg.optimize cfg.sig cfg.gen cfg.pkg).1 = cfg.gen

theorem pkgOK_none (cfg : Config) (h : cfg.pkg = none) : PkgOK cfg := by
  unfold PkgOK; rw [h]; rfl

theorem pkgOK_same (cfg : Config) (t : Tab) (h : cfg.pkg = some t) (ht : t.tables = cfg.gen) : PkgOK cfg := by
  unfold PkgOK; rw [h]; simp only [yaccTables]; split
  · exact ht
  · rfl

/-- invariant: every parser alive holds the generated tables, every recorded output is the pure function's -/
def Inv {Out : Type} (cfg : Config) (run : Nat → String → Nat → Out) (s : Sys Out) : Prop :=
  (∀ pid t, (s.procs pid).tables = some t → t = cfg.gen) ∧
  (∀ e ∈ s.out, e.2.2.2 = run cfg.gen e.2.1 e.2.2.1)

theorem inv_init {Out : Type} (cfg : Config) (run : Nat → String → Nat → Out) (tmp : Option String) :
    Inv cfg run (initSys tmp) := by
  constructor
  · intro pid t h; simp [initSys] at h
  · intro e he; simp [initSys] at he

theorem inv_step {Out : Type} (cfg : Config) (run : Nat → String → Nat → Out) (hp : PkgOK cfg)
    (s : Sys Out) (ev : Nat × Step) (h : Inv cfg run s) : Inv cfg run (exec cfg run s ev) := by
  obtain ⟨pid, st⟩ := ev
  obtain ⟨h1, h2⟩ := h
  unfold exec
  by_cases hd : (s.procs pid).dead = true
  · simp [hd]; exact ⟨h1, h2⟩
  · simp only [hd, Bool.false_eq_true, ↓reduceIte]
    cases st with
    | construct =>
        refine ⟨?_, h2⟩
        intro q t hq
        simp only [setProc] at hq
        split at hq
        · simp at hq; rw [← hq]; exact hp
        · exact h1 q t hq
    | trunc => exact ⟨h1, h2⟩
    | write c => exact ⟨h1, h2⟩
    | compile src opt =>
        cases ht : (s.procs pid).tables with
        | none => simp; exact ⟨h1, h2⟩
        | some t =>
            simp only
            refine ⟨h1, ?_⟩
            intro e he
            rw [List.mem_append] at he
            rcases he with he | he
            · exact h2 e he
            · simp at he; subst he; simp [h1 pid t ht]
    | crash =>
        refine ⟨?_, h2⟩
        intro q t hq
        simp only [setProc] at hq
        split at hq
        · exact h1 pid t (by simpa using hq)
        · exact h1 q t hq

theorem inv_all {Out : Type} (cfg : Config) (run : Nat → String → Nat → Out) (hp : PkgOK cfg)
    (sched : List (Nat × Step)) (s : Sys Out) (h : Inv cfg run s) : Inv cfg run (execAll cfg run s sched) := by
  induction sched generalizing s with
  | nil => exact h
  | cons ev rest ih => exact ih _ (inv_step cfg run hp s ev h)

/-- **C13_pure**: for every number of processes, every interleaving of their steps, every crash point and every initial
    content of the table file (absent, complete, any prefix, foreign bytes), every CSS produced is the pure function
    `run gen` of its own source and options. -/
theorem C13_pure {Out : Type} (cfg : Config) (run : Nat → String → Nat → Out) (hp : PkgOK cfg)
    (tmp : Option String) (sched : List (Nat × Step)) :
    ∀ e ∈ (execAll cfg run (initSys tmp) sched).out, e.2.2.2 = run cfg.gen e.2.1 e.2.2.1 :=
  (inv_all cfg run hp sched _ (inv_init cfg run tmp)).2

/-- the table file is never read: two systems that differ only in its content stay in step -/
theorem exec_tmp_irrelevant {Out : Type} (cfg : Config) (run : Nat → String → Nat → Out) (s1 s2 : Sys Out)
    (hp : s1.procs = s2.procs) (ho : s1.out = s2.out) (ev : Nat × Step) :
    (exec cfg run s1 ev).procs = (exec cfg run s2 ev).procs ∧ (exec cfg run s1 ev).out = (exec cfg run s2 ev).out := by
  obtain ⟨pid, st⟩ := ev
  unfold exec
  rw [hp]
  by_cases hd : (s2.procs pid).dead = true
  · simp [hd, ho, hp]
  · simp only [hd, Bool.false_eq_true, ↓reduceIte]
    cases st with
    | construct => simp [ho]
    | trunc => simp [ho]
    | write c => simp [ho]
    | compile src opt => cases (s2.procs pid).tables <;> simp [ho, hp]
    | crash => simp [ho]

/-- **C13_cache**: cold, warm, truncated or foreign table file: the outputs (and their order) are the same. -/
theorem C13_cache {Out : Type} (cfg : Config) (run : Nat → String → Nat → Out) (t1 t2 : Option String)
    (sched : List (Nat × Step)) :
    (execAll cfg run (initSys t1) sched).out = (execAll cfg run (initSys t2) sched).out := by
  have key : ∀ (sched : List (Nat × Step)) (s1 s2 : Sys Out), s1.procs = s2.procs → s1.out = s2.out →
      (execAll cfg run s1 sched).out = (execAll cfg run s2 sched).out := by
    intro sched
    induction sched with
    | nil => intro s1 s2 _ ho; exact ho
    | cons ev rest ih =>
        intro s1 s2 hp ho
        obtain ⟨h1, h2⟩ := exec_tmp_irrelevant cfg run s1 s2 hp ho ev
        exact ih _ _ h1 h2
  exact key sched _ _ rfl rfl

/-- a history of one process: construct + compile for every (source, options) of the list -/
def history (pid : Nat) : List (String × Nat) → List (Nat × Step)
  | [] => []
  | (src, opt) :: r => (pid, .construct) :: (pid, .trunc) :: (pid, .write "tables") :: (pid, .compile src opt) :: history pid r

theorem execAll_append {Out : Type} (cfg : Config) (run : Nat → String → Nat → Out) (s : Sys Out) (a b : List (Nat × Step)) :
    execAll cfg run s (a ++ b) = execAll cfg run (execAll cfg run s a) b := by
  simp [execAll, List.foldl_append]

/-- **C13_history**: whatever was compiled before in the same process, successfully or not (`run` may return an error
    value), the n-th call returns `run gen` of its own arguments: the outputs of a history are the map of the pure function. -/
theorem C13_history {Out : Type} (cfg : Config) (run : Nat → String → Nat → Out) (hp : PkgOK cfg) (tmp : Option String)
    (pid : Nat) (h : List (String × Nat)) :
    (execAll cfg run (initSys tmp) (history pid h)).out = h.map (fun c => (pid, c.1, c.2, run cfg.gen c.1 c.2)) := by
  have round : ∀ (src : String) (opt : Nat) (s : Sys Out), (s.procs pid).dead = false →
      (execAll cfg run s [(pid, .construct), (pid, .trunc), (pid, .write "tables"), (pid, .compile src opt)]).out
        = s.out ++ [(pid, src, opt, run cfg.gen src opt)] ∧
      ((execAll cfg run s [(pid, .construct), (pid, .trunc), (pid, .write "tables"), (pid, .compile src opt)]).procs pid).dead = false := by
    intro src opt s hd
    unfold PkgOK at hp
    simp [execAll, exec, setProc, hd, hp]
  have key : ∀ (h : List (String × Nat)) (s : Sys Out), (s.procs pid).dead = false →
      (execAll cfg run s (history pid h)).out = s.out ++ h.map (fun c => (pid, c.1, c.2, run cfg.gen c.1 c.2)) := by
    intro h
    induction h with
    | nil => intro s _; simp [history, execAll]
    | cons c r ih =>
        intro s hd
        obtain ⟨src, opt⟩ := c
        have hsplit : history pid ((src, opt) :: r) =
            [(pid, .construct), (pid, .trunc), (pid, .write "tables"), (pid, .compile src opt)] ++ history pid r := by
          simp [history]
        rw [hsplit, execAll_append]
        obtain ⟨ho, hd'⟩ := round src opt s hd
        rw [ih _ hd', ho]
        simp
  have := key h (initSys tmp) (by simp [initSys])
  simpa [initSys] using this

/-- the hypothesis is needed: a foreign package table module used blindly (optimize) changes the result -/
theorem C13_foreign_pkg_counterexample :
    ∃ (cfg : Config) (run : Nat → String → Nat → Nat), ¬ PkgOK cfg ∧
      (execAll cfg run (initSys none) [(0, .construct), (0, .compile "s" 0)]).out ≠ [(0, "s", 0, run cfg.gen "s" 0)] := by
  refine ⟨⟨1, true, 7, 100, some ⟨1, 8, 200⟩⟩, fun t _ _ => t, ?_, ?_⟩
  · simp [PkgOK, yaccTables]
  · simp [execAll, exec, initSys, setProc, yaccTables]

/-! non-vacuity: two processes interleaved on a truncated table file, one crashing in the middle of its write -/
example : (execAll ⟨1, true, 7, 100, none⟩ (fun t s o => (t, s, o)) (initSys (some "_tabver"))
    [(0, .construct), (1, .construct), (0, .trunc), (1, .trunc), (0, .write "ab"), (1, .write "x"), (1, .crash),
     (0, .compile "p" 1), (1, .compile "q" 0), (0, .compile "p" 1)]).out
    = [(0, "p", 1, (100, "p", 1)), (0, "p", 1, (100, "p", 1))] := by
  simp [execAll, exec, initSys, setProc, yaccTables]

example : PkgOK ⟨1, true, 7, 100, none⟩ := pkgOK_none _ rfl

end Lessm.Pure
