/-
  C20 (mixin part)  A mixin that calls itself without a reachable base case is detected and reported
       as a compilation error rather than hanging or exhausting the interpreter stack; guarded
       recursion shallower than the built-in depth limit still expands completely.

  The model `evalItems tbl gas depth inExp sc me items` (Lessm/Model/Mixin.lean) carries a model-only
  `gas` that makes the Lean definition terminate (`.error .crash` when it runs out, standing for the
  interpreter stack).  The real code has no such counter.  What is shown here is that `gas` is never
  the binding constraint: the depth limit of deferred.py (64) alone bounds the recursion.

  Vocabulary (Lessm/Lemmas/TermMixinLemmas.lean):
    `nestItems items`        static rule nesting of an item list (`0` for `[]`, `1` for a list of
                             declarations and calls, `+ 1` through every nested rule)
    `nestTbl tbl`            the maximum of `nestItems` over all mixin bodies and plain-rule bodies
    `levelsLeft inExp depth` the number of call levels available below a call met at that counter:
                             `64 - depth` inside an expansion, `65` outside
    `gasBound tbl items`     `nestItems items + 65 * nestTbl tbl`
    `gasBoundSheet sheet`    `66 * nestTbl (buildTable sheet)`
    `callDepth inExp depth`  (Lessm/Spec/MixinSpec.lean) the counter handed to a call
    `quietItems items`       literal declarations and, recursively, rules of such: items that cannot
                             fail
    `Reaches P name items`   `items` contains the argument-less call of `name`, directly or inside nested
                             rules, the items in front of it satisfying `P` at every level
    `loopDef`, `countdownSheet n`   `.loop(@i) when (@i > 0) { w: @i; .loop(@i - 1); }`, and that
                             definition followed by `.a { .loop(n); }`
-/
import Lessm.Lemmas.TermMixinLemmas

namespace Lessm.Mixin
open Lessm.Vars Lessm.Sel

/-! ### M1: gas monotonicity -/

/-- **C20_mixin_gas_mono**: more gas never changes a result that did not run out of gas. -/
theorem C20_mixin_gas_mono (tbl : Table) (g g' d : Nat) (ie : Bool) (sc : Scope) (me : List Sel)
    (items : List Item) (r : Except Err (List (String × String) × List OutRule))
    (h : evalItems tbl g d ie sc me items = r) (hr : r ≠ .error .crash) (hg : g ≤ g') :
    evalItems tbl g' d ie sc me items = r := by
  subst h
  exact ((evalItems_crashLe tbl g g' hg d ie sc me items).eq hr).symm

/-- **C20_mixin_gas_mono_compile**: the same for a whole sheet. -/
theorem C20_mixin_gas_mono_compile (g g' : Nat) (sheet : List Top) (r : Except Err (List OutRule))
    (h : compile g sheet = r) (hr : r ≠ .error .crash) (hg : g ≤ g') : compile g' sheet = r := by
  subst h
  rw [compile_eq_go, go_eq_compileRules] at hr ⊢
  rw [compile_eq_go, go_eq_compileRules]
  exact ((compileRules_crashLe _ g g' hg _).eq hr).symm

/-! ### M2: the depth limit alone bounds the recursion -/

/-- **C20_mixin_gas_enough_depth** (sharp form): a rule consumes one unit of gas and one level of
    static nesting; a call consumes one unit, one of the `levelsLeft` call levels, and restarts the
    static nesting at `nestTbl tbl` at most; a call at counter 65 stops. -/
theorem C20_mixin_gas_enough_depth (tbl : Table) (g d : Nat) (ie : Bool) (sc : Scope)
    (me : List Sel) (items : List Item)
    (h : nestItems items + levelsLeft ie d * nestTbl tbl ≤ g) :
    evalItems tbl g d ie sc me items ≠ .error .crash :=
  evalItems_ne_crash tbl g d ie sc me items h

/-- **C20_mixin_gas_enough**: with `gasBound tbl items = nestItems items + 65 * nestTbl tbl`
    units of gas no evaluation runs out of gas, whatever the counter, the scope and the selector. -/
theorem C20_mixin_gas_enough (tbl : Table) (g d : Nat) (ie : Bool) (sc : Scope) (me : List Sel)
    (items : List Item) (h : gasBound tbl items ≤ g) :
    evalItems tbl g d ie sc me items ≠ .error .crash :=
  evalItems_gasBound tbl g d ie sc me items h

/-- **C20_mixin_gas_irrelevant**: from `gasBound` on, the result does not depend on the gas. -/
theorem C20_mixin_gas_irrelevant (tbl : Table) (g d : Nat) (ie : Bool) (sc : Scope) (me : List Sel)
    (items : List Item) (h : gasBound tbl items ≤ g) :
    evalItems tbl g d ie sc me items = evalItems tbl (gasBound tbl items) d ie sc me items :=
  C20_mixin_gas_mono tbl _ g d ie sc me items _ rfl
    (evalItems_gasBound tbl _ d ie sc me items (Nat.le_refl _)) h

/-- **C20_mixin_total**: `compile` is total in the sense that matters: there is an explicit bound
    `gasBoundSheet sheet = 66 * nestTbl (buildTable sheet)` from which on the result is the same
    for every gas, and is not "interpreter stack exhausted". -/
theorem C20_mixin_total (sheet : List Top) :
    ∀ g, gasBoundSheet sheet ≤ g →
      compile g sheet = compile (gasBoundSheet sheet) sheet ∧
      compile (gasBoundSheet sheet) sheet ≠ .error .crash := by
  intro g hg
  have hne : compile (gasBoundSheet sheet) sheet ≠ .error .crash := by
    rw [compile_eq_go, go_eq_compileRules]
    exact compileRules_ne_crash _ _ _ (gasBound_rule_le sheet)
  exact ⟨C20_mixin_gas_mono_compile _ g sheet _ rfl hne hg, hne⟩

/-! ### M3: recursion without a base case is reported -/

/-- **C20_mixin_trap**: let `C` be a set of mixin names each of which has exactly one definition,
    without parameters and without guard, whose body contains, directly or inside nested rules, the
    call of a member of `C` (anything may stand in front of it).  Then every call of a member of `C`,
    at every counter, in every scope, with every gas, is an error; and with `gasBound` units of gas the
    error is not "out of gas": it is a compilation error (the `NameError` of the depth limit, or an
    error raised earlier by an item in front of one of the calls). -/
theorem C20_mixin_trap (tbl : Table) (C : String → Prop)
    (hC : ∀ n, C n → ∃ n' body, C n' ∧ tbl.candidates n = [⟨[], [], body⟩] ∧
      Reaches (fun _ => True) n' body)
    (n : String) (hn : C n) (g d : Nat) (ie : Bool) (sc : Scope) (me : List Sel)
    (rest : List Item) :
    ∃ e, evalItems tbl g d ie sc me (.call n [] :: rest) = .error e ∧
      (gasBound tbl (.call n [] :: rest) ≤ g → e ≠ .crash) := by
  obtain ⟨e, he⟩ := trap_isErr tbl C hC n hn g d ie sc me rest
  refine ⟨e, he, fun hg hc => ?_⟩
  subst hc
  exact evalItems_gasBound tbl g d ie sc me _ hg he

/-- **C20_mixin_chain**: a chain `nm 0 → nm 1 → nm 2 → …` of singly defined, parameterless,
    unguarded mixins, the body of `nm i` reaching the call of `nm (i + 1)` behind items that cannot
    fail: the call of `nm i` met at counter `callDepth ie d` is the `NameError` of the mixin whose call
    would get counter 65. -/
theorem C20_mixin_chain (tbl : Table) (nm : Nat → String)
    (h : ∀ i, ∃ body, tbl.candidates (nm i) = [⟨[], [], body⟩] ∧
      Reaches (fun pre => quietItems pre = true) (nm (i + 1)) body)
    (i g d : Nat) (ie : Bool) (sc : Scope) (me : List Sel) (rest : List Item)
    (hg : gasBound tbl (.call (nm i) [] :: rest) ≤ g) :
    evalItems tbl g d ie sc me (.call (nm i) [] :: rest) =
      .error (.nameError (nm (i + (65 - callDepth ie d)))) := by
  obtain ⟨e, he, hc | hc⟩ := chain_err tbl nm h i g d ie sc me rest
  · subst hc; exact absurd he (evalItems_gasBound tbl g d ie sc me _ hg)
  · rw [he, hc]

/-- **C20_mixin_cycle**: a cycle `names[0] → names[1] → … → names[k-1] → names[0]` of any length
    `k ≥ 1`.  The error names the mixin met at depth 65: from outside any expansion
    (`callDepth false d = 0`) that is `names[(i + 65) % k]`. -/
theorem C20_mixin_cycle (tbl : Table) (names : List String) (hk : 0 < names.length)
    (h : ∀ (i : Nat) (hi : i < names.length), ∃ body,
      tbl.candidates names[i] = [⟨[], [], body⟩] ∧
      Reaches (fun pre => quietItems pre = true)
        (names[(i + 1) % names.length]'(Nat.mod_lt _ hk)) body)
    (i : Nat) (hi : i < names.length) (g d : Nat) (ie : Bool) (sc : Scope) (me : List Sel)
    (rest : List Item) (hg : gasBound tbl (.call names[i] [] :: rest) ≤ g) :
    evalItems tbl g d ie sc me (.call names[i] [] :: rest) =
      .error (.nameError
        (names[(i + (65 - callDepth ie d)) % names.length]'(Nat.mod_lt _ hk))) := by
  have hnm : ∀ j, ∃ body,
      tbl.candidates (names[j % names.length]'(Nat.mod_lt _ hk)) = [⟨[], [], body⟩] ∧
      Reaches (fun pre => quietItems pre = true)
        (names[(j + 1) % names.length]'(Nat.mod_lt _ hk)) body := by
    intro j
    obtain ⟨body, h1, h2⟩ := h (j % names.length) (Nat.mod_lt _ hk)
    refine ⟨body, h1, ?_⟩
    have e : (j % names.length + 1) % names.length = (j + 1) % names.length := by
      rw [Nat.add_mod, Nat.mod_mod, ← Nat.add_mod]
    simpa only [e] using h2
  have hi' : names[i] = names[i % names.length]'(Nat.mod_lt _ hk) := by
    simp only [Nat.mod_eq_of_lt hi]
  have := C20_mixin_chain tbl (fun j => names[j % names.length]'(Nat.mod_lt _ hk)) hnm i g d ie
    sc me rest (by simpa only [← hi'] using hg)
  simpa only [← hi'] using this

/-- **C20_mixin_self_nested**: unguarded self recursion through nested rules: `m` has exactly one
    definition, without parameters and without guard, whose body contains the call `m()` at any rule
    depth, the items in front of it (at every level) being literal declarations or rules of such.
    With `gasBound` units of gas the call of `m` is `NameError m`, for every counter, scope and
    selector. -/
theorem C20_mixin_self_nested (tbl : Table) (m : String) (body : List Item)
    (hc : tbl.candidates m = [⟨[], [], body⟩])
    (hb : Reaches (fun pre => quietItems pre = true) m body)
    (g d : Nat) (ie : Bool) (sc : Scope) (me : List Sel) (rest : List Item)
    (hg : gasBound tbl (.call m [] :: rest) ≤ g) :
    evalItems tbl g d ie sc me (.call m [] :: rest) = .error (.nameError m) :=
  C20_mixin_chain tbl (fun _ => m) (fun _ => ⟨body, hc, hb⟩) 0 g d ie sc me rest hg

/-- **C20_mixin_self**: the recursive call is a direct item of the body, behind literal
    declarations (or rules of literal declarations). -/
theorem C20_mixin_self (tbl : Table) (m : String) (pre post : List Item)
    (hc : tbl.candidates m = [⟨[], [], pre ++ .call m [] :: post⟩])
    (hq : quietItems pre = true)
    (g d : Nat) (ie : Bool) (sc : Scope) (me : List Sel) (rest : List Item)
    (hg : gasBound tbl (.call m [] :: rest) ≤ g) :
    evalItems tbl g d ie sc me (.call m [] :: rest) = .error (.nameError m) :=
  C20_mixin_self_nested tbl m _ hc (.here pre post hq) g d ie sc me rest hg

/-- **C20_mixin_self_compile**: at the level of a sheet: if the first rule of the sheet reaches
    (behind items that cannot fail) the call of such a mixin, compilation reports `NameError m`, with
    any gas from `gasBoundSheet sheet` on. -/
theorem C20_mixin_self_compile (sheet : List Top) (m : String) (mbody : List Item)
    (sel : List Tok) (body : List Item) (rs : List (List Tok × List Item))
    (hc : (buildTable sheet).candidates m = [⟨[], [], mbody⟩])
    (hm : Reaches (fun pre => quietItems pre = true) m mbody)
    (hr : rulesOf sheet = (sel, body) :: rs)
    (hb : Reaches (fun pre => quietItems pre = true) m body)
    (g : Nat) (hg : gasBoundSheet sheet ≤ g) :
    compile g sheet = .error (.nameError m) := by
  obtain ⟨e, he, hse⟩ := reaches_err (buildTable sheet) (fun e => e = .crash ∨ e = .nameError m)
    (.inl rfl) 0 false m (fun pre => quietItems pre = true)
    (fun g sc me post => chain_err (buildTable sheet) (fun _ => m) (fun _ => ⟨mbody, hc, hm⟩)
      0 g 0 false sc me post)
    (fun pre hp g sc me e he => .inl (quiet_error _ hp he)) body hb g [[], []]
    (identParse none sel)
  have hne : e ≠ .crash := by
    intro h; subst h
    exact evalItems_gasBound _ g _ _ _ _ _
      (Nat.le_trans (gasBound_rule_le sheet (sel, body) (by rw [hr]; exact List.mem_cons_self)) hg)
      he
  rcases hse with h | h
  · exact absurd h hne
  · subst h; exact compile_first_rule_error g sheet sel body rs _ hr he

/-! ### M4: guarded recursion on both sides of the limit -/

/-- **C20_mixin_countdown_items**: `.loop(k)` called with counter `callDepth ie d`, in any table
    where `.loop` is `.loop(@i) when (@i > 0) { w: @i; .loop(@i - 1); }` only, with any argument
    that evaluates to the numeral `k`: if the `k + 1` nested calls stay within the limit, the result is
    `w: k; w: k-1; …; w: 1` (gas `k + 1` suffices); otherwise it is `NameError .loop` (gas 66
    suffices). -/
theorem C20_mixin_countdown_items (tbl : Table) (hc : tbl.candidates ".loop" = [loopDef])
    (k g d : Nat) (ie : Bool) (sc : Scope) (me : List Sel) (a : Arg)
    (ha : evalArg sc a = .ok [.lit (toString k)]) :
    (callDepth ie d + k ≤ 64 → k + 1 ≤ g →
      evalItems tbl g d ie sc me [.call ".loop" [a]] =
        .ok ((List.range k).map (fun j => ("w", toString (k - j))), [])) ∧
    (65 ≤ callDepth ie d + k → 66 ≤ g →
      evalItems tbl g d ie sc me [.call ".loop" [a]] = .error (.nameError ".loop")) :=
  ⟨fun hd hg => loop_ok tbl hc k g d ie sc me a ha hd hg,
   fun hd hg => loop_err tbl hc (65 - callDepth ie d) k g d ie sc me a ha rfl (by omega) (by omega)⟩

/-- **C20_mixin_countdown**: `.loop(@i) when (@i > 0) { w: @i; .loop(@i - 1); }  .a { .loop(n); }`
    for `1 ≤ n ≤ 64` compiles to `.a { w: n; w: n-1; …; w: 1 }` (any gas from `n + 1` on). -/
theorem C20_mixin_countdown (n g : Nat) (h1 : 1 ≤ n) (h64 : n ≤ 64) (hg : n + 1 ≤ g) :
    compile g (countdownSheet n) =
      .ok [⟨[[".a"]], (List.range n).map (fun j => ("w", toString (n - j)))⟩] := by
  have h := (C20_mixin_countdown_items _ (countdownSheet_candidates n) n g 0 false [[], []]
    [[".a"]] (.val [.lit (toString n)]) rfl).1 (by simpa [callDepth] using h64) hg
  have hne : ((List.range n).map (fun j => ("w", toString (n - j)))).isEmpty = false := by
    cases n with
    | zero => omega
    | succ n => simp [List.range_succ_eq_map]
  have := compile_single_rule g (countdownSheet n) [".a"] _ _ _ rfl (by rw [identParse_a]; exact h)
  rw [this, hne, identParse_a]
  rfl

/-- **C20_mixin_countdown_zero**: `.loop(0)` fails the guard at once: nothing is emitted. -/
theorem C20_mixin_countdown_zero (g : Nat) (hg : 1 ≤ g) : compile g (countdownSheet 0) = .ok [] := by
  have h := (C20_mixin_countdown_items _ (countdownSheet_candidates 0) 0 g 0 false [[], []]
    [[".a"]] (.val [.lit (toString 0)]) rfl).1 (by simp [callDepth]) hg
  have := compile_single_rule g (countdownSheet 0) [".a"] _ _ _ rfl (by rw [identParse_a]; exact h)
  rw [this]
  rfl

/-- **C20_mixin_countdown_limit**: for every `n ≥ 65` the same sheet is the compilation error
    `NameError .loop` (any gas from 66 on): the call `.loop(n - 65)` would be the 66th level. -/
theorem C20_mixin_countdown_limit (n g : Nat) (h65 : 65 ≤ n) (hg : 66 ≤ g) :
    compile g (countdownSheet n) = .error (.nameError ".loop") := by
  have h := (C20_mixin_countdown_items _ (countdownSheet_candidates n) n g 0 false [[], []]
    [[".a"]] (.val [.lit (toString n)]) rfl).2 (by simpa [callDepth] using h65) hg
  exact compile_first_rule_error g (countdownSheet n) [".a"] _ [] _ rfl
    (by rw [identParse_a]; exact h)

/-! ### non-vacuity

Concrete evaluations go through the structural evaluator `evalF` / `compileRulesF`
(Lessm/Lemmas/MixinLemmas.lean, `evalF_sound`, `compile_of_F`), as in Props/C05.lean. -/

/-- `.f { .f(); }  .r { .f(); }` -/
private def sheetF : List Top :=
  [.mdef ".f" ⟨[], [], [.call ".f" []]⟩, .rule [".r"] [.call ".f" []]]

/-- the bound of `C20_mixin_total` is sharp on this sheet: 66 units of gas are enough and 65 are
    not; the same two lines show that `r ≠ .error .crash` cannot be dropped from
    `C20_mixin_gas_mono` -/
example : gasBoundSheet sheetF = 66 := by decide +kernel
example : compile 65 sheetF = .error .crash := compile_of_F 400 _ _ _ (by decide +kernel)
example : compile 66 sheetF = .error (.nameError ".f") := compile_of_F 400 _ _ _ (by decide +kernel)

/-- the hypotheses of `C20_mixin_self_compile` hold for it: every gas from 66 on -/
example (g : Nat) (hg : 66 ≤ g) : compile g sheetF = .error (.nameError ".f") :=
  C20_mixin_self_compile sheetF ".f" [.call ".f" []] [".r"] [.call ".f" []] []
    (by decide +kernel) (.here [] [] rfl) rfl (.here [] [] rfl) g hg

/-- recursion through nested rules, behind declarations:
    `.f { c: red; .x { d: 1; .y { .f(); } e: 2 } z: 3 }  .r { a: b; .f(); }` -/
private def bodyN : List Item :=
  [.decl "c" [.lit "red"],
   .rule [".x"] [.decl "d" [.lit "1"], .rule [".y"] [.call ".f" []], .decl "e" [.lit "2"]],
   .decl "z" [.lit "3"]]
private def sheetN : List Top :=
  [.mdef ".f" ⟨[], [], bodyN⟩, .rule [".r"] [.decl "a" [.lit "b"], .call ".f" []]]

example : gasBoundSheet sheetN = 198 := by decide +kernel
example (g : Nat) (hg : 198 ≤ g) : compile g sheetN = .error (.nameError ".f") :=
  C20_mixin_self_compile sheetN ".f" bodyN [".r"] _ [] (by decide +kernel)
    (.inside [.decl "c" [.lit "red"]] [".x"] _ [.decl "z" [.lit "3"]] rfl
      (.inside [.decl "d" [.lit "1"]] [".y"] _ [.decl "e" [.lit "2"]] rfl (.here [] [] rfl)))
    rfl (.here [.decl "a" [.lit "b"]] [] rfl) g hg
/-- … and the executable model agrees -/
example : compile 198 sheetN = .error (.nameError ".f") := compile_of_F 600 _ _ _ (by decide +kernel)

/-- the side condition on the items in front of the call matters for *which* error is reported
    (`C20_mixin_self`), not for the fact that one is (`C20_mixin_trap`):
    `.f { w: @nope; .f(); }` -/
private def tblU : Table := ⟨[(".f", ⟨[], [], [.decl "w" [.ref "nope"], .call ".f" []]⟩)], []⟩

example : evalItems tblU 200 0 false [[], []] [[".r"]] [.call ".f" []] = .error (.unknownVar "nope") :=
  evalF_sound _ 400 _ _ _ _ _ _ _ (by decide +kernel)
example (g d : Nat) (ie : Bool) (sc : Scope) (me : List Sel) :
    ∃ e, evalItems tblU g d ie sc me [.call ".f" []] = .error e ∧
      (gasBound tblU [.call ".f" []] ≤ g → e ≠ .crash) :=
  C20_mixin_trap tblU (· = ".f")
    (fun n hn => ⟨".f", _, rfl, by subst hn; decide +kernel, .here [.decl "w" [.ref "nope"]] [] trivial⟩)
    ".f" rfl g d ie sc me []

/-- a cycle of length 3: `.a { .b(); }  .b { w: 1; .c(); }  .c { .x { .a(); } }`.  From outside an
    expansion the error names `names[(0 + 65) % 3] = .c`. -/
private def tbl3 : Table :=
  ⟨[(".a", ⟨[], [], [.call ".b" []]⟩), (".b", ⟨[], [], [.decl "w" [.lit "1"], .call ".c" []]⟩),
    (".c", ⟨[], [], [.rule [".x"] [.call ".a" []]]⟩)], []⟩

example (g : Nat) (sc : Scope) (me : List Sel) (hg : gasBound tbl3 [.call ".a" []] ≤ g) :
    evalItems tbl3 g 0 false sc me [.call ".a" []] = .error (.nameError ".c") :=
  C20_mixin_cycle tbl3 [".a", ".b", ".c"] (by decide)
    (fun i hi => match i, hi with
      | 0, _ => ⟨[.call ".b" []],
          (by decide +kernel : tbl3.candidates ".a" = [⟨[], [], [.call ".b" []]⟩]),
          .here [] [] rfl⟩
      | 1, _ => ⟨[.decl "w" [.lit "1"], .call ".c" []],
          (by decide +kernel : tbl3.candidates ".b" = [⟨[], [], [.decl "w" [.lit "1"], .call ".c" []]⟩]),
          .here [.decl "w" [.lit "1"]] [] rfl⟩
      | 2, _ => ⟨[.rule [".x"] [.call ".a" []]],
          (by decide +kernel : tbl3.candidates ".c" = [⟨[], [], [.rule [".x"] [.call ".a" []]]⟩]),
          .inside [] [".x"] _ [] rfl (.here [] [] rfl)⟩)
    0 (by decide) g 0 false sc me [] hg
example : gasBound tbl3 [.call ".a" []] = 131 := by decide +kernel
example : evalItems tbl3 131 0 false [[], []] [[".r"]] [.call ".a" []] = .error (.nameError ".c") :=
  evalF_sound _ 400 _ _ _ _ _ _ _ (by decide +kernel)

/-- the countdown: the theorem and the executable model agree on both sides of the limit -/
example : compile 4 (countdownSheet 3) = .ok [⟨[[".a"]], [("w", "3"), ("w", "2"), ("w", "1")]⟩] := by
  rw [C20_mixin_countdown 3 4 (by omega) (by omega) (by omega)]; decide +kernel
example : compile 4 (countdownSheet 3) = .ok [⟨[[".a"]], [("w", "3"), ("w", "2"), ("w", "1")]⟩] :=
  compile_of_F 50 _ _ _ (by decide +kernel)
example : compile 3 (countdownSheet 3) = .error .crash := compile_of_F 50 _ _ _ (by decide +kernel)
example : compile 66 (countdownSheet 64) =
    .ok [⟨[[".a"]], (List.range 64).map (fun j => ("w", toString (64 - j)))⟩] :=
  compile_of_F 400 _ _ _ (by decide +kernel)
example : compile 66 (countdownSheet 65) = .error (.nameError ".loop") :=
  compile_of_F 400 _ _ _ (by decide +kernel)
example : compile 66 (countdownSheet 1000) = .error (.nameError ".loop") :=
  C20_mixin_countdown_limit 1000 66 (by omega) (by omega)

end Lessm.Mixin
