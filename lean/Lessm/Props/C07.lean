/-
  C07  Nested @media blocks bubble to the top level: every declaration list is printed once, under the
       conjunction (`and`) of all enclosing queries in nesting order and under the full selector of its
       rule; a rule's unconditional output precedes its media-conditional output.
-/
import Lessm.Lemmas.MediaLemmas

namespace Lessm.Media
open Lessm.Sel Lessm.Nest

/-- **C07** (model = spec): the tree surgery of `Block.parse` (split into own / inner / media, rotation
    of inner @media blocks out of rules, merging of @media inside @media, dropping of empty blocks),
    printed by `Block.fmt`, yields exactly the declarative semantics, for every sheet. -/
theorem C07 (sheet : List Item) : (observe sheet).map toSTriple = specSheet sheet := by
  unfold observe compileSheet
  induction sheet with
  | nil => simp [evalList, obsList, specSheet]
  | cons i is ih =>
    simp only [evalList, obsList_append, List.map_append, specSheet]
    rw [observe_item i, ih]

/-- **C07_top**: every block of the compiled sheet is well formed — all blocks inside it, at every
    depth, are rule blocks. -/
theorem C07_top (sheet : List Item) : ∀ b ∈ compileSheet sheet, WF b :=
  WF_evalList none sheet

/-- **C07_top_depth**, the same in words: no block that occurs strictly inside a block of the output,
    at any depth, is an @media block — no rule contains an @media block, no @media block contains
    another one: every @media block of the output is top-level. -/
theorem C07_top_depth (sheet : List Item) :
    ∀ b ∈ compileSheet sheet, ∀ c, Below c b → c.isMedia = false :=
  fun b hb c hc => below_not_media c b hc (C07_top sheet b hb)

/-- what `WF` says, unfolded one level: the inner blocks are rule blocks and are well formed again -/
theorem C07_WF_iff (b : OBlock) : WF b ↔ ∀ c ∈ b.inner, c.isMedia = false ∧ WF c := by
  unfold WF
  rw [ruleOnlyList_iff]
  exact forall_congr' fun c => imp_congr_right fun _ => ruleOnly_iff c

/-- **C07_media_len**: every printed style rule sits under at most one @media condition — all
    enclosing conditions have been merged into one query. -/
theorem C07_media_len (sheet : List Item) : ∀ t ∈ observe sheet, t.medias.length ≤ 1 := by
  intro t ht
  obtain ⟨b, hb, ht⟩ := (mem_obsList [] _ t).mp ht
  exact obs_WF_len b (C07_top sheet b hb) t ht

/-- **C07_and**: one more nested query is appended after `and`. -/
theorem C07_and (m : Option Query) (a b : Query) :
    conj (some (conj m a)) b = conj m a ++ ["and"] ++ b := rfl

theorem C07_and_snoc (qs : List Query) (q : Query) :
    conjAll (qs ++ [q]) = some (conj (conjAll qs) q) :=
  conjFrom_append none qs q

/-- the conjunction of `q₁,…,qₙ` is `q₁ and q₂ and … and qₙ`: no condition lost or duplicated, nesting
    order kept -/
theorem C07_and_intercalate (qs : List Query) (h : qs ≠ []) :
    conjAll qs = some (List.intercalate ["and"] qs) := by
  cases qs with
  | nil => exact absurd rfl h
  | cons q r =>
    rw [intercalate_cons]
    exact conjFrom_some q r

/-- a declaration written under the nested queries `q :: qs` (outermost first) inside a rule with
    selector `p` is specified under exactly their conjunction, once -/
theorem C07_and_nested (m : Option Query) (p : Option (List Sel)) (q : Query) (qs : List Query) (d : Decl) :
    specU m p (mediaNest q qs [.decl d]) ++ specB m p (mediaNest q qs [.decl d])
      = [⟨conjFrom m (q :: qs), p.getD [], [d]⟩] := by
  rw [specU_mediaNest, List.nil_append]
  induction qs generalizing q m with
  | nil => simp [mediaNest, specB, specUList, specBList, specU, declsOf, own, conjFrom]
  | cons q' r ih =>
    have := ih (some (conj m q)) q'
    simp only [mediaNest, specB, declsOf_mediaNest, own, specUList, specBList, specU_mediaNest,
      List.isEmpty_nil, if_true, List.nil_append, List.append_nil]
    rw [this]; rfl

/-- … and so it is printed: at top level, and inside a rule -/
theorem C07_and_observed (q : Query) (qs : List Query) (d : Decl) :
    (observe [mediaNest q qs [.decl d]]).map toSTriple
      = [⟨some (List.intercalate ["and"] (q :: qs)), [], [d]⟩] := by
  rw [C07, specSheet, specSheet, List.append_nil, C07_and_nested none none q qs d,
    ← C07_and_intercalate (q :: qs) (by simp)]
  rfl

theorem C07_and_observed_rule (sel : List Tok) (q : Query) (qs : List Query) (d : Decl) :
    (observe [.rule sel [mediaNest q qs [.decl d]]]).map toSTriple
      = [⟨some (List.intercalate ["and"] (q :: qs)), identParse none sel, [d]⟩] := by
  rw [C07, specSheet, specSheet, List.append_nil, ← C07_and_intercalate (q :: qs) (by simp)]
  have := C07_and_nested none (some (identParse none sel)) q qs d
  rw [specU_mediaNest, List.nil_append] at this
  simp only [specU, specB, declsOf_mediaNest, own, specUList, specBList, specU_mediaNest,
    List.isEmpty_nil, if_true, List.nil_append, List.append_nil, this]
  rfl

/-- **C07_order**: the output of an item is its part at the current @media level (every triple under
    exactly the enclosing condition `m`) followed by its bubbled part (every triple under a condition
    that is `m` extended by at least one further query). -/
theorem C07_order (m : Option Query) (p : Option (List Sel)) (i : Item) :
    (∀ t ∈ specU m p i, t.media = m) ∧
    (∀ t ∈ specB m p i, ∃ q, t.media = some q ∧ Extends m q) :=
  ⟨specU_media m p i, specB_media m p i⟩

theorem C07_order_ne (m : Option Query) (p : Option (List Sel)) (i : Item) :
    ∀ t ∈ specB m p i, t.media ≠ m := by
  intro t ht
  obtain ⟨q, h1, h2⟩ := specB_media m p i t ht
  rw [h1]
  cases m with
  | none => simp
  | some a =>
    intro e
    exact extends_ne a q h2 (Option.some.inj e)

/-- at top level: all unconditional triples of an item come before all its conditional ones -/
theorem C07_order_top (i : Item) :
    (∀ t ∈ specU none none i, t.media = none) ∧ (∀ t ∈ specB none none i, t.media ≠ none) :=
  ⟨specU_media none none i, C07_order_ne none none i⟩

/-- **C07_once**: the declaration lists of the output are, up to order, exactly the non-empty
    declaration lists of the rule and @media bodies of the sheet — each printed once. -/
theorem C07_once (sheet : List Item) :
    List.Perm ((specSheet sheet).map (·.decls)) (allDeclGroupsList sheet) := by
  induction sheet with
  | nil => simp [specSheet, allDeclGroupsList]
  | cons i is ih =>
    simp only [specSheet, allDeclGroupsList]
    rw [List.map_append]
    exact List.Perm.append (once_item none none i) ih

theorem C07_once_observed (sheet : List Item) :
    List.Perm ((observe sheet).map (·.decls)) (allDeclGroupsList sheet) := by
  have h : (observe sheet).map (·.decls) = ((observe sheet).map toSTriple).map (·.decls) := by
    rw [List.map_map]; rfl
  rw [h, C07]
  exact C07_once sheet

/-! non-vacuity: the model on concrete sheets -/

-- .a { x:1; @media s { y:2; .b { z:3; @media t { w:4 } } } .c { v:5 } }
example : observe [.rule [".a"] [.decl ⟨"x", "1"⟩,
      .media ["s"] [.decl ⟨"y", "2"⟩, .rule [".b"] [.decl ⟨"z", "3"⟩, .media ["t"] [.decl ⟨"w", "4"⟩]]],
      .rule [".c"] [.decl ⟨"v", "5"⟩]]]
    = [⟨[], [[".a"]], [⟨"x", "1"⟩]⟩,
       ⟨[], [[".a", " ", ".c"]], [⟨"v", "5"⟩]⟩,
       ⟨[["s"]], [[".a"]], [⟨"y", "2"⟩]⟩,
       ⟨[["s"]], [[".a", " ", ".b"]], [⟨"z", "3"⟩]⟩,
       ⟨[["s", "and", "t"]], [[".a", " ", ".b"]], [⟨"w", "4"⟩]⟩] := by decide +kernel

-- @media s { @media t { .a { x:1 } } }  — merged into one top-level block
example : (compileSheet [.media ["s"] [.media ["t"] [.rule [".a"] [.decl ⟨"x", "1"⟩]]]]).map (·.name)
    = [.media ["s", "and", "t"]] := by decide +kernel

-- a rule holding nothing but an @media block is dropped, the @media block stays
example : (compileSheet [.rule [".a"] [.media ["s"] [.decl ⟨"x", "1"⟩]]]).map (·.name)
    = [.media ["s"]] := by decide +kernel

-- empty @media blocks disappear
example : compileSheet [.rule [".a"] [.media ["s"] [.media ["t"] []]]] = [] := by
  simp [compileSheet, evalList, evalItem, declsOf, OBlock.nonEmpty]

example : conjAll [["a"], ["b"], ["c"]] = some ["a", "and", "b", "and", "c"] := by decide +kernel

example : allDeclGroupsList [.rule [".a"] [.decl ⟨"x", "1"⟩, .media ["s"] [.decl ⟨"y", "2"⟩, .rule [".b"] []]]]
    = [[⟨"x", "1"⟩], [⟨"y", "2"⟩]] := by decide +kernel

end Lessm.Media
