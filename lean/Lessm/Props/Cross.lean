/-
  Cross  The evaluator models agree where their fragments overlap (conservative extension).

  The models (Nest, Vars, Media, Mixin) are tied to the code one by one; the theorems below tie them
  to each other.  Every theorem embeds the sheets of the smaller fragment into the larger model and
  compares the results through a common observation.

  Vocabulary (Lessm/Lemmas/CrossLemmas.lean):
    `Obs`                          one printed rule: selector list (token lists) and declarations as
                                   `(property, value text)`
    `obsN`, `obsV`, `obsM`         a Nest / Vars / Mixin output rule as an `Obs`; `obsV` reads a Vars
                                   path as ONE selector, the pieces of the levels separated by a
                                   descendant blank (`joinPath`), and a value as its strings concatenated
    `embedNV`, `embedNM`, `embedNX`  Nest sheets in Vars / Media / Mixin: a literal value is one literal
                                   token, a selector token a literal piece; constructors map to the
                                   constructors of the same name
    `embedVM`                      Vars sheets in Mixin (rules and declarations; see `commonVM`)
    `plainTok t`                   `t` is none of `*` `,` `&` `>` `+` `~` and not of the form `?c?`
    `plainSel s`                   `s` is not empty, all tokens plain, the last one not a blank
    `plainSheetN ts`               every selector of the Nest tree is `plainSel`
    `commonVM sheet`               the Vars sheet has rules only at top level, no variable definition
                                   anywhere, no `@{x}` in a selector, and every selector is `plainSel`
    `nestingNList`, `nestingVList` nesting depth (a declaration counts 1, a rule 1 + its body)

  Why the restrictions (they are properties of the models, not of the proofs):
    * Vars knows a selector only as a list of opaque strings per level; it has no `&`, no comma list,
      no combinator.  `plainSel` is the shape on which Nest's `identParse` is plain descendant
      concatenation, which is what a Vars path means.  Outside it the two differ (examples below).
    * Mixin has no variable definitions (names are bound by mixin parameters only) and no selector
      interpolation.  The overlap of Vars and Mixin is: rules, declarations with literal values, and
      declarations with references, which are then unbound on both sides — both report `unknownVar`
      for the first one in evaluation order.
    * Media and Mixin use Nest's selector machinery itself: no restriction there.
-/
import Lessm.Lemmas.CrossLemmas
import Lessm.Props.C03
import Lessm.Props.C05

namespace Lessm.Cross
open Lessm.Sel

/-- **X1**: Vars is conservative over Nest.  For every Nest sheet whose selectors are all `plainSel`,
    embedded in Vars (no definitions, no references, no interpolation), `Vars.compile` succeeds with
    every fuel (0 included: nothing is substituted) and prints what `Nest.compileSheet` prints: the
    same rules in the same order, with the same selectors and declarations. -/
theorem vars_conservative_over_nest (fuel : Nat) (ts : List Nest.Item)
    (h : plainSheetN ts = true) :
    (Vars.compile fuel (embedNV ts)).map (List.map obsV) = .ok ((Nest.compileSheet ts).map obsN) := by
  rw [compile_embedNV, Nest.C02_sheet]
  exact congrArg Except.ok (obs_flatVList (Or.inl ⟨rfl, rfl⟩) ts h)

/-- **X2**: Media is conservative over Nest, for every Nest sheet (all selector shapes): a media-free
    sheet is observed as exactly the rules of `Nest.compileSheet`, in the same order, each outside
    every `@media`. -/
theorem media_conservative_over_nest (ts : List Nest.Item) :
    Media.observe (embedNM ts)
      = (Nest.compileSheet ts).map (fun o => (⟨[], o.sels, o.decls⟩ : Media.Triple)) := by
  rw [observe_embedNM, Nest.C02_sheet]
  rfl

/-- **X2, specifications**: the declarative semantics of `@media` (Lessm/Spec/MediaSpec.lean) on a
    media-free sheet is Nest's flattening with `media = none`. -/
theorem media_spec_conservative_over_nest (ts : List Nest.Item) :
    Media.specSheet (embedNM ts)
      = (Nest.flatList none ts).map (fun o => (⟨none, o.sels, o.decls⟩ : Media.STriple)) := by
  rw [← Media.C07, media_conservative_over_nest, Nest.C02_sheet, List.map_map]
  rfl

/-- **X3**: Mixin is conservative over Vars on their common fragment.  For every Vars sheet in
    `commonVM` (no mixin definition or call exists in Vars; `commonVM` removes what Mixin lacks),
    every fuel ≥ 1 (the Mixin model substitutes with fuel 64; where nothing is defined all positive
    fuels agree) and gas at least the nesting depth minus one, `Mixin.compile` on the embedded sheet
    and `Vars.compile` give the same result: the same rules in the same order, or the same error
    (`unknownVar n` for the first unbound reference; `liftV` maps Vars' error type into Mixin's). -/
theorem mixin_conservative_over_vars (gas fuel : Nat) (sheet : List Vars.Item) (hf : 1 ≤ fuel)
    (hc : commonVM sheet = true) (hg : nestingVList sheet ≤ gas + 1) :
    (Mixin.compile gas (embedVM sheet)).map (List.map obsM)
      = (Mixin.liftV (Vars.compile fuel sheet)).map (List.map obsV) := by
  rw [compile_embedVM gas fuel sheet hf hc hg]
  cases Vars.compile fuel sheet with
  | error e => cases e <;> rfl
  | ok out =>
    simp only [Except.map, Mixin.liftV, List.map_map]
    rfl

/-- **X4**: the specification sides agree likewise: the declarative semantics of variables
    (`Vars.specCompile`, Lessm/Spec/VarsSpec.lean) and the rule-by-rule reading of a mixin sheet
    (`Mixin.compileRules` against the sheet's table, Lessm/Spec/MixinSpec.lean), on `commonVM`.
    By X3, C03 (whose side condition `VarOK` holds on `commonVM`) and `C05_rule_still_emitted`. -/
theorem spec_agreement (gas fuel : Nat) (sheet : List Vars.Item) (hf : 1 ≤ fuel)
    (hc : commonVM sheet = true) (hg : nestingVList sheet ≤ gas + 1) :
    (Mixin.compileRules (Mixin.buildTable (embedVM sheet)) gas (Mixin.rulesOf (embedVM sheet))).map
        (List.map obsM)
      = (Mixin.liftV (Vars.specCompile fuel sheet)).map (List.map obsV) := by
  rw [← Mixin.C05_rule_still_emitted, ← Vars.C03 fuel sheet (VarOK_common sheet hc)]
  exact mixin_conservative_over_vars gas fuel sheet hf hc hg

/-- **X5**: Mixin is conservative over Nest, for every Nest sheet (all selector shapes: `&`, comma
    lists, combinators): with gas at least the nesting depth minus one, `Mixin.compile` on the
    embedded sheet succeeds and prints what `Nest.compileSheet` prints. -/
theorem mixin_conservative_over_nest (gas : Nat) (ts : List Nest.Item)
    (hg : nestingNList ts ≤ gas + 1) :
    (Mixin.compile gas (embedNX ts)).map (List.map obsM) = .ok ((Nest.compileSheet ts).map obsN) := by
  rw [Mixin.compile_eq_go, go_embedNX _ gas ts hg, Nest.C02_sheet]
  simp only [Except.map, List.map_map]
  rfl

/-! ### non-vacuity: both sides evaluated in the kernel -/

/-- `.a { x:1; .b { y:2; .c:hover { z:3; w:4 } } v:5 }  #t { .u .w { k:0 } }` -/
private def sheetP : List Nest.Item :=
  [ .rule [".a"]
      [ .decl ⟨"x", "1"⟩,
        .rule [".b"] [.decl ⟨"y", "2"⟩, .rule [".c", ":hover"] [.decl ⟨"z", "3"⟩, .decl ⟨"w", "4"⟩]],
        .decl ⟨"v", "5"⟩ ],
    .rule ["#t"] [.rule [".u", " ", ".w"] [.decl ⟨"k", "0"⟩]] ]

private def obsP : List Obs :=
  [ ⟨[[".a"]], [("x", "1"), ("v", "5")]⟩,
    ⟨[[".a", " ", ".b"]], [("y", "2")]⟩,
    ⟨[[".a", " ", ".b", " ", ".c", ":hover"]], [("z", "3"), ("w", "4")]⟩,
    ⟨[["#t", " ", ".u", " ", ".w"]], [("k", "0")]⟩ ]

example : plainSheetN sheetP = true := by decide +kernel
example : (Nest.compileSheet sheetP).map obsN = obsP := by decide +kernel

/-- X1 on `sheetP`, with fuel 0 and with fuel 64 -/
example : (Vars.compile 0 (embedNV sheetP)).map (List.map obsV) = .ok obsP
    ∧ (Vars.compile 64 (embedNV sheetP)).map (List.map obsV)
        = .ok ((Nest.compileSheet sheetP).map obsN) := by decide +kernel

/-- what Vars itself returns: paths, not combined selectors -/
example : Vars.compile 1 (embedNV sheetP) = .ok
    [ ⟨[[".a"]], [("x", ["1"]), ("v", ["5"])]⟩,
      ⟨[[".a"], [".b"]], [("y", ["2"])]⟩,
      ⟨[[".a"], [".b"], [".c", ":hover"]], [("z", ["3"]), ("w", ["4"])]⟩,
      ⟨[["#t"], [".u", " ", ".w"]], [("k", ["0"])]⟩ ] := by decide +kernel

/-- `plainSheetN` is not superfluous: with `&`, a comma list or a combinator the Vars path is not the
    selector Nest computes -/
example :
    plainSheetN [.rule [".a"] [.rule ["&", ":hover"] [.decl ⟨"x", "1"⟩, .decl ⟨"y", "2"⟩]]] = false
    ∧ (Nest.compileSheet [.rule [".a"] [.rule ["&", ":hover"] [.decl ⟨"x", "1"⟩, .decl ⟨"y", "2"⟩]]]).map obsN
        = [⟨[[".a", ":hover"]], [("x", "1"), ("y", "2")]⟩]
    ∧ (Vars.compile 1 (embedNV [.rule [".a"] [.rule ["&", ":hover"] [.decl ⟨"x", "1"⟩, .decl ⟨"y", "2"⟩]]])).map
          (List.map obsV)
        = .ok [⟨[[".a", " ", "&", ":hover"]], [("x", "1"), ("y", "2")]⟩] := by decide +kernel
example :
    plainSheetN [.rule [".a", ",", ".b"] [.rule [">", ".c"] [.decl ⟨"x", "1"⟩]]] = false
    ∧ (Nest.compileSheet [.rule [".a", ",", ".b"] [.rule [">", ".c"] [.decl ⟨"x", "1"⟩]]]).map obsN
        = [⟨[[".a", "?>?", ".c"], [".b", "?>?", ".c"]], [("x", "1")]⟩]
    ∧ (Vars.compile 1 (embedNV [.rule [".a", ",", ".b"] [.rule [">", ".c"] [.decl ⟨"x", "1"⟩]]])).map
          (List.map obsV)
        = .ok [⟨[[".a", ",", ".b", " ", ">", ".c"]], [("x", "1")]⟩] := by decide +kernel

/-- a sheet with a comma list, `&` and a combinator, for the unrestricted theorems X2 and X5:
    `.a, .b { x:1; &:hover { y:2; > .c { z:3; w:4 } } v:5 }  #t { .u { k:0 } }` -/
private def sheetQ : List Nest.Item :=
  [ .rule [".a", ",", ".b"]
      [ .decl ⟨"x", "1"⟩,
        .rule ["&", ":hover"] [.decl ⟨"y", "2"⟩, .rule [">", ".c"] [.decl ⟨"z", "3"⟩, .decl ⟨"w", "4"⟩]],
        .decl ⟨"v", "5"⟩ ],
    .rule ["#t"] [.rule [".u"] [.decl ⟨"k", "0"⟩]] ]

private def outQ : List Nest.OutRule :=
  [ ⟨[[".a"], [".b"]], [⟨"x", "1"⟩, ⟨"v", "5"⟩]⟩,
    ⟨[[".a", ":hover"], [".b", ":hover"]], [⟨"y", "2"⟩]⟩,
    ⟨[[".a", ":hover", "?>?", ".c"], [".b", ":hover", "?>?", ".c"]], [⟨"z", "3"⟩, ⟨"w", "4"⟩]⟩,
    ⟨[["#t", " ", ".u"]], [⟨"k", "0"⟩]⟩ ]

example : Nest.compileSheet sheetQ = outQ := by decide +kernel

/-- X2 on `sheetQ` and on `sheetP` -/
example : Media.observe (embedNM sheetQ) = outQ.map (fun o => ⟨[], o.sels, o.decls⟩)
    ∧ Media.observe (embedNM sheetP)
        = (Nest.compileSheet sheetP).map (fun o => ⟨[], o.sels, o.decls⟩) := by decide +kernel
example : Media.specSheet (embedNM sheetQ) = outQ.map (fun o => ⟨none, o.sels, o.decls⟩) := by
  decide +kernel

/-- X5 on `sheetQ`: nesting depth 4, gas 3 is enough and 2 is not -/
example : nestingNList sheetQ = 4 := by decide +kernel
example : (Mixin.compile 3 (embedNX sheetQ)).map (List.map obsM) = .ok (outQ.map obsN) := by
  rw [Mixin.compile_of_F 50 3 (embedNX sheetQ)
    (.ok [ ⟨[[".a"], [".b"]], [("x", "1"), ("v", "5")]⟩,
           ⟨[[".a", ":hover"], [".b", ":hover"]], [("y", "2")]⟩,
           ⟨[[".a", ":hover", "?>?", ".c"], [".b", ":hover", "?>?", ".c"]], [("z", "3"), ("w", "4")]⟩,
           ⟨[["#t", " ", ".u"]], [("k", "0")]⟩ ]) (by decide +kernel)]
  decide +kernel
example : Mixin.compile 2 (embedNX sheetQ) = .error .crash :=
  Mixin.compile_of_F 50 _ _ _ (by decide +kernel)

/-- a Vars sheet of the common fragment; one value has two tokens:
    `.a { x:1; .b { y:2px; .c:hover { z:3; w:4 } } v:5 }  #t { .u { k:0 } }` -/
private def sheetV : List Vars.Item :=
  [ .rule [.lit ".a"]
      [ .decl "x" [.lit "1"],
        .rule [.lit ".b"]
          [ .decl "y" [.lit "2", .lit "px"],
            .rule [.lit ".c", .lit ":hover"] [.decl "z" [.lit "3"], .decl "w" [.lit "4"]] ],
        .decl "v" [.lit "5"] ],
    .rule [.lit "#t"] [.rule [.lit ".u"] [.decl "k" [.lit "0"]]] ]

private def outMV : List Mixin.OutRule :=
  [ ⟨[[".a"]], [("x", "1"), ("v", "5")]⟩,
    ⟨[[".a", " ", ".b"]], [("y", "2px")]⟩,
    ⟨[[".a", " ", ".b", " ", ".c", ":hover"]], [("z", "3"), ("w", "4")]⟩,
    ⟨[["#t", " ", ".u"]], [("k", "0")]⟩ ]

example : commonVM sheetV = true ∧ nestingVList sheetV = 4 := by decide +kernel
example : Mixin.compile 3 (embedVM sheetV) = .ok outMV :=
  Mixin.compile_of_F 50 _ _ _ (by decide +kernel)
example : Vars.compile 64 sheetV = .ok
    [ ⟨[[".a"]], [("x", ["1"]), ("v", ["5"])]⟩,
      ⟨[[".a"], [".b"]], [("y", ["2", "px"])]⟩,
      ⟨[[".a"], [".b"], [".c", ":hover"]], [("z", ["3"]), ("w", ["4"])]⟩,
      ⟨[["#t"], [".u"]], [("k", ["0"])]⟩ ] := by decide +kernel

/-- X3 on `sheetV` -/
example : (Mixin.compile 3 (embedVM sheetV)).map (List.map obsM)
    = (Mixin.liftV (Vars.compile 64 sheetV)).map (List.map obsV) := by
  rw [Mixin.compile_of_F 50 3 (embedVM sheetV) (.ok outMV) (by decide +kernel)]
  decide +kernel

/-- X3, error case: an unbound reference at depth 2, after a declaration that evaluates, with a
    second unbound reference behind it: both sides report the first one -/
private def sheetE : List Vars.Item :=
  [ .rule [.lit ".a"]
      [ .decl "x" [.lit "1"],
        .rule [.lit ".b"] [.decl "y" [.lit "2"], .decl "w" [.lit "p", .ref "nope", .ref "other"]],
        .decl "v" [.ref "late"] ] ]

example : commonVM sheetE = true ∧ nestingVList sheetE = 3 := by decide +kernel
example : (Mixin.compile 2 (embedVM sheetE)).map (List.map obsM)
      = (Mixin.liftV (Vars.compile 1 sheetE)).map (List.map obsV)
    ∧ (Mixin.liftV (Vars.compile 1 sheetE)).map (List.map obsV) = .error (.unknownVar "nope") := by
  rw [Mixin.compile_of_F 50 2 (embedVM sheetE) (.error (.unknownVar "nope")) (by decide +kernel)]
  decide +kernel

/-- `1 ≤ fuel` is not superfluous: with fuel 0 Vars reports `hang` where Mixin (which always
    substitutes with fuel 64) reports the unknown variable -/
example : Vars.compile 0 sheetE = .error .hang := by decide +kernel

/-- the gas bound is the right one: one less and the Mixin model runs out of stack -/
example : Mixin.compile 2 (embedVM sheetV) = .error .crash :=
  Mixin.compile_of_F 50 _ _ _ (by decide +kernel)

/-- `commonVM` is not superfluous: a variable definition has no image in Mixin — Vars resolves the
    reference, the embedded sheet cannot -/
example :
    commonVM [.rule [.lit ".a"] [.vdef "c" [.lit "red"], .decl "x" [.ref "c"], .decl "y" [.lit "1"]]] = false
    ∧ Vars.compile 64 [.rule [.lit ".a"] [.vdef "c" [.lit "red"], .decl "x" [.ref "c"], .decl "y" [.lit "1"]]]
        = .ok [⟨[[".a"]], [("x", ["red"]), ("y", ["1"])]⟩] := by decide +kernel
example :
    Mixin.compile 3 (embedVM [.rule [.lit ".a"] [.vdef "c" [.lit "red"], .decl "x" [.ref "c"], .decl "y" [.lit "1"]]])
      = .error (.unknownVar "c") := Mixin.compile_of_F 50 _ _ _ (by decide +kernel)

/-- X4 on `sheetV` and `sheetE`: the two specification sides, evaluated -/
example : Vars.VarOK sheetV = true ∧ Vars.VarOK sheetE = true := by decide +kernel
example : (Mixin.compileRules (Mixin.buildTable (embedVM sheetV)) 3 (Mixin.rulesOf (embedVM sheetV))).map
      (List.map obsM)
    = (Mixin.liftV (Vars.specCompile 64 sheetV)).map (List.map obsV) := by
  rw [Mixin.compileRulesF_sound _ 50 3 _ (.ok outMV) (by decide +kernel)]
  decide +kernel
example : (Mixin.compileRules (Mixin.buildTable (embedVM sheetE)) 2 (Mixin.rulesOf (embedVM sheetE))).map
      (List.map obsM)
    = (Mixin.liftV (Vars.specCompile 5 sheetE)).map (List.map obsV) := by
  rw [Mixin.compileRulesF_sound _ 50 2 _ (.error (.unknownVar "nope")) (by decide +kernel)]
  decide +kernel

end Lessm.Cross
