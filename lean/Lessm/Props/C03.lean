/-
  C03  Variables: lexical scoping with hoisted definitions, lazy substitution until no variable
       remains, unknown variables are errors, blocks do not leak definitions.

  Vocabulary defined in Lessm/Lemmas/VarsLemmas.lean and used in statements below:
    `declsOfList sheet`   the declarations `(property, value)` written anywhere in the sheet
    `LitDecl fuel src d`  := ∃ sc v, (d.1, v) ∈ src ∧ expand sc fuel v = .ok (d.2.map VTok.lit)
                          (the strings of the output declaration `d`, read as literal tokens, are the
                          successful substitution of a source declaration of the same property)
-/
import Lessm.Lemmas.VarsLemmas

namespace Lessm.Vars

/-- **C03** (model = spec): on every sheet that satisfies the syntactic side condition `VarOK`
    (unchanged, as stated in Lessm/Spec/VarsSpec.lean) the two-pass compiler over the frame stack
    computes exactly the declarative semantics (nearest enclosing block that defines the name, anywhere
    in that block; else the last top-level definition), for every fuel, including the error cases. -/
theorem C03 (fuel : Nat) (sheet : List Item) (h : VarOK sheet = true) :
    compile fuel sheet = specCompile fuel sheet :=
  compile_eq_spec fuel sheet h

/-- **C03_no_ref**: no variable reference survives a successful substitution. -/
theorem C03_no_ref (sc : Scope) (fuel : Nat) (v v' : Value) (h : expand sc fuel v = .ok v') :
    hasRef v' = false :=
  expand_noRef sc fuel v v' h

/-- **C03_no_ref_decl**: a declaration that evaluates successfully emits the text of a value
    without references, which is a list of literal tokens printed as they are. -/
theorem C03_no_ref_decl (fuel : Nat) (es es' : Scope) (path : List (List String)) (p : String)
    (v : Value) (ds : List (String × List String)) (out : List OutRule)
    (h : passEItem fuel es path (.decl p v) = .ok (es', ds, out)) :
    ∃ v', expand es fuel v = .ok v' ∧ hasRef v' = false ∧ v' = (litText v').map VTok.lit ∧
      es' = es ∧ ds = [(p, litText v')] ∧ out = [] := by
  simp only [passEItem] at h
  cases he : expand es fuel v with
  | error e => simp [he, bind, Except.bind] at h
  | ok v' =>
    simp only [he, bind, Except.bind, pure, Except.pure] at h
    cases h
    have hn := expand_noRef es fuel v v' he
    exact ⟨v', rfl, hn, litText_of_noRef v' hn, rfl, rfl, rfl⟩

/-- **C03_no_ref_compile**: every declaration of every rule of a successful `compile` output is
    built from literal tokens only: its strings, read as literals, are the result of the successful
    substitution of a declaration of that property written in the sheet. -/
theorem C03_no_ref_compile (fuel : Nat) (sheet : List Item) (out : List OutRule)
    (h : compile fuel sheet = .ok out) :
    ∀ o ∈ out, ∀ d ∈ o.decls, LitDecl fuel (declsOfList sheet) d :=
  compile_lit fuel sheet out h

/-- **C03_unknown**: a reference with no visible definition is an error, never emitted. -/
theorem C03_unknown (sc : Scope) (fuel : Nat) (n : String) (rest : Value) (h : lookup sc n = none) :
    expand sc (fuel + 1) (.ref n :: rest) = .error (.unknownVar n) := by
  simp [expand, hasRef, substOnce, h]

/-- **C03_unknown_sel**: the same for an interpolation in a selector. -/
theorem C03_unknown_sel (sc : Scope) (n : String) (rest : List STok) (h : lookup sc n = none) :
    resolveSel sc (.interp n :: rest) = .error (.unknownVar n) := by
  simp [resolveSel, expand, hasRef, substOnce, h]

/-- **C03_local**: evaluating a rule leaves the caller's scope exactly as it was (a definition inside
    a block is invisible outside it), and contributes no declaration to the enclosing rule. -/
theorem C03_local (fuel : Nat) (es es' : Scope) (path : List (List String)) (sel : List STok)
    (res : Option (List String)) (body : List GItem) (ds : List (String × List String))
    (out : List OutRule)
    (h : passEItem fuel es path (.rule sel res body) = .ok (es', ds, out)) : es' = es ∧ ds = [] :=
  passEItem_rule_local fuel es es' path sel res body ds out h

/-- **C03_innermost**: dictionary semantics of a frame; the innermost frame is searched first. -/
theorem C03_innermost (f : Frame) (sc : Scope) (n m : String) (v : Value) :
    lookup (f :: sc) n = (match f.get n with | some v => some v | none => lookup sc n) ∧
    Frame.get (Frame.set f n v) n = some v ∧
    (m ≠ n → Frame.get (Frame.set f n v) m = Frame.get f m) :=
  ⟨rfl, Frame.get_set_self f n v, fun h => Frame.get_set_ne f h v⟩

/-! ### non-vacuity -/

/-- a sheet with a forward reference at top level (`@s`), a chain `@c -> @b -> @a`, a nested block
    that shadows `@a`, an interpolated selector and a top-level redefinition before use (`@t`) -/
private def sheet1 : List Item :=
  [ .vdef "a" [.lit "1"],
    .vdef "b" [.ref "a", .lit "x"],
    .rule [.lit ".r", .interp "s"]
      [ .vdef "c" [.ref "b"],
        .decl "w" [.ref "c", .ref "a"],
        .rule [.lit ".in", .interp "c"]
          [ .vdef "a" [.lit "2"], .decl "v" [.ref "a", .ref "c"] ] ],
    .vdef "s" [.lit "foo"],
    .vdef "t" [.lit "1"],
    .vdef "t" [.lit "2"],
    .rule [.lit ".q"] [.decl "y" [.ref "t"]] ]

example : VarOK sheet1 = true := by decide +kernel

example : compile 5 sheet1 = .ok
    [ ⟨[[".r", "foo"]], [("w", ["1", "x", "1"])]⟩,
      ⟨[[".r", "foo"], [".in", "1", "x"]], [("v", ["2", "2", "x"])]⟩,
      ⟨[[".q"]], [("y", ["2"])]⟩ ] := by decide +kernel

example : specCompile 5 sheet1 = compile 5 sheet1 := by decide +kernel

/-- too little fuel for the chain: both sides report the same error -/
example : compile 2 sheet1 = .error .hang ∧ specCompile 2 sheet1 = .error .hang := by decide +kernel

/-- an unknown variable is an error on both sides -/
example : VarOK [.rule [.lit ".a"] [.decl "w" [.ref "nope"]]] = true
    ∧ compile 3 [.rule [.lit ".a"] [.decl "w" [.ref "nope"]]] = .error (.unknownVar "nope") := by
  decide +kernel

/-- the hypothesis of C03_unknown / C03_local is satisfiable -/
example : lookup [[("a", [.lit "1"])]] "b" = none := by decide +kernel
example : passEItem 3 [[("a", [.lit "1"])]] [] (.rule [.lit ".x"] none [.vdef "z" [.lit "9"], .decl "p" [.ref "z"]])
    = .ok ([[("a", [.lit "1"])]], [], [⟨[[".x"]], [("p", ["9"])]⟩]) := by rfl

/-- an interpolation in a selector is substituted until no variable is left (`@a -> @b -> k`), as
    in a declaration value -/
example : resolveSel [[("b", [.lit "k"]), ("a", [.ref "b"])]] [.lit ".x-", .interp "a"]
    = .ok [".x-", "k"] := by decide +kernel

/-- a cyclic definition (`@a -> @b -> @a`) interpolated in a selector is an error, never emitted -/
example : resolveSel [[("a", [.ref "b"]), ("b", [.ref "a"])]] [.lit ".x-", .interp "a"]
    = .error .hang := by decide +kernel

/-- `VarOK` is not superfluous: a name defined both before and after the unit that uses it (finding
    C03-toplevel-redef) is rejected by `VarOK`, and there the model and the semantics differ. -/
example :
    VarOK [.vdef "x" [.lit "1"], .rule [.lit ".a"] [.decl "w" [.ref "x"]], .vdef "x" [.lit "2"]] = false
    ∧ compile 5 [.vdef "x" [.lit "1"], .rule [.lit ".a"] [.decl "w" [.ref "x"]], .vdef "x" [.lit "2"]]
      ≠ specCompile 5 [.vdef "x" [.lit "1"], .rule [.lit ".a"] [.decl "w" [.ref "x"]], .vdef "x" [.lit "2"]] := by
  decide +kernel

end Lessm.Vars
