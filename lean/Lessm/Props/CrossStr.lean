/-
  CrossStr  One more cross-model theorem (continuing Props/Cross.lean, Props/CrossGuard.lean).

    X10 interpolation `@{x}` inside a string literal (`Str.evalParts`, scope.py `Scope.swap` + node.py
        `Node.process`) substitutes the same value as interpolation inside a selector (`Vars.resolveSel`,
        identifier.py `parse`), on the same pieces, whenever the interpolated values carry no quote
        characters at their ends; and one side fails exactly when the other does.
-/
import Lessm.Model.Str
import Lessm.Model.Vars

namespace Lessm.Cross

/-! ### vocabulary -/

/-- a piece of a string literal as a piece of a selector -/
def partToSTok : Str.Part → Vars.STok
  | .text s => .lit (String.ofList s)
  | .interp n => .interp (String.ofList n)

/-- the text a scope gives to `@{n}`: the variable's value substituted until no reference is left, its tokens concatenated -/
def rhoOf (sc : Vars.Scope) (n : List Char) : Option (List Char) :=
  match Vars.expand sc 64 [.ref (String.ofList n)] with
  | .ok v => some (String.join (Vars.litText v)).toList
  | .error _ => none

/-- what `resolveSel` yields, as one text -/
def selText (r : Except Vars.Err (List String)) : Option (List Char) :=
  match r with
  | .ok l => some (String.join l).toList
  | .error _ => none

/-! ### helper lemmas -/

section helpers

theorem selText_ok (l : List String) : selText (.ok l) = some (String.join l).toList := rfl

theorem selText_error (e : Vars.Err) : selText (.error e) = none := rfl

/-- a literal piece: the selector side prepends the same characters -/
theorem selText_lit (sc : Vars.Scope) (s : List Char) (r : List Vars.STok) :
    selText (Vars.resolveSel sc (.lit (String.ofList s) :: r)) =
      (selText (Vars.resolveSel sc r)).map (s ++ ·) := by
  simp only [Vars.resolveSel, bind, Except.bind, pure, Except.pure]
  cases Vars.resolveSel sc r with
  | error e => rfl
  | ok l =>
    simp only [selText, Option.map_some, String.join_cons, String.toList_append,
      String.toList_ofList]

/-- an interpolation whose variable expands: the selector side prepends the text of the value -/
theorem selText_interp_ok (sc : Vars.Scope) (n : String) (v : Vars.Value) (r : List Vars.STok)
    (hv : Vars.expand sc 64 [.ref n] = .ok v) :
    selText (Vars.resolveSel sc (.interp n :: r)) =
      (selText (Vars.resolveSel sc r)).map ((String.join (Vars.litText v)).toList ++ ·) := by
  simp only [Vars.resolveSel, hv, bind, Except.bind, pure, Except.pure]
  cases Vars.resolveSel sc r with
  | error e => rfl
  | ok l =>
    simp only [selText, Option.map_some, String.join_append, String.toList_append]

/-- an interpolation whose variable does not expand: the selector side fails -/
theorem selText_interp_error (sc : Vars.Scope) (n : String) (e : Vars.Err) (r : List Vars.STok)
    (hv : Vars.expand sc 64 [.ref n] = .error e) :
    selText (Vars.resolveSel sc (.interp n :: r)) = none := by
  simp only [Vars.resolveSel, hv, selText]

theorem rhoOf_ok (sc : Vars.Scope) (n : List Char) (v : Vars.Value)
    (hv : Vars.expand sc 64 [.ref (String.ofList n)] = .ok v) :
    rhoOf sc n = some (String.join (Vars.litText v)).toList := by
  simp only [rhoOf, hv]

theorem rhoOf_error (sc : Vars.Scope) (n : List Char) (e : Vars.Err)
    (hv : Vars.expand sc 64 [.ref (String.ofList n)] = .error e) :
    rhoOf sc n = none := by
  simp only [rhoOf, hv]

end helpers

/-! ### X10 -/

/-- **X10**: for every scope and every string body, if the values interpolated carry no quote characters
    at their ends (`destring` leaves them alone), evaluating the string's parts with the scope's texts
    gives exactly the concatenation of what selector interpolation gives for the same pieces; one side
    fails (unknown variable / runaway substitution) exactly when the other does. -/
theorem str_interp_is_sel_interp (sc : Vars.Scope) (ps : List Str.Part)
    (hq : ∀ p ∈ ps, ∀ n, p = .interp n → ∀ v, rhoOf sc n = some v → Str.destring v = v) :
    Str.evalParts (rhoOf sc) ps = selText (Vars.resolveSel sc (ps.map partToSTok)) := by
  induction ps with
  | nil => rfl
  | cons p r ih =>
    have ih' := ih (fun p hp => hq p (List.mem_cons_of_mem _ hp))
    cases p with
    | text s =>
      simp only [List.map_cons, partToSTok, Str.evalParts, selText_lit, ih']
    | interp n =>
      simp only [List.map_cons, partToSTok, Str.evalParts]
      cases hv : Vars.expand sc 64 [.ref (String.ofList n)] with
      | error e =>
        rw [rhoOf_error sc n e hv, selText_interp_error sc _ e _ hv]
      | ok v =>
        have hd := hq (.interp n) (List.mem_cons_self) n rfl _ (rhoOf_ok sc n v hv)
        rw [rhoOf_ok sc n v hv, selText_interp_ok sc _ v _ hv]
        simp only [hd, ih']

/-! ### the hypothesis is needed; non-vacuity -/

/-- `@a: "x"`: the value is the quoted text -/
private def exQ : Vars.Scope := [[("a", [.lit "\"x\""])]]

/-- the complement: a quoted value is the one case where the two differ on purpose: the string drops the
    quotes (`x`), the selector keeps them (`"x"`) -/
example : Str.evalParts (rhoOf exQ) [.interp "a".toList] = some "x".toList
    ∧ selText (Vars.resolveSel exQ ([Str.Part.interp "a".toList].map partToSTok)) = some "\"x\"".toList
    ∧ (Vars.resolveSel exQ ([Str.Part.interp "a".toList].map partToSTok)).toOption = some ["\"x\""] := by
  decide +kernel

/-- the hypothesis of X10 fails there -/
example : rhoOf exQ "a".toList = some "\"x\"".toList
    ∧ Str.destring "\"x\"".toList ≠ "\"x\"".toList := by
  decide +kernel

/-- a chain `@b: k; @a: @b;` (the inner frame holds `@a`, the outer `@b`) -/
private def exC : Vars.Scope := [[("a", [.ref "b"])], [("b", [.lit "k"])]]

private def exPs : List Str.Part := [.text "s-".toList, .interp "a".toList, .text "-t".toList]

example : Str.evalParts (rhoOf exC) exPs = some "s-k-t".toList
    ∧ selText (Vars.resolveSel exC (exPs.map partToSTok)) = some "s-k-t".toList := by
  decide +kernel

/-- the hypothesis of X10 holds on it -/
example : ∀ p ∈ exPs, ∀ n, p = .interp n → ∀ v, rhoOf exC n = some v → Str.destring v = v := by
  intro p hp n hn v hv
  simp only [exPs, List.mem_cons, List.not_mem_nil, or_false] at hp
  rcases hp with rfl | rfl | rfl
  · cases hn
  · cases hn
    have h : rhoOf exC "a".toList = some "k".toList := by decide +kernel
    rw [h] at hv
    cases hv
    decide +kernel
  · cases hn

/-- both sides fail together: an unknown variable, and a cycle `@a: @a` -/
example : Str.evalParts (rhoOf exC) [.interp "z".toList] = none
    ∧ selText (Vars.resolveSel exC ([Str.Part.interp "z".toList].map partToSTok)) = none
    ∧ Str.evalParts (rhoOf [[("a", [.ref "a"])]]) [.interp "a".toList] = none
    ∧ (match Vars.resolveSel [[("a", [.ref "a"])]] ([Str.Part.interp "a".toList].map partToSTok) with
        | .error .hang => true
        | _ => false) = true := by
  decide +kernel

end Lessm.Cross
