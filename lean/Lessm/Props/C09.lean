/-
  C09  Colour functions: the HLS conversion is exactly invertible over ℚ, the operations shift the
  named component only, results are well-formed bytes, rounding / truncation errors are bounded.
  Property theorems only; helper lemmas are in Lessm/Lemmas/Hls.lean.
-/
import Lessm.Lemmas.Hls

namespace Lessm.ColorFn
open Lessm.Builtins

/-- a colour whose three channels are bytes -/
def Byte (c : RGB) : Prop := c.1 ≤ 255 ∧ c.2.1 ≤ 255 ∧ c.2.2 ≤ 255

/-- **C09_roundtrip** (a): `hls_to_rgb` inverts `rgb_to_hls` exactly on the unit cube. -/
theorem C09_roundtrip (r g b : ℚ) (hr : 0 ≤ r ∧ r ≤ 1) (hg : 0 ≤ g ∧ g ≤ 1) (hb : 0 ≤ b ∧ b ≤ 1) :
    let hls := rgbToHls r g b
    hlsToRgb hls.1 hls.2.1 hls.2.2 = (r, g, b) :=
  roundtrip r g b hr hg hb

/-- **C09_hls_in_range** (b): hue in [0,1), lightness and saturation in [0,1]. -/
theorem C09_hls_in_range (r g b : ℚ) (hr : 0 ≤ r ∧ r ≤ 1) (hg : 0 ≤ g ∧ g ≤ 1) (hb : 0 ≤ b ∧ b ≤ 1) :
    (0 ≤ (rgbToHls r g b).1 ∧ (rgbToHls r g b).1 < 1) ∧
    (0 ≤ (rgbToHls r g b).2.1 ∧ (rgbToHls r g b).2.1 ≤ 1) ∧
    (0 ≤ (rgbToHls r g b).2.2 ∧ (rgbToHls r g b).2.2 ≤ 1) :=
  rgbToHls_range r g b hr hg hb

/-- **C09_rgb_in_range** (c): for any hue, and lightness / saturation in [0,1], every channel is in [0,1]. -/
theorem C09_rgb_in_range (h l s : ℚ) (hl : 0 ≤ l ∧ l ≤ 1) (hs : 0 ≤ s ∧ s ≤ 1) :
    (0 ≤ (hlsToRgb h l s).1 ∧ (hlsToRgb h l s).1 ≤ 1) ∧
    (0 ≤ (hlsToRgb h l s).2.1 ∧ (hlsToRgb h l s).2.1 ≤ 1) ∧
    (0 ≤ (hlsToRgb h l s).2.2 ∧ (hlsToRgb h l s).2.2 ≤ 1) :=
  hlsToRgb_range h l s hl hs

/-- **C09_identity0** (d): a zero amount changes nothing. -/
theorem C09_identity0 (c : RGB) (hc : Byte c) :
    lighten c 0 = c ∧ darken c 0 = c ∧ saturate c 0 = c ∧ desaturate c 0 = c := by
  unfold lighten darken saturate desaturate ophsl
  simp only [ophslExact_zero c hc, roundAway3_nat c hc, and_self]

/-- **C09_spin0** (e): spinning by 0 degrees changes nothing. -/
theorem C09_spin0 (c : RGB) (hc : Byte c) : spin c 0 = c := by
  unfold spin
  rw [spinExact_zero c hc, roundEven3_nat c hc]

/-- **C09_spin_wrap** (e): the angle counts modulo 360 (no hypothesis on `c` or `d`). -/
theorem C09_spin_wrap (c : RGB) (d : ℚ) (k : ℤ) : spin c (d + 360 * k) = spin c d := by
  unfold spin
  rw [spinExact_wrap]

/-- **C09_grey** (f): `greyscale` yields three equal channels. -/
theorem C09_grey (c : RGB) (hc : Byte c) :
    (greyscale c).1 = (greyscale c).2.1 ∧ (greyscale c).2.1 = (greyscale c).2.2 := by
  unfold greyscale desaturate ophsl
  rw [ophslExact_grey c hc]
  exact ⟨rfl, rfl⟩

/-- **C09_wf** (g): every result channel is a byte, whatever the arguments. -/
theorem C09_wf (c c1 c2 : RGB) (d w : ℚ) (idx : ℕ) (sign : ℤ) (h : ℤ) (s l : ℚ) :
    Byte (ophsl c d idx sign) ∧ Byte (spin c d) ∧ Byte (mix c1 c2 w) ∧ Byte (hsl h s l) :=
  ⟨⟨byteOf_le _, byteOf_le _, byteOf_le _⟩, ⟨byteOf_le _, byteOf_le _, byteOf_le _⟩,
   ⟨byteOf_le _, byteOf_le _, byteOf_le _⟩, ⟨byteOf_le _, byteOf_le _, byteOf_le _⟩⟩

/-- **C09_round_near** (h): on [0,255] the stored byte (half away from zero) is within ½ of the exact value. -/
theorem C09_round_near (x : ℚ) (h0 : 0 ≤ x) (h1 : x ≤ 255) :
    |((byteOf (awayRound x) : ℕ) : ℚ) - x| ≤ 1 / 2 :=
  byteOf_near _ x h0 h1 (C17_round_near x)

/-- **C09_round_near_even** (h): the same for half-to-even rounding. -/
theorem C09_round_near_even (x : ℚ) (h0 : 0 ≤ x) (h1 : x ≤ 255) :
    |((byteOf (evenRound x) : ℕ) : ℚ) - x| ≤ 1 / 2 :=
  byteOf_near _ x h0 h1 (evenRound_near x)

/-- **C09_ophsl_near** (h): every channel of `ophsl` is within ½ of the exact channel
    (stronger than asked: any `idx`, any amount `d`, any `sign`). -/
theorem C09_ophsl_near (c : RGB) (hc : Byte c) (d : ℚ) (idx : ℕ) (sign : ℤ) :
    |(((ophsl c d idx sign).1 : ℕ) : ℚ) - (ophslExact c d idx sign).1| ≤ 1 / 2 ∧
    |(((ophsl c d idx sign).2.1 : ℕ) : ℚ) - (ophslExact c d idx sign).2.1| ≤ 1 / 2 ∧
    |(((ophsl c d idx sign).2.2 : ℕ) : ℚ) - (ophslExact c d idx sign).2.2| ≤ 1 / 2 := by
  obtain ⟨a, b, e⟩ := ophslExact_range c hc d idx sign
  exact ⟨C09_round_near _ a.1 a.2, C09_round_near _ b.1 b.2, C09_round_near _ e.1 e.2⟩

/-- **C09_clamp01**: `_clamp` is the projection onto [0,1]. -/
theorem C09_clamp01 (x : ℚ) :
    (0 ≤ clamp01 x ∧ clamp01 x ≤ 1) ∧ (0 ≤ x → x ≤ 1 → clamp01 x = x) ∧
    (x ≤ 0 → clamp01 x = 0) ∧ (1 ≤ x → clamp01 x = 1) :=
  ⟨clamp01_range x, clamp01_id x, clamp01_low x, clamp01_high x⟩

/-- **C09_component** (i): the named component is shifted by `d/100` and clamped to [0,1];
    hue and the other component are untouched (idx 1 = lightness, idx 2 = saturation). -/
theorem C09_component (c : RGB) (d : ℚ) (sign : ℤ) :
    ophslExact c d 1 sign =
      scale (hlsToRgb (hexToHls c).1 (clamp01 ((hexToHls c).2.1 + sign * (d / 100))) (hexToHls c).2.2) ∧
    ophslExact c d 2 sign =
      scale (hlsToRgb (hexToHls c).1 (hexToHls c).2.1 (clamp01 ((hexToHls c).2.2 + sign * (d / 100)))) :=
  ⟨rfl, rfl⟩

/-- **C09_mix_ends** (j): weight 100 gives the first colour, weight 0 the second. -/
theorem C09_mix_ends (c1 c2 : RGB) (h1 : Byte c1) (h2 : Byte c2) :
    mix c1 c2 100 = c1 ∧ mix c1 c2 0 = c2 := by
  unfold mix
  simp only [mixExact_full, mixExact_none, byteOf_nat _ h1.1, byteOf_nat _ h1.2.1, byteOf_nat _ h1.2.2,
    byteOf_nat _ h2.1, byteOf_nat _ h2.2.1, byteOf_nat _ h2.2.2, and_self]

/-- **C09_mix_trunc** (j): for a weight in [0,100] every channel of `mix` is the truncation (floor)
    of the exact weighted mean, which lies between the two input channels. -/
theorem C09_mix_trunc (c1 c2 : RGB) (w : ℚ) (h1 : Byte c1) (h2 : Byte c2) (w0 : 0 ≤ w) (w1 : w ≤ 100) :
    ((((mix c1 c2 w).1 : ℕ) : ℚ) ≤ (mixExact c1 c2 w).1 ∧
      (mixExact c1 c2 w).1 < (((mix c1 c2 w).1 : ℕ) : ℚ) + 1 ∧
      min (c1.1 : ℚ) c2.1 ≤ (mixExact c1 c2 w).1 ∧ (mixExact c1 c2 w).1 ≤ max (c1.1 : ℚ) c2.1) ∧
    ((((mix c1 c2 w).2.1 : ℕ) : ℚ) ≤ (mixExact c1 c2 w).2.1 ∧
      (mixExact c1 c2 w).2.1 < (((mix c1 c2 w).2.1 : ℕ) : ℚ) + 1 ∧
      min (c1.2.1 : ℚ) c2.2.1 ≤ (mixExact c1 c2 w).2.1 ∧ (mixExact c1 c2 w).2.1 ≤ max (c1.2.1 : ℚ) c2.2.1) ∧
    ((((mix c1 c2 w).2.2 : ℕ) : ℚ) ≤ (mixExact c1 c2 w).2.2 ∧
      (mixExact c1 c2 w).2.2 < (((mix c1 c2 w).2.2 : ℕ) : ℚ) + 1 ∧
      min (c1.2.2 : ℚ) c2.2.2 ≤ (mixExact c1 c2 w).2.2 ∧ (mixExact c1 c2 w).2.2 ≤ max (c1.2.2 : ℚ) c2.2.2) :=
  ⟨mix_chan _ _ h1.1 h2.1 w w0 w1, mix_chan _ _ h1.2.1 h2.2.1 w w0 w1,
   mix_chan _ _ h1.2.2 h2.2.2 w w0 w1⟩

/-- **C09_extract_range** (k): hue in [0,360), saturation and lightness in [0,100]. -/
theorem C09_extract_range (c : RGB) (hc : Byte c) :
    0 ≤ hue c ∧ hue c < 360 ∧ 0 ≤ saturation c ∧ saturation c ≤ 100 ∧
    0 ≤ lightness c ∧ lightness c ≤ 100 := by
  obtain ⟨hh, hl, hs⟩ := hexToHls_range c hc
  unfold hue saturation lightness
  refine ⟨?_, ?_, ?_, ?_, ?_, ?_⟩ <;> linarith [hh.1, hh.2, hl.1, hl.2, hs.1, hs.2]

/-! ### non-vacuity -/

example : Byte (255, 0, 0) := ⟨by decide, by decide, by decide⟩
example : rgbToHls 1 0 0 = (0, 1/2, 1) := by decide +kernel
example : rgbToHls (1/5) (2/5) (3/5) = (7/12, 2/5, 1/2) := by decide +kernel
example : hlsToRgb (7/12) (2/5) (1/2) = (1/5, 2/5, 3/5) := by decide +kernel
example : lighten (255, 0, 0) 10 = (255, 51, 51) := by decide +kernel
example : darken (255, 0, 0) 10 = (204, 0, 0) := by decide +kernel
example : desaturate (255, 0, 0) 20 = (230, 26, 26) := by decide +kernel
example : saturate (100, 120, 140) 20 = (76, 120, 164) := by decide +kernel
example : greyscale (255, 0, 0) = (128, 128, 128) := by decide +kernel
example : spin (255, 0, 0) 120 = (0, 255, 0) := by decide +kernel
example : spin (255, 0, 0) (120 + 360 * (-2 : ℤ)) = (0, 255, 0) := by decide +kernel
example : mix (255, 0, 0) (0, 0, 255) 50 = (127, 0, 127) := by decide +kernel
example : hsl 120 1 (1/2) = (0, 255, 0) := by decide +kernel
example : hue (0, 255, 0) = 120 ∧ saturation (0, 255, 0) = 100 ∧ lightness (0, 255, 0) = 50 := by
  decide +kernel
/-- the ½ bound is attained, and the two roundings differ exactly on ties -/
example : byteOf (awayRound (5/2)) = 3 ∧ byteOf (evenRound (5/2)) = 2 := by decide +kernel

end Lessm.ColorFn
