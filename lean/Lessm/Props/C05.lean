/-
  C05  Mixins: a call produces the declarations and nested rules of the mixin's body, placed at the
       call site under the caller's selector, with each parameter replaced by the corresponding
       argument (or its default) and `@arguments` by the argument list; calls before the definition,
       calls inside other mixins and guarded recursion included.  A parametric definition emits no
       CSS; an ordinary rule used as a mixin is still emitted.

  Vocabulary (Lessm/Spec/MixinSpec.lean):
    `rulesOf sheet`                     the top-level rules `(selector, body)` in order
    `compileRule tbl gas sel body`      what one top-level rule contributes, the table being given
    `compileRules tbl gas rules`        the concatenation over the rules (first error wins)
    `callDepth inExp depth`             `depth + 1` inside an expansion, `0` elsewhere
    `expandCall tbl gas d sc me name args'`  the body chosen for a call, evaluated at the call site
    `substValue fr`, `substArg fr`, `substItems fr`   textual replacement of the names bound in `fr`
    `LitScope sc`                       every value bound in `sc` consists of literal tokens
    `ClosedBodies tbl fr`               bodies of the table are closed over their own parameters and
                                        `@arguments`, defaults are literal, plain rules mention no
                                        variable; a guard reached from a table body compares only names
                                        bound by the calling expansion, or names not bound in `fr`, or
                                        names that the (literal) arguments of the call bind to numbers
    `InlineOK` (= `inlineItemsOK tbl fr body`)  arguments in `body` are `@n`, `@n + k` or literal;
                                        `@n + k` with `@n` in `fr` has a number there; a guard reached
                                        from `body` compares names not bound in `fr`, or names that
                                        the (substituted, literal) arguments bind to numbers
-/
import Lessm.Lemmas.MixinLemmas

namespace Lessm.Mixin
open Lessm.Vars Lessm.Sel

/-! ### (1) definitions are silent, their position is irrelevant -/

/-- **C05_rule_still_emitted** (compositionality): the output is the concatenation, over the
    top-level rules in order, of what each rule yields against the table of the whole sheet.  A rule
    that is also used as a mixin elsewhere (it is in `(buildTable sheet).blocks`) is emitted exactly
    like any other rule; definitions contribute to the table only. -/
theorem C05_rule_still_emitted (gas : Nat) (sheet : List Top) :
    compile gas sheet = compileRules (buildTable sheet) gas (rulesOf sheet) := by
  rw [compile_eq_go, go_eq_compileRules]

/-- **C05_silent_and_order**: the output depends on the sheet only through its table and the list of
    its rules. -/
theorem C05_silent_and_order (gas : Nat) (s1 s2 : List Top) (ht : buildTable s1 = buildTable s2)
    (hr : rulesOf s1 = rulesOf s2) : compile gas s1 = compile gas s2 := by
  rw [C05_rule_still_emitted, C05_rule_still_emitted, ht, hr]

/-- **C05_def_after_use**: moving all definitions behind all rules changes nothing (calls before the
    definition see it). -/
theorem C05_def_after_use (gas : Nat) (ds rs : List Top) (hd : ∀ t ∈ ds, t.isDef = true)
    (hr : ∀ t ∈ rs, t.isRule = true) : compile gas (ds ++ rs) = compile gas (rs ++ ds) := by
  apply C05_silent_and_order
  · exact buildTable_swap ds rs hd hr
  · rw [rulesOf_append, rulesOf_append, rulesOf_defs ds hd]; simp

/-- **C05_silent**: a sheet of definitions only compiles to nothing. -/
theorem C05_silent (gas : Nat) (ds : List Top) (hd : ∀ t ∈ ds, t.isDef = true) :
    compile gas ds = .ok [] := by
  rw [C05_rule_still_emitted, rulesOf_defs ds hd]; rfl

/-! ### (3) parameter binding -/

/-- **C05_bind_full**: with at least as many arguments as parameters, parameter `i` is bound to
    argument `i` (surplus arguments are dropped). -/
theorem C05_bind_full (ps : List (String × Option Value)) (as : List Value)
    (h : ps.length ≤ as.length) : bindParams ps as = some ((ps.map Prod.fst).zip as) :=
  bindParams_full ps as h

/-- **C05_bind_default**: the parameters covered by arguments are bound to them, the remaining ones
    are bound as with no argument at all (no side condition). -/
theorem C05_bind_default (ps : List (String × Option Value)) (as : List Value) :
    bindParams ps as =
      (bindParams (ps.drop as.length) []).map (fun f => (ps.map Prod.fst).zip as ++ f) :=
  bindParams_split ps as

/-- **C05_bind_defaults_only**: without arguments every parameter takes its default. -/
theorem C05_bind_defaults_only (ps : List (String × Option Value))
    (h : ∀ p ∈ ps, p.2.isSome = true) :
    bindParams ps [] = some (ps.map (fun p => (p.1, p.2.getD []))) :=
  bindParams_nil_some ps h

/-- **C05_bind_none_iff**: binding fails exactly when a parameter beyond the arguments has no
    default. -/
theorem C05_bind_none_iff (ps : List (String × Option Value)) (as : List Value) :
    bindParams ps as = none ↔ ∃ p ∈ ps.drop as.length, p.2 = none :=
  bindParams_none_iff ps as

/-- **C05_arguments**: in the frame of an expansion `@arguments` is the argument list joined by
    blanks, provided arguments were given and no parameter is itself called `arguments` (the entry is
    appended after the parameters, and the first entry of a name wins). -/
theorem C05_arguments (sc : Scope) (d : MixinDef) (args : List Value) (fr : Frame)
    (h : tryMixin sc d args = some fr) (hne : args ≠ [])
    (hp : "arguments" ∉ d.params.map Prod.fst) :
    Frame.get fr "arguments" = some (intersperseSp args) :=
  tryMixin_arguments sc d args fr h hne hp

/-- **C05_frame_names**: the frame of an expansion binds exactly the parameters, in order, then
    `arguments`. -/
theorem C05_frame_names (sc : Scope) (d : MixinDef) (args : List Value) (fr : Frame)
    (h : tryMixin sc d args = some fr) :
    fr.map Prod.fst = d.params.map Prod.fst ++ ["arguments"] :=
  tryMixin_names h

/-! ### (5) one call -/

/-- **C05_call_unfold**: a call beyond the depth limit is a `NameError`; otherwise the arguments are
    evaluated in the caller's scope, the chosen body (`expandCall`: first applicable definition in a
    frame of its own with the counter `callDepth`, else the plain rule of that name in the caller's
    frame, else nothing) is evaluated under the caller's selector `me`, and its declarations and
    rules are spliced in at the position of the call. -/
theorem C05_call_unfold (tbl : Table) (gas depth : Nat) (inExp : Bool) (sc : Scope) (me : List Sel)
    (name : String) (args : List Arg) (rest : List Item) :
    evalItems tbl (gas + 1) depth inExp sc me (.call name args :: rest) =
      (if callDepth inExp depth > 64 then .error (.nameError name) else do
        let args' ← args.mapM (evalArg sc)
        let r1 ← expandCall tbl gas (callDepth inExp depth) sc me name args'
        let r ← evalItems tbl (gas + 1) depth inExp sc me rest
        pure (r1.1 ++ r.1, r1.2 ++ r.2)) :=
  call_unfold tbl gas depth inExp sc me name args rest

/-- **C05_call_mixin**: the case of an applicable definition. -/
theorem C05_call_mixin (tbl : Table) (gas depth : Nat) (inExp : Bool) (sc : Scope) (me : List Sel)
    (name : String) (args : List Arg) (args' : List Value) (m : MixinDef) (fr : Frame)
    (hd : callDepth inExp depth ≤ 64) (ha : args.mapM (evalArg sc) = .ok args')
    (hm : firstApplicable sc args' (tbl.candidates name) = some (m, fr)) :
    evalItems tbl (gas + 1) depth inExp sc me [.call name args] =
      evalItems tbl gas (callDepth inExp depth) true (fr :: sc) me m.body := by
  rw [call_unfold, if_neg (by omega), ha, evalItems.eq_1]
  simp only [bind, Except.bind, expandCall, hm]
  cases evalItems tbl gas (callDepth inExp depth) true (fr :: sc) me m.body with
  | error e => rfl
  | ok r => simp [pure, Except.pure]

/-- **C05_depth_limit**: the runaway-recursion cutoff. -/
theorem C05_depth_limit (tbl : Table) (gas : Nat) (sc : Scope) (me : List Sel) (name : String)
    (args : List Arg) (rest : List Item) :
    evalItems tbl (gas + 1) 64 true sc me (.call name args :: rest) = .error (.nameError name) := by
  rw [call_unfold]; rfl

/-! ### (4) parameters are replaced textually by the arguments -/

/-- **C05_expand_subst**: substitution of a value under a literal frame is textual replacement of
    the names the frame binds, followed by substitution in the rest of the scope.  Any fuel ≥ 1 (the
    model uses 64); with fuel 0 the left side reports `hang` on `@p` while the right side may already
    be literal. -/
theorem C05_expand_subst (fr : Frame) (sc : Scope) (fuel : Nat) (v : Value)
    (hl : LitScope (fr :: sc) = true) :
    expand (fr :: sc) (fuel + 1) v = expand sc (fuel + 1) (substValue fr v) := by
  have h := hl
  rw [LitScope_cons, Bool.and_eq_true] at h
  exact expand_subst (Splits.base fr sc) h.1 hl h.2 fuel v

/-- **C05_inline** (main): evaluating a body in a frame `fr` of its own, on top of the caller's scope,
    is evaluating, directly in the caller's scope, the body in which every `@p` bound by `fr` has been
    replaced by its value (declarations, call arguments, nested rules; `@p + k` by the computed
    number) — same declarations, same rules, same errors, for every gas and depth.
    Hypotheses, all decidable:
      `hl`  the frame and the caller's scope hold literal values only;
      `hc`  `ClosedBodies`: the bodies stored in the table (which are not rewritten: the callee is
            looked up at evaluation time on both sides) never read below their own frame;
      `hb`  `inlineItemsOK`: see the header.
    `GuardsOwn tbl` alone (each guard compares the definition's own parameters) is not enough: when
    the value bound to the compared parameter is not a number, `condHolds` falls back on a lookup in
    the caller's scope and finds `fr` on the left but not on the right (example below). -/
theorem C05_inline (tbl : Table) (gas depth : Nat) (inExp : Bool) (fr : Frame) (sc : Scope)
    (me : List Sel) (body : List Item)
    (hl : LitScope (fr :: sc) = true) (hc : ClosedBodies tbl fr = true)
    (hb : inlineItemsOK tbl fr body = true) :
    evalItems tbl gas depth inExp (fr :: sc) me body =
      evalItems tbl gas depth inExp sc me (substItems fr body) := by
  have h := hl
  rw [LitScope_cons, Bool.and_eq_true] at h
  exact evalItems_inline hc h.1 gas depth inExp (fr :: sc) sc me body (Splits.base fr sc) hl h.2 hb

/-- **C05_call_inline**: a call whose first applicable definition is `m`, with frame `fr`, evaluates
    to the body of `m` with the parameters replaced, at the call site, under the caller's selector. -/
theorem C05_call_inline (tbl : Table) (gas depth : Nat) (inExp : Bool) (sc : Scope) (me : List Sel)
    (name : String) (args : List Arg) (args' : List Value) (m : MixinDef) (fr : Frame)
    (hd : callDepth inExp depth ≤ 64) (ha : args.mapM (evalArg sc) = .ok args')
    (hm : firstApplicable sc args' (tbl.candidates name) = some (m, fr))
    (hl : LitScope (fr :: sc) = true) (hc : ClosedBodies tbl fr = true)
    (hb : inlineItemsOK tbl fr m.body = true) :
    evalItems tbl (gas + 1) depth inExp sc me [.call name args] =
      evalItems tbl gas (callDepth inExp depth) true sc me (substItems fr m.body) := by
  rw [C05_call_mixin tbl gas depth inExp sc me name args args' m fr hd ha hm,
    C05_inline tbl gas _ true fr sc me m.body hl hc hb]

/-- **C05_closed**: a body closed over the names `N` evaluates alike in two literal scopes that
    agree on `N` and on every name `fr` does not bind (what makes callee bodies independent of the
    frames below their own). -/
theorem C05_closed (tbl : Table) (fr : Frame) (gas depth : Nat) (inExp : Bool) (Y1 Y2 : Scope)
    (me : List Sel) (items : List Item) (N : List String) (hc : ClosedBodies tbl fr = true)
    (h1 : LitScope Y1 = true) (h2 : LitScope Y2 = true)
    (hN : ∀ n ∈ N, lookup Y1 n = lookup Y2 n)
    (hF : ∀ p, Frame.get fr p = none → lookup Y1 p = lookup Y2 p)
    (hi : closedItems tbl fr N items = true) :
    evalItems tbl gas depth inExp Y1 me items = evalItems tbl gas depth inExp Y2 me items :=
  evalItems_closed hc gas depth inExp Y1 Y2 me items N h1 h2 hN hF hi

/-! ### non-vacuity

`evalItems` is defined by well-founded recursion, which the kernel does not unfold; concrete
evaluations go through `evalF` / `compileRulesF` (Lessm/Lemmas/MixinLemmas.lean), structurally
recursive evaluators proved to return the value of `evalItems` / `compile` whenever they return one
(`evalF_sound`, `compile_of_F`).  The key of a plain rule in the table is computed with
`String.trimAscii`, which the kernel does not reduce either: the example of a rule used as a mixin
gives its table explicitly. -/

/-- guarded recursion, a call before the definition, a default, `@arguments`, a nested rule in a
    mixin, a mixin calling another one -/
private def loopDef : MixinDef :=
  { params := [("i", none)], guard := [[⟨false, "i", .gt, 0⟩]],
    body := [.decl "w" [.ref "i"], .call ".loop" [.arith "i" (-1)]] }

private def boxDef : MixinDef :=
  { params := [("a", none), ("b", some [.lit "2px"])], guard := [],
    body := [.decl "m" [.ref "a", .lit " ", .ref "b"], .decl "all" [.ref "arguments"],
             .rule [".in"] [.decl "p" [.ref "b"]], .call ".loop" [.val [.ref "a"]]] }

private def sheet1 : List Top :=
  [ .rule [".r"] [.call ".loop" [.val [.lit "2"]], .decl "z" [.lit "9"]],
    .mdef ".loop" loopDef,
    .mdef ".box" boxDef,
    .rule [".s"] [.call ".box" [.val [.lit "1"]], .decl "c" [.lit "red"]] ]

private def out1 : List OutRule :=
  [ ⟨[[".r"]], [("w", "2"), ("w", "1"), ("z", "9")]⟩,
    ⟨[[".s"]], [("m", "1 2px"), ("all", "1"), ("w", "1"), ("c", "red")]⟩,
    ⟨[[".s", " ", ".in"]], [("p", "2px")]⟩ ]

example : compile 10 sheet1 = .ok out1 := compile_of_F 50 _ _ _ (by decide +kernel)

/-- definitions moved to the end or to the front: same output -/
example : compile 10 (sheet1.filter Top.isRule ++ sheet1.filter Top.isDef) = .ok out1 :=
  compile_of_F 50 _ _ _ (by decide +kernel)
example : compile 10 (sheet1.filter Top.isDef ++ sheet1.filter Top.isRule) = .ok out1 :=
  compile_of_F 50 _ _ _ (by decide +kernel)
example : (∀ t ∈ sheet1.filter Top.isDef, t.isDef = true) ∧
    (∀ t ∈ sheet1.filter Top.isRule, t.isRule = true) := by decide +kernel

/-- a plain rule used as a mixin: its body is evaluated at the call site, in the caller's frame -/
private def tblP : Table := ⟨[], [(".plain", [.decl "c" [.lit "red"], .rule [".n"] [.decl "d" [.lit "1"]]])]⟩

example : evalItems tblP 5 0 false [[], []] [[".s"]] [.call ".plain" [], .decl "e" [.lit "2"]]
    = .ok ([("c", "red"), ("e", "2")], [⟨[[".s", " ", ".n"]], [("d", "1")]⟩]) :=
  evalF_sound _ 50 _ _ _ _ _ _ _ (by decide +kernel)

private def tbl1 : Table := buildTable sheet1
private def tblL : Table :=
  buildTable [.rule [".r"] [.call ".loop" [.val [.lit "3"]], .decl "z" [.lit "9"]], .mdef ".loop" loopDef]
private def fr3 : Frame := [("i", [.lit "3"]), ("arguments", [.lit "3"])]

example : tbl1.mixins = [(".loop", loopDef), (".box", boxDef)] := by decide +kernel

/-- the hypotheses of `C05_inline` / `C05_call_inline` hold for guarded recursion -/
example : LitScope (fr3 :: [[], []]) = true ∧ ClosedBodies tblL fr3 = true ∧
    inlineItemsOK tblL fr3 loopDef.body = true ∧ GuardsOwn tblL = true := by decide +kernel

example : substItems fr3 loopDef.body =
    [.decl "w" [.lit "3"], .call ".loop" [.val [.lit "2"]]] := by decide +kernel

example : [Arg.val [.lit "3"]].mapM (evalArg [[], []]) = .ok [[.lit "3"]] ∧
    firstApplicable [[], []] [[.lit "3"]] (tblL.candidates ".loop") = some (loopDef, fr3) := by
  decide +kernel

example : evalItems tblL 9 1 true (fr3 :: [[], []]) [[".r"]] loopDef.body
      = .ok ([("w", "3"), ("w", "2"), ("w", "1")], []) :=
  evalF_sound _ 50 _ _ _ _ _ _ _ (by decide +kernel)
example : evalItems tblL 9 1 true [[], []] [[".r"]] (substItems fr3 loopDef.body)
      = .ok ([("w", "3"), ("w", "2"), ("w", "1")], []) :=
  evalF_sound _ 50 _ _ _ _ _ _ _ (by decide +kernel)

/-- `C05_call_inline` applied: `.r { .loop(3) }` is `.r { w: 3; .loop(2) }` -/
example : evalItems tblL 10 0 false [[], []] [[".r"]] [.call ".loop" [.val [.lit "3"]]]
    = evalItems tblL 9 0 true [[], []] [[".r"]]
        [.decl "w" [.lit "3"], .call ".loop" [.val [.lit "2"]]] := by
  have h := C05_call_inline tblL 9 0 false [[], []] [[".r"]] ".loop" [.val [.lit "3"]] [[.lit "3"]]
    loopDef fr3 (by decide) (by decide +kernel) (by decide +kernel) (by decide +kernel)
    (by decide +kernel) (by decide +kernel)
  have hs : substItems fr3 loopDef.body =
      [.decl "w" [.lit "3"], .call ".loop" [.val [.lit "2"]]] := by decide +kernel
  rw [hs] at h
  exact h

/-- … and for a mixin with a default, `@arguments`, a nested rule and a call of the guarded mixin -/
private def frBox : Frame :=
  [("a", [.lit "1"]), ("b", [.lit "2px"]), ("arguments", [.lit "1"])]

example : firstApplicable [[], []] [[.lit "1"]] (tbl1.candidates ".box") = some (boxDef, frBox) := by
  decide +kernel

example : LitScope (frBox :: [[], []]) = true ∧ ClosedBodies tbl1 frBox = true ∧
    inlineItemsOK tbl1 frBox boxDef.body = true := by decide +kernel

example : substItems frBox boxDef.body =
    [.decl "m" [.lit "1", .lit " ", .lit "2px"], .decl "all" [.lit "1"],
     .rule [".in"] [.decl "p" [.lit "2px"]], .call ".loop" [.val [.lit "1"]]] := by
  decide +kernel

/-- `ClosedBodies` looks at the whole table: with `.box` in it (whose body calls `.loop` with an
    argument that is not `.box`'s own `@i`) and a frame binding `@i`, the guard of `.loop` might read
    that frame, and the condition is refused. -/
example : ClosedBodies tbl1 fr3 = false := by decide +kernel

/-- the depth limit: an unguarded self-call runs into the cutoff, not into the interpreter stack,
    when there is gas enough -/
example : compile 100 [.mdef ".f" ⟨[], [], [.call ".f" []]⟩, .rule [".r"] [.call ".f" []]]
    = .error (.nameError ".f") := compile_of_F 200 _ _ _ (by decide +kernel)
example : compile 20 [.mdef ".f" ⟨[], [], [.call ".f" []]⟩, .rule [".r"] [.call ".f" []]]
    = .error .crash := compile_of_F 200 _ _ _ (by decide +kernel)
/-- the counter is kept through a nested rule of an expanded body: recursion through `.x { .f(); }`
    runs into the cutoff too -/
example : compile 200 [.mdef ".f" ⟨[], [], [.rule [".x"] [.call ".f" []]]⟩, .rule [".r"] [.call ".f" []]]
    = .error (.nameError ".f") := compile_of_F 400 _ _ _ (by decide +kernel)

/-- binding: defaults, missing argument, surplus argument -/
example : bindParams [("a", none), ("b", some [.lit "2"])] [[.lit "1"]]
    = some [("a", [.lit "1"]), ("b", [.lit "2"])] := by decide +kernel
example : bindParams [("a", none), ("b", none)] [[.lit "1"]] = none := by decide +kernel
example : bindParams [("a", none)] [[.lit "1"], [.lit "2"]] = some [("a", [.lit "1"])] := by
  decide +kernel

/-- `GuardsOwn` is not enough for `C05_inline`: `.m(@a) when (@a > 0) { w: 1 }` called as `.m(foo)`
    inside a frame binding `@a: 5`.  The callee binds `@a` to `foo`, which is not a number, the guard
    falls back on the caller's `@a = 5` and holds; after substitution no `@a` is left to find.
    `inlineItemsOK` rejects the body. -/
private def tblG : Table :=
  ⟨[(".m", ⟨[("a", none)], [[⟨false, "a", .gt, 0⟩]], [.decl "w" [.lit "1"]]⟩)], []⟩
private def frG : Frame := [("a", [.lit "5"])]
private def bodyG : List Item := [.call ".m" [.val [.lit "foo"]]]

example : GuardsOwn tblG = true ∧ LitScope (frG :: [[], []]) = true ∧ ClosedBodies tblG frG = true
    ∧ inlineItemsOK tblG frG bodyG = false := by decide +kernel
example : evalItems tblG 5 0 true (frG :: [[], []]) [] bodyG = .ok ([("w", "1")], []) :=
  evalF_sound _ 50 _ _ _ _ _ _ _ (by decide +kernel)
example : evalItems tblG 5 0 true [[], []] [] (substItems frG bodyG) = .ok ([], []) :=
  evalF_sound _ 50 _ _ _ _ _ _ _ (by decide +kernel)

/-- a token-list argument with a variable in it is bound unevaluated (`evalArg`), so the callee's
    frame is not literal and the callee reads the caller's frame when it uses the parameter;
    `inlineItemsOK` excludes the shape. -/
example : inlineItemsOK tblG frG [.call ".m" [.val [.ref "a", .lit "px"]]] = false := by
  decide +kernel

/-- `ClosedBodies` is needed: a body of the table that mentions a name it does not bind reads the
    caller's frame (dynamic scoping), which the substitution does not reach. -/
private def tblD : Table := ⟨[(".d", ⟨[], [], [.decl "w" [.ref "a"]]⟩)], []⟩

example : ClosedBodies tblD frG = false ∧ inlineItemsOK tblD frG [.call ".d" []] = true := by
  decide +kernel
example : evalItems tblD 5 0 true (frG :: [[], []]) [] [.call ".d" []] = .ok ([("w", "5")], []) :=
  evalF_sound _ 50 _ _ _ _ _ _ _ (by decide +kernel)
example : evalItems tblD 5 0 true [[], []] [] (substItems frG [.call ".d" []])
    = .error (.unknownVar "a") :=
  evalF_sound _ 50 _ _ _ _ _ _ _ (by decide +kernel)

end Lessm.Mixin
