/-
  Cross (printers)  The minified printer inside the at-rule model is the general formatter model at the
  minified fill table.

  `AtRule.printList` (Lessm/Model/AtRule.lean) was written next to the at-rule evaluator as "`Block.fmt`
  with nl = ws = tab = "", eb = "\n"".  `Print.fmtNodes` (Lessm/Model/Print.lean) models `Block.fmt`,
  `Property.fmt`, `Identifier.fmt`, `Statement.fmt` for every option vector.  X9 embeds an (evaluated)
  at-rule tree into the formatter's trees and shows that the two printers give the same text.

  The two models trim the body of a nested block differently: `AtRule.printItem` with
  `String.trimAscii` (blank, \t, \r, \n), `Print.fmtNode` with `Print.strip` (Python's `str.strip()`:
  these four and \x0b, \x0c).  They are related here through a list characterisation of
  `String.trimAscii` (`toList_trimAscii`); they agree on every string without \x0b / \x0c
  (`trim_agree`), and they do differ otherwise (example at the end).  X9 therefore carries the
  hypothesis `BodiesNoVT`: no string INSIDE a nested body (`@media`, `@keyframes`) contains \x0b or
  \x0c.  Strings at top level (statements, selectors, preludes, the keyword / name / query of the
  nested blocks themselves) are unrestricted.
-/
import Lessm.Model.AtRule
import Lessm.Lemmas.PrintLemmas

namespace Lessm.Cross
open Lessm

/-! ### definitions -/

def declAP (d : AtRule.Decl) : Print.Decl := ⟨d.prop, [.tok d.value], false⟩

mutual
/-- an (evaluated) at-rule tree as a tree of the formatter model: an ordinary rule, an @font-face/@viewport block and a
    keyframe are rules whose "selector" is their prelude; @keyframes and @media are printed nested -/
def embedAPItem : AtRule.Item → Print.Node
  | .stmt t => .stmt t
  | .keyframes kw n fs => .nest (kw ++ " " ++ n) (fs.map (fun f => .rule [[.text f.sel]] (f.decls.map declAP)))
  | .declBlock p ds => .rule [[.text p]] (ds.map declAP)
  | .rule s ds => .rule [[.text s]] (ds.map declAP)
  | .media q body => .nest ("@media " ++ q) (embedAP body)
def embedAP : List AtRule.Item → List Print.Node
  | [] => []
  | i :: is => embedAPItem i :: embedAP is
end

/-- minified, not xminified: nl = tab = ws = "", eb = "\n" -/
def minOpts : Print.Opts := ⟨true, false, false, 0⟩

/-- the string contains neither \x0b (vertical tab) nor \x0c (form feed): the two characters that
    Python's `str.strip()` (`Print.isWs`) removes and `String.trimAscii` (`Char.isWhitespace`) keeps -/
def noVT (s : String) : Bool := s.toList.all (fun c => c != '\x0b' && c != '\x0c')

def noVTDecls (ds : List AtRule.Decl) : Bool := ds.all (fun d => noVT d.prop && noVT d.value)

def noVTFrames (fs : List AtRule.Frame) : Bool := fs.all (fun f => noVT f.sel && noVTDecls f.decls)

mutual
/-- no string of the item, at any depth, contains \x0b or \x0c -/
def noVTItem : AtRule.Item → Bool
  | .stmt t => noVT t
  | .keyframes kw n fs => noVT kw && noVT n && noVTFrames fs
  | .declBlock p ds => noVT p && noVTDecls ds
  | .rule s ds => noVT s && noVTDecls ds
  | .media q body => noVT q && noVTList body
def noVTList : List AtRule.Item → Bool
  | [] => true
  | i :: is => noVTItem i && noVTList is
end

/-- the strings inside the nested body of the item (if it has one) contain neither \x0b nor \x0c;
    nothing is asked of the item's own prelude -/
def bodyNoVT : AtRule.Item → Bool
  | .keyframes _ _ fs => noVTFrames fs
  | .media _ body => noVTList body
  | _ => true

/-- every nested body of the sheet is free of \x0b and \x0c -/
def BodiesNoVT (is : List AtRule.Item) : Bool := is.all bodyNoVT

/-! ### helper lemmas -/

/-! #### `String.trimAscii` as a list function -/

theorem list_dropWhile_of_split {p : Char → Bool} (a b : List Char) (ha : a.all p = true)
    (hb : b.head?.any p = false) : (a ++ b).dropWhile p = b := by
  induction a with
  | nil =>
    cases b with
    | nil => rfl
    | cons c r =>
      have : p c = false := by simpa using hb
      simp [this]
  | cons x a ih =>
    simp only [List.all_cons, Bool.and_eq_true] at ha
    simp only [List.cons_append, List.dropWhile, ha.1]
    exact ih ha.2

theorem toList_slice_dropWhile (p : Char → Bool) (s : String.Slice) :
    (s.dropWhile p).copy.toList = s.copy.toList.dropWhile p := by
  have h1 := String.Slice.takeWhile_append_dropWhile (pat := p) (s := s)
  have h2 := String.Slice.all_takeWhile (pat := p) (s := s)
  have h3 := String.Slice.startsWith_dropWhile (pat := p) (s := s)
  rw [String.Slice.all_bool_eq] at h2
  rw [String.Slice.startsWith_bool_eq_head?] at h3
  rw [← h1, String.toList_append, list_dropWhile_of_split _ _ h2 h3]

theorem toList_slice_dropEndWhile (p : Char → Bool) (s : String.Slice) :
    (s.dropEndWhile p).copy.toList = (s.copy.toList.reverse.dropWhile p).reverse := by
  have h1 := String.Slice.dropEndWhile_append_takeEndWhile (pat := p) (s := s)
  have h2 := String.Slice.revAll_takeEndWhile (pat := p) (s := s)
  have h3 := String.Slice.endsWith_dropEndWhile (pat := p) (s := s)
  rw [String.Slice.revAll_bool_eq] at h2
  rw [String.Slice.endsWith_bool_eq_getLast?] at h3
  rw [← h1, String.toList_append, List.reverse_append,
    list_dropWhile_of_split _ _ (by simpa using h2) (by simpa using h3), List.reverse_reverse]

/-- `String.trimAscii` on the list of characters: `Print.strip` with `Char.isWhitespace` for `Print.isWs` -/
theorem toList_trimAscii (s : String) :
    s.trimAscii.toString.toList
      = ((s.toList.dropWhile Char.isWhitespace).reverse.dropWhile Char.isWhitespace).reverse := by
  show ((s.toSlice.dropWhile Char.isWhitespace).dropEndWhile Char.isWhitespace).copy.toList = _
  rw [toList_slice_dropEndWhile, toList_slice_dropWhile, String.copy_toSlice]

theorem trimAscii_eq (s : String) :
    s.trimAscii.toString
      = String.ofList ((s.toList.dropWhile Char.isWhitespace).reverse.dropWhile Char.isWhitespace).reverse := by
  rw [← toList_trimAscii, String.ofList_toList]

theorem list_dropWhile_congr {p q : Char → Bool} (l : List Char) (h : ∀ c ∈ l, p c = q c) :
    l.dropWhile p = l.dropWhile q := by
  induction l with
  | nil => rfl
  | cons c l ih =>
    have hc := h c (by simp)
    have ih := ih (fun c hc => h c (by simp [hc]))
    simp only [List.dropWhile, hc, ih]

theorem isWs_eq_isWhitespace (c : Char) (h1 : c ≠ '\x0b') (h2 : c ≠ '\x0c') :
    Print.isWs c = c.isWhitespace := by
  by_cases a1 : c = ' ' <;> by_cases a2 : c = '\n' <;> by_cases a3 : c = '\t' <;> by_cases a4 : c = '\r' <;>
    simp [Print.isWs, Char.isWhitespace, *]

theorem noVT_iff (s : String) : noVT s = true ↔ ∀ c ∈ s.toList, c ≠ '\x0b' ∧ c ≠ '\x0c' := by
  simp [noVT]

/-- **trim_agree**: on a string without \x0b and \x0c the trim of the at-rule model
    (`String.trimAscii`) is the trim of the formatter model (`Print.strip`) -/
theorem trim_agree (s : String) (h : ∀ c ∈ s.toList, c ≠ '\x0b' ∧ c ≠ '\x0c') :
    s.trimAscii.toString = Print.strip s := by
  have hag : ∀ c ∈ s.toList, Char.isWhitespace c = Print.isWs c :=
    fun c hc => (isWs_eq_isWhitespace c (h c hc).1 (h c hc).2).symm
  rw [trimAscii_eq, Print.strip, list_dropWhile_congr s.toList hag]
  congr 2
  apply list_dropWhile_congr
  intro c hc
  exact hag c ((List.dropWhile_sublist _).subset (List.mem_reverse.1 hc))

theorem trim_agree' (s : String) (h : noVT s = true) : s.trimAscii.toString = Print.strip s :=
  trim_agree s ((noVT_iff s).1 h)

/-! #### `noVT` of the printed text -/

theorem noVT_append (a b : String) : noVT (a ++ b) = (noVT a && noVT b) := by
  simp [noVT, String.toList_append]

theorem noVT_trimAscii (s : String) (h : noVT s = true) : noVT s.trimAscii.toString = true := by
  rw [noVT_iff] at h ⊢
  intro c hc
  rw [toList_trimAscii] at hc
  have h1 := (List.dropWhile_sublist _).subset (List.mem_reverse.1 hc)
  exact h c ((List.dropWhile_sublist _).subset (List.mem_reverse.1 h1))

theorem noVT_lits : noVT "" = true ∧ noVT ":" = true ∧ noVT ";" = true ∧ noVT "{" = true ∧ noVT "}\n" = true
    ∧ noVT " " = true ∧ noVT "\n" = true ∧ noVT "@media " = true := by decide

theorem noVT_printDecls (ds : List AtRule.Decl) (h : noVTDecls ds = true) :
    noVT (AtRule.printDecls ds) = true := by
  unfold AtRule.printDecls
  induction ds with
  | nil => exact noVT_lits.1
  | cons d r ih =>
    simp only [noVTDecls, List.all_cons, Bool.and_eq_true] at h
    simp only [List.map_cons, Print.join_cons, noVT_append, h.1.1, h.1.2, noVT_lits, Bool.and_self,
      Bool.true_and]
    exact ih (by simpa [noVTDecls] using h.2)

/-- the text of the frames of an `@keyframes` block, before trimming -/
def framesText (fs : List AtRule.Frame) : String :=
  String.join (fs.map (fun f => f.sel ++ "{" ++ AtRule.printDecls f.decls ++ "}\n"))

theorem noVT_framesText (fs : List AtRule.Frame) (h : noVTFrames fs = true) :
    noVT (framesText fs) = true := by
  unfold framesText
  induction fs with
  | nil => exact noVT_lits.1
  | cons f r ih =>
    simp only [noVTFrames, List.all_cons, Bool.and_eq_true] at h
    simp only [List.map_cons, Print.join_cons, noVT_append, h.1.1, noVT_printDecls _ h.1.2, noVT_lits,
      Bool.and_self, Bool.true_and]
    exact ih (by simpa [noVTFrames] using h.2)

theorem printItem_keyframes (kw n : String) (fs : List AtRule.Frame) :
    AtRule.printItem (.keyframes kw n fs)
      = kw ++ " " ++ n ++ "{" ++ (framesText fs).trimAscii.toString ++ "}\n" := by
  rw [AtRule.printItem]; rfl

mutual
theorem noVT_printItem : ∀ i : AtRule.Item, noVTItem i = true → noVT (AtRule.printItem i) = true
  | .stmt t, h => by
      simp only [noVTItem] at h
      simp only [AtRule.printItem, noVT_append, h, noVT_lits, Bool.and_self]
  | .keyframes kw n fs, h => by
      simp only [noVTItem, Bool.and_eq_true] at h
      simp only [printItem_keyframes, noVT_append, h.1.1, h.1.2, noVT_lits,
        noVT_trimAscii _ (noVT_framesText fs h.2), Bool.and_self]
  | .declBlock p ds, h => by
      simp only [noVTItem, Bool.and_eq_true] at h
      simp only [AtRule.printItem, noVT_append, h.1, noVT_printDecls _ h.2, noVT_lits, Bool.and_self]
  | .rule s ds, h => by
      simp only [noVTItem, Bool.and_eq_true] at h
      simp only [AtRule.printItem, noVT_append, h.1, noVT_printDecls _ h.2, noVT_lits, Bool.and_self]
  | .media q body, h => by
      simp only [noVTItem, Bool.and_eq_true] at h
      simp only [AtRule.printItem, noVT_append, h.1, noVT_lits,
        noVT_trimAscii _ (noVT_printList body h.2), Bool.and_self]
theorem noVT_printList : ∀ is : List AtRule.Item, noVTList is = true → noVT (AtRule.printList is) = true
  | [], _ => by simp only [AtRule.printList, noVT_lits]
  | i :: is, h => by
      simp only [noVTList, Bool.and_eq_true] at h
      simp only [AtRule.printList, noVT_append, noVT_printItem i h.1, noVT_printList is h.2, Bool.and_self]
end

theorem bodyNoVT_of_noVTItem (i : AtRule.Item) (h : noVTItem i = true) : bodyNoVT i = true := by
  cases i with
  | stmt t => rfl
  | keyframes kw n fs => simp only [noVTItem, Bool.and_eq_true] at h; exact h.2
  | declBlock p ds => rfl
  | rule s ds => rfl
  | media q body => simp only [noVTItem, Bool.and_eq_true] at h; exact h.2

theorem bodiesNoVT_of_noVTList : ∀ is : List AtRule.Item, noVTList is = true → BodiesNoVT is = true
  | [], _ => rfl
  | i :: is, h => by
      simp only [noVTList, Bool.and_eq_true] at h
      simp only [BodiesNoVT, List.all_cons, Bool.and_eq_true]
      exact ⟨bodyNoVT_of_noVTItem i h.1, bodiesNoVT_of_noVTList is h.2⟩

/-! #### the formatter at the minified fill table -/

/-- the minified fill table with end-of-block "\n" -/
abbrev F : Print.Fills := Print.MF "\n"

theorem fills_minOpts : Print.fills minOpts = F := by decide

theorem rbrace_nl : ("}\n" : String) = "}" ++ "\n" := by decide

theorem fmtDecls_declAP (ds : List AtRule.Decl) :
    Print.fmtDecls F (ds.map declAP) = AtRule.printDecls ds := by
  unfold AtRule.printDecls
  induction ds with
  | nil => rfl
  | cons d r ih =>
    simp only [List.map_cons, Print.fmtDecls, Print.join_cons, ih]
    congr 1
    simp only [Print.fmtDecl, declAP, Print.fmtValue, F, Print.MF, String.append_empty, String.empty_append,
      Bool.false_eq_true, if_false]

theorem fmtIdent_text (f : Print.Fills) (s : String) : Print.fmtIdent f [[.text s]] = s := by
  simp [Print.fmtIdent, Print.joinWith, Print.fmtSel]

theorem fmtNode_ruleAP (s : String) (ds : List AtRule.Decl) (h : ds.isEmpty = false) :
    Print.fmtNode F (.rule [[.text s]] (ds.map declAP)) = s ++ "{" ++ AtRule.printDecls ds ++ "}\n" := by
  have h' : (ds.map declAP).isEmpty = false := by
    cases ds with
    | nil => simp at h
    | cons d r => rfl
  rw [Print.fmtNode_rule, h', fmtIdent_text, fmtDecls_declAP, rbrace_nl]
  simp only [Bool.false_eq_true, if_false, F, Print.MF, String.append_empty, String.append_assoc]

theorem fmtNode_nestM (p : String) (inner : List Print.Node) (h : inner.isEmpty = false) :
    Print.fmtNode F (.nest p inner) = p ++ "{" ++ Print.strip (Print.fmtNodes F inner) ++ "}\n" := by
  have h1 : F.nl.isEmpty = true := (by decide : ("" : String).isEmpty = true)
  have h2 : F.tab.toList = [] := (by decide : ("" : String).toList = [])
  rw [Print.fmtNode_nest, h, Print.indent_M, rbrace_nl]
  simp only [h1, h2, Print.rstripChars_nil, String.ofList_toList, Bool.false_eq_true, if_false, if_true]
  simp only [F, Print.MF, String.append_empty, String.append_assoc]

theorem fmtNodes_frames (fs : List AtRule.Frame) (h : fs.all (fun f => !f.decls.isEmpty) = true) :
    Print.fmtNodes F (fs.map (fun f => .rule [[.text f.sel]] (f.decls.map declAP))) = framesText fs := by
  unfold framesText
  induction fs with
  | nil => simp [Print.fmtNodes_nil]
  | cons f r ih =>
    simp only [List.all_cons, Bool.and_eq_true, Bool.not_eq_true'] at h
    simp only [List.map_cons, Print.fmtNodes_cons, Print.join_cons, fmtNode_ruleAP _ _ h.1]
    rw [ih (by simpa using h.2)]

theorem embedAP_isEmpty (is : List AtRule.Item) : (embedAP is).isEmpty = is.isEmpty := by
  cases is <;> simp [embedAP]

/-! #### the two printers -/

mutual
theorem printItem_eq : ∀ i : AtRule.Item, AtRule.Full i = true → bodyNoVT i = true →
    AtRule.printItem i = Print.fmtNode F (embedAPItem i)
  | .stmt t, _, _ => by
      rw [embedAPItem, Print.fmtNode_stmt, AtRule.printItem]; rfl
  | .keyframes kw n fs, hf, hv => by
      simp only [AtRule.Full, Bool.and_eq_true, Bool.not_eq_true'] at hf
      have hne : (fs.map (fun f => Print.Node.rule [[.text f.sel]] (f.decls.map declAP))).isEmpty = false := by
        cases fs with
        | nil => simp at hf
        | cons f r => rfl
      rw [embedAPItem, fmtNode_nestM _ _ hne, fmtNodes_frames fs hf.2, printItem_keyframes,
        trim_agree' _ (noVT_framesText fs hv)]
  | .declBlock p ds, hf, _ => by
      simp only [AtRule.Full, Bool.not_eq_true'] at hf
      rw [embedAPItem, fmtNode_ruleAP _ _ hf, AtRule.printItem]
  | .rule s ds, hf, _ => by
      simp only [AtRule.Full, Bool.not_eq_true'] at hf
      rw [embedAPItem, fmtNode_ruleAP _ _ hf, AtRule.printItem]
  | .media q body, hf, hv => by
      simp only [AtRule.Full, Bool.and_eq_true, Bool.not_eq_true'] at hf
      have hv' : noVTList body = true := hv
      rw [embedAPItem, fmtNode_nestM _ _ (by rw [embedAP_isEmpty]; exact hf.1),
        ← printList_eq body hf.2 (bodiesNoVT_of_noVTList body hv'), AtRule.printItem,
        trim_agree' _ (noVT_printList body hv')]
theorem printList_eq : ∀ is : List AtRule.Item, AtRule.FullList is = true → BodiesNoVT is = true →
    AtRule.printList is = Print.fmtNodes F (embedAP is)
  | [], _, _ => by rw [embedAP, Print.fmtNodes_nil, AtRule.printList]
  | i :: is, hf, hv => by
      simp only [AtRule.FullList, Bool.and_eq_true] at hf
      simp only [BodiesNoVT, List.all_cons, Bool.and_eq_true] at hv
      rw [embedAP, Print.fmtNodes_cons, AtRule.printList, printItem_eq i hf.1 hv.1,
        printList_eq is hf.2 hv.2]
end

/-! ### the property -/

/-- **X9**: the printer of the at-rule model is the formatter model at the minified fill table
    (`--minify`: nl = tab = ws = "", eb = "\n").  For every at-rule tree without empty blocks (`FullList`:
    what `AtRule.evalList` produces and C19 quantifies over; the formatter prints nothing for an empty
    block where `AtRule.printItem` prints `s{}`) in which no string inside an `@media` / `@keyframes` body
    contains \x0b or \x0c (`BodiesNoVT`: the two models trim such a body with `String.trimAscii` and with
    Python's `strip()` respectively, which differ exactly on these two characters),
    `AtRule.printList` prints what `Print.fmtNodes` prints for the embedded tree. -/
theorem atrule_print_is_formatter (is : List AtRule.Item) (hf : AtRule.FullList is = true)
    (hv : BodiesNoVT is = true) :
    AtRule.printList is = Print.fmtNodes (Print.fills minOpts) (embedAP is) := by
  rw [fills_minOpts]
  exact printList_eq is hf hv

/-- X9 for trees in which no string at all contains \x0b or \x0c -/
theorem atrule_print_is_formatter_noVT (is : List AtRule.Item) (hf : AtRule.FullList is = true)
    (hv : noVTList is = true) :
    AtRule.printList is = Print.fmtNodes (Print.fills minOpts) (embedAP is) :=
  atrule_print_is_formatter is hf (bodiesNoVT_of_noVTList is hv)

/-- X9 and the final `strip` of `Formatter.format`: the whole minified output -/
theorem atrule_format_is_formatter (is : List AtRule.Item) (hf : AtRule.FullList is = true)
    (hv : BodiesNoVT is = true) :
    Print.strip (AtRule.printList is) = Print.format minOpts (embedAP is) := by
  rw [Print.format, atrule_print_is_formatter is hf hv]

/-! ### non-vacuity -/

/-- `@charset "utf-8";  .a{color:red;width:5px;}  @media screen{.b{x:1;} .c{y:2;z:3;}}
    @-webkit-keyframes spin{from{top:0;} to{top:10px;left:1px;}}  @font-face{font-family:F;src:url(f.woff);}` -/
private def exTree : List AtRule.Item :=
  [ .stmt "@charset \"utf-8\";",
    .rule ".a" [⟨"color", "red"⟩, ⟨"width", "5px"⟩],
    .media "screen" [.rule ".b" [⟨"x", "1"⟩], .rule ".c" [⟨"y", "2"⟩, ⟨"z", "3"⟩]],
    .keyframes "@-webkit-keyframes" "spin" [⟨"from", [⟨"top", "0"⟩]⟩, ⟨"to", [⟨"top", "10px"⟩, ⟨"left", "1px"⟩]⟩],
    .declBlock "@font-face" [⟨"font-family", "F"⟩, ⟨"src", "url(f.woff)"⟩] ]

private def exText : String :=
  "@charset \"utf-8\";\n.a{color:red;width:5px;}\n@media screen{.b{x:1;}\n.c{y:2;z:3;}}\n" ++
  "@-webkit-keyframes spin{from{top:0;}\nto{top:10px;left:1px;}}\n@font-face{font-family:F;src:url(f.woff);}\n"

example : AtRule.FullList exTree = true := by decide
example : BodiesNoVT exTree = true ∧ noVTList exTree = true := by decide +kernel

/-- the formatter side, evaluated in the kernel -/
example : Print.fmtNodes (Print.fills minOpts) (embedAP exTree) = exText := by decide +kernel

/-- the at-rule side: the kernel does not reduce `String.trimAscii`; it is replaced by its list
    characterisation `trimAscii_eq` (two rewrites, one per nested body) and the rest is evaluated -/
example : AtRule.printList exTree = exText := by
  simp only [exTree, AtRule.printList, AtRule.printItem, trimAscii_eq]
  decide +kernel

/-- X9 on `exTree` -/
example : AtRule.printList exTree = Print.fmtNodes (Print.fills minOpts) (embedAP exTree) :=
  atrule_print_is_formatter exTree (by decide) (by decide +kernel)

/-- `BodiesNoVT` is not superfluous: a statement "\x0b" inside `@media` is kept by the at-rule printer
    and stripped by the formatter (`FullList` holds) -/
example : AtRule.FullList [.media "q" [.stmt "\x0b"]] = true
    ∧ AtRule.printList [.media "q" [.stmt "\x0b"]] = "@media q{\x0b}\n"
    ∧ Print.fmtNodes (Print.fills minOpts) (embedAP [.media "q" [.stmt "\x0b"]]) = "@media q{}\n" := by
  refine ⟨by decide, ?_, by decide +kernel⟩
  simp only [AtRule.printList, AtRule.printItem, trimAscii_eq]
  decide +kernel

/-- … while \x0b at top level, or in the prelude of a nested block, is harmless -/
example : BodiesNoVT [.stmt "\x0b", .media "\x0c" [.rule "a" [⟨"b", "c"⟩]]] = true
    ∧ noVTList [.stmt "\x0b", .media "\x0c" [.rule "a" [⟨"b", "c"⟩]]] = false := by decide +kernel

/-- `FullList` is not superfluous: the formatter prints nothing for an empty rule, `AtRule.printItem`
    prints `a{}` -/
example : AtRule.FullList [.rule "a" []] = false
    ∧ BodiesNoVT [.rule "a" []] = true
    ∧ AtRule.printList [.rule "a" []] = "a{}\n"
    ∧ Print.fmtNodes (Print.fills minOpts) (embedAP [.rule "a" []]) = "" := by decide +kernel

end Lessm.Cross
