/-
  C17  Numeric built-ins agree with exact arithmetic; unknown functions pass through.
-/
import Lessm.Model.Builtins
import Mathlib.Data.Rat.Floor
import Mathlib.Tactic.Linarith

namespace Lessm.Builtins

theorem floor_eq (q : ℚ) : q.floor = ⌊q⌋ := rfl

/-- **C17_round_near**: `round` returns an integer within ½ of its argument. -/
theorem C17_round_near (x : ℚ) : |((awayRound x : ℤ) : ℚ) - x| ≤ 1 / 2 := by
  unfold awayRound
  split
  · rw [floor_eq]
    have h1 := Int.floor_le (-x + 1 / 2)
    have h2 := Int.lt_floor_add_one (-x + 1 / 2)
    push_cast
    rw [abs_le]; constructor <;> linarith
  · rw [floor_eq]
    have h1 := Int.floor_le (x + 1 / 2)
    have h2 := Int.lt_floor_add_one (x + 1 / 2)
    rw [abs_le]; constructor <;> linarith

/-- **C17_round_tie**: an exact half is rounded away from zero. -/
theorem C17_round_tie (k : ℤ) :
    awayRound ((k : ℚ) + 1 / 2) = if 0 ≤ k then k + 1 else k := by
  unfold awayRound
  by_cases hk : 0 ≤ k
  · have : ¬ ((k : ℚ) + 1 / 2 < 0) := by
      have : (0 : ℚ) ≤ k := by exact_mod_cast hk
      intro h; linarith
    simp only [this, hk, if_false, if_true]
    rw [floor_eq]
    have : (k : ℚ) + 1 / 2 + 1 / 2 = ((k + 1 : ℤ) : ℚ) := by push_cast; ring
    rw [this, Int.floor_intCast]
  · have hk' : k ≤ -1 := by omega
    have : (k : ℚ) + 1 / 2 < 0 := by
      have : (k : ℚ) ≤ -1 := by exact_mod_cast hk'
      linarith
    simp only [this, hk, if_true, if_false]
    rw [floor_eq]
    have : -((k : ℚ) + 1 / 2) + 1 / 2 = ((-k : ℤ) : ℚ) := by push_cast; ring
    rw [this, Int.floor_intCast]; ring

/-- **C17_round_int**: integers are fixed points of `round`. -/
theorem C17_round_int (k : ℤ) : awayRound (k : ℚ) = k := by
  unfold awayRound
  split
  · rw [floor_eq]
    have : -(k : ℚ) + 1 / 2 = ((-k : ℤ) : ℚ) + 1 / 2 := by push_cast; ring
    rw [this]
    have : ⌊((-k : ℤ) : ℚ) + 1 / 2⌋ = -k := by
      rw [Int.floor_eq_iff]; constructor <;> push_cast <;> linarith
    rw [this]; ring
  · rw [floor_eq, Int.floor_eq_iff]; constructor <;> linarith

/-- **C17_round_odd**: `round (-x) = - round x` (symmetry: half *away from zero* on both sides). -/
theorem C17_round_odd (x : ℚ) : awayRound (-x) = - awayRound x := by
  unfold awayRound
  rcases lt_trichotomy x 0 with h | h | h
  · have h1 : ¬ (-x < 0) := by linarith
    simp [h, h1]
  · subst h; simp; decide +kernel
  · have h1 : -x < 0 := by linarith
    have h2 : ¬ (x < 0) := by linarith
    simp [h1, h2]

/-- **C17_ceil / C17_floor**: exactly ⌈x⌉ and ⌊x⌋. -/
theorem C17_floor (x : ℚ) : ((x.floor : ℤ) : ℚ) ≤ x ∧ x < (x.floor : ℤ) + 1 := by
  rw [floor_eq]; exact ⟨Int.floor_le x, Int.lt_floor_add_one x⟩

theorem C17_ceil (x : ℚ) : x ≤ ((x.ceil : ℤ) : ℚ) ∧ ((x.ceil : ℤ) : ℚ) < x + 1 := by
  rw [Rat.ceil_eq_neg_floor_neg, floor_eq]
  have h1 := Int.floor_le (-x)
  have h2 := Int.lt_floor_add_one (-x)
  push_cast
  constructor <;> linarith

/-- **C17_apply**: every built-in returns the mathematically exact value, the unit is kept
    (`percentage` yields `%`), and a zero result is printed bare. -/
theorem C17_apply (f : Fn) (x : ℚ) (u : List Char) :
    (call f x u).1 = apply f x ∧
    ((call f x u).2 = if apply f x = 0 then [] else unitOf f u) := by
  unfold call withUnit
  by_cases h : apply f x = 0 <;> simp [h]

theorem C17_incdec (x : ℚ) : apply .increment x = x + 1 ∧ apply .decrement x = x - 1
    ∧ apply .percentage x = 100 * x := by
  simp [apply]; ring

/-- **C17_passthrough**: an unknown function is copied with its evaluated arguments, in order,
    separated by single commas, between one pair of parentheses: the printed text is the
    concatenation of `name`, `(`, the arguments interspersed with `,`, and `)`. -/
theorem argTokens_eq (l : List String) : argTokens l = l.intersperse "," := by
  induction l with
  | nil => rfl
  | cons a rest ih =>
    cases rest with
    | nil => rfl
    | cons b rest' => simp only [argTokens, List.intersperse_cons₂, ih]

theorem C17_passthrough (name : String) (args : List String) :
    callUnknown name args = name ++ String.join (["("] ++ args.intersperse "," ++ [")"]) := by
  unfold callUnknown passThrough
  rw [argTokens_eq]

example : awayRound (-5/2) = -3 := by decide +kernel
example : awayRound (-2/5) = 0 := by decide +kernel
example : callLexeme .round "-2.5px".toList = some (-3, "px".toList) := by decide +kernel

end Lessm.Builtins
