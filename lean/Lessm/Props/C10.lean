/-
  C10  The output is plain CSS and a fixpoint of the compiler.

  "Successful output contains no LESS construct: no variable reference or definition, no mixin
   definition or call, no guard, no &, and no rule nested in a rule other than inside an at-rule
   block. Compiling the output again with the same options returns it unchanged, and compiling it with
   other options returns what the original source gives with those options."

  Vocabulary: `Lessm/Spec/FixSpec.lean` (`embed`: the source item a plain-CSS reading of an output
  rule denotes; `CanonOut`: the outputs that are read back token by token; `SourceOK`: well-formed
  sources).  Helper lemmas: `Lessm/Lemmas/FixLemmas.lean`.  Printing: `Lessm/Props/C11.lean`.
-/
import Lessm.Lemmas.FixLemmas
import Lessm.Props.C11

namespace Lessm.Nest
open Lessm.Sel

/-! ### (1) the output type has no LESS construct

  `compileSheet : List Item → List OutRule`, and an `OutRule` is a structure of a selector list
  (`List Sel`, token lists) and a declaration list: there is no constructor for a nested rule, a
  variable, a mixin definition, a call or a guard.  So the statement is a typing fact; what is left to
  prove is that no empty rule is emitted (`C10_flat`) and that no `&` token is left (`C10_out_canon`:
  `canonTok` excludes `&`). -/

/-- **C10_type**: every element of the output is a pair (selector list, declaration list). -/
theorem C10_type (sheet : List Item) :
    ∀ r ∈ compileSheet sheet, ∃ (sels : List Sel) (decls : List Decl), r = ⟨sels, decls⟩ :=
  fun r _ => ⟨r.sels, r.decls, rfl⟩

mutual
theorem flat_decls_ne (p : Option (List Sel)) : ∀ t : Item, ∀ r ∈ flat p t, r.decls ≠ []
  | .decl _ => by simp [flat]
  | .rule sel body => by
      intro r hr
      simp only [flat, List.mem_append] at hr
      rcases hr with hr | hr
      · by_cases h : srcDecls body = []
        · simp [h] at hr
        · simp only [h, if_false, List.mem_singleton] at hr
          subst hr; exact h
      · exact flatList_decls_ne _ body r hr
theorem flatList_decls_ne (p : Option (List Sel)) : ∀ ts : List Item, ∀ r ∈ flatList p ts, r.decls ≠ []
  | [] => by simp [flatList]
  | i :: is => by
      intro r hr
      simp only [flatList, List.mem_append] at hr
      rcases hr with hr | hr
      · exact flat_decls_ne p i r hr
      · exact flatList_decls_ne p is r hr
end

/-- **C10_flat**: no empty rule is emitted: every output rule has at least one declaration. -/
theorem C10_flat (sheet : List Item) : ∀ r ∈ compileSheet sheet, r.decls ≠ [] := by
  rw [C02_sheet]; exact flatList_decls_ne none sheet

/-! ### (2) reading the output back and compiling it again returns it unchanged -/

theorem declsOfBody_map_decl (ds : List Decl) : declsOfBody (ds.map Item.decl) = ds := by
  induction ds with
  | nil => rfl
  | cons d r ih => simp [declsOfBody, ih]

theorem embed_plain (out : List OutRule) : (embed out).all PlainRule = true := by
  simp [embed, embedRule, PlainRule]

theorem readable_of_canonSel {s : Sel} (h : CanonSel s = true) : Readable s := by
  simp only [CanonSel, Bool.and_eq_true] at h
  exact ⟨h.1.1.1.1.2, h.1.1.1.2⟩

/-- **C10_sel_fix** (the core, with the minimal hypotheses): a non-empty list of selectors whose tokens
    are canonical and that have no `" "` before an encoded combinator or at the end is parsed back to
    itself from its comma-joined, combinator-decoded token list. -/
theorem C10_sel_fix (sels : List Sel) (hne : sels ≠ [])
    (hs : ∀ s ∈ sels, s.all canonTok = true ∧ noSpaceBeforeEnc s = true) :
    identParse none (joinSels sels) = sels :=
  identParse_joinSels sels hne hs

/-- **C10_fix**: a canonical output, read back as plain CSS and compiled again, is returned unchanged:
    same rules, same order, same selectors, same declarations. -/
theorem C10_fix (out : List OutRule) (h : CanonOut out = true) : compileSheet (embed out) = out := by
  rw [C01_rules _ (embed_plain out)]
  induction out with
  | nil => rfl
  | cons r rs ih =>
    simp only [CanonOut, List.all_cons, Bool.and_eq_true] at h
    obtain ⟨⟨⟨hd, hs⟩, hc⟩, hrest⟩ := h
    have hd' : r.decls ≠ [] := by
      intro h0; simp [h0] at hd
    have hs' : r.sels ≠ [] := by
      intro h0; simp [h0] at hs
    have hsel : identParse none (joinSels r.sels) = r.sels :=
      identParse_joinSels r.sels hs' (fun s hmem => readable_of_canonSel (List.all_eq_true.mp hc s hmem))
    have ih' := ih (by simpa [CanonOut] using hrest)
    simp only [embed, List.map_cons, List.flatMap_cons, embedRule, declsOfBody_map_decl, hd', if_false,
      hsel] at ih' ⊢
    rw [ih']; rfl

/-! ### (3) the outputs of well-formed sources are canonical -/

/-- **C10_out_strong**: for a well-formed source every output rule has declarations and a non-empty
    selector list whose members are canonical and do not end in an encoded combinator (the invariant
    that nesting preserves: `StrongSel`).  General case: any depth, `&` (any number per selector),
    selector lists, combinators. -/
theorem C10_out_strong (sheet : List Item) (h : SourceOK sheet = true) :
    ∀ r ∈ compileSheet sheet, r.decls ≠ [] ∧ r.sels ≠ [] ∧ ∀ s ∈ r.sels, StrongSel s := by
  rw [C02_sheet]
  exact flatList_strong none trivial sheet h

/-- **C10_out_canon**: the output of a well-formed source is canonical. -/
theorem C10_out_canon (sheet : List Item) (h : SourceOK sheet = true) :
    CanonOut (compileSheet sheet) = true :=
  canonOut_of_strong _ (C10_out_strong sheet h)

/-- **C10_no_amp_tok**: in particular no `&`, no `,`, no raw combinator token is left in a selector. -/
theorem C10_no_amp_tok (sheet : List Item) (h : SourceOK sheet = true) :
    ∀ r ∈ compileSheet sheet, ∀ s ∈ r.sels, ∀ t ∈ s, t ≠ "&" ∧ t ≠ "," ∧ isComb t = false := by
  intro r hr s hs t ht
  have hc := List.all_eq_true.mp ((C10_out_strong sheet h r hr).2.2 s hs).2.1 t ht
  simp only [canonTok, Bool.and_eq_true, bne_iff_ne, ne_eq, Bool.not_eq_true'] at hc
  exact ⟨hc.1.1.1.2, hc.1.1.1.1, hc.1.2⟩

/-- **C10_idem**: compiling the compiled output again returns it unchanged. -/
theorem C10_idem (sheet : List Item) (h : SourceOK sheet = true) :
    compileSheet (embed (compileSheet sheet)) = compileSheet sheet :=
  C10_fix _ (C10_out_canon sheet h)

/-! ### examples -/

def exOut : List OutRule :=
  [⟨[[".a", "?>?", ".b"], ["p"]], [⟨"x", "1"⟩]⟩,
   ⟨[[".a", "?>?", ".b", ":hover"], ["p", ":hover"], [".a", "?>?", ".b", "?+?", "q"], ["p", "?+?", "q"]],
     [⟨"y", "2"⟩]⟩]

example : CanonOut exOut = true := by decide +kernel
example : embed exOut =
    [.rule [".a", ">", ".b", ",", "p"] [.decl ⟨"x", "1"⟩],
     .rule [".a", ">", ".b", ":hover", ",", "p", ":hover", ",", ".a", ">", ".b", "+", "q", ",", "p", "+", "q"]
       [.decl ⟨"y", "2"⟩]] := by rfl
example : compileSheet (embed exOut) = exOut := C10_fix exOut (by decide +kernel)

def exSrc2 : List Item :=
  [.rule [".a", " ", ">", ".b", ",", "p", " "]
     [.decl ⟨"x", "1"⟩,
      .rule ["&", ":hover", ",", "+", "q", " "] [.decl ⟨"y", "2"⟩,
        .rule [".c", " ", "&"] [.decl ⟨"z", "3"⟩]]],
   .rule ["div"] []]

example : SourceOK exSrc2 = true := by decide +kernel
example : (compileSheet exSrc2).take 2 = exOut := by decide +kernel
example : compileSheet (embed (compileSheet exSrc2)) = compileSheet exSrc2 := C10_idem exSrc2 (by decide +kernel)
/-- the same by evaluation -/
example : compileSheet (embed (compileSheet exSrc2)) = compileSheet exSrc2 := by decide +kernel

/-! The hypotheses are needed. -/

/-- a selector with a raw combinator token is not read back to itself … -/
example : compileSheet (embed [⟨[[".a", ">", ".b"]], [⟨"x", "1"⟩]⟩]) = [⟨[[".a", "?>?", ".b"]], [⟨"x", "1"⟩]⟩] := by
  decide +kernel
/-- … nor one with a `" "` before an encoded combinator, or at the end … -/
example : compileSheet (embed [⟨[[".a", " ", "?>?", ".b", " "]], [⟨"x", "1"⟩]⟩]) = [⟨[[".a", "?>?", ".b"]], [⟨"x", "1"⟩]⟩] := by
  decide +kernel
/-- … nor a rule without declarations, nor one without selectors. -/
example : compileSheet (embed [⟨[[".a"]], []⟩]) = [] := by decide +kernel
example : compileSheet (embed [⟨[], [⟨"x", "1"⟩]⟩]) = [⟨[[]], [⟨"x", "1"⟩]⟩] := by decide +kernel

/-- `SourceOK` is needed for `C10_out_canon`: a parent selector ending in a combinator leaves a `" "`
    after the encoded combinator (printed as `.a > .b`, read back without that token) -/
example : compileSheet [.rule [".a", " ", ">"] [.rule [".b"] [.decl ⟨"x", "1"⟩]]]
      = [⟨[[".a", "?>?", " ", ".b"]], [⟨"x", "1"⟩]⟩]
    ∧ CanonOut [⟨[[".a", "?>?", " ", ".b"]], [⟨"x", "1"⟩]⟩] = false
    ∧ SourceOK [.rule [".a", " ", ">"] [.rule [".b"] [.decl ⟨"x", "1"⟩]]] = false := by decide +kernel
/-- a top-level `&` stays in the output -/
example : compileSheet [.rule ["&", ".b"] [.decl ⟨"x", "1"⟩]] = [⟨[["&", ".b"]], [⟨"x", "1"⟩]⟩]
    ∧ SourceOK [.rule ["&", ".b"] [.decl ⟨"x", "1"⟩]] = false := by decide +kernel
/-- a token that merely contains `?` is harmless: the descendant space before it is kept, the output is
    canonical and the source is well formed (only tokens of the shape `?c?` are excluded) -/
example : compileSheet [.rule [".a", " ", "[h=\"?\"]"] [.decl ⟨"x", "1"⟩]] = [⟨[[".a", " ", "[h=\"?\"]"]], [⟨"x", "1"⟩]⟩]
    ∧ SourceOK [.rule [".a", " ", "[h=\"?\"]"] [.decl ⟨"x", "1"⟩]] = true
    ∧ CanonOut [⟨[[".a", " ", "[h=\"?\"]"]], [⟨"x", "1"⟩]⟩] = true := by
  decide +kernel
/-- a source token of the shape `?c?` is taken for an encoded combinator: the space before it is dropped
    and it is read back as a combinator; `SourceOK` excludes it -/
example : compileSheet [.rule [".a", " ", "?x?"] [.decl ⟨"x", "1"⟩]] = [⟨[[".a", "?x?"]], [⟨"x", "1"⟩]⟩]
    ∧ SourceOK [.rule [".a", " ", "?x?"] [.decl ⟨"x", "1"⟩]] = false := by
  decide +kernel

end Lessm.Nest

namespace Lessm.Print

/-! ### (4) every character of a rendering is whitespace or comes from a token of the output tree -/

/-- **C10_print_clean** -/
theorem C10_print_clean (o : Opts) (l : List Lay) :
    ∀ c ∈ (realise (fills o) l).toList, isWs c = true ∨ ∃ t ∈ toks l, c ∈ t.toList := by
  induction l with
  | nil => intro c hc; simp [realise] at hc
  | cons x r ih =>
    intro c hc
    cases x with
    | tok s =>
      simp only [realise, String.toList_append, List.mem_append] at hc
      rcases hc with hc | hc
      · exact Or.inr ⟨s, by simp [toks], hc⟩
      · rcases ih c hc with h | ⟨t, ht, hct⟩
        · exact Or.inl h
        · exact Or.inr ⟨t, by simp [toks, ht], hct⟩
    | opt k =>
      simp only [realise, String.toList_append, List.mem_append] at hc
      rcases hc with hc | hc
      · exact Or.inl (List.all_eq_true.mp (C11_ws_only o k) c hc)
      · rcases ih c hc with h | ⟨t, ht, hct⟩
        · exact Or.inl h
        · exact Or.inr ⟨t, by simp [toks, ht], hct⟩

theorem mem_strip {c : Char} {s : String} (h : c ∈ (strip s).toList) : c ∈ s.toList := by
  unfold strip at h
  rw [String.toList_ofList, List.mem_reverse] at h
  have := (List.dropWhile_sublist isWs).subset h
  rw [List.mem_reverse] at this
  exact (List.dropWhile_sublist isWs).subset this

/-- **C10_format_clean**: the same for the printed text of a (clean) output tree. -/
theorem C10_format_clean (o : Opts) (sheet : List Node) (h : Clean sheet = true) :
    ∀ c ∈ (format o sheet).toList, isWs c = true ∨ ∃ t ∈ toks (laySheet sheet), c ∈ t.toList := by
  rw [C11_layout o sheet h]
  exact fun c hc => C10_print_clean o _ c (mem_strip hc)

/-- a non-whitespace character that no token contains is not printed -/
theorem C10_no_char (o : Opts) (l : List Lay) (c : Char) (hw : isWs c = false)
    (h : ∀ t ∈ toks l, c ∉ t.toList) : c ∉ (realise (fills o) l).toList := by
  intro hc
  rcases C10_print_clean o l c hc with h1 | ⟨t, ht, hct⟩
  · rw [hw] at h1; exact absurd h1 (by decide)
  · exact h t ht hct

/-- **C10_no_amp**: if no token of the layout contains `&`, the rendering contains no `&`. -/
theorem C10_no_amp (o : Opts) (l : List Lay) (h : ∀ t ∈ toks l, '&' ∉ t.toList) :
    '&' ∉ (realise (fills o) l).toList := C10_no_char o l '&' (by decide) h

/-- **C10_no_at**: the same for `@`: the only `@` of an output are those of tokens of the output tree
    (at-rule keywords, string contents). -/
theorem C10_no_at (o : Opts) (l : List Lay) (h : ∀ t ∈ toks l, '@' ∉ t.toList) :
    '@' ∉ (realise (fills o) l).toList := C10_no_char o l '@' (by decide) h

/-! ### (5) other options

  `format o sheet` is a function of the option vector and the output tree only (function application:
  `C10_tree_only`), so "compiling the output with other options" prints the tree the output was read
  back to — by `C10_fix` the same tree — under those options; and `C11_layout` says what that is. -/

/-- **C10_other_options**: whichever option vector `o₁` produced the text the tree was read from,
    printing under `o₂` gives the layout of the tree realised with the fills of `o₂`; the two texts
    are equal once whitespace is erased (`C11_format_erase`). -/
theorem C10_other_options (o₁ o₂ : Opts) (sheet : List Node) (h : Clean sheet = true) :
    format o₁ sheet = strip (realise (fills o₁) (laySheet sheet)) ∧
    format o₂ sheet = strip (realise (fills o₂) (laySheet sheet)) ∧
    (format o₁ sheet).toList.filter notWs = (format o₂ sheet).toList.filter notWs :=
  ⟨C11_layout o₁ sheet h, C11_layout o₂ sheet h, C11_format_erase o₁ o₂ sheet h⟩

/-- the printed text depends on the output tree only (trivial: function application) -/
theorem C10_tree_only (o : Opts) (sheet sheet' : List Node) (h : sheet = sheet') :
    format o sheet = format o sheet' := congrArg (format o) h

example : '&' ∉ (realise (fills ⟨false, false, false, 2⟩) (laySheet exSmall)).toList :=
  C10_no_amp _ _ (by decide +kernel)
example : '@' ∈ (realise (fills ⟨true, false, false, 2⟩) (laySheet exSmall)).toList := by decide +kernel

end Lessm.Print
