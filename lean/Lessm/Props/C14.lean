/-
  Property C14 – "Importing a .less file (extension optional, path relative to the importing file,
  transitively) gives the same CSS as pasting that file's text in place of the @import statement: its
  rules are emitted at that position and its variables and mixins are usable by the importer.  An
  @import of anything else (a .css path or url(), with or without a media list) is copied to the
  output unchanged at its position, and a missing .less file is reported, not ignored."

  About `Lessm/Model/Import.lean`.  In lesscpy the units of an imported file take the place of the
  import statement in the unit list of the importer before anything is evaluated; the rest of the
  compiler (scoping, variables, mixins, printing) is a function `post` of the final unit list.  So
  "its variables and mixins are usable by the importer" is "the unit list is the pasted one", for
  every `post`.

    1  C14_inline      the unit list a parser produces is the pasted text `paste`, the register is the
                       list of missing files — if the imports are at most `budget` deep
    2  C14_post        the CSS of the split tree is `post` of the pasted text; and it is the CSS of the
                       one pasted file
    3  C14_stmt        a non-LESS import is copied unchanged at its position
    4  C14_missing     a missing .less file is reported; no registered error is ever dropped
    5  C14_path        extension optional, relative to the importing file, `..`, LESS or not
    6  C14_twice       importing the same file twice pastes it twice

  Only theorems and examples here; definitions and lemmas are in `Lessm/Lemmas/ImportLemmas.lean`.
-/
import Lessm.Lemmas.ImportLemmas

namespace Lessm.Imp

/-! ### example data -/

namespace Ex

/-- main.less: imports `sub/b` twice (once without, once with extension), a style sheet with a media
    list, a url, and a file that does not exist -/
def main : List Unit' :=
  [.other "@m: 1;",
   .imp "sub/b" "@import \"sub/b\";",
   .imp "x.css" "@import \"x.css\" screen;",
   .other ".m{w:@c}",
   .imp "gone" "@import \"gone\";",
   .imp "sub/b.less" "@import \"sub/b.less\";",
   .imp "http://example.com/a.css" "@import url(http://example.com/a.css);"]

/-- sub/b.less: imports `../c.less`, i.e. c.less next to main.less -/
def b : List Unit' := [.other ".b{}", .imp "../c.less" "@import \"../c.less\";", .other ".b2{}"]

def c : List Unit' := [.other "@c: 2;"]

def files : Files := [(["main.less"], main), (["sub", "b.less"], b), (["c.less"], c)]

/-- the text of main.less with everything pasted -/
def pasted : List String :=
  ["@m: 1;", ".b{}", "@c: 2;", ".b2{}", "@import \"x.css\" screen;", ".m{w:@c}",
   ".b{}", "@c: 2;", ".b2{}", "@import url(http://example.com/a.css);"]

/-- a file importing itself -/
def filesSelf : Files := [(["s.less"], [.imp "s" "@import \"s\";", .other "s{}"])]

/-- a.less imports d/b.less, which imports a file that does not exist -/
def filesDeep : Files :=
  [(["a.less"], [.imp "d/b" "@import \"d/b\";"]),
   (["d", "b.less"], [.other "x", .imp "zz" "@import \"zz\";"])]

end Ex

/-! ## 1 the unit list is the pasted text -/

/-- **C14_paste_spec**: what the specification `paste` is, read as equations: a unit other than an
    import is its text; a non-LESS import is the statement as written; a LESS import of an existing
    file is the pasted text of that file's units (its own relative imports now taken from that file);
    a LESS import of a missing file contributes nothing; and the same for the register `missingOf`
    (exactly the missing files). -/
theorem C14_paste_spec (files : Files) (d : Nat) (cur : Path) :
    paste files d cur [] = [] ∧
    (∀ t r, paste files d cur (.other t :: r) = t :: paste files d cur r) ∧
    (∀ ip raw r, isLess ip = false →
      paste files d cur (.imp ip raw :: r) = raw :: paste files d cur r) ∧
    (∀ ip raw r us, isLess ip = true → findFile files (resolve cur ip) = some us →
      paste files (d + 1) cur (.imp ip raw :: r) =
        paste files d (resolve cur ip) us ++ paste files (d + 1) cur r) ∧
    (∀ ip raw r, isLess ip = true → findFile files (resolve cur ip) = none →
      paste files d cur (.imp ip raw :: r) = paste files d cur r) ∧
    (∀ ip raw r, isLess ip = true → findFile files (resolve cur ip) = none →
      missingOf files d cur (.imp ip raw :: r) =
        .missing (resolve cur ip) :: missingOf files d cur r) :=
  ⟨paste_nil files d cur, fun t r => paste_other files d cur t r,
   fun _ raw r h => paste_imp_nonless files d cur raw r h,
   fun _ raw r _ h hf => paste_imp_less files d cur raw r h hf,
   fun _ raw r h hf => paste_imp_missing files d cur raw r h hf,
   fun ip raw r h hf => by cases d <;> simp [missingOf, missingWith, h, hf]⟩

example : paste Ex.files 9 ["main.less"] Ex.main = Ex.pasted := by decide
example : missingOf Ex.files 9 ["main.less"] Ex.main = [.missing ["gone.less"]] := by decide
example : paste Ex.files 8 ["sub", "b.less"] Ex.b = [".b{}", "@c: 2;", ".b2{}"] := by decide

/-- **C14_inline**: if every chain of LESS imports starting in `units` has at most `b` imports
    (`depthLe`), a parser with budget `b` reading the file `cur` produces exactly the text with every
    imported file pasted in place of its import statement, and registers exactly the missing files, in
    traversal order; in particular never `tooDeep`. -/
theorem C14_inline (files : Files) (b : Nat) (cur : Path) (units : List Unit')
    (hd : depthLe files b cur units = true) :
    load files b cur units = (some (paste files b cur units), missingOf files b cur units) ∧
    IErr.tooDeep ∉ (load files b cur units).2 := by
  have h := load_shallow files b cur units hd
  exact ⟨h, by rw [h]; exact tooDeep_not_mem_missingOf files b cur units⟩

/-- **C14_inline_root**: the corollary for a whole file tree (budget 9 = levels 0..9). -/
theorem C14_inline_root (files : Files) (root : Path) (units : List Unit')
    (hroot : findFile files root = some units) (hd : depthLe files 9 root units = true) :
    loadRoot files root = (some (paste files 9 root units), missingOf files 9 root units) ∧
    IErr.tooDeep ∉ (loadRoot files root).2 := by
  simp only [loadRoot, hroot]
  exact C14_inline files 9 root units hd

/-- **C14_paste_fuel**: the specification does not depend on its fuel once the fuel covers the import
    depth (so `paste files 9` above is "the pasted text", not "the text pasted 9 levels deep"). -/
theorem C14_paste_fuel (files : Files) (d k : Nat) (cur : Path) (units : List Unit')
    (hd : depthLe files d cur units = true) :
    paste files (d + k) cur units = paste files d cur units ∧
    missingOf files (d + k) cur units = missingOf files d cur units ∧
    depthLe files (d + k) cur units = true :=
  ⟨paste_fuel files d k cur units hd, missingOf_fuel files d k cur units hd,
   depthLe_add files d k cur units hd⟩

/-- the hypothesis holds for the example tree (depth 2) … -/
example : depthLe Ex.files 2 ["main.less"] Ex.main = true := by decide
example : depthLe Ex.files 9 ["main.less"] Ex.main = true := by decide
/-- … and not for fewer levels, nor for a file importing itself -/
example : depthLe Ex.files 1 ["main.less"] Ex.main = false := by decide
example : depthLe Ex.filesSelf 9 ["s.less"] [.imp "s" "@import \"s\";"] = false := by decide
/-- the conclusion, computed through the theorem -/
example : loadRoot Ex.files ["main.less"] = (some Ex.pasted, [.missing ["gone.less"]]) := by
  rw [(C14_inline_root Ex.files ["main.less"] Ex.main rfl (by decide)).1]; decide
/-- the fuel does not matter: 2 levels are as good as 9 -/
example : paste Ex.files 9 ["main.less"] Ex.main = paste Ex.files 2 ["main.less"] Ex.main :=
  (C14_paste_fuel Ex.files 2 7 ["main.less"] Ex.main (by decide)).1
/-- without the hypothesis `tooDeep` is registered (C20) -/
example : IErr.tooDeep ∈ (loadRoot Ex.filesSelf ["s.less"]).2 := by
  have h1 : isLess "s" = true := by decide
  have h2 : resolve ["s.less"] "s" = ["s.less"] := by decide
  simp [loadRoot, Ex.filesSelf, findFile, load_imp_succ, load_imp_zero, load_other, load_nil,
    impErrs, h1, h2]

/-! ## 2 the CSS of the split tree is the CSS of the pasted text -/

/-- **C14_post**: whatever the rest of the compiler (`post`) is: the result of compiling the root of a
    file tree whose imports are at most 9 deep is `post` of the pasted text; the register holds
    exactly the missing files; nothing is registered if all imported files exist. -/
theorem C14_post {α : Type} (post : List String → α) (files : Files) (root : Path)
    (units : List Unit') (hroot : findFile files root = some units)
    (hd : depthLe files 9 root units = true) :
    compile post files root =
      (some (post (paste files 9 root units)), missingOf files 9 root units) ∧
    (allExist files 9 root units = true →
      compile post files root = (some (post (paste files 9 root units)), [])) := by
  have h : compile post files root =
      (some (post (paste files 9 root units)), missingOf files 9 root units) := by
    simp only [compile, (C14_inline_root files root units hroot hd).1]
  exact ⟨h, fun he => by rw [h, missingOf_of_allExist files 9 root units he]⟩

/-- **C14_post_flat**: "the same CSS as pasting": let `pasteU files 9 root units` be the units of the
    root file with every LESS import statement replaced by the (pasted) units of the file it names.
    It contains no LESS import, its text is `paste …`, and compiling it as the only file `root'` of a
    file tree gives the same output as compiling the split tree — for every `post`; the complete
    result is the same if all imported files exist. -/
theorem C14_post_flat {α : Type} (post : List String → α) (files : Files) (root root' : Path)
    (units : List Unit') (hroot : findFile files root = some units)
    (hd : depthLe files 9 root units = true) :
    nonLessOnly (pasteU files 9 root units) = true ∧
    (pasteU files 9 root units).map Unit'.text = paste files 9 root units ∧
    (compile post files root).1 = (compile post [(root', pasteU files 9 root units)] root').1 ∧
    (allExist files 9 root units = true →
      compile post files root = compile post [(root', pasteU files 9 root units)] root') := by
  have hn := nonLessOnly_pasteU files 9 root units
  have ht := (paste_eq_text files 9 root units).symm
  have h2 : compile post [(root', pasteU files 9 root units)] root' =
      (some (post (paste files 9 root units)), []) := by
    simp only [compile, loadRoot, findFile_single, load_nonLessOnly _ 8 _ _ hn, ht]
  obtain ⟨h1, h1'⟩ := C14_post post files root units hroot hd
  exact ⟨hn, ht, by rw [h1, h2], fun he => by rw [h1' he, h2]⟩

/-- with a concrete `post` (here: join the lines) -/
example : compile String.join Ex.files ["main.less"] =
    (some (String.join Ex.pasted), [.missing ["gone.less"]]) := by
  rw [(C14_post String.join Ex.files ["main.less"] Ex.main rfl (by decide)).1]; decide
/-- all imported files exist below sub/b.less: nothing is registered -/
example : allExist Ex.files 9 ["sub", "b.less"] Ex.b = true := by decide
example : compile List.length Ex.files ["sub", "b.less"] = (some 3, []) := by
  rw [(C14_post List.length Ex.files ["sub", "b.less"] Ex.b rfl (by decide)).2 (by decide)]; decide
/-- the pasted file: the non-LESS imports are still statements -/
example : pasteU Ex.files 9 ["main.less"] Ex.main =
    [.other "@m: 1;", .other ".b{}", .other "@c: 2;", .other ".b2{}",
     .imp "x.css" "@import \"x.css\" screen;", .other ".m{w:@c}",
     .other ".b{}", .other "@c: 2;", .other ".b2{}",
     .imp "http://example.com/a.css" "@import url(http://example.com/a.css);"] := by decide
example : (compile String.join Ex.files ["main.less"]).1 =
    (compile String.join [(["all.less"], pasteU Ex.files 9 ["main.less"] Ex.main)] ["all.less"]).1 :=
  (C14_post_flat String.join Ex.files ["main.less"] ["all.less"] Ex.main rfl (by decide)).2.2.1

/-! ## 3 a non-LESS import is copied unchanged at its position -/

/-- **C14_paste_append**: "at that position": the pasted text of a unit list is the concatenation of
    the pasted texts of its parts, in order (and so are the register and the depth condition). -/
theorem C14_paste_append (files : Files) (d : Nat) (cur : Path) (us1 us2 : List Unit') :
    paste files d cur (us1 ++ us2) = paste files d cur us1 ++ paste files d cur us2 ∧
    missingOf files d cur (us1 ++ us2) = missingOf files d cur us1 ++ missingOf files d cur us2 ∧
    depthLe files d cur (us1 ++ us2) = (depthLe files d cur us1 && depthLe files d cur us2) :=
  ⟨paste_append .., missingOf_append .., depthLe_append ..⟩

example : paste Ex.files 9 ["main.less"] (Ex.main.take 3 ++ Ex.main.drop 3) =
    paste Ex.files 9 ["main.less"] (Ex.main.take 3) ++ paste Ex.files 9 ["main.less"] (Ex.main.drop 3) :=
  (C14_paste_append Ex.files 9 ["main.less"] _ _).1

/-- **C14_stmt**: an import that is not a LESS import (a `.css` path, a url, anything with another
    extension; `raw` is the statement as written, media list included) is the statement itself, between
    the pasted text of what precedes and of what follows; it registers nothing. -/
theorem C14_stmt (files : Files) (d : Nat) (cur : Path) (us1 us2 : List Unit') (ip raw : String)
    (h : isLess ip = false) :
    paste files d cur (us1 ++ .imp ip raw :: us2) =
      paste files d cur us1 ++ raw :: paste files d cur us2 ∧
    missingOf files d cur (us1 ++ .imp ip raw :: us2) =
      missingOf files d cur us1 ++ missingOf files d cur us2 := by
  refine ⟨by rw [paste_append, paste_imp_nonless files d cur raw us2 h], ?_⟩
  rw [missingOf_append]
  cases d <;> simp [missingOf, missingWith, h]

/-- **C14_stmt_load**: the same about the parser, under the hypothesis of C14_inline. -/
theorem C14_stmt_load (files : Files) (b : Nat) (cur : Path) (us1 us2 : List Unit') (ip raw : String)
    (h : isLess ip = false) (hd : depthLe files b cur (us1 ++ .imp ip raw :: us2) = true) :
    load files b cur (us1 ++ .imp ip raw :: us2) =
      (some (paste files b cur us1 ++ raw :: paste files b cur us2),
       missingOf files b cur us1 ++ missingOf files b cur us2) := by
  obtain ⟨h1, h2⟩ := C14_stmt files b cur us1 us2 ip raw h
  rw [(C14_inline files b cur _ hd).1, h1, h2]

/-- **C14_stmt_any**: and without any hypothesis on the depth of the imports around it, for every
    parser of level < 9: the statement stands between the output for what precedes and the output for
    what follows, and registers nothing. -/
theorem C14_stmt_any (files : Files) (b : Nat) (cur : Path) (us1 us2 : List Unit') (ip raw : String)
    (h : isLess ip = false) :
    ∃ o1 o2, (load files (b + 1) cur us1).1 = some o1 ∧ (load files (b + 1) cur us2).1 = some o2 ∧
      load files (b + 1) cur (us1 ++ .imp ip raw :: us2) =
        (some (o1 ++ raw :: o2), (load files (b + 1) cur us1).2 ++ (load files (b + 1) cur us2).2) := by
  obtain ⟨o1, e1⟩ := Option.isSome_iff_exists.1 (load_succ_isSome files b cur us1)
  obtain ⟨o2, e2⟩ := Option.isSome_iff_exists.1 (load_succ_isSome files b cur us2)
  obtain ⟨o, e⟩ := Option.isSome_iff_exists.1
    (load_succ_isSome files b cur (us1 ++ .imp ip raw :: us2))
  refine ⟨o1, o2, e1, e2, Prod.ext ?_ ?_⟩
  · have := load_out_append files b cur us1 (.imp ip raw :: us2)
    rw [load_imp_succ, e, e1, e2] at this
    simp only [impOut, h, Option.map_some, Option.getD_some] at this
    rw [e, this]; simp
  · rw [load_errs_append, load_imp_succ]
    simp [impErrs, h]

example : isLess "x.css" = false ∧ isLess "http://example.com/a.css" = false := by decide
/-- main.less = 2 units ++ the x.css import :: 4 units -/
example : load Ex.files 9 ["main.less"] Ex.main =
    (some (paste Ex.files 9 ["main.less"] (Ex.main.take 2) ++ "@import \"x.css\" screen;" ::
        paste Ex.files 9 ["main.less"] (Ex.main.drop 3)),
     missingOf Ex.files 9 ["main.less"] (Ex.main.take 2) ++
       missingOf Ex.files 9 ["main.less"] (Ex.main.drop 3)) :=
  C14_stmt_load Ex.files 9 ["main.less"] (Ex.main.take 2) (Ex.main.drop 3) "x.css" _ (by decide)
    (by decide)
example : paste Ex.files 9 ["main.less"] (Ex.main.take 2) = ["@m: 1;", ".b{}", "@c: 2;", ".b2{}"] ∧
    paste Ex.files 9 ["main.less"] (Ex.main.drop 3) =
      [".m{w:@c}", ".b{}", "@c: 2;", ".b2{}", "@import url(http://example.com/a.css);"] := by
  decide

/-- the same position statement without looking at the depth of the other imports -/
example : ∃ o1 o2, (load Ex.filesSelf 9 ["s.less"] [.imp "s" "@import \"s\";"]).1 = some o1 ∧
    (load Ex.filesSelf 9 ["s.less"] [.other "z"]).1 = some o2 ∧
    load Ex.filesSelf 9 ["s.less"] ([.imp "s" "@import \"s\";"] ++ .imp "x.css" "@import \"x.css\";" ::
      [.other "z"]) = (some (o1 ++ "@import \"x.css\";" :: o2),
        (load Ex.filesSelf 9 ["s.less"] [.imp "s" "@import \"s\";"]).2 ++
          (load Ex.filesSelf 9 ["s.less"] [.other "z"]).2) :=
  C14_stmt_any Ex.filesSelf 8 ["s.less"] _ _ "x.css" _ (by decide)

/-! ## 4 a missing .less file is reported -/

/-- **C14_errs**: a parser of level < 9 is never aborted (the parser of level 9 is, exactly if its file
    contains an import statement); its register is the concatenation of what was registered for each
    part of its unit list; and the register of the parser of an imported file is a contiguous part of
    the register of the importer: no registered error is ever dropped. -/
theorem C14_errs (files : Files) :
    (∀ b cur units, (load files (b + 1) cur units).1 ≠ none) ∧
    (∀ cur units, (load files 0 cur units).1 = none ↔ noImp units = false) ∧
    (∀ b cur us1 us2, (load files (b + 1) cur (us1 ++ us2)).2 =
      (load files (b + 1) cur us1).2 ++ (load files (b + 1) cur us2).2) ∧
    (∀ b cur us1 us2 ip raw us, isLess ip = true → findFile files (resolve cur ip) = some us →
      (load files b (resolve cur ip) us).2 <:+:
        (load files (b + 1) cur (us1 ++ .imp ip raw :: us2)).2) ∧
    (∀ root units, findFile files root = some units →
      ∃ out, loadRoot files root = (some out, (load files 9 root units).2)) := by
  refine ⟨fun b cur us h => ?_, load_zero_none_iff files, load_errs_append files,
    fun b cur us1 us2 ip raw us hl hf => ?_, fun root us hr => ?_⟩
  · have := load_succ_isSome files b cur us
    rw [h] at this; cases this
  · rw [load_errs_append, load_imp_succ]
    simp only [impErrs, hl, hf, if_true]
    exact ⟨(load files (b + 1) cur us1).2,
      (if (load files b (resolve cur ip) us).1.isNone then [IErr.tooDeep] else []) ++
        (load files (b + 1) cur us2).2, by simp only [List.append_assoc]⟩
  · obtain ⟨out, ho⟩ := Option.isSome_iff_exists.1 (load_succ_isSome files 8 root us)
    exact ⟨out, by simp only [loadRoot, hr]; exact Prod.ext ho rfl⟩

example : ∃ out, loadRoot Ex.files ["main.less"] = (some out, (load Ex.files 9 ["main.less"] Ex.main).2) :=
  (C14_errs Ex.files).2.2.2.2 ["main.less"] Ex.main rfl
/-- the register of d/b.less is part of the register of a.less -/
example : (load Ex.filesDeep 8 (resolve ["a.less"] "d/b") [.other "x", .imp "zz" "@import \"zz\";"]).2 <:+:
    (load Ex.filesDeep 9 ["a.less"] ([] ++ .imp "d/b" "@import \"d/b\";" :: [])).2 :=
  (C14_errs Ex.filesDeep).2.2.2.1 8 ["a.less"] [] [] "d/b" _ _ (by decide) rfl

/-- **C14_missing**: a LESS import that names a file that does not exist is registered as missing —
    wherever the statement stands in its file and whatever stands around it, for every parser of level
    < 9 (the parser of level 9 aborts at its first import statement and `tooDeep` is registered
    instead) — and the parser goes on. -/
theorem C14_missing (files : Files) (b : Nat) (cur : Path) (us1 us2 : List Unit') (ip raw : String)
    (hl : isLess ip = true) (hf : findFile files (resolve cur ip) = none) :
    IErr.missing (resolve cur ip) ∈ (load files (b + 1) cur (us1 ++ .imp ip raw :: us2)).2 ∧
    (load files (b + 1) cur (us1 ++ .imp ip raw :: us2)).2 =
      (load files (b + 1) cur us1).2 ++ .missing (resolve cur ip) :: (load files (b + 1) cur us2).2 ∧
    (load files (b + 1) cur (us1 ++ .imp ip raw :: us2)).1 ≠ none := by
  have h : (load files (b + 1) cur (us1 ++ .imp ip raw :: us2)).2 =
      (load files (b + 1) cur us1).2 ++ .missing (resolve cur ip) :: (load files (b + 1) cur us2).2 := by
    rw [load_errs_append, load_imp_succ]; simp [impErrs, hl, hf]
  exact ⟨by rw [h]; simp, h, (C14_errs files).1 b cur _⟩

/-- **C14_missing_root**: so a compilation whose root file contains such a statement reports it,
    whatever `post` is; and so does one whose root imports (LESS, existing) a file containing it. -/
theorem C14_missing_root {α : Type} (post : List String → α) (files : Files) (root : Path)
    (us1 us2 : List Unit') (ip raw : String)
    (hroot : findFile files root = some (us1 ++ .imp ip raw :: us2)) (hl : isLess ip = true) :
    (findFile files (resolve root ip) = none →
      IErr.missing (resolve root ip) ∈ (compile post files root).2) ∧
    (∀ vs1 vs2 ip' raw', findFile files (resolve root ip) = some (vs1 ++ .imp ip' raw' :: vs2) →
      isLess ip' = true → findFile files (resolve (resolve root ip) ip') = none →
      IErr.missing (resolve (resolve root ip) ip') ∈ (compile post files root).2) := by
  have hc : (compile post files root).2 = (load files 9 root (us1 ++ .imp ip raw :: us2)).2 := by
    simp only [compile, loadRoot, hroot]
    rcases load files 9 root (us1 ++ .imp ip raw :: us2) with ⟨_ | o, e⟩ <;> rfl
  refine ⟨fun hf => ?_, fun vs1 vs2 ip' raw' hf hl' hf' => ?_⟩
  · rw [hc]; exact (C14_missing files 8 root us1 us2 ip raw hl hf).1
  · rw [hc]
    exact ((C14_errs files).2.2.2.1 8 root us1 us2 ip raw _ hl hf).subset
      (C14_missing files 7 _ vs1 vs2 ip' raw' hl' hf').1

example : isLess "gone" = true ∧ findFile Ex.files (resolve ["main.less"] "gone") = none := by decide
example : IErr.missing ["gone.less"] ∈ (compile String.join Ex.files ["main.less"]).2 :=
  (C14_missing_root String.join Ex.files ["main.less"] (Ex.main.take 4) (Ex.main.drop 5) "gone" _
    rfl (by decide)).1 (by decide)
/-- a missing file one level down (named relative to the file that names it), reported at the top -/
example : IErr.missing ["d", "zz.less"] ∈ (compile String.join Ex.filesDeep ["a.less"]).2 :=
  (C14_missing_root String.join Ex.filesDeep ["a.less"] [] [] "d/b" _ rfl (by decide)).2
    [.other "x"] [] "zz" "@import \"zz\";" rfl (by decide) (by decide)

/-! ## 5 paths -/

/-- **C14_path_ext**: the extension is optional: a written path whose last component has no dot and is
    not empty — alone (`b`) or behind directories (`sub/b`, `../b`) — is a LESS import, so is the same
    path with `.less`, and both name the same file. -/
theorem C14_path_ext (cur : Path) (n : String) (hs : '/' ∉ n.toList) (hd : '.' ∉ n.toList)
    (hne : n ≠ "") :
    (resolve cur n = resolve cur (n ++ ".less") ∧ isLess n = true ∧ isLess (n ++ ".less") = true) ∧
    ∀ pre : String,
      resolve cur (pre ++ "/" ++ n) = resolve cur (pre ++ "/" ++ n ++ ".less") ∧
      isLess (pre ++ "/" ++ n) = true ∧ isLess (pre ++ "/" ++ n ++ ".less") = true := by
  have hn := exists_ne_dot_of_nodot n hne hd
  have a1 := extChars_name_nodot n hs hd
  have a2 := extChars_name_less n hs hn
  refine ⟨⟨resolve_ext_optional cur a1 (by rw [a2]; simp), isLess_of_ext_nil a1,
    isLess_of_ext_less a2⟩, fun pre => ?_⟩
  have b1 := extChars_pre_nodot pre n hs hd
  have b2 := extChars_pre_less pre n hs hn
  exact ⟨resolve_ext_optional cur b1 (by rw [b2]; simp), isLess_of_ext_nil b1, isLess_of_ext_less b2⟩

/-- **C14_path_less_ext**: any last component that does not consist of dots only, followed by `.less`,
    is a LESS import (`a.b.less`, `.hidden.less`), alone or behind directories. -/
theorem C14_path_less_ext (n : String) (hs : '/' ∉ n.toList) (hn : ∃ c ∈ n.toList, c ≠ '.') :
    isLess (n ++ ".less") = true ∧ ∀ pre : String, isLess (pre ++ "/" ++ n ++ ".less") = true :=
  ⟨isLess_of_ext_less (extChars_name_less n hs hn),
   fun pre => isLess_of_ext_less (extChars_pre_less pre n hs hn)⟩

example : isLess ("a.b" ++ ".less") = true ∧ isLess ("sub" ++ "/" ++ ".hidden" ++ ".less") = true :=
  ⟨(C14_path_less_ext "a.b" (by decide) ⟨'a', by decide, by decide⟩).1,
   (C14_path_less_ext ".hidden" (by decide) ⟨'h', by decide, by decide⟩).2 "sub"⟩
example : resolve ["main.less"] "sub/b" = resolve ["main.less"] "sub/b.less" :=
  ((C14_path_ext ["main.less"] "b" (by decide) (by decide) (by decide)).2 "sub").1
example : resolve ["main.less"] "sub/b" = ["sub", "b.less"] := by decide
/-- the side conditions matter: `.less` alone is a hidden file without extension (os.path.splitext) -/
example : resolve [] "" ≠ resolve [] ("" ++ ".less") := by decide

/-- **C14_path_rel**: relative to the importing file: in the file `dir/f`, the written path
    `sub/…/g` (components joined with "/") names `dir/sub/…/g` if `g` has an extension, and
    `dir/sub/…/g.less` if it has no dot — for proper components (not empty, not `.`, not `..`; those of
    the written path without '/'). -/
theorem C14_path_rel (dir sub : List String) (f : String)
    (hdir : ∀ c ∈ dir, Proper c) (hsub : ∀ c ∈ sub, Proper c ∧ '/' ∉ c.toList) :
    (∀ g : String, Proper g → '/' ∉ g.toList → extOf g.toList ≠ [] →
      resolve (dir ++ [f]) (String.intercalate "/" (sub ++ [g])) = dir ++ sub ++ [g]) ∧
    (∀ g : String, '/' ∉ g.toList → (∃ c ∈ g.toList, c ≠ '.') →
      resolve (dir ++ [f]) (String.intercalate "/" (sub ++ [g ++ ".less"])) =
        dir ++ sub ++ [g ++ ".less"]) ∧
    (∀ g : String, '/' ∉ g.toList → '.' ∉ g.toList → g ≠ "" →
      resolve (dir ++ [f]) (String.intercalate "/" (sub ++ [g])) = dir ++ sub ++ [g ++ ".less"]) := by
  have key := fun g h1 h2 h3 => resolve_relative dir sub f g hdir hsub ⟨h1, h2⟩ h3
  have key2 : ∀ g : String, '/' ∉ g.toList → (∃ c ∈ g.toList, c ≠ '.') →
      resolve (dir ++ [f]) (String.intercalate "/" (sub ++ [g ++ ".less"])) =
        dir ++ sub ++ [g ++ ".less"] := by
    intro g hs hn
    refine key _ (proper_less g) (slash_not_mem_less g hs) ?_
    rw [String.toList_append, less_toList, extOf_less _ hn]; simp
  refine ⟨key, key2, fun g hs hd hne => ?_⟩
  have hn := exists_ne_dot_of_nodot g hne hd
  have hsp : splitSlash (String.intercalate "/" (sub ++ [g])) = sub ++ [g] :=
    splitSlash_intercalate _ (by simp) (by
      intro c hc
      rcases List.mem_append.1 hc with hc | hc
      · exact (hsub c hc).2
      · rw [List.mem_singleton.1 hc]; exact hs)
  have e1 : extChars (String.intercalate "/" (sub ++ [g])) = [] := by
    rw [extChars_eq, lastComp, hsp]
    simpa using extOf_nodot _ hd
  have e2 : extChars (String.intercalate "/" (sub ++ [g]) ++ ".less") ≠ [] := by
    rw [intercalate_snoc_append, extChars_eq, lastComp,
      splitSlash_intercalate _ (by simp) (by
        intro c hc
        rcases List.mem_append.1 hc with hc | hc
        · exact (hsub c hc).2
        · rw [List.mem_singleton.1 hc]; exact slash_not_mem_less g hs)]
    simp only [List.getLastD_concat, String.toList_append, less_toList]
    rw [extOf_less _ hn]; simp
  rw [resolve_ext_optional _ e1 e2, intercalate_snoc_append]
  exact key2 g hs hn

/-- **C14_path_split**: splitting at '/' undoes joining with "/". -/
theorem C14_path_split (cs : List String) (hne : cs ≠ []) (h : ∀ c ∈ cs, '/' ∉ c.toList) :
    splitSlash (String.intercalate "/" cs) = cs :=
  splitSlash_intercalate cs hne h

example : splitSlash (String.intercalate "/" ["..", "sub", "b.less"]) = ["..", "sub", "b.less"] :=
  C14_path_split _ (by simp) (by decide)
example : resolve (["lib", "v2"] ++ ["main.less"]) (String.intercalate "/" (["sub"] ++ ["b"])) =
    ["lib", "v2"] ++ ["sub"] ++ ["b" ++ ".less"] :=
  (C14_path_rel ["lib", "v2"] ["sub"] "main.less" (by decide) (by decide)).2.2 "b" (by decide)
    (by decide) (by decide)
example : resolve ["lib", "v2", "main.less"] "sub/b" = ["lib", "v2", "sub", "b.less"] := by decide
example : String.intercalate "/" ["sub", "b"] = "sub/b" := by decide

/-- **C14_path_dotdot**: `..` steps out of the directory before it, `.` and empty components (`a//b`)
    are dropped; a list of proper components is its own normal form; the result of `normalize`
    always consists of proper components. -/
theorem C14_path_dotdot (dir rest : List String) (hdir : ∀ c ∈ dir, Proper c) :
    (∀ d, Proper d → normalize (dir ++ [d, ".."] ++ rest) = normalize (dir ++ rest)) ∧
    (∀ xs : List String, normalize (xs ++ "." :: rest) = normalize (xs ++ rest)) ∧
    (∀ xs : List String, normalize (xs ++ "" :: rest) = normalize (xs ++ rest)) ∧
    normalize dir = dir ∧
    (∀ xs : List String, ∀ c ∈ normalize xs, Proper c) :=
  ⟨fun d hd => normalize_dotdot dir rest d hdir hd,
   fun xs => normalize_skip xs rest "." (.inr rfl),
   fun xs => normalize_skip xs rest "" (.inl rfl),
   normalize_proper dir hdir, normalize_all_proper⟩

/-- `../c.less` written in sub/b.less is c.less next to main.less -/
example : resolve ["sub", "b.less"] "../c.less" = ["c.less"] := by decide
example : normalize ([] ++ ["sub", ".."] ++ ["c.less"]) = normalize ([] ++ ["c.less"]) :=
  (C14_path_dotdot [] ["c.less"] (by simp)).1 "sub" (by decide)
example : resolve ["a", "b", "m.less"] "./x/../../y//z" = ["a", "y", "z.less"] := by decide

/-- **C14_path_kind**: the decision LESS / not LESS on the catalogue of written paths. -/
theorem C14_path_kind :
    (isLess "x.css" = false ∧ isLess "y.CSS" = false ∧ isLess "theme.less?v=2" = false ∧
      isLess "p.php" = false ∧ isLess "http://example.com/a.css" = false ∧
      isLess "dir.less/x.css" = false) ∧
    (isLess "b" = true ∧ isLess "b.less" = true ∧ isLess "b.LESS" = true ∧ isLess "sub/b" = true ∧
      isLess "../c.less" = true ∧ isLess "a.b/c" = true ∧ isLess ".hidden" = true ∧
      isLess "a.b.less" = true) := by
  decide

/-- **C14_path**: the path facts the property names, in one statement: (a) the extension is optional;
    (b) a written path is taken relative to the directory of the importing file; (c) `d/..` cancels;
    (d) `.css`, other extensions and urls are not LESS imports, no extension and `.less` (any case)
    are.  (More general forms: C14_path_ext, C14_path_less_ext, C14_path_rel, C14_path_dotdot,
    C14_path_kind.) -/
theorem C14_path :
    (∀ (cur : Path) (n : String), '/' ∉ n.toList → '.' ∉ n.toList → n ≠ "" →
      resolve cur n = resolve cur (n ++ ".less") ∧ isLess n = true ∧ isLess (n ++ ".less") = true) ∧
    (∀ (dir sub : List String) (f g : String), (∀ c ∈ dir, Proper c) →
      (∀ c ∈ sub, Proper c ∧ '/' ∉ c.toList) → '/' ∉ g.toList → (∃ c ∈ g.toList, c ≠ '.') →
      resolve (dir ++ [f]) (String.intercalate "/" (sub ++ [g ++ ".less"])) =
        dir ++ sub ++ [g ++ ".less"]) ∧
    (∀ (dir rest : List String) (d : String), (∀ c ∈ dir, Proper c) → Proper d →
      normalize (dir ++ [d, ".."] ++ rest) = normalize (dir ++ rest)) ∧
    (isLess "x.css" = false ∧ isLess "http://example.com/a.css" = false ∧ isLess "b" = true ∧
      isLess "b.less" = true ∧ isLess "sub/b" = true ∧ isLess "../c.less" = true) :=
  ⟨fun cur n hs hd hne => (C14_path_ext cur n hs hd hne).1,
   fun dir sub f g hdir hsub hs hn => (C14_path_rel dir sub f hdir hsub).2.1 g hs hn,
   fun dir rest d hdir hd => (C14_path_dotdot dir rest hdir).1 d hd,
   C14_path_kind.1.1, C14_path_kind.1.2.2.2.2.1, C14_path_kind.2.1, C14_path_kind.2.2.1,
   C14_path_kind.2.2.2.2.1, C14_path_kind.2.2.2.2.2.1⟩

/-- the import of sub/b.less in main.less, through (b) -/
example : resolve ([] ++ ["main.less"]) (String.intercalate "/" (["sub"] ++ ["b" ++ ".less"])) =
    [] ++ ["sub"] ++ ["b" ++ ".less"] :=
  C14_path.2.1 [] ["sub"] "main.less" "b" (by simp) (by decide) (by decide) ⟨'b', by decide, by decide⟩

/-! ## 6 importing the same file twice pastes it twice -/

/-- **C14_twice**: two LESS import statements naming the same existing file (written the same way or
    not: `sub/b` and `sub/b.less`) each stand for the pasted text of that file: the text appears
    twice, each time at the position of the statement; the parser does exactly that if the imports are
    at most `d + 1` deep. -/
theorem C14_twice (files : Files) (d : Nat) (cur : Path) (us1 us2 us3 us : List Unit')
    (ip raw ip' raw' : String) (hl : isLess ip = true) (hl' : isLess ip' = true)
    (hsame : resolve cur ip' = resolve cur ip) (hf : findFile files (resolve cur ip) = some us) :
    paste files (d + 1) cur (us1 ++ .imp ip raw :: us2 ++ .imp ip' raw' :: us3) =
      paste files (d + 1) cur us1 ++ paste files d (resolve cur ip) us ++
        paste files (d + 1) cur us2 ++ paste files d (resolve cur ip) us ++
        paste files (d + 1) cur us3 ∧
    (depthLe files (d + 1) cur (us1 ++ .imp ip raw :: us2 ++ .imp ip' raw' :: us3) = true →
      (load files (d + 1) cur (us1 ++ .imp ip raw :: us2 ++ .imp ip' raw' :: us3)).1 =
        some (paste files (d + 1) cur us1 ++ paste files d (resolve cur ip) us ++
          paste files (d + 1) cur us2 ++ paste files d (resolve cur ip) us ++
          paste files (d + 1) cur us3)) := by
  have h : paste files (d + 1) cur (us1 ++ .imp ip raw :: us2 ++ .imp ip' raw' :: us3) =
      paste files (d + 1) cur us1 ++ paste files d (resolve cur ip) us ++
        paste files (d + 1) cur us2 ++ paste files d (resolve cur ip) us ++
        paste files (d + 1) cur us3 := by
    have hf' : findFile files (resolve cur ip') = some us := by rw [hsame]; exact hf
    rw [paste_append, paste_append, paste_imp_less files d cur raw' us3 hl' hf',
      paste_imp_less files d cur raw us2 hl hf, hsame]
    simp only [List.append_assoc]
  exact ⟨h, fun hd => by rw [(C14_inline files (d + 1) cur _ hd).1, h]⟩

/-- main.less imports `sub/b` and later `sub/b.less` -/
example : Ex.main = Ex.main.take 1 ++ .imp "sub/b" "@import \"sub/b\";" :: (Ex.main.drop 2).take 3 ++
    .imp "sub/b.less" "@import \"sub/b.less\";" :: Ex.main.drop 6 := by decide
example : resolve ["main.less"] "sub/b.less" = resolve ["main.less"] "sub/b" := by decide
example : paste Ex.files 9 ["main.less"]
      (Ex.main.take 1 ++ .imp "sub/b" "@import \"sub/b\";" :: (Ex.main.drop 2).take 3 ++
        .imp "sub/b.less" "@import \"sub/b.less\";" :: Ex.main.drop 6) =
    paste Ex.files 9 ["main.less"] (Ex.main.take 1) ++
      paste Ex.files 8 (resolve ["main.less"] "sub/b") Ex.b ++
      paste Ex.files 9 ["main.less"] ((Ex.main.drop 2).take 3) ++
      paste Ex.files 8 (resolve ["main.less"] "sub/b") Ex.b ++
      paste Ex.files 9 ["main.less"] (Ex.main.drop 6) :=
  (C14_twice Ex.files 8 ["main.less"] (Ex.main.take 1) ((Ex.main.drop 2).take 3)
    (Ex.main.drop 6) Ex.b "sub/b" "@import \"sub/b\";" "sub/b.less" "@import \"sub/b.less\";"
    (by decide) (by decide) (by decide) rfl).1
example : paste Ex.files 8 (resolve ["main.less"] "sub/b") Ex.b = [".b{}", "@c: 2;", ".b2{}"] := by
  decide

end Lessm.Imp
