/-
  C18  String literals: a quoted string is one token whatever it contains; the scanner reads back
       exactly the parts that were written; evaluation copies text verbatim and substitutes the
       de-quoted value of each `@{x}`; parts are independent.
-/
import Lessm.Model.Str
namespace Lessm.Str

/-! ### helper lemmas -/

theorem takeWhile_append_stop {p : Char → Bool} (l : List Char) (x : Char) (r : List Char)
    (hl : ∀ c ∈ l, p c = true) (hx : p x = false) : (l ++ x :: r).takeWhile p = l := by
  induction l with
  | nil => simp [hx]
  | cons a l ih =>
    have ha : p a = true := hl a (by simp)
    simp only [List.cons_append, List.takeWhile, ha]
    rw [ih (fun c hc => hl c (by simp [hc]))]

theorem dropWhile_append_stop {p : Char → Bool} (l : List Char) (x : Char) (r : List Char)
    (hl : ∀ c ∈ l, p c = true) (hx : p x = false) : (l ++ x :: r).dropWhile p = x :: r := by
  induction l with
  | nil => simp [hx]
  | cons a l ih =>
    have ha : p a = true := hl a (by simp)
    simp only [List.cons_append, List.dropWhile, ha]
    exact ih (fun c hc => hl c (by simp [hc]))

theorem textChar_quote (q : Char) : textChar q q = false := by simp [textChar]
theorem textChar_at (q : Char) : textChar q '@' = false := by simp [textChar]
theorem nameChar_close (q : Char) : nameChar q '}' = false := by simp [nameChar]

theorem textChar_iff (q c : Char) : textChar q c = true ↔ c ≠ '@' ∧ c ≠ q := by
  simp [textChar]

theorem nameChar_iff (q c : Char) : nameChar q c = true ↔ c ≠ '@' ∧ c ≠ q ∧ c ≠ '}' := by
  simp [nameChar, and_assoc]

/-- scanning a non-empty run of text characters that is followed by a character that is not a text
    character: the run is one text part and scanning continues at the stop character -/
theorem scan_text_step (q : Char) (s : List Char) (x : Char) (tl : List Char) (fuel : Nat)
    (hs : s ≠ []) (hall : ∀ c ∈ s, textChar q c = true) (hx : textChar q x = false) :
    scan q (fuel + 1) (s ++ x :: tl) =
      match scan q fuel (x :: tl) with
      | some (ps, rest) => some (.text s :: ps, rest)
      | none => none := by
  cases s with
  | nil => exact absurd rfl hs
  | cons c s' =>
    have hc := (textChar_iff q c).1 (hall c (by simp))
    have h1 : (c == q) = false := by simp [hc.2]
    have h2 : (c == '@') = false := by simp [hc.1]
    have ht : (c :: (s' ++ x :: tl)).takeWhile (textChar q) = c :: s' :=
      takeWhile_append_stop (c :: s') x tl hall hx
    have hd : (c :: (s' ++ x :: tl)).dropWhile (textChar q) = x :: tl :=
      dropWhile_append_stop (c :: s') x tl hall hx
    simp only [List.cons_append, scan, h1, h2, ht, hd, Bool.false_eq_true, if_false]
    cases scan q fuel (x :: tl) <;> rfl

/-- scanning `@{name}` written with a well-formed name -/
theorem scanName_render (q : Char) (n tl : List Char)
    (hn : n ≠ []) (hall : ∀ c ∈ n, nameChar q c = true) :
    scanName q ('{' :: (n ++ '}' :: tl)) = some (n, tl) := by
  have ht := takeWhile_append_stop n '}' tl hall (nameChar_close q)
  have hd := dropWhile_append_stop n '}' tl hall (nameChar_close q)
  cases n with
  | nil => exact absurd rfl hn
  | cons a n' => simp only [scanName, ht, hd, List.isEmpty_cons, Bool.false_eq_true, if_false]

theorem scan_interp_step (q : Char) (hq : q ≠ '@') (n tl : List Char) (fuel : Nat)
    (hn : n ≠ []) (hall : ∀ c ∈ n, nameChar q c = true) :
    scan q (fuel + 1) ('@' :: '{' :: (n ++ '}' :: tl)) =
      match scan q fuel tl with
      | some (ps, rest) => some (.interp n :: ps, rest)
      | none => none := by
  have h1 : ('@' == q) = false := by
    simp only [beq_eq_false_iff_ne, ne_eq]; exact fun h => hq h.symm
  simp only [scan, h1, Bool.false_eq_true, if_false, beq_self_eq_true, if_true,
    scanName_render q n tl hn hall]
  cases scan q fuel tl <;> rfl

/-! ### (1) a plain string is one token -/

/-- closing quote at once: the empty string -/
theorem C18_scan_empty (q : Char) (rest : List Char) (fuel : Nat) (hf : 1 ≤ fuel) :
    scan q fuel (q :: rest) = some ([], rest) := by
  cases fuel with
  | zero => omega
  | succ f => simp [scan]

/-- **C18 (1)**: whatever the body contains — braces, semicolons, comment markers, repeated
    spaces, combinator characters — as long as it has neither the delimiter nor `@`, it is ONE text
    part and scanning resumes exactly after the closing quote. -/
theorem C18_scan_plain (q : Char) (body rest : List Char)
    (h : ∀ c ∈ body, c ≠ q ∧ c ≠ '@') (hne : body ≠ []) (fuel : Nat)
    (hf : body.length + 1 ≤ fuel) :
    scan q fuel (body ++ q :: rest) = some ([.text body], rest) := by
  have hlen : 1 ≤ body.length := by
    cases body with
    | nil => exact absurd rfl hne
    | cons _ _ => simp
  obtain ⟨f, rfl⟩ : ∃ f, fuel = f + 1 := ⟨fuel - 1, by omega⟩
  have hall : ∀ c ∈ body, textChar q c = true := fun c hc =>
    (textChar_iff q c).2 ⟨(h c hc).2, (h c hc).1⟩
  rw [scan_text_step q body q rest f hne hall (textChar_quote q),
    C18_scan_empty q rest f (by omega)]

/-! ### (2) the scanner reads back exactly the parts that were written -/

def startsText : List Part → Bool
  | .text _ :: _ => true
  | _ => false

/-- well-formed parts: every text part is a non-empty run of text characters, every name is a
    non-empty run of name characters, and no two text parts are adjacent (the lexer's text token is
    maximal) -/
def WFParts (q : Char) : List Part → Prop
  | [] => True
  | .text s :: r =>
      s ≠ [] ∧ (∀ c ∈ s, textChar q c = true) ∧ startsText r = false ∧ WFParts q r
  | .interp n :: r =>
      n ≠ [] ∧ (∀ c ∈ n, nameChar q c = true) ∧ WFParts q r

instance WFParts.dec (q : Char) : (ps : List Part) → Decidable (WFParts q ps)
  | [] => isTrue trivial
  | .text s :: r =>
      have := WFParts.dec q r
      (inferInstance : Decidable
        (s ≠ [] ∧ (∀ c ∈ s, textChar q c = true) ∧ startsText r = false ∧ WFParts q r))
  | .interp n :: r =>
      have := WFParts.dec q r
      (inferInstance : Decidable (n ≠ [] ∧ (∀ c ∈ n, nameChar q c = true) ∧ WFParts q r))

/-- what follows a text part (another `@{…}` or the closing quote) is never a text character -/
theorem render_stop (q : Char) (r : List Part) (rest : List Char) (h : startsText r = false) :
    ∃ x tl, renderParts r ++ q :: rest = x :: tl ∧ textChar q x = false := by
  match r, h with
  | [], _ => exact ⟨q, rest, rfl, textChar_quote q⟩
  | .interp n :: r', _ => exact ⟨'@', _, rfl, textChar_at q⟩
  | .text _ :: _, h => simp [startsText] at h

/-- **C18 (2)**: for a real delimiter (`q ≠ '@'`), the scanner reads back exactly the parts that
    were written, for any number of interpolations, and resumes exactly after the closing quote.
    (For `q = '@'` the statement is false as soon as there is an interpolation:
    see `C18_scan_parts_at_counterexample`.) -/
theorem C18_scan_parts (q : Char) (hq : q ≠ '@') (ps : List Part) (rest : List Char) :
    ∀ fuel : Nat, WFParts q ps → (renderParts ps).length + 1 ≤ fuel →
      scan q fuel (renderParts ps ++ q :: rest) = some (ps, rest) := by
  induction ps with
  | nil =>
    intro fuel _ hf
    exact C18_scan_empty q rest fuel (by simpa [renderParts] using hf)
  | cons p r ih =>
    intro fuel hwf hf
    cases p with
    | text s =>
      obtain ⟨hs, hall, hst, hr⟩ := hwf
      have hlen : 1 ≤ s.length := by
        cases s with
        | nil => exact absurd rfl hs
        | cons _ _ => simp
      simp only [renderParts, List.length_append] at hf
      obtain ⟨f, rfl⟩ : ∃ f, fuel = f + 1 := ⟨fuel - 1, by omega⟩
      obtain ⟨x, tl, hx, hxt⟩ := render_stop q r rest hst
      have hrec := ih f hr (by omega)
      simp only [renderParts, List.append_assoc]
      rw [hx, scan_text_step q s x tl f hs hall hxt, ← hx, hrec]
    | interp n =>
      obtain ⟨hn, hall, hr⟩ := hwf
      simp only [renderParts, List.length_cons, List.length_append] at hf
      obtain ⟨f, rfl⟩ : ∃ f, fuel = f + 1 := ⟨fuel - 1, by omega⟩
      have hrec := ih f hr (by omega)
      simp only [renderParts, List.cons_append, List.append_assoc]
      rw [scan_interp_step q hq n _ f hn hall, hrec]

/-- the two delimiters of the language -/
theorem C18_scan_parts_quote (q : Char) (hq : q ∈ ['"', '\'']) (ps : List Part)
    (rest : List Char) (fuel : Nat) (hwf : WFParts q ps)
    (hf : (renderParts ps).length + 1 ≤ fuel) :
    scan q fuel (renderParts ps ++ q :: rest) = some (ps, rest) := by
  refine C18_scan_parts q ?_ ps rest fuel hwf hf
  simp only [List.mem_cons, List.not_mem_nil, or_false] at hq
  rcases hq with rfl | rfl <;> decide

/-- why `q ≠ '@'` is needed in `C18_scan_parts`: with `@` as the delimiter, `@{x}` is well-formed
    but its first character already closes the string. -/
theorem C18_scan_parts_at_counterexample :
    WFParts '@' [.interp ['x']] ∧
    scan '@' 10 (renderParts [.interp ['x']] ++ '@' :: []) = some ([], ['{', 'x', '}', '@']) := by
  decide

/-! ### (3) a string without interpolation evaluates to itself -/

theorem C18_verbatim (ρ : List Char → Option (List Char)) (q : Char) (body : List Char) :
    evalString ρ q [.text body] = some (q :: body ++ [q]) := by
  simp [evalString, evalParts]

theorem C18_verbatim_empty (ρ : List Char → Option (List Char)) (q : Char) :
    evalString ρ q [] = some [q, q] := by
  simp [evalString, evalParts]

/-! ### (4) substitution -/

/-- **C18 (4)**: text is copied, `@{x}` is replaced by the de-quoted value of x, in order. -/
theorem C18_subst (ρ : List Char → Option (List Char)) (ps : List Part)
    (h : ∀ n, .interp n ∈ ps → (ρ n).isSome) :
    evalParts ρ ps = some (ps.flatMap (fun p =>
      match p with
      | .text s => s
      | .interp n => destring ((ρ n).getD []))) := by
  induction ps with
  | nil => rfl
  | cons p r ih =>
    have ihr := ih (fun n hn => h n (by simp [hn]))
    cases p with
    | text s => simp [evalParts, ihr]
    | interp n =>
      have hn := h n (by simp)
      cases hρ : ρ n with
      | none => simp [hρ] at hn
      | some v => simp [evalParts, hρ, ihr]

/-- an undefined interpolated variable makes the whole string fail -/
theorem C18_subst_undefined (ρ : List Char → Option (List Char)) (ps : List Part)
    (n : List Char) (hmem : .interp n ∈ ps) (hρ : ρ n = none) : evalParts ρ ps = none := by
  induction ps with
  | nil => simp at hmem
  | cons p r ih =>
    cases p with
    | text s =>
      have : Part.interp n ∈ r := by simpa using hmem
      simp [evalParts, ih this]
    | interp m =>
      by_cases hmn : m = n
      · subst hmn; simp [evalParts, hρ]
      · have : Part.interp n ∈ r := by
          rcases List.mem_cons.1 hmem with h | h
          · exact absurd (Part.interp.inj h).symm hmn
          · exact h
        cases hm : ρ m with
        | none => simp [evalParts, hm]
        | some v => simp [evalParts, hm, ih this]

/-! ### (5) destring -/

def isQuote (c : Char) : Bool := c == '"' || c == '\''

theorem destring_eq (s : List Char) :
    destring s = ((s.dropWhile isQuote).reverse.dropWhile isQuote).reverse := rfl

theorem dropWhile_head_false {p : Char → Bool} (s : List Char)
    (h : ∀ c, s.head? = some c → p c = false) : s.dropWhile p = s := by
  cases s with
  | nil => rfl
  | cons a l => simp [List.dropWhile, h a rfl]

/-- an unquoted value is substituted as it is -/
theorem C18_destring_unquoted (s : List Char)
    (hfirst : ∀ c, s.head? = some c → isQuote c = false)
    (hlast : ∀ c, s.getLast? = some c → isQuote c = false) : destring s = s := by
  rw [destring_eq, dropWhile_head_false s hfirst,
    dropWhile_head_false s.reverse (by simpa using hlast), List.reverse_reverse]

/-- **C18 (5)**: the delimiters of a quoted value are removed, nothing else -/
theorem C18_destring (q : Char) (hq : q ∈ ['"', '\'']) (s : List Char)
    (hfirst : ∀ c, s.head? = some c → isQuote c = false)
    (hlast : ∀ c, s.getLast? = some c → isQuote c = false) :
    destring (q :: s ++ [q]) = s := by
  have hqq : isQuote q = true := by
    simp only [List.mem_cons, List.not_mem_nil, or_false] at hq
    rcases hq with rfl | rfl <;> decide
  rw [destring_eq]
  have hl' : ∀ c, s.reverse.head? = some c → isQuote c = false := by simpa using hlast
  cases s with
  | nil => simp [List.dropWhile, hqq]
  | cons a l =>
  have h1 : (q :: (a :: l) ++ [q]).dropWhile isQuote = (a :: l) ++ [q] := by
    simp [List.dropWhile, hqq, hfirst a rfl]
  rw [h1, List.reverse_append, List.reverse_singleton, List.singleton_append]
  simp only [List.dropWhile, hqq]
  rw [dropWhile_head_false (a :: l).reverse hl', List.reverse_reverse]

/-! ### (6) parts are independent -/

/-- **C18 (6)**: the value of a concatenation is the concatenation of the values — what one part
    evaluates to does not depend on the others (no state). -/
theorem C18_compose (ρ : List Char → Option (List Char)) (a b : List Part) :
    evalParts ρ (a ++ b) = (evalParts ρ a).bind (fun x => (evalParts ρ b).map (x ++ ·)) := by
  induction a with
  | nil => cases h : evalParts ρ b <;> simp [evalParts, h]
  | cons p r ih =>
    cases p with
    | text s =>
      simp only [List.cons_append, evalParts, ih]
      cases evalParts ρ r with
      | none => rfl
      | some x => cases evalParts ρ b <;> simp
    | interp n =>
      simp only [List.cons_append, evalParts]
      cases ρ n with
      | none => rfl
      | some v =>
        simp only [ih]
        cases evalParts ρ r with
        | none => rfl
        | some x => cases evalParts ρ b <;> simp

/-! ### the hypotheses are satisfiable -/

/-- `a;b}c{ /* x */ // y  > + ~ , :` -/
def sampleBody : List Char := "a;b}c{ /* x */ // y  > + ~ , :".toList

example : sampleBody ≠ [] ∧ ∀ c ∈ sampleBody, c ≠ '"' ∧ c ≠ '@' := by decide
example : scan '"' 100 (sampleBody ++ '"' :: "; }".toList) = some ([.text sampleBody], "; }".toList) :=
  C18_scan_plain '"' sampleBody _ (by decide) (by decide) 100 (by decide)
example : scan '"' 100 (sampleBody ++ '"' :: "; }".toList) = some ([.text sampleBody], "; }".toList) := by
  decide +kernel

/-- `a/@{x}; }{@{yy} > b` with two interpolations -/
def sampleParts : List Part :=
  [.text "a/".toList, .interp "x".toList, .text "; }{".toList, .interp "yy".toList,
   .text " > b".toList]

example : WFParts '"' sampleParts := by decide
example : WFParts '\'' [.interp "x".toList, .interp "y".toList] := by decide
example : renderParts sampleParts = "a/@{x}; }{@{yy} > b".toList := by decide
example : scan '"' 100 ("a/@{x}; }{@{yy} > b\"; z".toList) = some (sampleParts, "; z".toList) :=
  C18_scan_parts_quote '"' (by decide) sampleParts "; z".toList 100 (by decide) (by decide)
example : scan '"' 100 ("a/@{x}; }{@{yy} > b\"; z".toList) = some (sampleParts, "; z".toList) := by
  decide +kernel

def sampleEnv : List Char → Option (List Char) := fun n =>
  if n = "x".toList then some "\"p q\"".toList
  else if n = "yy".toList then some "12px".toList else none

example : ∀ n, Part.interp n ∈ sampleParts → (sampleEnv n).isSome := by
  intro n hn
  simp only [sampleParts, List.mem_cons, List.not_mem_nil, or_false, reduceCtorEq, false_or,
    Part.interp.injEq] at hn
  rcases hn with rfl | rfl <;> decide
example : evalString sampleEnv '"' sampleParts = some "\"a/p q; }{12px > b\"".toList := by
  decide +kernel
example : evalParts sampleEnv [.text "a".toList, .interp "zz".toList] = none :=
  C18_subst_undefined sampleEnv _ "zz".toList (by simp) (by decide)
example : destring "\"p q\"".toList = "p q".toList :=
  C18_destring '"' (by decide) "p q".toList (by decide) (by decide)
example : destring "12px".toList = "12px".toList :=
  C18_destring_unquoted _ (by decide) (by decide)

end Lessm.Str
