/-
  Property C20 – "Every compilation finishes in time bounded by the size of its (expanded) input.  A
  mixin that calls itself without a reachable base case, files that import each other in a cycle, and
  variables defined in terms of each other are all detected and reported as a compilation error rather
  than hanging, exhausting the interpreter stack, or escaping as an unrelated exception; guarded
  recursion shallower than the built-in depth limit still expands completely."

  This file: the variable part (A) and the import part (B), about `Lessm/Model/Term.lean`.  Every
  definition of that model is a total Lean function without `partial` and without any fuel except the
  counters lesscpy itself has (nesting budget, round allowance, import level); that is the termination
  statement.  The theorems below say what the counters do:

    A1  a reachable variable cycle is reported as `Err.recursive`, whatever the budgets
    A2  budgets never change a successful evaluation
    A3  the round limit never rejects an acyclic definition set
    A4  a successful evaluation ends in literals only
    B1  a reachable import cycle is reported as `IErr.tooDeep`
    B2  imports at most 9 levels deep expand completely (= textual inclusion)
    B3  errors are never dropped and the outermost parser is never aborted

  Only theorems and examples here; definitions and lemmas are in `Lessm/Lemmas/TermLemmas.lean`.
-/
import Lessm.Lemmas.TermLemmas

namespace Lessm.Term

/-! ### example data -/

namespace Ex

/-- `@a: @b; @b: @a;` -/
def envAB : Env := [("a", [.ref "b"]), ("b", [.ref "a"])]

/-- `@a: (@a);` – the self reference sits in a node (expression) -/
def envNode : Env := [("a", [.node [.ref "a"]])]

/-- `@x: 1 (@p + 1); @p: @q; @q: @r; @r: @p;` – a 3-cycle behind a node of the acyclic `@x` -/
def env3 : Env :=
  [("x", [.lit "1", .node [.ref "p", .lit "+", .lit "1"]]),
   ("p", [.ref "q"]), ("q", [.ref "r"]), ("r", [.ref "p"])]

/-- `@a: @b @zz; @b: @a;` – a cycle, but `@zz` is undefined -/
def envUndef : Env := [("a", [.ref "b", .ref "zz"]), ("b", [.ref "a"])]

/-- `@a: @b 1 (@c * @c); @b: @c; @c: 2;` – acyclic -/
def envOk : Env :=
  [("a", [.ref "b", .lit "1", .node [.ref "c", .lit "*", .ref "c"]]), ("b", [.ref "c"]),
   ("c", [.lit "2"])]

def rkOk : String → Nat := fun n => if n == "a" then 2 else if n == "b" then 1 else 0

/-- two files importing each other -/
def files2 : Files :=
  [("a.less", [.rule "a{}", .imp "b.less"]), ("b.less", [.rule "b{}", .imp "a.less"])]

/-- a file importing itself -/
def filesSelf : Files := [("s.less", [.imp "s.less", .rule "s{}"])]

/-- an acyclic root that reaches a 3-cycle, and an acyclic library -/
def files3 : Files :=
  [("main.less", [.rule "m{}", .imp "lib.less", .imp "x.less"]),
   ("lib.less", [.rule "l{}", .imp "base.less", .imp "gone.less"]),
   ("base.less", [.rule "b{}"]),
   ("x.less", [.imp "c1.less"]),
   ("c1.less", [.rule "1{}", .imp "c2.less"]),
   ("c2.less", [.rule "2{}", .imp "c3.less"]),
   ("c3.less", [.rule "3{}", .imp "c1.less"])]

end Ex

/-! ## A. variables -/

/-! ### A1 a reachable cycle is an error, and the error is `recursive` -/

/-- **C20_var_cycle_err**: if the value reaches a variable that is reachable from its own definition
    (at top level or inside expressions, directly or through other variables), its evaluation never
    succeeds — for every nesting budget and every round allowance. -/
theorem C20_var_cycle_err (env : Env) (ts : List Tok)
    (hc : ∃ n v, Reach env ts n ∧ lookup env n = some v ∧ Reach env v n) :
    (∀ b left v, loop (process env b) env left ts ≠ .ok v) ∧
    (∀ b v, process env b ts ≠ .ok v) ∧
    ∀ v, eval env ts ≠ .ok v := by
  obtain ⟨n, v, h1, h2, h3⟩ := hc
  have hrc : ReachesCycle env ts := ⟨n, h1, v, h2, h3⟩
  exact ⟨fun b left v => loop_cycle_not_ok (process_cycle_not_ok b) left ts hrc v,
    fun b v => process_cycle_not_ok b ts hrc v, fun v => process_cycle_not_ok _ ts hrc v⟩

example : ∃ n v, Reach Ex.envUndef [.ref "a"] n ∧ lookup Ex.envUndef n = some v ∧
    Reach Ex.envUndef v n :=
  ⟨"a", _, .base (by decide), rfl, .step (n := "b") (.base (by decide)) rfl (by decide)⟩
/-- without "all reachable names defined" the error may be the other one -/
example : eval Ex.envUndef [.ref "a"] = .error (.unknown "zz") := by decide +kernel
example : eval Ex.envUndef [.ref "b"] = .error (.unknown "zz") := by decide +kernel

/-- **C20_var_cycle**: if moreover every reachable name is defined, the evaluation is reported as
    `Recursive variable definition` — for every nesting budget and every round allowance, in
    particular for lesscpy's (128 and `2 * #variables + 4`). -/
theorem C20_var_cycle (env : Env) (ts : List Tok)
    (hdef : ∀ n, Reach env ts n → (lookup env n).isSome)
    (hc : ∃ n v, Reach env ts n ∧ lookup env n = some v ∧ Reach env v n) :
    (∀ b left, loop (process env b) env left ts = .error .recursive) ∧
    (∀ b, process env b ts = .error .recursive) ∧
    eval env ts = .error .recursive := by
  obtain ⟨h1, h2, h3⟩ := C20_var_cycle_err env ts hc
  have key : ∀ r : Except Err (List String), (∀ v, r ≠ .ok v) → (∀ m, r ≠ .error (.unknown m)) →
      r = .error .recursive := by
    intro r ha hb
    cases r with
    | ok v => exact absurd rfl (ha v)
    | error e =>
      cases e with
      | unknown m => exact absurd rfl (hb m)
      | recursive => rfl
  exact ⟨fun b left => key _ (h1 b left) (loop_no_unknown (process_no_unknown b) left ts hdef),
    fun b => key _ (h2 b) (process_no_unknown b ts hdef),
    key _ h3 (process_no_unknown _ ts hdef)⟩

/-- `@a: @b; @b: @a;` – the hypotheses hold … -/
example : (∀ n, Reach Ex.envAB [.ref "a"] n → (lookup Ex.envAB n).isSome) ∧
    ∃ n v, Reach Ex.envAB [.ref "a"] n ∧ lookup Ex.envAB n = some v ∧ Reach Ex.envAB v n :=
  ⟨allDef_of_allDefB (by decide),
   "a", _, .base (by decide), rfl, .step (n := "b") (.base (by decide)) rfl (by decide)⟩
/-- … and the model computes the conclusion -/
example : eval Ex.envAB [.ref "a"] = .error .recursive := by decide +kernel
/-- `@a: (@a);` – through a node: here it is the nesting budget that is exhausted -/
example : (∀ n, Reach Ex.envNode [.ref "a"] n → (lookup Ex.envNode n).isSome) ∧
    ∃ n v, Reach Ex.envNode [.ref "a"] n ∧ lookup Ex.envNode n = some v ∧ Reach Ex.envNode v n :=
  ⟨allDef_of_allDefB (by decide), "a", _, .base (by decide), rfl, .base (by decide)⟩
example : eval Ex.envNode [.ref "a"] = .error .recursive := by decide +kernel
example : process Ex.envNode 5 [.ref "a"] = .error .recursive := by decide +kernel
/-- a 3-cycle reached through a node of an acyclic prefix -/
example : (∀ n, Reach Ex.env3 [.lit "w", .ref "x"] n → (lookup Ex.env3 n).isSome) ∧
    ∃ n v, Reach Ex.env3 [.lit "w", .ref "x"] n ∧ lookup Ex.env3 n = some v ∧ Reach Ex.env3 v n :=
  ⟨allDef_of_allDefB (by decide),
   "p", _, .step (.base (by decide)) (n := "x") rfl (by decide), rfl,
   .step (.step (.base (by decide)) (n := "q") rfl (by decide)) (n := "r") rfl (by decide)⟩
example : eval Ex.env3 [.lit "w", .ref "x"] = .error .recursive := by decide +kernel

/-! ### A2 the bounds never change a successful evaluation -/

/-- **C20_var_mono**: a successful evaluation is not changed by a larger nesting budget or a larger
    round allowance (nor by nested evaluations that succeed more often): the bounds only ever turn a
    non-terminating or too deep evaluation into an error. -/
theorem C20_var_mono (env : Env) :
    (∀ b b' ts v, b ≤ b' → process env b ts = .ok v → process env b' ts = .ok v) ∧
    (∀ (inner inner' : List Tok → Except Err (List String)),
      (∀ ts v, inner ts = .ok v → inner' ts = .ok v) →
      ∀ left left' ts v, left ≤ left' →
        loop inner env left ts = .ok v → loop inner' env left' ts = .ok v) ∧
    (∀ b b' left left' ts v, b ≤ b' → left ≤ left' →
      loop (process env b) env left ts = .ok v → loop (process env b') env left' ts = .ok v) :=
  ⟨process_mono, fun _ _ hin => loop_mono hin,
   fun b b' left left' ts v hb hl =>
     loop_mono (fun ts v h => process_mono b b' ts v hb h) left left' ts v hl⟩

example : process Ex.envOk 2 [.ref "a"] = .ok ["2", "1", "2*2"] := by decide +kernel
example : eval Ex.envOk [.ref "a"] = .ok ["2", "1", "2*2"] :=
  (C20_var_mono Ex.envOk).1 2 maxNesting _ _ (by decide) (by decide +kernel)
/-- with a budget that is too small the same evaluation is an error, not a different value -/
example : process Ex.envOk 1 [.ref "a"] = .error .recursive := by decide +kernel

/-! ### A3 the round limit never rejects an acyclic definition set -/

/-- **C20_var_acyclic_rounds**: if all names reachable from `ts` are defined and none of them is
    reachable from its own value, then `#variables + 1` rounds are enough: a larger allowance gives the
    same result (value or error) whatever the nested evaluation does.  In particular lesscpy's limit
    `2 * #variables + 4` never cuts an acyclic evaluation. -/
theorem C20_var_acyclic_rounds (env : Env) (ts : List Tok)
    (hdef : ∀ n, Reach env ts n → (lookup env n).isSome)
    (hac : ∀ n v, Reach env ts n → lookup env n = some v → ¬ Reach env v n)
    (inner : List Tok → Except Err (List String)) :
    (∀ left k, env.length + 1 ≤ left → loop inner env (left + k) ts = loop inner env left ts) ∧
    ∀ k, loop inner env (roundLimit env + k) ts = loop inner env (roundLimit env) ts := by
  have hd := dies_of_acyclic' (env := env) (ts := ts) hdef hac
  refine ⟨fun left k hle => loop_stable inner left _ k ts hd hle, fun k => ?_⟩
  exact loop_stable inner _ _ k ts hd (by simp only [roundLimit]; omega)

example : (∀ n, Reach Ex.envOk [.ref "a"] n → (lookup Ex.envOk n).isSome) ∧
    (∀ n v, Reach Ex.envOk [.ref "a"] n → lookup Ex.envOk n = some v → ¬ Reach Ex.envOk v n) :=
  ⟨allDef_of_allDefB (by decide), acyclic_of_rank Ex.rkOk (by decide) _⟩
example : loop (process Ex.envOk 1) Ex.envOk 3 [.ref "a"] = .ok ["2", "1", "2*2"] := by
  decide +kernel
/-- the chain `@a → @b → @c` needs three rounds; with two the allowance is exhausted -/
example : loop (process Ex.envOk 1) Ex.envOk 2 [.ref "a"] = .error .recursive := by decide +kernel

/-! ### A4 a successful evaluation ends in literals only -/

/-- **C20_var_ok_closed**: the loop succeeds exactly if, within the allowance, some round ends in a
    token list without top-level reference; that list then consists of literals only (no variable at
    any depth, no unevaluated node), and the value is their text. -/
theorem C20_var_ok_closed (inner : List Tok → Except Err (List String)) (env : Env) (left : Nat)
    (ts : List Tok) (v : List String) :
    (loop inner env left ts = .ok v ↔
      ∃ k, k ≤ left ∧ ∃ ts', Rounds inner env k ts ts' ∧ hasRef ts' = false ∧ v = texts ts') ∧
    (loop inner env left ts = .ok v →
      ∃ k ts1, k ≤ left ∧ Rounds inner env k ts ts1 ∧ ts1 = v.map Tok.lit ∧
        hasRef ts1 = false ∧ (∀ n, ¬ Occurs ts1 n) ∧ v = texts ts1) := by
  refine ⟨loop_ok_iff left ts v, fun h => ?_⟩
  obtain ⟨k, hk, ts', hr, hh, rfl⟩ := (loop_ok_iff left ts v).1 h
  have e := all_lit_of_noNode_noRef hr.noNode hh
  exact ⟨k, ts', hk, hr, e, hh, fun n => e ▸ not_occurs_map_lit _ n, rfl⟩

/-- the same for `process` -/
theorem C20_var_ok_closed_process (env : Env) (b : Nat) (ts : List Tok) (v : List String)
    (h : process env b ts = .ok v) :
    ∃ b' k ts1, b = b' + 1 ∧ k ≤ roundLimit env ∧ Rounds (process env b') env k ts ts1 ∧
      ts1 = v.map Tok.lit ∧ (∀ n, ¬ Occurs ts1 n) := by
  cases b with
  | zero => simp [process] at h
  | succ b' =>
    rw [process] at h
    obtain ⟨k, ts1, hk, hr, e, _, ho, _⟩ := (C20_var_ok_closed _ env _ ts v).2 h
    exact ⟨b', k, ts1, rfl, hk, hr, e, ho⟩

example : ∃ ts1, Rounds (process Ex.envOk 1) Ex.envOk 3 [.ref "a"] ts1 ∧
    ts1 = [.lit "2", .lit "1", .lit "2*2"] :=
  ⟨_, ⟨_, _, .ref _ .nil, rfl, .ref rfl .nil,
       _, _, .ref _ (.lit _ (.node (v := ["2", "*", "2"]) (by decide +kernel) .nil)), rfl,
         .ref rfl (.lit _ (.lit _ .nil)),
       _, _, .ref _ (.lit _ (.lit _ .nil)), rfl, .ref rfl (.lit _ (.lit _ .nil)),
       .lit _ (.lit _ (.lit _ .nil))⟩, rfl⟩

/-! ## B. imports -/

/-! ### B1 a reachable import cycle is reported -/

/-- **C20_import_cycle**: if the root file exists and reaches (in zero or more `@import` steps through
    existing files) a file that lies on an import cycle, then the compilation registers
    `Recrusive import level too deep` — and the outermost parser still finishes with an output. -/
theorem C20_import_cycle (files : Files) (root c : String)
    (hroot : (findFileU files root).isSome = true)
    (hreach : root = c ∨ IReach files root c) (hcyc : IReach files c c) :
    IErr.tooDeep ∈ (compileFile files root).2 ∧ (compileFile files root).1.isSome = true := by
  obtain ⟨us, hus⟩ := Option.isSome_iff_exists.1 hroot
  have hp : HasPath files 10 root := by
    rcases hreach with rfl | h
    · exact cycle_paths hcyc 10
    · obtain ⟨k', hk, hp⟩ := h.path (cycle_paths hcyc 10)
      exact hp.le (by omega)
  have hs := loadUnits_succ_isSome files 8 us
  simp only [compileFile, hus]
  refine ⟨?_, hs⟩
  rcases tooDeep_of_path files 9 root us hus hp with h | h
  · rw [h] at hs; cases hs
  · exact h

/-- the budget-generic form: an import chain of more than `b` imports through existing files, starting
    in an existing file read with budget `b`, makes that parser abort or register `tooDeep` -/
theorem C20_import_cycle_budget (files : Files) (b : Nat) (f : String) (us : List Unit')
    (hf : findFileU files f = some us) (hp : HasPath files (b + 1) f) :
    (loadUnits files b us).1 = none ∨ IErr.tooDeep ∈ (loadUnits files b us).2 :=
  tooDeep_of_path files b f us hf hp

/-- two files importing each other -/
example : IReach Ex.files2 "a.less" "a.less" :=
  .step (g := "b.less") (by decide) (.single (by decide))
example : IErr.tooDeep ∈ (compileFile Ex.files2 "a.less").2 :=
  (C20_import_cycle Ex.files2 "a.less" "a.less" rfl (.inl rfl)
    (.step (g := "b.less") (by decide) (.single (by decide)))).1
/-- the complete result: levels 0–8 contribute their rule, the level-9 parser is aborted -/
example : compileFile Ex.files2 "a.less" =
    (some ["a{}", "b{}", "a{}", "b{}", "a{}", "b{}", "a{}", "b{}", "a{}"], [.tooDeep]) := by
  simp [compileFile, Ex.files2, findFileU, loadUnits]
/-- a file importing itself -/
example : IErr.tooDeep ∈ (compileFile Ex.filesSelf "s.less").2 :=
  (C20_import_cycle Ex.filesSelf "s.less" "s.less" rfl (.inl rfl)
    (.single (by decide))).1
/-- a 3-cycle reached from an acyclic root -/
example : IErr.tooDeep ∈ (compileFile Ex.files3 "main.less").2 :=
  (C20_import_cycle Ex.files3 "main.less" "c1.less" rfl
    (.inr (.step (g := "x.less") (by decide) (.single (by decide))))
    (.step (g := "c2.less") (by decide) (.step (g := "c3.less") (by decide)
      (.single (by decide))))).1

/-! ### B2 shallow imports expand completely -/

/-- **C20_import_shallow**: if every chain of imports starting in `units` has at most `b` imports
    (`depthLe`), a parser with budget `b` produces exactly the textual inclusion of the imported files
    and registers exactly the missing files, in traversal order; in particular never `tooDeep`, and
    nothing at all if all imported files exist. -/
theorem C20_import_shallow (files : Files) (b : Nat) (units : List Unit')
    (hd : depthLe files b units = true) :
    loadUnits files b units = (some (inline files b units), missingOf files b units) ∧
    IErr.tooDeep ∉ (loadUnits files b units).2 ∧
    (allExist files b units = true → loadUnits files b units = (some (inline files b units), [])) := by
  have h := loadUnits_shallow files b units hd
  refine ⟨h, ?_, fun he => ?_⟩
  · rw [h]; exact tooDeep_not_mem_missingOf files b units
  · rw [h, missingOf_of_allExist files b units he]

/-- **C20_import_shallow_compile**: the corollary for a whole compilation (budget 9 = levels 0..9). -/
theorem C20_import_shallow_compile (files : Files) (root : String) (units : List Unit')
    (hroot : findFileU files root = some units) (hd : depthLe files 9 units = true) :
    compileFile files root = (some (inline files 9 units), missingOf files 9 units) ∧
    IErr.tooDeep ∉ (compileFile files root).2 ∧
    (allExist files 9 units = true → compileFile files root = (some (inline files 9 units), [])) := by
  simp only [compileFile, hroot]
  exact C20_import_shallow files 9 units hd

/-- the specification does not depend on its fuel once the fuel covers the import depth -/
theorem C20_import_inline_fuel (files : Files) (d k : Nat) (units : List Unit')
    (hd : depthLe files d units = true) : inline files (d + k) units = inline files d units :=
  inline_fuel files d k units hd

example : compileFile Ex.files3 "lib.less" = (some ["l{}", "b{}"], [.missing "gone.less"]) := by
  have h := (C20_import_shallow_compile Ex.files3 "lib.less" _ rfl (by decide)).1
  rw [h]; decide
example : compileFile Ex.files3 "base.less" = (some ["b{}"], []) := by
  have h := (C20_import_shallow_compile Ex.files3 "base.less" _ rfl (by decide)).2.2 (by decide)
  rw [h]; decide
/-- the cycle is not shallow -/
example : depthLe Ex.files2 9 [.imp "a.less"] = false := by decide

/-! ### B3 errors are never dropped; only the level-9 parser aborts -/

/-- **C20_import_errs_only**: a parser of level < 9 is never aborted; its register is the
    concatenation of what was registered for each of its units — for an import: the register of the
    imported file's parser followed by `tooDeep` if that parser was aborted — so no registered error is
    ever dropped; and a compilation with an existing root always ends with an output and a register. -/
theorem C20_import_errs_only (files : Files) :
    (∀ b units, (loadUnits files (b + 1) units).1 ≠ none) ∧
    (∀ b us1 us2, (loadUnits files (b + 1) (us1 ++ us2)).2 =
      (loadUnits files (b + 1) us1).2 ++ (loadUnits files (b + 1) us2).2) ∧
    (∀ b t r, (loadUnits files b (.rule t :: r)).2 = (loadUnits files b r).2) ∧
    (∀ b f us r, findFileU files f = some us →
      (loadUnits files (b + 1) (.imp f :: r)).2 =
        (loadUnits files b us).2 ++ (if (loadUnits files b us).1.isNone then [.tooDeep] else []) ++
          (loadUnits files (b + 1) r).2) ∧
    (∀ b f r, findFileU files f = none →
      (loadUnits files (b + 1) (.imp f :: r)).2 = .missing f :: (loadUnits files (b + 1) r).2) ∧
    (∀ root units, findFileU files root = some units →
      ∃ out, compileFile files root = (some out, (loadUnits files 9 units).2)) := by
  refine ⟨fun b us h => ?_, loadUnits_errs_append files, fun b t r => by rw [loadUnits_rule],
    fun b f us r hf => ?_, fun b f r hf => ?_, fun root us hr => ?_⟩
  · have := loadUnits_succ_isSome files b us
    rw [h] at this; cases this
  · rw [loadUnits_imp]; simp [impErrs, hf]
  · rw [loadUnits_imp]; simp [impErrs, hf]
  · obtain ⟨out, ho⟩ := Option.isSome_iff_exists.1 (loadUnits_succ_isSome files 8 us)
    exact ⟨out, by simp only [compileFile, hr]; exact Prod.ext ho rfl⟩

example : ∃ out, compileFile Ex.files3 "main.less" = (some out, (loadUnits Ex.files3 9
    [.rule "m{}", .imp "lib.less", .imp "x.less"]).2) :=
  (C20_import_errs_only Ex.files3).2.2.2.2.2 "main.less" _ rfl
/-- the error of the library survives next to the error of the cycle, in traversal order -/
example : (compileFile Ex.files3 "main.less").2 = [.missing "gone.less", .tooDeep] := by
  simp [compileFile, Ex.files3, findFileU, loadUnits]
/-- a missing root is the only way to get no output -/
example : compileFile Ex.files3 "nope.less" = (none, [.missing "nope.less"]) := by decide

end Lessm.Term
