/-
  Model of variable scoping and substitution (import-free).

    scope.py   Scope.push / add_variable / variables (innermost first) / swap     -> `Frame.set`, `lookup`
    node.py    Node.process / replace_variables (substitute until no variable remains) -> `expand`
    variable.py Variable.parse (registration)                                      -> `.vdef` cases
    parser.py  p_variable_decl (registration at grammar time), p_block_open (selector parsed at
               grammar time, SyntaxError swallowed), p_scope_open / p_block (push / pop),
               post_parse (top-level units evaluated in order, top-level variables re-registered)
    block.py   Block.parse (push, items in order, pop)                              -> `passE`
    identifier.py parse: `@{x}` in selectors, substituted until no variable is left -> `resolveSel`

  Two passes over the same program, as in the code: pass G is what the yacc actions do in
  reduction order, pass E is `post_parse`.
-/
namespace Lessm.Vars

/-- a value token: literal text or a variable reference `@name` -/
inductive VTok
  | lit (s : String)
  | ref (name : String)
deriving Repr, DecidableEq

abbrev Value := List VTok

/-- a selector piece: literal text or an interpolation `@{name}` -/
inductive STok
  | lit (s : String)
  | interp (name : String)
deriving Repr, DecidableEq

inductive Item
  | decl (prop : String) (v : Value)
  | vdef (name : String) (v : Value)
  | rule (sel : List STok) (body : List Item)
deriving Repr

/-- a frame's `__variables__` dict: assignment replaces an existing key in place, else appends -/
abbrev Frame := List (String × Value)

def Frame.set : Frame → String → Value → Frame
  | [], n, v => [(n, v)]
  | (k, w) :: r, n, v => if k == n then (k, v) :: r else (k, w) :: Frame.set r n v

def Frame.get : Frame → String → Option Value
  | [], _ => none
  | (k, w) :: r, n => if k == n then some w else Frame.get r n

/-- the scope stack, innermost frame first -/
abbrev Scope := List Frame

/-- `Scope.variables`: search from the innermost frame outwards -/
def lookup : Scope → String → Option Value
  | [], _ => none
  | f :: r, n => match f.get n with
    | some v => some v
    | none => lookup r n

def setTop : Scope → String → Value → Scope
  | [], n, v => [[(n, v)]]
  | f :: r, n, v => f.set n v :: r

inductive Err
  | unknownVar (name : String)
  | hang                         -- substitution did not reach a fix-point within the fuel
deriving Repr, DecidableEq

def hasRef : Value → Bool
  | [] => false
  | .ref _ :: _ => true
  | .lit _ :: r => hasRef r

/-- one round of `replace_variables`: every variable token is replaced by its value (a token list) -/
def substOnce (sc : Scope) : Value → Except Err Value
  | [] => .ok []
  | .lit s :: r => do
      let r' ← substOnce sc r
      pure (.lit s :: r')
  | .ref n :: r =>
      match lookup sc n with
      | none => .error (.unknownVar n)
      | some v => do
          let r' ← substOnce sc r
          pure (v ++ r')

/-- `Node.process`: substitute until no variable remains (`fuel` bounds the rounds; the code loops
    forever on a cyclic definition, which the model reports as `hang`) -/
def expand (sc : Scope) : Nat → Value → Except Err Value
  | 0, v => if hasRef v then .error .hang else .ok v
  | fuel + 1, v =>
      if hasRef v then
        match substOnce sc v with
        | .ok v' => expand sc fuel v'
        | .error e => .error e
      else .ok v

def litText : Value → List String
  | [] => []
  | .lit s :: r => s :: litText r
  | .ref n :: r => ("@" ++ n) :: litText r

/-- the interpolations of a selector (`Identifier.parse`'s `replace_variables`, since the repository's fix for chained variables in selectors): every `@{x}` is
    replaced by the value of `x`, substituted until no variable is left, like a declaration value (the code bounds the rounds by the
    number of known variables; the model by 64, as everywhere) -/
def resolveSel (sc : Scope) : List STok → Except Err (List String)
  | [] => .ok []
  | .lit s :: r => do
      let r' ← resolveSel sc r
      pure (s :: r')
  | .interp n :: r =>
      match expand sc 64 [.ref n] with
      | .error e => .error e
      | .ok v => do
          let r' ← resolveSel sc r
          pure (litText v ++ r')

/-! ### pass G: grammar time -/

/-- after pass G a rule carries its selector if it could be resolved at grammar time -/
inductive GItem
  | decl (prop : String) (v : Value)
  | vdef (name : String) (v : Value)
  | rule (sel : List STok) (resolved : Option (List String)) (body : List GItem)
deriving Repr

mutual
def passG (gs : Scope) : Item → Scope × GItem
  | .decl p v => (gs, .decl p v)
  | .vdef n v => (setTop gs n v, .vdef n v)            -- p_variable_decl: registered now
  | .rule sel body =>
      -- p_scope_open pushed a frame before p_block_open runs; lookups see the enclosing frames
      let res := match resolveSel ([] :: gs) sel with
        | .ok s => some s
        | .error _ => none                                -- SyntaxError swallowed, parsed again in pass E
      let (_, body') := passGList ([] :: gs) body
      (gs, .rule sel res body')                           -- p_block pops the frame
def passGList (gs : Scope) : List Item → Scope × List GItem
  | [] => (gs, [])
  | i :: is =>
      let (gs1, i') := passG gs i
      let (gs2, is') := passGList gs1 is
      (gs2, i' :: is')
end

/-! ### pass E: post_parse -/

structure OutRule where
  path : List (List String)        -- resolved selector pieces of the ancestors, outermost first, then own
  decls : List (String × List String)
deriving Repr, DecidableEq

mutual
/-- `Block.parse`: returns the scope (unchanged below the pushed frame), the rule's own declarations
    and the output of nested rules -/
def passEItem (fuel : Nat) (es : Scope) (path : List (List String)) :
    GItem → Except Err (Scope × List (String × List String) × List OutRule)
  | .decl p v => do
      let v' ← expand es fuel v
      pure (es, [(p, litText v')], [])
  | .vdef n v => pure (setTop es n v, [], [])
  | .rule sel res body => do
      let es1 : Scope := [] :: es                        -- scope.push()
      let name ← match res with
        | some s => pure s
        | none => resolveSel es1 sel                      -- `if not self.name.parsed: self.name.parse(scope)`
      let path' := path ++ [name]
      let (_, ds, inner) ← passEList fuel es1 path' body
      -- scope.pop(): the caller's scope is what it was
      let own : List OutRule := if ds.isEmpty then [] else [⟨path', ds⟩]
      pure (es, [], own ++ inner)
def passEList (fuel : Nat) (es : Scope) (path : List (List String)) :
    List GItem → Except Err (Scope × List (String × List String) × List OutRule)
  | [] => pure (es, [], [])
  | i :: is => do
      let (es1, d1, o1) ← passEItem fuel es path i
      let (es2, d2, o2) ← passEList fuel es1 path is
      pure (es2, d1 ++ d2, o1 ++ o2)
end

/-- the compiler on a sheet: `parse()` pushes the global frame, pass G fills it, pass E starts from the
    frame as pass G left it and re-registers top-level variables in order.  Top-level declarations do
    not exist in the fragment. -/
def compile (fuel : Nat) (sheet : List Item) : Except Err (List OutRule) := do
  let (gs, g) := passGList [[]] sheet
  let (_, _, out) ← passEList fuel gs [] g
  pure out

end Lessm.Vars
