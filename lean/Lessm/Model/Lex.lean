/-
  Model of the token filter `LessLexer.token` (import-free), on token *types*.

    lexer.py  LessLexer.token: state `pretok` (nothing returned yet), `last` (last token returned),
              `next_` (a held-back token); a `t_ws` is dropped when nothing was returned yet or when
              the last returned token's type is not in `significant_ws`; before a `t_bclose` whose
              predecessor is none of `{`, `}`, `;` a `t_semicolon` is injected.        -> `filterFrom`
              t_t_ws / t_newline: a run of blanks is one `t_ws`, a run of line breaks is one `t_ws`;
              t_css_comment / t_less_comment produce no token; lineno counts '\n'.       -> `lexGap`

  A source is a sequence of lexemes separated by gaps; a gap is a list of pieces.
-/
namespace Lessm.Lex

abbrev Ty := String

def tWs : Ty := "t_ws"
def tBopen : Ty := "t_bopen"
def tBclose : Ty := "t_bclose"
def tSemi : Ty := "t_semicolon"

/-- the filter loop; `sig` is the significant-whitespace set, `last = none` encodes `pretok` -/
def filterFrom (sig : List Ty) : Option Ty → List Ty → List Ty
  | _, [] => []
  | last, t :: ts =>
      if t == tWs && (match last with | none => true | some l => !sig.contains l) then
        filterFrom sig last ts                                   -- `continue`
      else if t == tBclose && (match last with
            | none => false
            | some l => l != tBopen && l != tBclose && l != tSemi) then
        tSemi :: tBclose :: filterFrom sig (some tSemi) ts        -- inject ';' (it stays `last`), then the held-back '}'
      else
        t :: filterFrom sig (some t) ts

def filter (sig : List Ty) (ts : List Ty) : List Ty := filterFrom sig none ts

/-- pieces of a gap between two lexemes -/
inductive Piece
  | blanks (n : Nat)            -- a run of n+1 blanks / tabs
  | newlines (n : Nat)          -- a run of n+1 line breaks (LF or CRLF)
  | blockComment (body : String) (lines : Nat)   -- /* body */ containing `lines` line feeds
  | lineComment (body : String)                  -- // body   (up to, not including, the line end)
deriving Repr, DecidableEq

/-- raw tokens of a gap: one `t_ws` per run of blanks or of line breaks, nothing for comments -/
def lexGap : List Piece → List Ty
  | [] => []
  | .blanks _ :: r => tWs :: lexGap r
  | .newlines _ :: r => tWs :: lexGap r
  | .blockComment _ _ :: r => lexGap r
  | .lineComment _ :: r => lexGap r

/-- line feeds consumed by a gap (for `lineno`) -/
def gapLines : List Piece → Nat
  | [] => 0
  | .blanks _ :: r => gapLines r
  | .newlines n :: r => (n + 1) + gapLines r
  | .blockComment _ k :: r => k + gapLines r
  | .lineComment _ :: r => gapLines r

def hasSpace : List Piece → Bool
  | [] => false
  | .blanks _ :: _ => true
  | .newlines _ :: _ => true
  | _ :: r => hasSpace r

/-- a lexeme: its token type, the number of line feeds inside it (multi-line strings), the gap after it -/
structure Lexeme where
  ty : Ty
  innerLines : Nat
  gap : List Piece
deriving Repr

/-- a program at lexeme level: a leading gap, then lexemes each followed by a gap -/
def lexProgram (lead : List Piece) (xs : List Lexeme) : List Ty :=
  lexGap lead ++ xs.flatMap (fun p => p.ty :: lexGap p.gap)

/-- 1-based line number on which the i-th lexeme starts: `lineno` when the token is produced -/
def lineOf (lead : List Piece) (xs : List Lexeme) (i : Nat) : Nat :=
  1 + gapLines lead + ((xs.take i).map (fun p => p.innerLines + gapLines p.gap)).sum

end Lessm.Lex
