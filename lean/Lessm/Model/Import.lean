/-
  Model of `@import` (import-free): parser.py `p_statement_import` after fixes 5145613 / 7f7d88a.

    * the written path is destringed; `fn, fe = os.path.splitext(ipath)`;
      `not fe or fe.lower() == '.less'`  -> a LESS import, anything else is kept as a statement;
    * a LESS import without extension gets `.less` appended; it is looked up relative to the directory of the
      importing file (`dirname(abspath(self.target)) + os.sep + ipath`);
    * an existing file is parsed by a fresh parser of level importlvl + 1 on the same scope and error register; its
      units (not yet evaluated) take the place of the statement in the unit list of the importer;
    * a missing file registers "Cannot import ..., file not found" and contributes nothing;
    * a parser of level > 8 raises ImportError at its first import statement (see Lessm.Term for that part; here too).
  Every other unit is opaque text; the rest of the compiler is a function of the final unit list (`post`).
-/
namespace Lessm.Imp

inductive Unit'
  | other (text : String)                   -- a rule, a definition, an at-rule, ... : anything but an import
  | imp (path : String) (raw : String)      -- `@import <path>...;` : the destringed path and the statement as written
deriving Repr, DecidableEq

/-- a file name: directory components and the base name, normalised -/
abbrev Path := List String

abbrev Files := List (Path × List Unit')

def findFile : Files → Path → Option (List Unit')
  | [], _ => none
  | (k, v) :: r, p => if k == p then some v else findFile r p

/-- split at '/' -/
def splitSlashAux : List Char → List Char → List String
  | [], cur => [String.ofList cur.reverse]
  | '/' :: r, cur => String.ofList cur.reverse :: splitSlashAux r []
  | c :: r, cur => splitSlashAux r (c :: cur)

def splitSlash (s : String) : List String := splitSlashAux s.toList []

/-- what the file system makes of `a/./b/../c`: `acc` holds the components so far, innermost first -/
def normalizeAux : List String → List String → List String
  | [], acc => acc.reverse
  | c :: r, acc =>
      if c == "" || c == "." then normalizeAux r acc
      else if c == ".." then normalizeAux r acc.tail
      else normalizeAux r (c :: acc)

def normalize (cs : List String) : Path := normalizeAux cs []

/-- `os.path.splitext(p)[1]`: from the last dot of the last component on, leading dots of that component not counting -/
def extChars (p : String) : List Char :=
  let comp := (splitSlash p).getLastD ""
  let cs := comp.toList
  let body := cs.dropWhile (· == '.')
  if body.contains '.' then
    '.' :: (body.reverse.takeWhile (· != '.')).reverse
  else []

def lowerChar (c : Char) : Char := if 'A' ≤ c ∧ c ≤ 'Z' then Char.ofNat (c.toNat + 32) else c

/-- the decision of p_statement_import -/
def isLess (p : String) : Bool :=
  let e := extChars p
  e.isEmpty || e.map lowerChar == ['.', 'l', 'e', 's', 's']

/-- the file a LESS import written `ip` in the file `cur` refers to -/
def resolve (cur : Path) (ip : String) : Path :=
  let ip' := if (extChars ip).isEmpty then ip ++ ".less" else ip
  normalize (cur.dropLast ++ splitSlash ip')

inductive IErr
  | tooDeep
  | missing (file : Path)
deriving Repr, DecidableEq

abbrev LoadRes := Option (List String) × List IErr

/-- a parser of level `9 - budget` working through the units of the file `cur` -/
def load (files : Files) : Nat → Path → List Unit' → LoadRes
  | _, _, [] => (some [], [])
  | b, cur, .other t :: rest =>
      match load files b cur rest with
      | (some out, errs) => (some (t :: out), errs)
      | (none, errs) => (none, errs)
  | 0, _, .imp _ _ :: _ => (none, [])
  | b + 1, cur, .imp ip raw :: rest =>
      let (here, errs1) : List String × List IErr :=
        if isLess ip then
          let tgt := resolve cur ip
          match findFile files tgt with
          | none => ([], [.missing tgt])
          | some units =>
              match load files b tgt units with
              | (some out, e) => (out, e)
              | (none, e) => ([], e ++ [.tooDeep])
        else ([raw], [])                        -- kept as a statement, at its position
      match load files (b + 1) cur rest with
      | (some out, errs2) => (some (here ++ out), errs1 ++ errs2)
      | (none, errs2) => (none, errs1 ++ errs2)
termination_by b _ units => (b, units.length)

def loadRoot (files : Files) (root : Path) : LoadRes :=
  match findFile files root with
  | none => (none, [.missing root])
  | some units => load files 9 root units

/-- the compiler: everything after the unit list is `post` -/
def compile (post : List String → α) (files : Files) (root : Path) : Option α × List IErr :=
  match loadRoot files root with
  | (some us, errs) => (some (post us), errs)
  | (none, errs) => (none, errs)

end Lessm.Imp
