/-
  A validating LR driver over the LALR tables regenerated from the working tree (import-free).

  `recognise` follows ply.yacc's parse loop: look up action[state][lookahead]; shift, reduce by the
  numbered production, accept, or report a syntax error at the current token.  It is VALIDATING: at a
  reduce it checks that the symbols popped off the stack are the right-hand side of the production, and
  at accept that the stack holds exactly the start symbol — so that acceptance yields a derivation in
  the grammar by construction and the tables themselves (encoded strings, only executed) need not be
  trusted.
-/
import Lessm.Model.Cfg
namespace Lessm.LR
open Lessm.Cfg

/-- action/goto rows: state ↦ list of (symbol number ↦ value) -/
abbrev Table := List (Nat × List (Nat × Int))

def parseInt (s : String) : Int :=
  match s.toList with
  | '-' :: r => -((String.ofList r).toNat?.getD 0 : Nat)
  | _ => (s.toNat?.getD 0 : Nat)

/-- decode `state:sym=val,sym=val;state:…` -/
def decode (s : String) : Table :=
  (s.splitOn ";").filterMap (fun row =>
    match row.splitOn ":" with
    | [st, cells] =>
        some (st.toNat?.getD 0, (cells.splitOn ",").filterMap (fun c =>
          match c.splitOn "=" with
          | [k, v] => some (k.toNat?.getD 0, parseInt v)
          | _ => none))
    | _ => none)

def lookup2 (t : Table) (st sym : Nat) : Option Int :=
  match t.find? (·.1 == st) with
  | some row => (row.2.find? (·.1 == sym)).map (·.2)
  | none => none

inductive Res
  | accept
  | error (pos : Nat)      -- syntax error at the pos-th token (pos = length: at end of input)
  | stuck                   -- the tables disagree with the grammar (never on generated tables)
deriving Repr, DecidableEq

/-- stack entries: (state, symbol that led there); bottom = (0, none) -/
abbrev Stack := List (Nat × Option Sym)

def popN : Nat → Stack → Option (List Sym × Stack)
  | 0, st => some ([], st)
  | n + 1, (_, some s) :: rest => (popN n rest).map (fun p => (p.1 ++ [s], p.2))
  | _ + 1, _ => none

/-- the parse loop. `eof` is the number of the end marker; `start` the start non-terminal. -/
def run (prods : List Rule) (action goto : Table) (eof start : Nat) :
    Nat → Stack → List Nat → Nat → Res
  | 0, _, _, _ => .stuck
  | fuel + 1, stack, input, pos =>
      match stack with
      | [] => .stuck
      | (st, _) :: _ =>
          let la := input.headD eof
          match lookup2 action st la with
          | none => .error pos
          | some a =>
              if a > 0 then
                match input with
                | [] => .stuck                                   -- cannot shift the end marker
                | t :: rest => run prods action goto eof start fuel ((a.toNat, some (.t t)) :: stack) rest (pos + 1)
              else if a < 0 then
                match prods[(-a).toNat - 1]? with
                | none => .stuck
                | some p =>
                    match popN p.rhs.length stack with
                    | some (syms, (st', x) :: rest) =>
                        if syms == p.rhs then
                          match lookup2 goto st' p.lhs with
                          | some g => run prods action goto eof start fuel ((g.toNat, some (.nt p.lhs)) :: (st', x) :: rest) input pos
                          | none => .stuck
                        else .stuck
                    | _ => .stuck
              else
                -- accept: only at end of input with exactly the start symbol on the stack
                match input, stack with
                | [], [(_, some (.nt s)), (_, none)] => if s == start then .accept else .stuck
                | _, _ => .stuck

def recognise (prods : List Rule) (action goto : Table) (eof start : Nat) (input : List Nat) : Res :=
  run prods action goto eof start (input.length * 64 + 1024) [(0, none)] input 0

/-- prefix sums of delimiter weights never go below zero and end at zero -/
def balancedFrom (tw : Nat → Int) : Int → List Nat → Bool
  | acc, [] => acc == 0
  | acc, t :: r => let a := acc + tw t; if a < 0 then false else balancedFrom tw a r

def balanced (tw : Nat → Int) (w : List Nat) : Bool := balancedFrom tw 0 w

end Lessm.LR
