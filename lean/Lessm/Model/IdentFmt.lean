/-
  Model of `Identifier.fmt` at the level of characters (import-free).

    identifier.py  Identifier.parse stores a combinator as the token '?>?' / '?+?' / '?~?'; Identifier.fmt
                   (as repaired by C01-qmark-pair and C01-attr-blanks):
                     mark(t)        a token that IS such a mark becomes NUL c NUL, every other token is itself   -> `markTok`
                     ''.join(...).strip() per selector of the list, joined by ',$$'                               -> `joinParts`
                     .replace('\0', ws)  .replace('$$', nl)                                                       -> `replaceChar`, `replaceDollars`
                     re.split(r'("[^"]*"|\'[^\']*\')', name): quoted pieces are kept, in the others
                     .replace('  ', ' ')                                                                          -> `collapseOutside`
  The tokens come from the lexer and contain no NUL.
-/
namespace Lessm.IdentFmt

def nul : Char := '\x00'

/-- `len(t) == 3 and t[0] == '?' and t[2] == '?' and t[1] in '>+~'` -/
def markOf (t : List Char) : Option Char :=
  match t with
  | ['?', c, '?'] => if c == '>' || c == '+' || c == '~' then some c else none
  | _ => none

def markTok (t : List Char) : List Char :=
  match markOf t with
  | some c => [nul, c, nul]
  | none => t

/-- the characters `str.strip()` removes at both ends (ASCII part; the tokens of a selector hold no other white space) -/
def isWs (c : Char) : Bool := c == ' ' || c == '\n' || c == '\t' || c == '\r' || c == '\x0b' || c == '\x0c'

def strip (s : List Char) : List Char := ((s.dropWhile isWs).reverse.dropWhile isWs).reverse

/-- one selector of the list: its tokens marked, concatenated, stripped -/
def partText (p : List (List Char)) : List Char := strip (p.flatMap markTok)

/-- `',$$'.join(...)` -/
def joinParts : List (List Char) → List Char
  | [] => []
  | [a] => a
  | a :: r => a ++ [',', '$', '$'] ++ joinParts r

/-- `str.replace(c, by)` for a one-character needle -/
def replaceChar (c : Char) (by_ : List Char) : List Char → List Char
  | [] => []
  | x :: r => if x == c then by_ ++ replaceChar c by_ r else x :: replaceChar c by_ r

/-- `str.replace('$$', by)`: left to right, non-overlapping -/
def replaceDollars (by_ : List Char) : List Char → List Char
  | '$' :: '$' :: r => by_ ++ replaceDollars by_ r
  | x :: r => x :: replaceDollars by_ r
  | [] => []

/-- `str.replace('  ', ' ')`: left to right, non-overlapping -/
def collapse : List Char → List Char
  | ' ' :: ' ' :: r => ' ' :: collapse r
  | x :: r => x :: collapse r
  | [] => []

/-- the split at quoted pieces, with the collapse applied to the pieces in between.  `acc` is the current unquoted piece
    (reversed); a quote character without a closing partner is an ordinary character. `fuel` ≥ length. -/
def collapseOutsideAux : Nat → List Char → List Char → List Char
  | 0, acc, _ => collapse acc.reverse
  | _ + 1, acc, [] => collapse acc.reverse
  | fuel + 1, acc, c :: r =>
      if c == '"' || c == '\'' then
        match r.dropWhile (· != c) with
        | _ :: rest =>        -- closing quote found: the piece c … c is kept as written
            collapse acc.reverse ++ c :: (r.takeWhile (· != c)) ++ c :: collapseOutsideAux fuel [] rest
        | [] => collapseOutsideAux fuel (c :: acc) r
      else collapseOutsideAux fuel (c :: acc) r

def collapseOutside (s : List Char) : List Char := collapseOutsideAux (s.length + 1) [] s

/-- `Identifier.fmt` -/
def fmt (ws nl : List Char) (parsed : List (List (List Char))) : List Char :=
  collapseOutside (replaceDollars nl (replaceChar nul ws (joinParts (parsed.map partText))))

end Lessm.IdentFmt
