/-
  Model of lesscpy/plib/identifier.py on token lists (import-free).

    Identifier.parse   -> `encode` (the loop: split at ',', '*' -> '* ', combinators -> '?c?' after
                          dropping a preceding ' '), `root`, `pairwiseFilter`, `identParse`
    Identifier.root    -> `root`  (no-& branch; & branch via permutations_with_replacement)
    utility.permutations_with_replacement -> `tuples` (itertools.product order)
    utility.pairwise + the filter in parse -> `pairwiseFilter`
    Identifier.fmt     -> `fmtSel`

  A selector is a list of string tokens: simple selectors (`.a`, `#i`, `div`, `:hover`, `[x]`, …),
  `" "` for a descendant space, `"&"`, and the combinator characters `>` `+` `~`, which `encode`
  rewrites to `?>?` `?+?` `?~?`.
-/
namespace Lessm.Sel

abbrev Tok := String
abbrev Sel := List Tok

def isComb (t : Tok) : Bool := t == ">" || t == "+" || t == "~"
def encComb (t : Tok) : Tok := "?" ++ t ++ "?"
def isEnc (t : Tok) : Bool := t == "?>?" || t == "?+?" || t == "?~?"

/-- pop a trailing `" "` (the code: `if name and name[-1] == ' ': name.pop()`); `name` is kept reversed -/
def popSpaceRev : List Tok → List Tok
  | " " :: r => r
  | r => r

/-- the main loop of `Identifier.parse` over the flattened tokens; `cur` is the current name reversed,
    `done` the finished names reversed -/
def encodeLoop : List Tok → List Tok → List Sel → List Sel
  | [], cur, done => (cur.reverse :: done).reverse
  | t :: ts, cur, done =>
      if t == "*" then encodeLoop ts ("* " :: cur) done
      else if isComb t then encodeLoop ts (encComb t :: popSpaceRev cur) done
      else if t == "," then encodeLoop ts [] (cur.reverse :: done)
      else encodeLoop ts (t :: cur) done

def encode (toks : List Tok) : List Sel := encodeLoop toks [] []

/-- `'?' in j` (kept for the specifications that speak about tokens containing a question mark) -/
def hasQ (t : Tok) : Bool := t.toList.contains '?'

/-- `is_combinator(j)`: a three-character token `?c?`, the encoded form of a combinator -/
def isEncLike (t : Tok) : Bool :=
  match t.toList with
  | ['?', _, '?'] => true
  | _ => false

/-- `[i for i, j in pairwise(part) if i != ' ' or (j and '?' not in j)]`:
    a `" "` is dropped when it is last or stands before an encoded combinator `?c?` -/
def pairwiseFilter : Sel → Sel
  | [] => []
  | [t] => if t == " " then [] else [t]
  | t :: u :: rest =>
      if t == " " && isEncLike u then pairwiseFilter (u :: rest)
      else t :: pairwiseFilter (u :: rest)

/-- `itertools.product(range(n), repeat=r)` applied to `pool`: all r-tuples, first index slowest -/
def tuples {α} (pool : List α) : Nat → List (List α)
  | 0 => [[]]
  | r + 1 => pool.flatMap (fun p => (tuples pool r).map (fun t => p :: t))

def endsWithBracket (t : Tok) : Bool := t.toList.getLast? == some ']'

/-- `parsed and parsed[-1].endswith(']')` -/
def lastEndsBracket (acc : Sel) : Bool :=
  match acc.getLast? with
  | some l => endsWithBracket l
  | none => false

def dropLastSpace (p : Sel) : Sel :=
  match p.reverse with
  | " " :: r => r.reverse
  | _ => p

/-- substitute the `&`s of `name` by the members of `perm` in order (the inner loop of the & branch);
    `acc` is the output so far -/
def substAmp : Sel → List Sel → Sel → Sel
  | [], _, acc => acc
  | t :: ts, perm, acc =>
      if t == "&" then
        match perm with
        | p :: perm' =>
            let acc := if lastEndsBracket acc then acc ++ [" "] else acc
            substAmp ts perm' (acc ++ dropLastSpace p)
        | [] => substAmp ts [] acc
      else substAmp ts perm (acc ++ [t])

def countAmp (name : Sel) : Nat := name.count "&"

/-- `Identifier.root` for a parent whose parsed selector list is `parent` (all plain rules: no part is
    an at-rule name) -/
def rootOne (parent : List Sel) (name : Sel) : List Sel :=
  let k := countAmp name
  if k ≠ 0 then
    (tuples parent k).map (fun perm => substAmp name perm [])
  else
    parent.map (fun part =>
      if part.isEmpty then name
      else part ++ (if part.getLast? != some " " then [" "] else []) ++ name)

def root (parent : Option (List Sel)) (names : List Sel) : List Sel :=
  match parent with
  | none => names
  | some [] => names          -- `if parent.parsed:` fails on an empty list
  | some ps => names.flatMap (rootOne ps)

/-- `Identifier.parse(scope)` on the token list of a (non at-rule, interpolation free) selector list -/
def identParse (parent : Option (List Sel)) (toks : List Tok) : List Sel :=
  (root parent (encode toks)).map pairwiseFilter

/-- `Identifier.fmt` with `ws` the optional-space fill and `nl` the separator fill -/
def decodeComb (ws : String) (t : Tok) : String :=
  if isEnc t then ws ++ (t.drop 1).take 1 ++ ws else t

def collapse2 : List Char → List Char
  | ' ' :: ' ' :: r => collapse2 (' ' :: r)
  | c :: r => c :: collapse2 r
  | [] => []

/-- printed form of one selector (minified: `ws = ""`): tokens concatenated, stripped, combinators
    decoded.  (The regex replacement and the `'  ' -> ' '` collapse act on the joined string.) -/
def fmtOne (ws : String) (s : Sel) : String :=
  let joined := (String.join s).trimAscii.toString
  -- re.sub('\?(.)\?', ws + '\1' + ws)
  let rec go : List Char → List Char
    | '?' :: c :: '?' :: r => ws.toList ++ c :: ws.toList ++ go r
    | c :: r => c :: go r
    | [] => []
  String.ofList (go joined.toList)

def fmtSel (ws nl : String) (parsed : List Sel) : String :=
  let body := String.intercalate ("," ++ nl) (parsed.map (fmtOne ws))
  (body.replace "  " " ")

end Lessm.Sel
