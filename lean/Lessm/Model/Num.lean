/-
  Decimal literals: model of utility.split_unit / analyze_number on the lexemes the lexer
  produces for css_number (`-?(\d*\.\d+|\d+)unit?`).  Import-free.
-/
namespace Lessm.Num

def isDigit (c : Char) : Bool := '0' ≤ c && c ≤ '9'

def digitsVal (ds : List Char) : Nat := ds.foldl (fun acc c => acc * 10 + (c.toNat - '0'.toNat)) 0

/-- `split_unit`: the regex `^(\-?[\d\.]+)(.*)$` — optional minus, then the longest run of digits and dots -/
def splitUnit (s : List Char) : Option (List Char × List Char) :=
  let (sign, rest) := match s with
    | '-' :: r => (['-'], r)
    | r => ([], r)
  let numPart := rest.takeWhile (fun c => isDigit c || c == '.')
  if numPart.isEmpty then none else some (sign ++ numPart, rest.dropWhile (fun c => isDigit c || c == '.'))

/-- value of `[-]ddd[.ddd]` as an exact rational (what `int()` / `float()` denote); `none` for
    strings Python rejects (two dots, a lone dot). -/
def parseDec (s : List Char) : Option Rat :=
  let (neg, body) := match s with
    | '-' :: r => (true, r)
    | r => (false, r)
  let ip := body.takeWhile isDigit
  let rest := body.dropWhile isDigit
  let mk (ip fp : List Char) : Option Rat :=
    if ip.isEmpty && fp.isEmpty then none
    else
      let v : Rat := (digitsVal ip : Rat) + (digitsVal fp : Rat) / ((10 ^ fp.length : Nat) : Rat)
      some (if neg then -v else v)
  match rest with
  | [] => mk ip []
  | '.' :: fp => if fp.all isDigit then mk ip fp else none
  | _ => none

/-- `analyze_number` on a number lexeme: (value, unit) -/
def analyze (s : List Char) : Option (Rat × List Char) := do
  let (n, u) ← splitUnit s
  let v ← parseDec n
  pure (v, u)

def ratStr (q : Rat) : String := toString q.num ++ "/" ++ toString q.den

end Lessm.Num
