/-
  Model of the CSS formatter (import-free).

    formatter.py  Formatter.format: the fill table per option vector (xminify implies minify; tabs
                  versus int(spaces) spaces), ''.join(...).strip()                      -> `fills`, `format`
    block.py      Block.fmt: "%(identifier)s%(ws)s{%(nl)s%(proplist)s}%(eb)s"; for sub-parsed names
                  (@media, @keyframes) the inner blocks are printed, re-indented by one tab after every
                  line break (`_indent`), `rstrip(tab)`, stripped in minified mode, and wrapped
                                                                                         -> `fmtNode`
    property.py   Property.fmt: "%(tab)s%(property)s:%(ws)s%(style)s%(important)s;%(nl)s", a space after
                  value commas in non-minified mode                                      -> `fmtDecl`
    identifier.py Identifier.fmt: selectors joined by ',' + nl, combinators surrounded by ws, double
                  spaces collapsed                                                       -> `fmtIdent`
    statement.py  Statement.fmt: text + eb
-/
namespace Lessm.Print

structure Opts where
  minify : Bool
  xminify : Bool
  tabs : Bool
  spaces : Nat
deriving Repr, DecidableEq

structure Fills where
  nl : String
  tab : String
  ws : String
  eb : String
deriving Repr, DecidableEq

/-- `Formatter.format`'s fill table -/
def fills (o : Opts) : Fills :=
  let eb := if o.xminify then "" else "\n"
  if o.minify || o.xminify then ⟨"", "", "", eb⟩
  else ⟨"\n", if o.tabs then "\t" else String.ofList (List.replicate o.spaces ' '), " ", eb⟩

/-- a piece of a selector: literal text (may contain descendant spaces) or a combinator `>` `+` `~` -/
inductive SelPiece
  | text (s : String)
  | comb (c : String)
deriving Repr, DecidableEq

/-- a piece of a value: a token, a separating space, or a list comma -/
inductive ValPiece
  | tok (s : String)
  | sp
  | comma
deriving Repr, DecidableEq

structure Decl where
  prop : String
  value : List ValPiece
  important : Bool
deriving Repr, DecidableEq

inductive Node
  | rule (sels : List (List SelPiece)) (decls : List Decl)
  | nest (prelude : String) (inner : List Node)        -- @media …, @keyframes …: printed nested
  | stmt (text : String)
deriving Repr

def fmtSel (f : Fills) : List SelPiece → String
  | [] => ""
  | .text s :: r => s ++ fmtSel f r
  | .comb c :: r => f.ws ++ c ++ f.ws ++ fmtSel f r

def joinWith (sep : String) : List String → String
  | [] => ""
  | [a] => a
  | a :: r => a ++ sep ++ joinWith sep r

def fmtIdent (f : Fills) (sels : List (List SelPiece)) : String :=
  joinWith ("," ++ f.nl) (sels.map (fmtSel f))

def fmtValue (f : Fills) : List ValPiece → String
  | [] => ""
  | .tok s :: r => s ++ fmtValue f r
  | .sp :: r => " " ++ fmtValue f r
  | .comma :: r => (if f.nl.isEmpty then "," else "," ++ f.ws) ++ fmtValue f r

def fmtDecl (f : Fills) (d : Decl) : String :=
  f.tab ++ d.prop ++ ":" ++ f.ws ++ fmtValue f d.value ++ (if d.important then " !important" else "") ++ ";" ++ f.nl

def fmtDecls (f : Fills) : List Decl → String
  | [] => ""
  | d :: r => fmtDecl f d ++ fmtDecls f r

/-- `Block._indent`: every line break outside a string literal is followed by one `tab` -/
def indentChars (tab : List Char) : Option Char → List Char → List Char
  | _, [] => []
  | some q, c :: r => c :: indentChars tab (if c == q then none else some q) r
  | none, c :: r =>
      if c == '"' || c == '\'' then c :: indentChars tab (some c) r
      else if c == '\n' then c :: (tab ++ indentChars tab none r)
      else c :: indentChars tab none r

def indent (f : Fills) (s : String) : String :=
  if f.nl.isEmpty || f.tab.isEmpty then s else String.ofList (indentChars f.tab.toList none s.toList)

/-- `str.rstrip(tab)`: strip trailing characters that occur in `tab` -/
def rstripChars (chars : List Char) (s : List Char) : List Char :=
  (s.reverse.dropWhile (fun c => chars.contains c)).reverse

def isWs (c : Char) : Bool := c == ' ' || c == '\n' || c == '\t' || c == '\r' || c == '\x0b' || c == '\x0c'

def strip (s : String) : String :=
  String.ofList (((s.toList.dropWhile isWs).reverse.dropWhile isWs).reverse)

mutual
def fmtNode (f : Fills) : Node → String
  | .rule sels decls =>
      if decls.isEmpty then ""
      else fmtIdent f sels ++ f.ws ++ "{" ++ f.nl ++ fmtDecls f decls ++ "}" ++ f.eb
  | .nest prelude inner =>
      if inner.isEmpty then "" else
      let body := fmtNodes f inner
      let body := String.ofList (rstripChars f.tab.toList (indent f body).toList)
      let body := if f.nl.isEmpty then strip body else body
      prelude ++ f.ws ++ "{" ++ f.nl ++ f.tab ++ body ++ "}" ++ f.eb
  | .stmt t => t ++ f.eb
def fmtNodes (f : Fills) : List Node → String
  | [] => ""
  | n :: r => fmtNode f n ++ fmtNodes f r
end

/-- `Formatter.format` -/
def format (o : Opts) (sheet : List Node) : String := strip (fmtNodes (fills o) sheet)

end Lessm.Print
