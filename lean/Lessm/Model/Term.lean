/-
  Models of the two substitution mechanisms whose termination rests on a counter (import-free):

  A. node.py `Node.process` (substitute-until-nothing-changes) with the bounds of fix 8e2a4dc:
       * scope.process_depth (nesting of evaluations) must not exceed MAX_NESTING = 128;
       * the number of rounds that replace variables must not exceed 2 * (number of variables known to
         the scope, all levels) + 4;
     past either bound SyntaxError('Recursive variable definition') is raised.
     A token is a literal, a variable reference or a node (expression, call, interpolated string) whose
     `parse` evaluates its own tokens by a nested `process` and yields text.

  B. parser.py `p_statement_import`: a LESS import is parsed by a fresh parser of level importlvl + 1 sharing
     the scope and (fix 5145613) the error register; a parser of level > 8 raises ImportError at its first
     import statement, which aborts that file; the importing parser registers the error and goes on.

  (The third mechanism, the mixin depth limit of deferred.py, is part of Lessm.Mixin.evalItems.)
-/
namespace Lessm.Term

/-! ### A. variables -/

inductive Tok
  | lit (s : String)
  | ref (n : String)
  | node (ts : List Tok)
deriving Repr

/-- all variable definitions the scope knows, innermost level first (shadowed ones included) -/
abbrev Env := List (String × List Tok)

inductive Err
  | unknown (n : String)          -- SyntaxError('Unknown variable ...')
  | recursive                     -- SyntaxError('Recursive variable definition')
deriving Repr, DecidableEq

def lookup : Env → String → Option (List Tok)
  | [], _ => none
  | (k, v) :: r, n => if k == n then some v else lookup r n

def maxNesting : Nat := 128

def roundLimit (env : Env) : Nat := 2 * env.length + 4

def hasRef : List Tok → Bool
  | [] => false
  | .ref _ :: _ => true
  | _ :: r => hasRef r

/-- text of a token list without references and nodes -/
def texts : List Tok → List String
  | [] => []
  | .lit s :: r => s :: texts r
  | _ :: r => texts r

/-- one round of `replace_variables` -/
def substOnce (env : Env) : List Tok → Except Err (List Tok)
  | [] => .ok []
  | .ref n :: r =>
      match lookup env n with
      | none => .error (.unknown n)
      | some v => do
          let r' ← substOnce env r
          pure (v ++ r')
  | t :: r => do
      let r' ← substOnce env r
      pure (t :: r')

/-- `[t.parse(scope) if hasattr(t, 'parse') else t for t in tokens]`: every node is evaluated (by the nested
    `process` handed in as `inner`) and becomes text -/
def parseNodes (inner : List Tok → Except Err (List String)) : List Tok → Except Err (List Tok)
  | [] => .ok []
  | .node ts :: r => do
      let v ← inner ts
      let r' ← parseNodes inner r
      pure (.lit (String.join v) :: r')
  | t :: r => do
      let r' ← parseNodes inner r
      pure (t :: r')

/-- the `while True` loop with `left` substitution rounds still allowed -/
def loop (inner : List Tok → Except Err (List String)) (env : Env) : Nat → List Tok → Except Err (List String)
  | left, ts =>
      match parseNodes inner ts with
      | .error e => .error e
      | .ok ts1 =>
          if hasRef ts1 then
            match left with
            | 0 => .error .recursive
            | left' + 1 =>
                match substOnce env ts1 with
                | .error e => .error e
                | .ok ts2 => loop inner env left' ts2
          else .ok (texts ts1)

/-- `Node.process` with `budget` nesting levels still allowed (128 at the outermost call) -/
def process (env : Env) : Nat → List Tok → Except Err (List String)
  | 0, _ => .error .recursive
  | budget + 1, ts => loop (process env budget) env (roundLimit env) ts

/-- what the compiler does with a value -/
def eval (env : Env) (ts : List Tok) : Except Err (List String) := process env maxNesting ts

/-! ### B. imports -/

inductive Unit'
  | rule (text : String)
  | imp (file : String)
deriving Repr, DecidableEq

abbrev Files := List (String × List Unit')

def findFileU : Files → String → Option (List Unit')
  | [], _ => none
  | (k, v) :: r, n => if k == n then some v else findFileU r n

inductive IErr
  | tooDeep                         -- 'Recrusive import level too deep > 8 (circular import ?)'
  | missing (file : String)         -- "Cannot import '...', file not found"
deriving Repr, DecidableEq

/-- result of parsing one file: `none` = aborted by ImportError (its rules are lost); the register -/
abbrev LoadRes := Option (List String) × List IErr

/-- a parser of level `9 - budget` working through the units of a file -/
def loadUnits (files : Files) : Nat → List Unit' → LoadRes
  | _, [] => (some [], [])
  | b, .rule t :: rest =>
      match loadUnits files b rest with
      | (some out, errs) => (some (t :: out), errs)
      | (none, errs) => (none, errs)
  | 0, .imp _ :: _ => (none, [])                    -- importlvl > 8: raise ImportError
  | b + 1, .imp f :: rest =>
      let (here, errs1) : List String × List IErr :=
        match findFileU files f with
        | none => ([], [.missing f])
        | some units =>
            match loadUnits files b units with
            | (some out, e) => (out, e)
            | (none, e) => ([], e ++ [.tooDeep])    -- caught by this parser, registered, parsing goes on
      match loadUnits files (b + 1) rest with
      | (some out, errs2) => (some (here ++ out), errs1 ++ errs2)
      | (none, errs2) => (none, errs1 ++ errs2)

/-- the outermost parser has level 0 -/
def compileFile (files : Files) (root : String) : LoadRes :=
  match findFileU files root with
  | none => (none, [.missing root])
  | some units => loadUnits files 9 units

end Lessm.Term
