/-
  Model of the sign of a negated variable (import-free).

    parser.py   p_variable_neg: `-@a` is `[Sign('-'), '@a']`; `utility.Sign` is a `str` subclass equal to '-'
                everywhere else (binary minus, printing)                                  -> `Tok.sign`
    utility.py  fold_signs: after every substitution round of `Node.process` the resolved, flat token list is
                folded: two adjacent signs cancel; a sign followed by a string matching `-\.?[0-9]` (a negative
                number) is replaced by that string without its '-'                        -> `foldSigns`
    node.py     Node.process returns `utility.fold_signs(tokens)`

  The loop keeps an output list `out`; here it is kept reversed (`acc`, last element first).
-/
namespace Lessm.Sign

inductive Tok
  | sign                    -- utility.Sign('-')
  | txt (s : String)        -- any other resolved token (a plain '-' is `txt "-"`)
deriving Repr, DecidableEq

def isDigit (c : Char) : Bool := '0' ≤ c && c ≤ '9'

/-- `re.match(r'-\.?[0-9]', t)` -/
def isNegNum (s : String) : Bool :=
  match s.toList with
  | '-' :: '.' :: d :: _ => isDigit d
  | '-' :: d :: _ => isDigit d
  | _ => false

/-- `t[1:]` -/
def dropSign (s : String) : String := String.ofList (s.toList.drop 1)

/-- one iteration of the loop of `fold_signs`; `acc` is `out` reversed -/
def stepFold (acc : List Tok) (t : Tok) : List Tok :=
  match acc, t with
  | .sign :: rest, .sign => rest                                             -- out.pop()
  | .sign :: rest, .txt s => if isNegNum s then .txt (dropSign s) :: rest     -- out[-1] = t[1:]
                             else .txt s :: .sign :: rest
  | acc, t => t :: acc                                                        -- out.append(t)

def foldFrom (acc : List Tok) (ts : List Tok) : List Tok := (ts.foldl stepFold acc).reverse

/-- `utility.fold_signs` -/
def foldSigns (ts : List Tok) : List Tok := foldFrom [] ts

/-! ### what the folded list means -/

/-- a signed reading of `sign* txt` : (negated?, text); `none` for every other shape -/
def reading : List Tok → Option (Bool × String)
  | [.txt s] => some (false, s)
  | .sign :: r => (reading r).map (fun p => (!p.1, p.2))
  | _ => none

/-- the number a reading denotes, when its text is a negative number: the sign of the text is one more negation -/
def normal (p : Bool × String) : Bool × String := if isNegNum p.2 then (!p.1, dropSign p.2) else p

/-- printed text (signs and tokens joined, as `Property.fmt` joins them) -/
def text : List Tok → String
  | [] => ""
  | .sign :: r => "-" ++ text r
  | .txt s :: r => s ++ text r

end Lessm.Sign
