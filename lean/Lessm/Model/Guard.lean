/-
  Model of mixin guards (import-free).

    parser.py  p_mixin_guard_cond_list(_aux), p_mixin_guard_cond(_rev), p_mixin_guard_cmp
               -> `toTokens` : the token list the grammar builds  [cond, ',', cond, 'and', cond …]
    utility.reverse_guard      -> `reverseGuard`
    Expression.operate (comparison part) -> `Cmp.eval`
    Mixin.parse_guards         -> `parseGuards` (the loop with its `chain` flag)
    Deferred.parse, loop over same-named mixins -> `firstMatch`
-/
namespace Lessm.Guard

/-- comparison spellings: `>` `<` `=` `>=` `=<` and the internal `!=` produced by `not (a = b)` -/
inductive Cmp | gt | lt | eq | ge | le | ne
deriving DecidableEq, Repr

/-- `Expression.operate` restricted to comparisons -/
def Cmp.eval : Cmp → Rat → Rat → Bool
  | .gt, a, b => decide (a > b)
  | .lt, a, b => decide (a < b)
  | .eq, a, b => decide (a = b)
  | .ge, a, b => decide (a ≥ b)
  | .le, a, b => decide (a ≤ b)
  | .ne, a, b => decide (a ≠ b)

/-- `utility.reverse_guard`: the table `{'<': '>=', '>': '=<', '>=': '<', '=<': '>', '=': '!='}`;
    anything else is left alone -/
def reverseGuard : Cmp → Cmp
  | .lt => .ge | .gt => .le | .ge => .lt | .le => .gt | .eq => .ne | .ne => .ne

/-- an operand: a literal number or the i-th parameter of the mixin -/
inductive Arg | lit (q : Rat) | param (i : Nat)
deriving Repr

def Arg.val (ρ : Nat → Rat) : Arg → Rat
  | .lit q => q
  | .param i => ρ i

/-- one written condition `[not] (a cmp b)` -/
structure Cond where
  neg : Bool
  a : Arg
  cmp : Cmp
  b : Arg
deriving Repr

/-- a guard as written: comma separated list of `and`-chains -/
abbrev Guard := List (List Cond)

/-- tokens of the list the grammar hands to `Mixin` -/
inductive GTok
  | cond (a : Arg) (c : Cmp) (b : Arg)
  | comma
  | and
deriving Repr

/-- `p_mixin_guard_cond` / `p_mixin_guard_cond_rev`: a negated condition is stored reversed -/
def condTok (c : Cond) : GTok := .cond c.a (if c.neg then reverseGuard c.cmp else c.cmp) c.b

def chainToks : List Cond → List GTok
  | [] => []
  | [c] => [condTok c]
  | c :: cs => condTok c :: .and :: chainToks cs

/-- `p_mixin_guard_cond_list_aux`: left-recursive list `cond (sep cond)*` -/
def toTokens : Guard → List GTok
  | [] => []
  | [ch] => chainToks ch
  | ch :: rest => chainToks ch ++ .comma :: toTokens rest

/-- `Mixin.parse_guards` (loop state = the `chain` flag) -/
def parseGuardsFrom (ρ : Nat → Rat) : Bool → List GTok → Bool
  | chain, [] => chain
  | chain, .cond a c b :: ts => parseGuardsFrom ρ (chain && c.eval (a.val ρ) (b.val ρ)) ts
  | chain, .comma :: ts => if chain then true else parseGuardsFrom ρ true ts
  | chain, .and :: ts => parseGuardsFrom ρ chain ts

def parseGuards (ρ : Nat → Rat) (ts : List GTok) : Bool := parseGuardsFrom ρ true ts

/-- the model of the implementation: tokens built by the grammar, evaluated by `parse_guards` -/
def passes (g : Guard) (ρ : Nat → Rat) : Bool := parseGuards ρ (toTokens g)

/-! ### specification -/

def Cmp.holds : Cmp → Rat → Rat → Prop
  | .gt, a, b => a > b
  | .lt, a, b => a < b
  | .eq, a, b => a = b
  | .ge, a, b => a ≥ b
  | .le, a, b => a ≤ b
  | .ne, a, b => a ≠ b

/-- truth of one written condition: the comparison, negated when `not` is written -/
def condHolds (ρ : Nat → Rat) (c : Cond) : Bool :=
  let r := c.cmp.eval (c.a.val ρ) (c.b.val ρ)
  if c.neg then !r else r

/-- the guard holds when every condition of at least one chain holds -/
def holds (g : Guard) (ρ : Nat → Rat) : Bool := g.any (fun ch => ch.all (condHolds ρ))

/-- `Deferred.parse`: same-named mixins are tried in definition order, the first whose guard
    passes (and whose body is non-empty) is applied -/
def firstMatch {β} (ms : List (Guard × β)) (ρ : Nat → Rat) : Option β :=
  match ms with
  | [] => none
  | (g, b) :: rest => if passes g ρ then some b else firstMatch rest ρ

end Lessm.Guard
