/-
  The level function of the arithmetic operators, read off the *regenerated* precedence
  declaration of the working tree (Lessm.Gen.precedence), and the text front end used by the driver.
-/
import Lessm.Model.Expr
import Lessm.Model.Num
import Lessm.Gen.Words

namespace Lessm.Expr

def opName : Op → String
  | .add => "+" | .sub => "-" | .mul => "*" | .div => "/"

/-- yacc's reading of a `precedence` declaration: row i (1-based) gives level i to its tokens -/
def precLookup (tbl : List (String × List String)) (s : String) : Option (String × Nat) :=
  let rec go : List (String × List String) → Nat → Option (String × Nat)
    | [], _ => none
    | (assoc, toks) :: rest, i => if toks.contains s then some (assoc, i) else go rest (i + 1)
  go tbl 1

/-- the level function of the *regenerated* precedence table of the working tree -/
def genLvl (o : Op) : Nat :=
  match precLookup Gen.precedence (opName o) with
  | some (_, l) => l
  | none => 0


/-- driver front end: a token of the line protocol -/
def tokOfString (s : String) : Option (Tok Operand) :=
  match s with
  | "+" => some (.op .add) | "-" => some (.op .sub) | "*" => some (.op .mul) | "/" => some (.op .div)
  | "(" => some .lp | "-(" => some .neglp | ")" => some .rp
  | _ => (Num.analyze s.toList).map (fun p => .num ⟨p.1, String.ofList p.2⟩)

def evalText (ws : List String) : Option Outcome := do
  let ts ← ws.mapM tokOfString
  let e ← parse genLvl ts
  pure (evalE e)

end Lessm.Expr
