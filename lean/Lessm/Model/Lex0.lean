/-
  Character-level model of the lexer (import-free apart from the regex matcher): ply.lex's token loop over the rules of
  lesscpy/lessc/lexer.py.

    * the rules (regular expressions, their order, the state they belong to) are NOT written here: they are parameters,
      instantiated in Main.lean / the proofs with `Lessm.Gen.lexRules`, which harness/extract.py regenerates from the lexer object
      of the source tree on every run;
    * ply.lex: in state `st` the rules of `st` are tried in order, then (all states are inclusive) those of INITIAL; the first rule that
      matches at the current position wins (not the longest); no rule → a character of `literals` is a token of its own type;
      otherwise t_error raises;  token.lineno is the lexer's line counter *before* the rule's function runs;
    * the rule functions (push/pop of states, the classification of identifiers, value rewriting, line counting, the
      in_property_decl flag) are modelled by hand in `action`.
-/
import Lessm.Model.Regex
namespace Lessm.Lex0
open Lessm.Rx

structure Rule where
  fn : String          -- name of the rule function, e.g. "t_iselector_t_ws"
  type : String        -- token type, e.g. "t_ws"
  re : Re
deriving Repr

structure Tables where
  rules : List (String × List Rule)        -- per lexer state, in ply's order
  literals : List Char
  reserved : List (String × String)
  properties : List String
  elements : List String

structure LState where
  cur : String := "INITIAL"
  stack : List String := []
  inProp : Bool := false
  lineno : Nat := 1
deriving Repr, DecidableEq

structure Tok where
  type : String
  value : String
  line : Nat
  lexeme : String          -- the characters consumed (value may differ: blanks, `!important`)
deriving Repr, DecidableEq

def push (st : LState) (s : String) : LState := { st with stack := st.cur :: st.stack, cur := s }
def pop (st : LState) : LState :=
  match st.stack with
  | s :: r => { st with cur := s, stack := r }
  | [] => st                                     -- ply raises IndexError; the callers in lexer.py guard against it

def countNl (cs : List Char) : Nat := (cs.filter (· == '\n')).length

def isHex (c : Char) : Bool := isDigit c || ('a' ≤ lower c ∧ lower c ≤ 'f')

def lowerStr (s : String) : String := String.ofList (s.toList.map lower)

def stripWs (cs : List Char) : List Char :=
  ((cs.dropWhile isSpace).reverse.dropWhile isSpace).reverse

/-- `t_css_ident`: the type of an identifier-like lexeme and the effect on the lexer state -/
def classifyIdent (tb : Tables) (st : LState) (v : String) : String × LState :=
  match v.toList with
  | [] => ("css_ident", st)
  | c :: rest =>
    if c == '.' then ("css_class", if st.cur != "iselector" then push st "iselector" else st)
    else if c == '#' then
      if (rest.length == 3 || rest.length == 6) && rest.all isHex then ("css_color", st) else ("css_id", st)
    else if v == "when" then ("less_when", st)
    else if v == "and" then ("less_and", st)
    else if v == "not" then ("less_not", st)
    else if v == "from" || v == "to" then ("css_keyframe_selector", st)
    else if tb.properties.contains v then ("css_property", { st with inProp := true })
    else if (tb.elements.contains v || tb.elements.contains (lowerStr v)) && !st.inProp then ("css_dom", st)
    else if c == '-' && rest.head? == some '-' then ("css_user_property", { st with inProp := true })
    else if c == '-' then ("css_vendor_property", { st with inProp := true })
    else ("css_ident", st)

/-- the rule functions: (type, value, emitted?, new lexer state) -/
def action (tb : Tables) (st : LState) (r : Rule) (lexeme : List Char) : String × String × Bool × LState :=
  let v := String.ofList lexeme
  let nl := countNl lexeme
  match r.fn with
  | "t_t_bopen" | "t_t_comma" | "t_t_semicolon" => (r.type, v, true, { st with inProp := false })
  | "t_css_ident" =>
      let v' := String.ofList (stripWs lexeme)
      let (ty, st') := classifyIdent tb st v'
      (ty, v', true, st')
  | "t_iselector_t_eclose" =>
      -- the quote that ends `~".col-@{i}"`: leaves the selector state and the escaped-string state below it
      let st1 := pop st
      (r.type, v, true, if st1.cur == "escapequotes" || st1.cur == "escapeapostrophe" then pop st1 else st1)
  | "t_iselector_t_colon" | "t_mediaquery_t_bopen" | "t_import_t_semicolon" | "t_parn_t_pclose"
  | "t_escapequotes_t_eclose" | "t_escapeapostrophe_t_eclose" | "t_istringquotes_t_isclose" | "t_istringapostrophe_t_isclose" =>
      (r.type, v, true, pop st)
  | "t_iselector_t_ws" => (r.type, " ", true, pop st)
  | "t_iselector_t_bopen" => (r.type, v, true, { (pop st) with inProp := false })
  | "t_mediaquery_t_semicolon" =>
      let st1 := pop st
      (r.type, v, true, if st1.cur == "import" then pop st1 else st1)
  | "t_import_css_media_type" => (r.type, v, true, push st "mediaquery")
  | "t_less_variable" =>
      match tb.reserved.find? (·.1 == lowerStr v) with
      | some (_, ty) =>
          (ty, v, true, if ty == "css_media" then push st "mediaquery" else if ty == "css_import" then push st "import" else st)
      | none => (r.type, v, true, st)
  | "t_newline" =>
      let st1 := { st with lineno := st.lineno + nl }
      ("t_ws", " ", true, if st1.cur == "iselector" then pop st1 else st1)
  | "t_css_comment" => (r.type, v, false, { st with lineno := st.lineno + nl })
  | "t_less_comment" => (r.type, v, false, st)
  | "t_css_important" => (r.type, "!important", true, st)
  | "t_t_ws" => (r.type, " ", true, st)
  | "t_t_popen" | "t_less_open_format" => (r.type, v, true, push st "parn")
  | "t_t_eopen" =>
      (r.type, v, true, if lexeme.getD 1 ' ' == '"' then push st "escapequotes" else push st "escapeapostrophe")
  | "t_css_string" | "t_istringapostrophe_css_string" | "t_istringquotes_css_string" =>
      (r.type, v, true, { st with lineno := st.lineno + nl })
  | "t_t_isopen" =>
      (r.type, v, true, if lexeme.head? == some '"' then push st "istringquotes" else push st "istringapostrophe")
  | _ => (r.type, v, true, st)

def rulesOf (tb : Tables) (state : String) : List Rule :=
  let own := match tb.rules.find? (·.1 == state) with | some (_, rs) => rs | none => []
  let ini := match tb.rules.find? (·.1 == "INITIAL") with | some (_, rs) => rs | none => []
  if state == "INITIAL" then ini else own ++ ini

/-- the first rule that matches at the head of `s`, with the rest of the input -/
def firstMatch : List Rule → List Char → Option (Rule × List Char)
  | [], _ => none
  | r :: rs, s =>
      match r.re.matchPrefix s with
      | some rest => some (r, rest)
      | none => firstMatch rs s

inductive Step
  | tok (t : Tok) (emit : Bool) (st : LState) (rest : List Char)   -- emit = false: a comment, consumed but not handed out
  | illegal (c : Char) (line : Nat)                -- t_error
  | stuck                                          -- a rule matched without consuming (ply rejects such rules at build time)

/-- one turn of ply's `token()` loop at a non-empty input -/
def step (tb : Tables) (st : LState) (s : List Char) : Step :=
  match firstMatch (rulesOf tb st.cur) s with
  | some (r, rest) =>
      if rest.length < s.length then
        let lexeme := s.take (s.length - rest.length)
        let (ty, v, emit, st') := action tb st r lexeme
        .tok ⟨ty, v, st.lineno, String.ofList lexeme⟩ emit st' rest
      else .stuck
  | none =>
      match s with
      | c :: rest =>
          if tb.literals.contains c then .tok ⟨String.singleton c, String.singleton c, st.lineno, String.singleton c⟩ true st rest
          else .illegal c st.lineno
      | [] => .stuck

/-- an item of the raw stream: the token, whether it is handed out (comments are not), the lexer state after it -/
abbrev Item := Tok × Bool × LState

inductive Res
  | ok (toks : List Item)
  | illegal (toks : List Item) (c : Char) (line : Nat)
  | stuck (toks : List Item)
deriving Repr

def Res.items : Res → List Item
  | .ok ts => ts
  | .illegal ts _ _ => ts
  | .stuck ts => ts

def Res.cons (t : Item) : Res → Res
  | .ok ts => .ok (t :: ts)
  | .illegal ts c l => .illegal (t :: ts) c l
  | .stuck ts => .stuck (t :: ts)

/-- the whole raw token stream of a text -/
def lexAll (tb : Tables) (st : LState) (s : List Char) : Res :=
  match hs : s with
  | [] => .ok []
  | _ :: _ =>
    match step tb st s with
    | .tok t emit st' rest => if hl : rest.length < s.length then (lexAll tb st' rest).cons (t, emit, st') else .stuck []
    | .illegal c l => .illegal [] c l
    | .stuck => .stuck []
termination_by s.length
decreasing_by all_goals (subst hs; simpa using hl)

end Lessm.Lex0

namespace Lessm.Lex0

/-! ### the token stream the parser sees: ply's loop under `LessLexer.token` (blank filter, `;` injection and its feedback) -/

inductive FRes
  | ok (toks : List Tok)
  | illegal (toks : List Tok) (c : Char) (line : Nat)
  | stuck (toks : List Tok)
deriving Repr

def FRes.prepend (ts : List Tok) : FRes → FRes
  | .ok r => .ok (ts ++ r)
  | .illegal r c l => .illegal (ts ++ r) c l
  | .stuck r => .stuck (ts ++ r)

/-- `LessLexer.token` called until the input ends. `last` is the type of the last token handed out (none = `pretok`). -/
def front (tb : Tables) (sig : List String) (last : Option String) (st : LState) (s : List Char) : FRes :=
  match hs : s with
  | [] => .ok []
  | _ :: _ =>
    match step tb st s with
    | .tok t emit st' rest =>
        if hl : rest.length < s.length then
          if !emit then front tb sig last st' rest
          else if t.type == "t_ws" && (match last with | none => true | some l => !sig.contains l) then
            front tb sig last st' rest
          else if t.type == "t_bclose" && (match last with
                | none => false
                | some l => l != "t_bopen" && l != "t_bclose" && l != "t_semicolon")
              && !(st'.cur == "escapequotes" || st'.cur == "escapeapostrophe") then
            -- a ';' is handed out first (it stays `last`), the '}' is held back; in_property_decl is reset
            (front tb sig (some "t_semicolon") { st' with inProp := false } rest).prepend
              [⟨"t_semicolon", ";", t.line, ""⟩, t]
          else (front tb sig (some t.type) st' rest).prepend [t]
        else .stuck []
    | .illegal c l => .illegal [] c l
    | .stuck => .stuck []
termination_by s.length
decreasing_by all_goals (subst hs; simpa using hl)

def frontEnd (tb : Tables) (sig : List String) (text : String) : FRes := front tb sig none {} text.toList

end Lessm.Lex0
