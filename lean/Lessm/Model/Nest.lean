/-
  Model of rule nesting (import-free): the two passes of the compiler over a tree of rules.

  Pass G (grammar time): `p_scope_open` pushes a frame at `{`; `p_block_open` parses the selector
  against `scope.scopename[-1]` (the innermost frame whose `__current__` is set) and then sets
  `__current__` of the new frame; `p_block` pops it.                       -> `passG`, `scopename`
  Pass E (`post_parse`): `Block.parse` keeps the non-block items as the rule's own declarations and
  the blocks as inner rules; `Block.fmt` prints the rule (only if it has declarations) and then the
  inner rules in order; a block with neither is dropped.                   -> `passE`
-/
import Lessm.Model.Selector
namespace Lessm.Nest
open Lessm.Sel

structure Decl where
  prop : String
  value : String
deriving Repr, DecidableEq

/-- source tree: a declaration, or a rule with its selector tokens and body -/
inductive Item
  | decl (d : Decl)
  | rule (sel : List Tok) (body : List Item)
deriving Repr

/-- after pass G: every rule carries its parsed (rooted) selector list -/
inductive NItem
  | decl (d : Decl)
  | rule (parsed : List Sel) (body : List NItem)
deriving Repr

structure OutRule where
  sels : List Sel
  decls : List Decl
deriving Repr, DecidableEq

/-- the scope stack, innermost frame first; a frame is its `__current__` (parsed selector list) if set -/
abbrev Stack := List (Option (List Sel))

/-- `Scope.scopename[-1]`: the innermost frame whose current is set -/
def scopename : Stack → Option (List Sel)
  | [] => none
  | some c :: _ => some c
  | none :: rest => scopename rest

mutual
def passG (st : Stack) : Item → NItem
  | .decl d => .decl d
  | .rule sel body =>
      -- brace_open: push an empty frame; p_block_open: parse against scopename, then set current
      let pushed : Stack := none :: st
      let me := identParse (scopename pushed) sel
      let st' : Stack := some me :: st
      .rule me (passGList st' body)
      -- p_block: pop (the stack is a value here, nothing to undo)
def passGList (st : Stack) : List Item → List NItem
  | [] => []
  | i :: is => passG st i :: passGList st is
end

def ownDecls : List NItem → List Decl
  | [] => []
  | .decl d :: r => d :: ownDecls r
  | .rule _ _ :: r => ownDecls r

mutual
def passE : NItem → List OutRule
  | .decl _ => []
  | .rule parsed body =>
      (if ownDecls body = [] then [] else [⟨parsed, ownDecls body⟩]) ++ passEList body
def passEList : List NItem → List OutRule
  | [] => []
  | i :: is => passE i ++ passEList is
end

/-- the compiler on one top-level item: the parser pushes the global frame, then both passes run -/
def compile (t : Item) : List OutRule := passE (passG [none] t)
def compileSheet (ts : List Item) : List OutRule := passEList (passGList [none] ts)

/-! ### specification -/

def srcDecls : List Item → List Decl
  | [] => []
  | .decl d :: r => d :: srcDecls r
  | .rule _ _ :: r => srcDecls r

mutual
/-- flattening as a plain recursion: a rule under parent selector list `parent` yields itself (if it
    has declarations) with the combined selectors, followed by its nested rules, depth first -/
def flat (parent : Option (List Sel)) : Item → List OutRule
  | .decl _ => []
  | .rule sel body =>
      let me := identParse parent sel
      (if srcDecls body = [] then [] else [⟨me, srcDecls body⟩]) ++ flatList (some me) body
def flatList (parent : Option (List Sel)) : List Item → List OutRule
  | [] => []
  | i :: is => flat parent i ++ flatList parent is
end

mutual
/-- the declaration lists of the source rules that have declarations, in depth-first source order -/
def preorderDecls : Item → List (List Decl)
  | .decl _ => []
  | .rule _ body => (if srcDecls body = [] then [] else [srcDecls body]) ++ preorderDeclsList body
def preorderDeclsList : List Item → List (List Decl)
  | [] => []
  | i :: is => preorderDecls i ++ preorderDeclsList is
end

end Lessm.Nest
