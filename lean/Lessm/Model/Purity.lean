/-
  Model of what one compilation shares with other compilations (import-free).

    lesscpy/__init__.py compile      a fresh LessParser (fresh lexer, fresh Scope) per call, nothing kept afterwards
    parser.py LessParser.__init__    ply.yacc.yacc(module=self, tabmodule='yacctab', optimize=True,
                                     outputdir=tempfile.gettempdir()):
        - the table module looked for is `lesscpy.lessc.yacctab` (PLY prefixes the package of the grammar module);
          it is *imported*, i.e. searched in the package directory, never in the temporary directory;
        - if it can be imported, has the current table version and (optimize or the signature matches) its tables are used;
        - otherwise the tables are generated from the grammar and written to  <outputdir>/yacctab.py  (open 'w', write, close;
          an IOError is only a warning);
        - the file in the temporary directory is therefore written by every construction and read by none.
  The rest of a compilation is a function `run` of the tables, the source text and the options.
-/
namespace Lessm.Pure

structure Tab where
  version : Nat
  sig : Nat
  tables : Nat
deriving DecidableEq, Repr

/-- `ply.yacc.yacc`: the tables the new parser works with, and whether the table file is (re)written -/
def yaccTables (curVersion : Nat) (optimize : Bool) (sig gen : Nat) : Option Tab → Nat × Bool
  | some t => if t.version = curVersion ∧ (optimize = true ∨ t.sig = sig) then (t.tables, false) else (gen, true)
  | none => (gen, true)

/-- what a process can do next; any interleaving of the steps of several processes is a schedule -/
inductive Step
  | construct                          -- LessParser(): look for the package table module, decide
  | trunc                              -- open(<tmp>/yacctab.py, 'w')
  | write (chunk : String)             -- part of the table text reaches the file
  | compile (src : String) (opt : Nat) -- parse and format with the parser constructed last
  | crash                              -- the process dies (a crash point): nothing more happens in it
deriving Repr

structure Proc where
  tables : Option Nat := none
  dead : Bool := false
deriving Repr

structure Sys (Out : Type) where
  tmp : Option String                       -- bytes of <tmp>/yacctab.py; none = no such file
  procs : Nat → Proc
  out : List (Nat × String × Nat × Out)     -- (pid, source, options, CSS) in order of completion

structure Config where
  curVersion : Nat
  optimize : Bool
  sig : Nat
  gen : Nat                                 -- the tables the grammar of the source tree generates
  pkg : Option Tab                          -- lesscpy/lessc/yacctab.py, if importable

def setProc (f : Nat → Proc) (pid : Nat) (p : Proc) : Nat → Proc := fun i => if i = pid then p else f i

def exec {Out : Type} (cfg : Config) (run : Nat → String → Nat → Out) (s : Sys Out) : Nat × Step → Sys Out
  | (pid, st) =>
    if (s.procs pid).dead then s else
    match st with
    | .construct => { s with procs := setProc s.procs pid { (s.procs pid) with tables := some (yaccTables cfg.curVersion cfg.optimize cfg.sig cfg.gen cfg.pkg).1 } }
    | .trunc => { s with tmp := some "" }
    | .write c => { s with tmp := some ((s.tmp.getD "") ++ c) }
    | .compile src opt =>
        match (s.procs pid).tables with
        | some t => { s with out := s.out ++ [(pid, src, opt, run t src opt)] }
        | none => s
    | .crash => { s with procs := setProc s.procs pid { (s.procs pid) with dead := true } }

def execAll {Out : Type} (cfg : Config) (run : Nat → String → Nat → Out) (s : Sys Out) (sched : List (Nat × Step)) : Sys Out :=
  sched.foldl (exec cfg run) s

def initSys {Out : Type} (tmp : Option String) : Sys Out := { tmp := tmp, procs := fun _ => {}, out := [] }

end Lessm.Pure
