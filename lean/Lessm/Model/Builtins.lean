/-
  Model of the numeric built-ins of lesscpy/plib/call.py and of utility.with_unit /
  utility.away_from_zero_round, over exact rationals.  Import-free.

    Call.round      -> with_unit(int(away_from_zero_round(float(n))), u)
    Call.ceil/floor -> with_unit(int(math.ceil(n) / math.floor(n)), u)
    Call.increment / decrement -> with_unit(n ± 1, u)
    Call.percentage -> with_unit(n * 100, '%')
-/
import Lessm.Model.Num
namespace Lessm.Builtins

/-- `utility.away_from_zero_round(value)`: `copysign(floor(|value| + 0.5), value)` -/
def awayRound (x : Rat) : Int :=
  if x < 0 then -((-x + 1/2).floor) else (x + 1/2).floor

inductive Fn | round | ceil | floor | increment | decrement | percentage
deriving DecidableEq, Repr

def apply : Fn → Rat → Rat
  | .round, x => (awayRound x : Int)
  | .ceil, x => (x.ceil : Int)
  | .floor, x => (x.floor : Int)
  | .increment, x => x + 1
  | .decrement, x => x - 1
  | .percentage, x => x * 100

def unitOf : Fn → List Char → List Char
  | .percentage, _ => ['%']
  | _, u => u

/-- `utility.with_unit`: a zero is printed bare, otherwise number followed by unit -/
def withUnit (x : Rat) (u : List Char) : Rat × List Char := if x = 0 then (0, []) else (x, u)

def call (f : Fn) (x : Rat) (u : List Char) : Rat × List Char := withUnit (apply f x) (unitOf f u)

/-- a built-in applied to a number lexeme -/
def callLexeme (f : Fn) (s : List Char) : Option (Rat × List Char) := do
  let (v, u) ← Num.analyze s
  pure (call f v u)

def fnOfName : String → Option Fn
  | "round" => some .round | "ceil" => some .ceil | "floor" => some .floor
  | "increment" => some .increment | "decrement" => some .decrement | "percentage" => some .percentage
  | _ => none

/-- `Call.parse` fall-through for a name that is no built-in: `name + ''.join(parsed)` where `parsed`
    is the processed token list `( a₁ , a₂ … )` (each argument already evaluated, separators kept) -/
def passThrough (name : String) (parsed : List String) : String := name ++ String.join parsed

/-- token list the grammar builds for `name(a₁, …, aₙ)`: `(`, arguments separated by `,`, `)` -/
def argTokens : List String → List String
  | [] => []
  | [a] => [a]
  | a :: rest => a :: "," :: argTokens rest

def callUnknown (name : String) (evaluatedArgs : List String) : String :=
  passThrough name (["("] ++ argTokens evaluatedArgs ++ [")"])

end Lessm.Builtins
