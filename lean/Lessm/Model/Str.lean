/-
  Model of string literals (import-free): how the lexer scans a quoted string and how an
  interpolated string is evaluated.

    lexer.py  t_css_string  r'"[^"@]*"|\'[^\'@]*\''            a string without '@' is ONE token
              t_t_isopen / t_istring*_css_string r'[^"@]+' / t_istring*_less_variable r'@\{[^@"\}]+\}'
              / t_istring*_t_isclose: an interpolated string is opened, then text runs and `@{name}`
              tokens alternate until the closing quote                        -> `scan`
    parser.py p_string_aux: [quote, parts, quote]; p_string: the token itself
    scope.py  Scope.swap for `@{x}`: the variable's value with its quotes removed (for this use only)
    node.py   Node.process: parts joined                                      -> `evalString`
-/
namespace Lessm.Str

inductive Part
  | text (s : List Char)
  | interp (name : List Char)
deriving Repr, DecidableEq

def nameChar (q : Char) (c : Char) : Bool := c != '@' && c != q && c != '}'
def textChar (q : Char) (c : Char) : Bool := c != '@' && c != q

/-- read `@{name}` after the `@`: `\{[^@q\}]+\}` -/
def scanName (q : Char) : List Char → Option (List Char × List Char)
  | '{' :: r =>
      let n := r.takeWhile (nameChar q)
      match r.dropWhile (nameChar q) with
      | '}' :: r' => if n.isEmpty then none else some (n, r')
      | _ => none
  | _ => none

/-- scan the inside of a string opened with quote `q` (`fuel` ≥ number of characters left) -/
def scan (q : Char) : Nat → List Char → Option (List Part × List Char)
  | 0, _ => none
  | _ + 1, [] => none                                     -- end of input inside a string
  | fuel + 1, c :: r =>
      if c == q then some ([], r)                          -- closing quote
      else if c == '@' then
        match scanName q r with
        | some (n, r') =>
            match scan q fuel r' with
            | some (ps, rest) => some (.interp n :: ps, rest)
            | none => none
        | none => none                                     -- a lone '@' is an illegal character
      else
        let t := (c :: r).takeWhile (textChar q)
        let r' := (c :: r).dropWhile (textChar q)
        match scan q fuel r' with
        | some (ps, rest) => some (.text t :: ps, rest)
        | none => none

/-- the characters a list of parts is written with -/
def renderParts : List Part → List Char
  | [] => []
  | .text s :: r => s ++ renderParts r
  | .interp n :: r => '@' :: '{' :: n ++ '}' :: renderParts r

/-- `utility.destring`: strip quote characters from both ends -/
def destring (s : List Char) : List Char :=
  let isQ (c : Char) : Bool := c == '"' || c == '\''
  ((s.dropWhile isQ).reverse.dropWhile isQ).reverse

/-- evaluation of a string token with environment ρ (value text of each variable): literal text is
    copied, `@{x}` is replaced by the de-quoted value of x; the delimiters are the ones written -/
def evalParts (ρ : List Char → Option (List Char)) : List Part → Option (List Char)
  | [] => some []
  | .text s :: r => (evalParts ρ r).map (s ++ ·)
  | .interp n :: r =>
      match ρ n with
      | some v => (evalParts ρ r).map (destring v ++ ·)
      | none => none

def evalString (ρ : List Char → Option (List Char)) (q : Char) (ps : List Part) : Option (List Char) :=
  (evalParts ρ ps).map (fun b => q :: b ++ [q])

end Lessm.Str
