/-
  Model of mixin definition, lookup, parameter binding and expansion (import-free).

    parser.py   p_mixin / p_open_mixin (definition registered globally by raw name, no unit emitted),
                p_call_mixin (Deferred), p_block (rules registered for use as mixins)
    scope.py    add_mixin / mixins (table keyed by name, list in definition order)      -> `Table`
    mixin.py    parse_args / _parse_arg (zip_longest pairing, defaults, variable arguments resolved
                one level at the call, @arguments), parse_guards, call                   -> `bindParams`, `tryMixin`
    deferred.py parse: candidates in definition order, first whose call yields a body wins; depth
                counter (limit 64) = number of expansions the call is nested in, also through rules
                of an expanded body (scope.mixin_depth, since fix 2444980);
                expansion evaluated in a frame of its own; fall-back to a plain rule of that name
                (`copy_inner`), evaluated in the caller's frame                           -> `evalItems`
    utility.rename  the copied body is re-rooted under the calling rule                  -> `me` is the caller

  Values are token lists as in Lessm.Vars; an argument may also be `@p ± k` (the arithmetic needed for
  guarded recursion), evaluated at the call as Expression.parse does.
-/
import Lessm.Model.Vars
import Lessm.Model.Selector
import Lessm.Model.Guard
import Lessm.Model.Num
namespace Lessm.Mixin
open Lessm.Vars Lessm.Sel

/-- a call argument: a token list, or `@name + k` (k may be negative) -/
inductive Arg
  | val (v : Value)
  | arith (name : String) (k : Int)
deriving Repr, DecidableEq

inductive Item
  | decl (prop : String) (v : Value)
  | rule (sel : List Tok) (body : List Item)
  | call (name : String) (args : List Arg)
deriving Repr

/-- one guard condition `[not] (@param cmp literal)`; the guard is a comma list of and-chains -/
structure GCond where
  neg : Bool
  param : String
  cmp : Guard.Cmp
  lit : Rat
deriving Repr

structure MixinDef where
  params : List (String × Option Value)        -- name, default
  guard : List (List GCond)                     -- [] = no guard
  body : List Item
deriving Repr

inductive Top
  | mdef (name : String) (d : MixinDef)
  | rule (sel : List Tok) (body : List Item)
deriving Repr

structure Table where
  mixins : List (String × MixinDef)             -- definition order
  blocks : List (String × List Item)            -- top-level rules by printed selector
deriving Repr

def buildTable : List Top → Table
  | [] => ⟨[], []⟩
  | .mdef n d :: r => let t := buildTable r; ⟨(n, d) :: t.mixins, t.blocks⟩
  | .rule sel body :: r =>
      let t := buildTable r
      ⟨t.mixins, (String.join sel |>.trimAscii.toString, body) :: t.blocks⟩

def Table.candidates (t : Table) (n : String) : List MixinDef :=
  (t.mixins.filter (·.1 == n)).map (·.2)

def Table.block (t : Table) (n : String) : Option (List Item) :=
  (t.blocks.find? (·.1 == n)).map (·.2)

inductive Err
  | unknownVar (name : String)
  | hang
  | nameError (name : String)       -- depth limit exceeded: `NameError` reported as a compilation error
  | crash                            -- interpreter stack exhausted (RecursionError escapes)
  | notNumeric
deriving Repr, DecidableEq

def liftV {α} : Except Vars.Err α → Except Err α
  | .ok a => .ok a
  | .error (.unknownVar n) => .error (.unknownVar n)
  | .error .hang => .error .hang

def numOf (v : Value) : Option Rat :=
  match v with
  | [.lit s] => (Num.analyze s.toList).map (·.1)
  | _ => none

def unitOf (v : Value) : String :=
  match v with
  | [.lit s] => match Num.analyze s.toList with
    | some (_, u) => String.ofList u
    | none => ""
  | _ => ""

/-- evaluation of an argument at the call: a variable argument is replaced by its value (one level,
    `_parse_arg`), `@p + k` is computed (`Expression.parse`) -/
def evalArg (sc : Scope) : Arg → Except Err Value
  | .val [.ref n] =>
      match lookup sc n with
      | some v => .ok v
      | none => .error (.unknownVar n)
  | .val v => .ok v
  | .arith n k => do
      let v ← liftV (expand sc 64 [.ref n])
      match numOf v with
      | some q =>
          let r := q + (k : Rat)
          -- Expression.with_units: a zero is printed bare, integral results without fraction
          if r = 0 then .ok [.lit "0"]
          else .ok [.lit (toString r.num ++ (if r.den = 1 then "" else "/" ++ toString r.den) ++ unitOf v)]
      | none => .error .notNumeric

/-- `Mixin.parse_args`: pair arguments with parameters; `none` = "Missing argument" (the mixin does
    not apply) -/
def bindParams : List (String × Option Value) → List Value → Option Frame
  | [], _ => some []
  | (p, _) :: ps, a :: as => (bindParams ps as).map (fun f => (p, a) :: f)
  | (p, some d) :: ps, [] => (bindParams ps []).map (fun f => (p, d) :: f)
  | (_, none) :: _, [] => none

def intersperseSp : List Value → Value
  | [] => []
  | [v] => v
  | v :: r => v ++ [.lit " "] ++ intersperseSp r

def condHolds (fr : Frame) (sc : Scope) (c : GCond) : Bool :=
  match (Frame.get fr c.param).bind numOf with
  | some q => let r := c.cmp.eval q c.lit; if c.neg then !r else r
  | none => match (lookup sc c.param).bind numOf with
    | some q => let r := c.cmp.eval q c.lit; if c.neg then !r else r
    | none => false

def guardHolds (fr : Frame) (sc : Scope) (g : List (List GCond)) : Bool :=
  g.isEmpty || g.any (fun ch => ch.all (condHolds fr sc))

/-- the frame of one expansion, if this definition applies to these (evaluated) arguments -/
def tryMixin (sc : Scope) (d : MixinDef) (args : List Value) : Option Frame :=
  match bindParams d.params args with
  | none => none
  | some fr =>
      let fr := fr ++ [("arguments", intersperseSp (if args.isEmpty then fr.map (·.2) else args))]
      if guardHolds fr sc d.guard && !d.body.isEmpty then some fr else none

def firstApplicable (sc : Scope) (args : List Value) : List MixinDef → Option (MixinDef × Frame)
  | [] => none
  | d :: ds => match tryMixin sc d args with
    | some fr => some (d, fr)
    | none => firstApplicable sc args ds

structure OutRule where
  sels : List Sel
  decls : List (String × String)
deriving Repr, DecidableEq

def valText (v : Value) : String := String.join (litText v)

/-- `gas` bounds the total nesting of evaluations (the interpreter stack); `depth` is the counter of
    Deferred.parse: the number of expansions the call is nested in (a nested rule of an expanded body
    keeps it). -/
def evalItems (tbl : Table) : Nat → Nat → Bool → Scope → List Sel → List Item →
    Except Err (List (String × String) × List OutRule)
  | _, _, _, _, _, [] => .ok ([], [])
  | 0, _, _, _, _, _ :: _ => .error .crash
  | gas + 1, depth, inExp, sc, me, .decl p v :: rest => do
      let v' ← liftV (expand sc 64 v)
      let (ds, out) ← evalItems tbl (gas + 1) depth inExp sc me rest
      pure ((p, valText v') :: ds, out)
  | gas + 1, depth, inExp, sc, me, .rule sel body :: rest => do
      let me' := identParse (some me) sel
      let (ds1, out1) ← evalItems tbl gas depth inExp ([] :: sc) me' body
      let own : List OutRule := if ds1.isEmpty then [] else [⟨me', ds1⟩]
      let (ds, out) ← evalItems tbl (gas + 1) depth inExp sc me rest
      pure (ds, own ++ out1 ++ out)
  | gas + 1, depth, inExp, sc, me, .call name args :: rest => do
      let d := if inExp then depth + 1 else 0
      if d > 64 then .error (.nameError name) else
      let args' ← args.mapM (evalArg sc)
      let (ds1, out1) ←
        match firstApplicable sc args' (tbl.candidates name) with
        | some (m, fr) => evalItems tbl gas d true (fr :: sc) me m.body
        | none =>
            if (tbl.candidates name).isEmpty then
              match tbl.block name with
              | some body => evalItems tbl gas d true sc me body
              | none => .ok ([], [])
            else .ok ([], [])
      let (ds, out) ← evalItems tbl (gas + 1) depth inExp sc me rest
      pure (ds1 ++ ds, out1 ++ out)
termination_by gas _ _ _ _ items => (gas, sizeOf items)

/-- a sheet: definitions emit nothing; every top-level rule is evaluated against the complete table -/
def compile (gas : Nat) (sheet : List Top) : Except Err (List OutRule) :=
  let tbl := buildTable sheet
  let rec go : List Top → Except Err (List OutRule)
    | [] => .ok []
    | .mdef _ _ :: r => go r
    | .rule sel body :: r => do
        let me := identParse none sel
        let (ds, out) ← evalItems tbl gas 0 false [[], []] me body
        let own : List OutRule := if ds.isEmpty then [] else [⟨me, ds⟩]
        let rest ← go r
        pure (own ++ out ++ rest)
  go sheet

end Lessm.Mixin
