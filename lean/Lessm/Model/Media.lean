/-
  Model of @media bubbling (import-free): `Block.parse` of lesscpy/plib/block.py as tree surgery on
  evaluated blocks.

    Block.parse    split of the evaluated children into `parsed` (own declarations), `inner`
                   (non-media blocks) and inner media blocks; rotation of every inner media block out
                   of its parent: parent is a rule  -> the media block now wraps a copy of the parent
                                                       holding the media block's content;
                                  parent is @media  -> one merged block `a and b`;
                   result `[self] + siblings`, `self` dropped when it has neither declarations nor
                   inner blocks.                                            -> `evalItem`
    parser.py p_block_open_media_query: an @media opener does not become the current scope name, so
                   rules inside it are rooted against the enclosing rule.   -> `parent` is passed through
    Identifier.root: a media query is not combined with parent selectors.   -> `Name.media` untouched
    Block.fmt      a block prints its declarations (if any), then its inner blocks — nested inside
                   the braces when it is an @media block, flat otherwise.   -> `obs`

  Re-parsing an already evaluated block is the identity (its children are evaluated, contain no
  media blocks any more); the model therefore treats evaluated blocks as values.
-/
import Lessm.Model.Nest
namespace Lessm.Media
open Lessm.Sel Lessm.Nest

/-- a media query as written: list of tokens (`screen`, `and`, `(min-width:1px)`, …) -/
abbrev Query := List String

inductive Item
  | decl (d : Decl)
  | rule (sel : List Tok) (body : List Item)
  | media (q : Query) (body : List Item)
deriving Repr

inductive Name
  | sel (s : List Sel)
  | media (q : Query)
deriving Repr, DecidableEq

/-- an evaluated block: name, own declarations, inner blocks -/
inductive OBlock
  | mk (name : Name) (props : List Decl) (inner : List OBlock)
deriving Repr

def OBlock.name : OBlock → Name | .mk n _ _ => n
def OBlock.props : OBlock → List Decl | .mk _ p _ => p
def OBlock.inner : OBlock → List OBlock | .mk _ _ i => i

def OBlock.isMedia : OBlock → Bool
  | .mk (.media _) _ _ => true
  | _ => false

def OBlock.nonEmpty : OBlock → Bool
  | .mk _ p i => !p.isEmpty || !i.isEmpty

def declsOf : List Item → List Decl
  | [] => []
  | .decl d :: r => d :: declsOf r
  | _ :: r => declsOf r

/-- the merged condition built in the `@media`-inside-`@media` branch: `a and b` -/
def mergeQ (a b : Query) : Query := a ++ ["and"] ++ b

/-- rotation of one inner media block out of a rule named `me` -/
def rotateOutOfRule (me : List Sel) (mb : OBlock) : List OBlock :=
  let wrapper := OBlock.mk (.sel me) mb.props mb.inner
  if wrapper.nonEmpty then [OBlock.mk mb.name [] [wrapper]] else []

/-- merge of one inner media block into the enclosing media block with query `q` -/
def mergeIntoMedia (q : Query) (mb : OBlock) : List OBlock :=
  match mb.name with
  | .media q2 =>
      let merged := OBlock.mk (.media (mergeQ q q2)) mb.props mb.inner
      if merged.nonEmpty then [merged] else []
  | .sel _ => []

mutual
/-- `Block.parse`: the evaluated block followed by the media blocks that bubbled out of it -/
def evalItem (parent : Option (List Sel)) : Item → List OBlock
  | .decl _ => []
  | .rule sel body =>
      let me := identParse parent sel
      let kids := evalList (some me) body
      let props := declsOf body
      let inner := kids.filter (fun b => !b.isMedia)
      let meds := kids.filter (fun b => b.isMedia)
      let self := OBlock.mk (.sel me) props inner
      (if self.nonEmpty then [self] else []) ++ meds.flatMap (rotateOutOfRule me)
  | .media q body =>
      let kids := evalList parent body
      let props := declsOf body
      let inner := kids.filter (fun b => !b.isMedia)
      let meds := kids.filter (fun b => b.isMedia)
      let self := OBlock.mk (.media q) props inner
      (if self.nonEmpty then [self] else []) ++ meds.flatMap (mergeIntoMedia q)
def evalList (parent : Option (List Sel)) : List Item → List OBlock
  | [] => []
  | i :: is => evalItem parent i ++ evalList parent is
end

def compileSheet (sheet : List Item) : List OBlock := evalList none sheet

/-- one observed style rule: the media queries it sits under (outermost first), its selector list,
    its declarations -/
structure Triple where
  medias : List Query
  sels : List Sel
  decls : List Decl
deriving Repr, DecidableEq

mutual
/-- what `Block.fmt` prints, as a flat list of style rules with their media context -/
def obs (ctx : List Query) : OBlock → List Triple
  | .mk (.sel s) props inner =>
      (if props.isEmpty then [] else [⟨ctx, s, props⟩]) ++ obsList ctx inner
  | .mk (.media q) props inner =>
      (if props.isEmpty then [] else [⟨ctx ++ [q], [], props⟩]) ++ obsList (ctx ++ [q]) inner
def obsList (ctx : List Query) : List OBlock → List Triple
  | [] => []
  | b :: bs => obs ctx b ++ obsList ctx bs
end

def observe (sheet : List Item) : List Triple := obsList [] (compileSheet sheet)

end Lessm.Media
