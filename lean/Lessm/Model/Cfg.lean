/-
  Context-free grammars over numbered symbols: the shape into which harness/extract.py
  translates the yacc grammar of the working tree (import-free).
-/
namespace Lessm.Cfg

inductive Sym | t (n : Nat) | nt (n : Nat)
deriving DecidableEq, Repr

structure Rule where
  lhs : Nat
  rhs : List Sym
deriving DecidableEq, Repr

structure Grammar where
  prods : List Rule

mutual
/-- `Derives G s w`: symbol `s` derives the terminal string `w` in grammar `G` -/
inductive Derives (G : Grammar) : Sym → List Nat → Prop
  | term (a : Nat) : Derives G (.t a) [a]
  | rule (p : Rule) (hp : p ∈ G.prods) (w : List Nat)
      (h : DerivesL G p.rhs w) : Derives G (.nt p.lhs) w
inductive DerivesL (G : Grammar) : List Sym → List Nat → Prop
  | nil : DerivesL G [] []
  | cons (s : Sym) (ss : List Sym) (w1 w2 : List Nat)
      (h1 : Derives G s w1) (h2 : DerivesL G ss w2) : DerivesL G (s :: ss) (w1 ++ w2)
end

/-- table lookup with default 0 (weights of symbols) -/
def look (l : List (Nat × Int)) (k : Nat) : Int :=
  match l.find? (·.1 == k) with | some p => p.2 | none => 0

def wt (tw : Nat → Int) (nw : Nat → Int) : Sym → Int
  | .t a => tw a
  | .nt a => nw a

def sumT (tw : Nat → Int) (w : List Nat) : Int := (w.map tw).sum

/-- executable consistency check of a weight certificate against a production list -/
def consistentB (prods : List Rule) (twL nwL : List (Nat × Int)) : Bool :=
  prods.all (fun p => look nwL p.lhs == (p.rhs.map (wt (look twL) (look nwL))).sum)

/-- prefix lower bound of a symbol string given per-symbol weights and lower bounds -/
def lowSeq (tw nw : Nat → Int) (low : Nat → Int) : List Sym → Int → Int → Int
  | [], _acc, best => best
  | s :: ss, acc, best =>
      let l := match s with
        | .t a => min 0 (tw a)
        | .nt a => low a
      lowSeq tw nw low ss (acc + wt tw nw s) (min best (acc + l))

/-- executable check of a prefix-lower-bound certificate:
    for every production A → X₁…Xₙ and every i:  low A ≤ w(X₁…Xᵢ₋₁) + low Xᵢ, and low A ≤ 0 -/
def lowOkB (prods : List Rule) (twL nwL lowL : List (Nat × Int)) : Bool :=
  prods.all (fun p => decide (look lowL p.lhs ≤ lowSeq (look twL) (look nwL) (look lowL) p.rhs 0 0))

end Lessm.Cfg
