/-
  Model of directory (batch) mode (import-free): lesscpy/scripts/compiler.py `ldirectory`.

    glob of `*.less` in the input directory; output name `<base>.css` / `<base>.min.css` (-m);
    the output directory is created when missing (not in a dry run);
    a file is recompiled when --force is given, or the output does not exist, or
        mtime(output) < mtime(source);
    a recompiled file is announced on stdout and, unless --dry-run, written (its mtime becomes "now");
    with --recurse every sub-directory whose name does not start with '.' is processed into the
    sub-directory of the same name of the output directory.
  The compiler itself is a parameter `cc : bytes → bytes` (same options and includes for every file:
  each compilation starts from a copy of the include scope).
-/
namespace Lessm.Batch

structure File where
  bytes : String
  mtime : Nat
deriving Repr, DecidableEq

/-- a directory: files and sub-directories by name, in listing order -/
inductive Tree
  | mk (files : List (String × File)) (subs : List (String × Tree))
deriving Repr

def Tree.files : Tree → List (String × File) | .mk f _ => f
def Tree.subs : Tree → List (String × Tree) | .mk _ s => s

structure Flags where
  force : Bool
  dry : Bool
  minEnding : Bool
  recurse : Bool
deriving Repr, DecidableEq

def lessExt : List Char := ['.', 'l', 'e', 's', 's']

/-- `fnmatch('*.less')` as glob applies it: the name ends in `.less` and is not hidden -/
def isLess (name : String) : Bool :=
  let cs := name.toList
  (cs.drop (cs.length - 5) == lessExt) && decide (5 ≤ cs.length) && !(cs.head? == some '.')

def baseOf (name : String) : String :=
  let cs := name.toList
  String.ofList (cs.take (cs.length - 5))      -- strip ".less"

def hidden (name : String) : Bool := name.toList.head? == some '.'

def outName (fl : Flags) (name : String) : String :=
  baseOf name ++ (if fl.minEnding then ".min" else "") ++ ".css"

def findFile (fs : List (String × File)) (n : String) : Option File := (fs.find? (·.1 == n)).map (·.2)

def setFile : List (String × File) → String → File → List (String × File)
  | [], n, f => [(n, f)]
  | (k, v) :: r, n, f => if k == n then (k, f) :: r else (k, v) :: setFile r n f

def findSub (ss : List (String × Tree)) (n : String) : Option Tree := (ss.find? (·.1 == n)).map (·.2)

def setSub : List (String × Tree) → String → Tree → List (String × Tree)
  | [], n, t => [(n, t)]
  | (k, v) :: r, n, t => if k == n then (k, t) :: r else (k, v) :: setSub r n t

/-- the staleness test -/
def stale (fl : Flags) (src : File) (out : Option File) : Bool :=
  fl.force || match out with
    | none => true
    | some o => decide (o.mtime < src.mtime)

/-- state threaded through a run: the output files of the current directory, the clock, stdout -/
structure St where
  outFiles : List (String × File)
  clock : Nat
  log : List String
deriving Repr

/-- the loop over the `.less` files of one directory -/
def compileFiles (cc : String → String) (fl : Flags) (inDir outDir : String) : List (String × File) → St → St
  | [], st => st
  | (name, src) :: rest, st =>
      if isLess name then
        let on := outName fl name
        if stale fl src (findFile st.outFiles on) then
          let line := inDir ++ "/" ++ name ++ " -> " ++ outDir ++ "/" ++ on
          let st' : St :=
            if fl.dry then { st with log := st.log ++ [line] }
            else { outFiles := setFile st.outFiles on ⟨cc src.bytes, st.clock⟩, clock := st.clock + 1, log := st.log ++ [line] }
          compileFiles cc fl inDir outDir rest st'
        else compileFiles cc fl inDir outDir rest st
      else compileFiles cc fl inDir outDir rest st

mutual
/-- `ldirectory`: returns the output directory (none = still missing), the clock and stdout -/
def runDir (cc : String → String) (fl : Flags) (inDir outDir : String) :
    Tree → Option Tree → Nat → Option Tree × Nat × List String
  | .mk files subs, out, clock =>
      let outFiles0 := match out with | some o => o.files | none => []
      let outSubs0 := match out with | some o => o.subs | none => []
      let st := compileFiles cc fl inDir outDir files ⟨outFiles0, clock, []⟩
      let exists' := out.isSome || !fl.dry                    -- mkdir unless dry run
      if fl.recurse then
        let (subs', clock', log') := runSubs cc fl inDir outDir subs outSubs0 st.clock
        (if exists' then some (.mk st.outFiles subs') else none, clock', st.log ++ log')
      else
        (if exists' then some (.mk st.outFiles outSubs0) else none, st.clock, st.log)
def runSubs (cc : String → String) (fl : Flags) (inDir outDir : String) :
    List (String × Tree) → List (String × Tree) → Nat → List (String × Tree) × Nat × List String
  | [], outSubs, clock => (outSubs, clock, [])
  | (name, t) :: rest, outSubs, clock =>
      if hidden name then runSubs cc fl inDir outDir rest outSubs clock
      else
        let (o, clock1, log1) := runDir cc fl (inDir ++ "/" ++ name) (outDir ++ "/" ++ name) t (findSub outSubs name) clock
        let outSubs1 := match o with
          | some ot => setSub outSubs name ot
          | none => outSubs
        let (outSubs2, clock2, log2) := runSubs cc fl inDir outDir rest outSubs1 clock1
        (outSubs2, clock2, log1 ++ log2)
end

end Lessm.Batch
