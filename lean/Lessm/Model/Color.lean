/-
  Model of lesscpy/lessc/color.py (literal normalisation and colour arithmetic)
  and of utility.is_color, on `List Char`.  Import-free (core Lean only).

  Code anchors:
    utility.is_color            -> `isColor`
    Color.fmt                   -> `fmt`
    Color._hextorgb             -> `hexToRgb`
    Color.operate / process     -> `operate` / `process`
    "%02x" % int(v)             -> `hex2`
-/
namespace Lessm.Color

def hexChars : List Char := "0123456789abcdefABCDEF".toList

def isHexB (c : Char) : Bool := hexChars.contains c

/-- value of one hexadecimal digit (what `int(c, 16)` gives for a single digit) -/
def hexVal (c : Char) : Nat :=
  if '0' ≤ c ∧ c ≤ '9' then c.toNat - '0'.toNat
  else if 'a' ≤ c ∧ c ≤ 'f' then c.toNat - 'a'.toNat + 10
  else if 'A' ≤ c ∧ c ≤ 'F' then c.toNat - 'A'.toNat + 10
  else 0

/-- `str.lower()` on the ASCII range the lexer can deliver inside a colour -/
def lowerC (c : Char) : Char :=
  if 'A' ≤ c ∧ c ≤ 'Z' then Char.ofNat (c.toNat + 32) else c

def hexDigit (n : Nat) : Char :=
  if n < 10 then Char.ofNat ('0'.toNat + n) else Char.ofNat ('a'.toNat + (n - 10))

/-- `"%02x" % n` for `n < 256` -/
def hex2 (n : Nat) : List Char := [hexDigit (n / 16), hexDigit (n % 16)]

/-- `utility.is_color` restricted to digit strings: `#` followed by 3, 4, 6 or 8 hex digits -/
def isColor (s : List Char) : Bool :=
  match s with
  | '#' :: ds => (ds.length == 3 || ds.length == 4 || ds.length == 6 || ds.length == 8) && ds.all isHexB
  | _ => false

def dbl : List Char → List Char
  | [] => []
  | c :: cs => c :: c :: dbl cs

/-- `Color.fmt`: lower-case, strip `#`, double the digits of the short forms -/
def fmt (s : List Char) : Option (List Char) :=
  if isColor s then
    let ds := (s.drop 1).map lowerC
    some ('#' :: (if ds.length == 3 || ds.length == 4 then dbl ds else ds))
  else none

def pairs : List Char → List Nat
  | a :: b :: rest => (hexVal a * 16 + hexVal b) :: pairs rest
  | _ => []

/-- `Color._hextorgb` on `#`-literals: list of channel values -/
def hexToRgb (s : List Char) : List Nat :=
  match s with
  | '#' :: ds => if ds.length == 3 then ds.map (fun c => hexVal c * 16 + hexVal c) else pairs ds
  | _ => []

inductive Op | add | sub | mul | div
deriving DecidableEq, Repr

/-- `Color.operate` on two channel values, exact (the code uses Python ints and, for `/`, a double) -/
def operate (a b : Nat) : Op → Rat
  | .add => (a : Rat) + b
  | .sub => (a : Rat) - b
  | .mul => (a : Rat) * b
  | .div => (a : Rat) / b

/-- clamp to 0..255 as in `process` (`if v > 0xff: v = 0xff; if v < 0: v = 0`) then `int(v)` (truncation) -/
def clampInt (v : Rat) : Nat :=
  if v > 255 then 255 else if v < 0 then 0 else v.floor.toNat

/-- one channel of `Color.process` -/
def chan (a b : Nat) (o : Op) : Nat := clampInt (operate a b o)

/-- `Color.process((A, O, B))` on channel triples; the code raises ZeroDivisionError when a divisor
    channel is 0 — the model reports that as `none`. -/
def process (a : Nat × Nat × Nat) (o : Op) (b : Nat × Nat × Nat) : Option (List Char) :=
  if o = .div ∧ (b.1 = 0 ∨ b.2.1 = 0 ∨ b.2.2 = 0) then none
  else some ('#' :: (hex2 (chan a.1 b.1 o) ++ hex2 (chan a.2.1 b.2.1 o) ++ hex2 (chan a.2.2 b.2.2 o)))

def triple (l : List Nat) : Option (Nat × Nat × Nat) :=
  match l with
  | [r, g, b] => some (r, g, b)
  | _ => none

/-- the whole pipeline the compiler applies to `A op B` written as literals -/
def processLit (a : List Char) (o : Op) (b : List Char) : Option (List Char) := do
  let fa ← fmt a
  let fb ← fmt b
  let ta ← triple ((hexToRgb fa).take 3)
  let tb ← triple ((hexToRgb fb).take 3)
  process ta o tb

end Lessm.Color
