/-
  Model of arithmetic expressions (import-free).

  Front end: an LR-style operator-precedence parser whose shift/reduce decisions are yacc's
  documented resolution rule driven by a level function (`reduces`): on a conflict between a rule
  ending in operator o₁ and lookahead o₂, reduce iff level o₂ ≤ level o₁ (all operators `left`).
  The level function is instantiated with the *regenerated* precedence table (Props/C04).

  Evaluator: Expression.parse / operate / with_units and NegatedExpression.parse over exact
  rationals.
    parser.py  p_expression_aux, p_expression_p, p_expression_p_neg     -> `E`, `toks`, `parse`
    expression.py parse / operate / with_units                          -> `evalE` (bin case)
    negated_expression.py                                               -> `evalE` (neg case)
-/
namespace Lessm.Expr

inductive Op | add | sub | mul | div
deriving DecidableEq, Repr

/-- expression trees as the grammar builds them: operand, `( e )` (yields the inner node), `-( e )`,
    binary node -/
inductive E (α : Type)
  | leaf (a : α)
  | paren (e : E α)
  | neg (e : E α)
  | bin (o : Op) (l r : E α)
deriving Repr, DecidableEq

inductive Tok (α : Type) | num (a : α) | op (o : Op) | lp | neglp | rp
deriving Repr

inductive Item (α : Type) | pend (l : E α) (o : Op) | mark | nmark
deriving Repr

section
variable {α : Type} (lvl : Op → Nat)

/-- yacc's resolution, all operators left-associative: reduce iff prec(lookahead) ≤ prec(rule) -/
def reduces (o look : Op) : Bool := lvl look ≤ lvl o

def reduceWhile (look : Op) : List (Item α) → E α → List (Item α) × E α
  | .pend l o :: st, c => if reduces lvl o look then reduceWhile look st (.bin o l c) else (.pend l o :: st, c)
  | st, c => (st, c)

def reduceAll : List (Item α) → E α → List (Item α) × E α
  | .pend l o :: st, c => reduceAll st (.bin o l c)
  | st, c => (st, c)

def step : List (Item α) × Option (E α) → Tok α → Option (List (Item α) × Option (E α))
  | (st, none), .num n => some (st, some (.leaf n))
  | (st, none), .lp => some (.mark :: st, none)
  | (st, none), .neglp => some (.nmark :: st, none)
  | (st, some c), .op o => some (.pend (reduceWhile lvl o st c).2 o :: (reduceWhile lvl o st c).1, none)
  | (st, some c), .rp =>
      match reduceAll st c with
      | (.mark :: st', c') => some (st', some (.paren c'))
      | (.nmark :: st', c') => some (st', some (.neg c'))
      | _ => none
  | _, _ => none

def run : List (Item α) × Option (E α) → List (Tok α) → Option (List (Item α) × Option (E α))
  | s, [] => some s
  | s, t :: ts => match step lvl s t with | some s' => run s' ts | none => none

def parse (ts : List (Tok α)) : Option (E α) :=
  match run lvl ([], none) ts with
  | some (st, some c) => match reduceAll st c with | ([], e) => some e | _ => none
  | _ => none

/-- the text of a tree: operands and operators in order, parentheses exactly where written -/
def toks : E α → List (Tok α)
  | .leaf n => [.num n]
  | .paren e => .lp :: toks e ++ [.rp]
  | .neg e => .neglp :: toks e ++ [.rp]
  | .bin o l r => toks l ++ .op o :: toks r

def rootLvl : E α → Option Nat
  | .bin o _ _ => some (lvl o)
  | _ => none

/-- `Canon e`: the tree is the standard reading of its own text — a child of a binary node is
    parenthesised unless it binds at least as tightly (left child) / strictly tighter (right child). -/
def Canon : E α → Prop
  | .leaf _ => True
  | .paren e => Canon e
  | .neg e => Canon e
  | .bin o l r => Canon l ∧ Canon r ∧ (∀ k, rootLvl lvl l = some k → lvl o ≤ k) ∧ (∀ k, rootLvl lvl r = some k → lvl o < k)
end

/-! ### evaluation -/

/-- an operand after `analyze_number`: value and unit (`""` = none) -/
structure Operand where
  val : Rat
  unit : String
deriving Repr, DecidableEq

inductive Outcome
  | ok (v : Rat) (u : String)
  | zeroDiv                 -- ZeroDivisionError escapes
  | literalZeroSlash        -- `0 / x` is kept literally (font shorthand rule)
deriving Repr, DecidableEq

def applyOp : Op → Rat → Rat → Rat
  | .add, a, b => a + b
  | .sub, a, b => a - b
  | .mul, a, b => a * b
  | .div, a, b => a / b

/-- `Expression.with_units`: a zero is printed bare; otherwise the first unit present -/
def withUnits (v : Rat) (ua ub : String) : Outcome :=
  if v = 0 then .ok 0 "" else .ok v (if ua ≠ "" then ua else ub)

def evalE : E Operand → Outcome
  | .leaf a => .ok a.val a.unit
  | .paren e => evalE e
  | .neg e =>
      match evalE e with
      | .ok v u => .ok (-v) u
      | r => r
  | .bin o l r =>
      match evalE l, evalE r with
      | .ok a ua, .ok b ub =>
          if a = 0 ∧ o = .div then .literalZeroSlash
          else if b = 0 ∧ o = .div then .zeroDiv
          else withUnits (applyOp o a b) ua ub
      | .ok _ _, r => r
      | r, _ => r

/-! ### specification: ordinary arithmetic -/

def val : E Operand → Rat
  | .leaf a => a.val
  | .paren e => val e
  | .neg e => - val e
  | .bin o l r => applyOp o (val l) (val r)

/-- unit of the leftmost operand that has one -/
def unitOf : E Operand → String
  | .leaf a => a.unit
  | .paren e => unitOf e
  | .neg e => unitOf e
  | .bin _ l r => if unitOf l ≠ "" then unitOf l else unitOf r

/-- every *proper* sub-expression has a non-zero value (hence every divisor is non-zero) -/
def SubNonzero : E Operand → Prop
  | .leaf _ => True
  | .paren e => SubNonzero e
  | .neg e => SubNonzero e
  | .bin _ l r => SubNonzero l ∧ SubNonzero r ∧ val l ≠ 0 ∧ val r ≠ 0

end Lessm.Expr
