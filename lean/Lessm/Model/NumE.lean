/-
  Exponent notation in `utility.split_unit` (import-free except Lessm.Model.Num).

    utility.py  split_unit:  re.search('^(\-?[\d\.]+(?:e[-+]?\d+)?)(.*)$', str(value))
                (the exponent group was added by the repair of C17-exponent-arg: an expression result below 1e-4 is
                printed by str() as `1e-05em`, and a built-in applied to it has to read that back)    -> `splitUnitE`
                analyze_number: int(n) if it is all digits, else float(n)                               -> `parseDecE`, `analyzeE`

  `Lessm.Num.splitUnit` / `analyze` (the model used by the evaluator models) describe the lexemes the lexer produces for
  css_number, which never carry an exponent; `Props/C17Exp.lean` states exactly where the two coincide.
  Digits are ASCII here; Python's `\d` also accepts other Unicode digits, which the lexer never hands over (not generated).
-/
import Lessm.Model.Num
namespace Lessm.Num

/-- `(?:e[-+]?\d+)?` tried once after the greedy run of digits and dots: the exponent text consumed (empty when the
    group does not match) and what is left for `(.*)` -/
def expPart (s : List Char) : List Char × List Char :=
  match s with
  | 'e' :: r =>
      let (sg, r2) := match r with
        | '-' :: t => (['-'], t)
        | '+' :: t => (['+'], t)
        | t => (([] : List Char), t)
      let ds := r2.takeWhile isDigit
      if ds.isEmpty then ([], s) else ('e' :: sg ++ ds, r2.dropWhile isDigit)
  | _ => ([], s)

/-- `split_unit` as repaired -/
def splitUnitE (s : List Char) : Option (List Char × List Char) :=
  match splitUnit s with
  | none => none
  | some (n, u) => let (e, u') := expPart u; some (n ++ e, u')

/-- value of an exponent text `e[-+]?ddd` as a power of ten (`[]` = 1) -/
def expVal (e : List Char) : Rat :=
  match e with
  | 'e' :: '-' :: ds => 1 / ((10 ^ digitsVal ds : Nat) : Rat)
  | 'e' :: '+' :: ds => ((10 ^ digitsVal ds : Nat) : Rat)
  | 'e' :: ds => ((10 ^ digitsVal ds : Nat) : Rat)
  | _ => 1

/-- `float()` of mantissa text followed by exponent text, as an exact rational -/
def parseDecE (n e : List Char) : Option Rat := (parseDec n).map (· * expVal e)

/-- `analyze_number` with the repaired `split_unit`: (value, unit) -/
def analyzeE (s : List Char) : Option (Rat × List Char) :=
  match splitUnit s with
  | none => none
  | some (n, u) =>
      let (e, u') := expPart u
      (parseDecE n e).map (fun v => (v, u'))

end Lessm.Num
