/-
  A backtracking regular-expression matcher (import-free) for the constructs the lexer's rules use, as Python's `re`
  matches them under re.IGNORECASE: literals, negated literals, `.`, character sets with ranges and the categories \d \s \w,
  alternation (leftmost alternative first), sequence, groups, greedy and lazy bounded/unbounded repetition.
  No look-around, no back-references (the rules have none; harness/extract.py refuses any other construct).

  `Re.m r s k` tries the ways `r` can match a prefix of `s` in Python's backtracking order and returns the first for which the
  continuation `k` (applied to the rest of the input) succeeds.  A repetition only continues after an iteration that consumed
  input (the bodies of all repetitions in the rules are non-nullable; extract.py emits that as a checked fact).
-/
namespace Lessm.Rx

inductive CC
  | lit (c : Char)
  | range (a b : Char)
  | digit | space | word
  | notDigit | notSpace | notWord
deriving Repr, DecidableEq

inductive Re
  | eps
  | ch (c : Char)
  | notCh (c : Char)
  | any
  | cls (neg : Bool) (items : List CC)
  | seq (a b : Re)
  | alt (a b : Re)
  | rep (min : Nat) (max : Option Nat) (greedy : Bool) (r : Re)
deriving Repr

def lower (c : Char) : Char := if 'A' ≤ c ∧ c ≤ 'Z' then Char.ofNat (c.toNat + 32) else c
def upper (c : Char) : Char := if 'a' ≤ c ∧ c ≤ 'z' then Char.ofNat (c.toNat - 32) else c

def isDigit (c : Char) : Bool := '0' ≤ c ∧ c ≤ '9'
def isSpace (c : Char) : Bool := c == ' ' || c == '\t' || c == '\n' || c == '\r' || c == '\x0c' || c == '\x0b'
/-- \w under re.UNICODE: ASCII letters, digits, underscore; every non-ASCII character is taken for a letter (approximation,
    named in the trusted base: the correspondence corpus is ASCII apart from a few fixtures) -/
def isWord (c : Char) : Bool := isDigit c || ('a' ≤ lower c ∧ lower c ≤ 'z') || c == '_' || c.toNat ≥ 128

def ccMatch (c : Char) : CC → Bool
  | .lit x => lower x == lower c
  | .range a b => (a ≤ c ∧ c ≤ b) || (a ≤ lower c ∧ lower c ≤ b) || (a ≤ upper c ∧ upper c ≤ b)
  | .digit => isDigit c
  | .space => isSpace c
  | .word => isWord c
  | .notDigit => !isDigit c
  | .notSpace => !isSpace c
  | .notWord => !isWord c

/-- the repetition loop: `step` matches one iteration of the body; `fuel` bounds the number of iterations (input length + 1) -/
def repLoop {α : Type} (step : List Char → (List Char → Option α) → Option α) (greedy : Bool) :
    Nat → Nat → Option Nat → List Char → (List Char → Option α) → Option α
  | 0, min, _, s, k => if min = 0 then k s else none
  | fuel + 1, min, max, s, k =>
      let canMore : Bool := match max with | some 0 => false | _ => true
      let more : Unit → Option α := fun _ =>
        if canMore then
          step s (fun s' => if s'.length < s.length then
                              repLoop step greedy fuel (min - 1) (max.map (· - 1)) s' k
                            else none)
        else none
      if min > 0 then more ()
      else if greedy then
        match more () with
        | some r => some r
        | none => k s
      else
        match k s with
        | some r => some r
        | none => more ()

def Re.m {α : Type} : Re → List Char → (List Char → Option α) → Option α
  | .eps, s, k => k s
  | .ch c, s, k => match s with
      | x :: r => if lower x == lower c then k r else none
      | [] => none
  | .notCh c, s, k => match s with
      | x :: r => if lower x != lower c then k r else none
      | [] => none
  | .any, s, k => match s with
      | x :: r => if x != '\n' then k r else none
      | [] => none
  | .cls neg items, s, k => match s with
      | x :: r => if (items.any (ccMatch x)) != neg then k r else none
      | [] => none
  | .seq a b, s, k => a.m s (fun s' => b.m s' k)
  | .alt a b, s, k => match a.m s k with
      | some r => some r
      | none => b.m s k
  | .rep min max greedy r, s, k => repLoop (fun s k => r.m s k) greedy (s.length + 1) min max s k

/-- `re.match(r, s)`: the rest of the input after the match Python would report, if any -/
def Re.matchPrefix (r : Re) (s : List Char) : Option (List Char) := r.m s some

def Re.nullable : Re → Bool
  | .eps => true
  | .ch _ | .notCh _ | .any | .cls _ _ => false
  | .seq a b => a.nullable && b.nullable
  | .alt a b => a.nullable || b.nullable
  | .rep min _ _ r => min == 0 || r.nullable

/-- every repeated body consumes input -/
def Re.repsOK : Re → Bool
  | .seq a b | .alt a b => a.repsOK && b.repsOK
  | .rep _ _ _ r => !r.nullable && r.repsOK
  | _ => true

end Lessm.Rx
