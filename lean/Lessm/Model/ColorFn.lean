/-
  Model of the colour functions of lesscpy/lessc/color.py over exact rationals (import-free).

    colorsys.rgb_to_hls / hls_to_rgb / _v    -> `rgbToHls` / `hlsToRgb` / `vv`   (transcription)
    Color._hextohls                           -> `hexToHls`  (channels / 255)
    Color._ophsl, _clamp                      -> `ophsl`, `clamp01`
    Color.lighten/darken/saturate/desaturate  -> `ophsl` with (idx, sign)
    Color.greyscale                           -> desaturate by 100
    Color.spin                                -> `spin`
    Color.mix                                 -> `mix`
    Color.hsl                                 -> `hsl`
    Color.hue / saturation / lightness        -> `hue` / `saturation` / `lightness`
    utility.away_from_zero_round              -> `Builtins.awayRound`
    utility.convergent_round (Python 3 round) -> `evenRound`
    Color._rgbatohex                          -> `byteOf` (clamp to 0..255, then int())
-/
import Lessm.Model.Builtins
namespace Lessm.ColorFn
open Lessm.Builtins

def frac1 (x : Rat) : Rat := x - x.floor

def vv (m1 m2 hue : Rat) : Rat :=
  let t := frac1 hue
  if t < 1/6 then m1 + (m2 - m1) * t * 6
  else if t < 1/2 then m2
  else if t < 2/3 then m1 + (m2 - m1) * (2/3 - t) * 6
  else m1

def hlsToRgb (h l s : Rat) : Rat × Rat × Rat :=
  if s = 0 then (l, l, l) else
  let m2 := if l ≤ 1/2 then l * (1 + s) else l + s - l * s
  let m1 := 2 * l - m2
  (vv m1 m2 (h + 1/3), vv m1 m2 h, vv m1 m2 (h - 1/3))

def rgbToHls (r g b : Rat) : Rat × Rat × Rat :=
  let maxc := max r (max g b)
  let minc := min r (min g b)
  let sumc := maxc + minc
  let rangec := maxc - minc
  let l := sumc / 2
  if minc = maxc then (0, l, 0) else
  let s := if l ≤ 1/2 then rangec / sumc else rangec / (2 - maxc - minc)
  let rc := (maxc - r) / rangec
  let gc := (maxc - g) / rangec
  let bc := (maxc - b) / rangec
  let h := if r = maxc then bc - gc else if g = maxc then 2 + rc - bc else 4 + gc - rc
  (frac1 (h / 6), l, s)

abbrev RGB := Nat × Nat × Nat

def hexToHls (c : RGB) : Rat × Rat × Rat :=
  rgbToHls ((c.1 : Rat) / 255) ((c.2.1 : Rat) / 255) ((c.2.2 : Rat) / 255)

/-- `Color._clamp` -/
def clamp01 (x : Rat) : Rat := min 1 (max 0 x)

/-- Python 3 `round(x)` (half to even), which is what `utility.convergent_round` is on Python 3 -/
def evenRound (x : Rat) : Int :=
  let f := x.floor
  let d := x - f
  if d < 1/2 then f else if d > 1/2 then f + 1 else if f % 2 = 0 then f else f + 1

/-- `_rgbatohex` on one channel: clamp to 0..255, `int()` (truncation toward zero) -/
def byteOf (x : Rat) : Nat :=
  if x > 255 then 255 else if x < 0 then 0 else x.floor.toNat

def scale (c : Rat × Rat × Rat) : Rat × Rat × Rat := (c.1 * 255, c.2.1 * 255, c.2.2 * 255)

/-- exact channel values (before rounding) of `_ophsl color diff idx op`;
    `idx = 1` lightness, `idx = 2` saturation; `sign = 1` add, `-1` subtract -/
def ophslExact (c : RGB) (diff : Rat) (idx : Nat) (sign : Int) : Rat × Rat × Rat :=
  let hls := hexToHls c
  let h := hls.1
  let l := if idx = 1 then clamp01 (hls.2.1 + sign * (diff / 100)) else hls.2.1
  let s := if idx = 2 then clamp01 (hls.2.2 + sign * (diff / 100)) else hls.2.2
  scale (hlsToRgb h l s)

def roundAway3 (c : Rat × Rat × Rat) : RGB :=
  (byteOf (awayRound c.1), byteOf (awayRound c.2.1), byteOf (awayRound c.2.2))

def roundEven3 (c : Rat × Rat × Rat) : RGB :=
  (byteOf (evenRound c.1), byteOf (evenRound c.2.1), byteOf (evenRound c.2.2))

def ophsl (c : RGB) (diff : Rat) (idx : Nat) (sign : Int) : RGB := roundAway3 (ophslExact c diff idx sign)

def lighten (c : RGB) (d : Rat) : RGB := ophsl c d 1 1
def darken (c : RGB) (d : Rat) : RGB := ophsl c d 1 (-1)
def saturate (c : RGB) (d : Rat) : RGB := ophsl c d 2 1
def desaturate (c : RGB) (d : Rat) : RGB := ophsl c d 2 (-1)
def greyscale (c : RGB) : RGB := desaturate c 100

/-- Python's float `%` with a positive modulus: result in [0, m) -/
def pmod (x m : Rat) : Rat := x - m * (x / m).floor

def spinExact (c : RGB) (deg : Rat) : Rat × Rat × Rat :=
  let hls := hexToHls c
  let h := pmod (hls.1 * 360 + deg) 360
  scale (hlsToRgb (h / 360) hls.2.1 hls.2.2)

def spin (c : RGB) (deg : Rat) : RGB := roundEven3 (spinExact c deg)

/-- `Color.mix` with `alpha = 0`: `w1 = weight/100`, channels `c1*w1 + c2*(1-w1)`, truncated by `_rgbatohex` -/
def mixExact (c1 c2 : RGB) (w : Rat) : Rat × Rat × Rat :=
  let w1 := (((w / 100) * 2 - 1) + 1) / 2
  let w2 := 1 - w1
  ((c1.1 : Rat) * w1 + (c2.1 : Rat) * w2, (c1.2.1 : Rat) * w1 + (c2.2.1 : Rat) * w2, (c1.2.2 : Rat) * w1 + (c2.2.2 : Rat) * w2)

def mix (c1 c2 : RGB) (w : Rat) : RGB :=
  let e := mixExact c1 c2 w
  (byteOf e.1, byteOf e.2.1, byteOf e.2.2)

/-- `Color.hsl(h, s, l)`: `hls_to_rgb(int(h)/360, l, s)`, `s`/`l` as fractions -/
def hslExact (h : Int) (s l : Rat) : Rat × Rat × Rat := scale (hlsToRgb ((h : Rat) / 360) l s)
def hsl (h : Int) (s l : Rat) : RGB := roundEven3 (hslExact h s l)

def hue (c : RGB) : Rat := (hexToHls c).1 * 360
def lightness (c : RGB) : Rat := (hexToHls c).2.1 * 100
def saturation (c : RGB) : Rat := (hexToHls c).2.2 * 100

end Lessm.ColorFn
