/-
  Model of at-rule blocks and statements (import-free).

    parser.py  p_identifier_list_keyframe, p_keyframe_open / KeyframeSelector, p_font_face_open,
               p_identifier_list_viewport, p_statement_aux / p_statement_import (non-LESS branch)
    identifier.py  `_subp`: names whose blocks are printed nested (`subparse`)
    block.py   Block.parse: evaluate the inner items in order; a block with neither declarations nor
               inner blocks is dropped.   Block.fmt: own declarations, then inner blocks nested
               inside the braces for sub-parsed names.
    statement.py  Statement.parse / fmt: tokens joined verbatim (a space inserted before the media list
               of an @import)

  Values are evaluated by a parameter `ev` (variables and expressions: Lessm.Vars / Lessm.Expr).
-/
namespace Lessm.AtRule

structure Decl where
  prop : String
  value : String
deriving Repr, DecidableEq

/-- a frame of a keyframes block: its selector (`from`, `to`, `12.5%`) and declarations -/
structure Frame where
  sel : String
  decls : List Decl
deriving Repr, DecidableEq

inductive Item
  | stmt (text : String)                                  -- @charset "…";  @import "x.css" screen;
  | keyframes (kw : String) (name : String) (frames : List Frame)
  | declBlock (prelude : String) (decls : List Decl)     -- @font-face, @viewport, @-ms-viewport
  | rule (sel : String) (decls : List Decl)              -- an ordinary rule standing next to them
  | media (q : String) (body : List Item)
deriving Repr

def evalDecls (ev : String → String) (ds : List Decl) : List Decl := ds.map (fun d => ⟨d.prop, ev d.value⟩)

/-- frames with no declaration are dropped (Block.parse returns nothing for an empty block) -/
def evalFrames (ev : String → String) : List Frame → List Frame
  | [] => []
  | f :: r => if f.decls.isEmpty then evalFrames ev r else ⟨f.sel, evalDecls ev f.decls⟩ :: evalFrames ev r

mutual
def evalItem (ev : String → String) : Item → List Item
  | .stmt t => [.stmt t]
  | .keyframes kw n fs =>
      let fs' := evalFrames ev fs
      if fs'.isEmpty then [] else [.keyframes kw n fs']
  | .declBlock p ds => if ds.isEmpty then [] else [.declBlock p (evalDecls ev ds)]
  | .rule s ds => if ds.isEmpty then [] else [.rule s (evalDecls ev ds)]
  | .media q body =>
      let b := evalList ev body
      if b.isEmpty then [] else [.media q b]
def evalList (ev : String → String) : List Item → List Item
  | [] => []
  | i :: is => evalItem ev i ++ evalList ev is
end

/-- the structure of an item with every value erased -/
def shapeDecls (ds : List Decl) : List String := ds.map (·.prop)

mutual
def shape : Item → Item
  | .stmt t => .stmt t
  | .keyframes kw n fs => .keyframes kw n (fs.map (fun f => ⟨f.sel, f.decls.map (fun d => ⟨d.prop, ""⟩)⟩))
  | .declBlock p ds => .declBlock p (ds.map (fun d => ⟨d.prop, ""⟩))
  | .rule s ds => .rule s (ds.map (fun d => ⟨d.prop, ""⟩))
  | .media q body => .media q (shapeList body)
def shapeList : List Item → List Item
  | [] => []
  | i :: is => shape i :: shapeList is
end

mutual
/-- no empty frame, block or media body anywhere (what the property quantifies over) -/
def Full : Item → Bool
  | .stmt _ => true
  | .keyframes _ _ fs => !fs.isEmpty && fs.all (fun f => !f.decls.isEmpty)
  | .declBlock _ ds => !ds.isEmpty
  | .rule _ ds => !ds.isEmpty
  | .media _ body => !body.isEmpty && FullList body
def FullList : List Item → Bool
  | [] => true
  | i :: is => Full i && FullList is
end

/-- minified printing (`Block.fmt` with nl = ws = tab = "", eb = "\n") -/
def printDecls (ds : List Decl) : String := String.join (ds.map (fun d => d.prop ++ ":" ++ d.value ++ ";"))

mutual
def printItem : Item → String
  | .stmt t => t ++ "\n"
  | .keyframes kw n fs =>
      kw ++ " " ++ n ++ "{" ++ (String.join (fs.map (fun f => f.sel ++ "{" ++ printDecls f.decls ++ "}\n"))).trimAscii.toString ++ "}\n"
  | .declBlock p ds => p ++ "{" ++ printDecls ds ++ "}\n"
  | .rule s ds => s ++ "{" ++ printDecls ds ++ "}\n"
  | .media q body => "@media " ++ q ++ "{" ++ (printList body).trimAscii.toString ++ "}\n"
def printList : List Item → String
  | [] => ""
  | i :: is => printItem i ++ printList is
end

end Lessm.AtRule
