/-
  Helper definitions and lemmas for property C14 (`@import`), about `Lessm/Model/Import.lean`.

    * `impOut`, `impErrs`, `load_nil/other/imp_zero/imp_succ` : `load` unfolded, one equation per unit
    * `paste`      : the specification "paste the file's text in place of the statement"
    * `missingOf`  : the missing files, in traversal order
    * `depthLe`    : every chain of LESS imports from these units has at most `d` imports
    * `allExist`   : every LESS import followed within `d` levels names an existing file
    * path lemmas about `splitSlash`, `normalize`, `extChars`, `isLess`, `resolve`
    * `pasteU`     : the pasted file as a unit list (one file without LESS imports)
-/
import Lessm.Model.Import

namespace Lessm.Imp

/-! ## 0 unfolding equations -/

/-- output contributed by `@import ip` (written `raw`) in the file `cur`, read by a parser with `b`
    levels left below it -/
def impOut (files : Files) (b : Nat) (cur : Path) (ip raw : String) : List String :=
  if isLess ip then
    match findFile files (resolve cur ip) with
    | none => []
    | some us => ((load files b (resolve cur ip) us).1).getD []
  else [raw]

/-- errors registered while handling `@import ip` in the file `cur`: those of the imported file, then
    `tooDeep` if its parser was aborted; or `missing`; nothing for a non-LESS import -/
def impErrs (files : Files) (b : Nat) (cur : Path) (ip : String) : List IErr :=
  if isLess ip then
    match findFile files (resolve cur ip) with
    | none => [.missing (resolve cur ip)]
    | some us => (load files b (resolve cur ip) us).2 ++
        (if (load files b (resolve cur ip) us).1.isNone then [.tooDeep] else [])
  else []

theorem load_nil (files : Files) (b : Nat) (cur : Path) : load files b cur [] = (some [], []) := by
  rw [load]

theorem load_other (files : Files) (b : Nat) (cur : Path) (t : String) (r : List Unit') :
    load files b cur (.other t :: r) =
      ((load files b cur r).1.map (t :: ·), (load files b cur r).2) := by
  rw [load]
  rcases h : load files b cur r with ⟨_ | out, errs⟩ <;> rfl

theorem load_imp_zero (files : Files) (cur : Path) (ip raw : String) (r : List Unit') :
    load files 0 cur (.imp ip raw :: r) = (none, []) := by
  rw [load]

theorem load_imp_succ (files : Files) (b : Nat) (cur : Path) (ip raw : String) (r : List Unit') :
    load files (b + 1) cur (.imp ip raw :: r) =
      ((load files (b + 1) cur r).1.map (impOut files b cur ip raw ++ ·),
       impErrs files b cur ip ++ (load files (b + 1) cur r).2) := by
  rw [load]
  unfold impOut impErrs
  cases isLess ip with
  | false => rcases h : load files (b + 1) cur r with ⟨_ | out, errs⟩ <;> simp
  | true =>
    cases hf : findFile files (resolve cur ip) with
    | none => rcases h : load files (b + 1) cur r with ⟨_ | out, errs⟩ <;> simp [hf]
    | some us =>
      rcases h1 : load files b (resolve cur ip) us with ⟨_ | o1, e1⟩ <;>
        rcases h : load files (b + 1) cur r with ⟨_ | out, errs⟩ <;> simp [hf, h1]

/-! ## 1 only the level-9 parser aborts; errors and output are concatenated -/

theorem load_succ_isSome (files : Files) (b : Nat) (cur : Path) (us : List Unit') :
    (load files (b + 1) cur us).1.isSome = true := by
  induction us with
  | nil => simp [load_nil]
  | cons u r ih =>
    cases u with
    | other t => rw [load_other]; simpa using ih
    | imp ip raw => rw [load_imp_succ]; simpa using ih

theorem load_errs_append (files : Files) (b : Nat) (cur : Path) (us1 us2 : List Unit') :
    (load files (b + 1) cur (us1 ++ us2)).2 =
      (load files (b + 1) cur us1).2 ++ (load files (b + 1) cur us2).2 := by
  induction us1 with
  | nil => simp [load_nil]
  | cons u r ih =>
    cases u with
    | other t => simp only [List.cons_append, load_other, ih]
    | imp ip raw => simp only [List.cons_append, load_imp_succ, ih, List.append_assoc]

theorem load_out_append (files : Files) (b : Nat) (cur : Path) (us1 us2 : List Unit') :
    ((load files (b + 1) cur (us1 ++ us2)).1).getD [] =
      ((load files (b + 1) cur us1).1).getD [] ++ ((load files (b + 1) cur us2).1).getD [] := by
  induction us1 with
  | nil => simp [load_nil]
  | cons u r ih =>
    obtain ⟨o1, e1⟩ := Option.isSome_iff_exists.1 (load_succ_isSome files b cur (r ++ us2))
    obtain ⟨o2, e2⟩ := Option.isSome_iff_exists.1 (load_succ_isSome files b cur r)
    rw [e1, e2] at ih
    cases u with
    | other t => simp only [List.cons_append, load_other, e1, e2]; simpa using ih
    | imp ip raw => simp only [List.cons_append, load_imp_succ, e1, e2]; simpa using ih

/-- a level-9 parser that meets an import statement (of any kind) aborts -/
theorem load_zero_imp (files : Files) (cur : Path) {us : List Unit'} {ip raw : String}
    (h : Unit'.imp ip raw ∈ us) : (load files 0 cur us).1 = none := by
  induction us with
  | nil => cases h
  | cons u r ih =>
    cases u with
    | other t =>
      rw [load_other]
      rcases List.mem_cons.1 h with h | h
      · cases h
      · simp [ih h]
    | imp ip' raw' => rw [load_imp_zero]

/-! ## 2 the specification: paste the file in place of the statement -/

/-- units → text, with `sub tgt us` for the units `us` of an imported file `tgt` -/
def pasteWith (files : Files) (sub : Path → List Unit' → List String) (cur : Path) :
    List Unit' → List String
  | [] => []
  | .other t :: r => t :: pasteWith files sub cur r
  | .imp ip raw :: r =>
      (if isLess ip then
        match findFile files (resolve cur ip) with
        | none => []
        | some us => sub (resolve cur ip) us
       else [raw]) ++ pasteWith files sub cur r

/-- the text of the units of the file `cur` with every LESS import replaced by the pasted text of the
    file it names (relative paths in that text now taken from that file), `d` levels deep; a non-LESS
    import stays as written; a missing file contributes nothing -/
def paste (files : Files) : Nat → Path → List Unit' → List String
  | 0 => pasteWith files (fun _ _ => [])
  | d + 1 => pasteWith files (paste files d)

def missingWith (files : Files) (sub : Path → List Unit' → List IErr) (cur : Path) :
    List Unit' → List IErr
  | [] => []
  | .other _ :: r => missingWith files sub cur r
  | .imp ip _ :: r =>
      (if isLess ip then
        match findFile files (resolve cur ip) with
        | none => [.missing (resolve cur ip)]
        | some us => sub (resolve cur ip) us
       else []) ++ missingWith files sub cur r

/-- the missing LESS imports in traversal order, `d` levels of imports followed -/
def missingOf (files : Files) : Nat → Path → List Unit' → List IErr
  | 0 => missingWith files (fun _ _ => [])
  | d + 1 => missingWith files (missingOf files d)

/-- no import statement of any kind -/
def noImp : List Unit' → Bool
  | [] => true
  | .other _ :: r => noImp r
  | .imp _ _ :: _ => false

def depthLeWith (files : Files) (sub : Path → List Unit' → Bool) (cur : Path) : List Unit' → Bool
  | [] => true
  | .other _ :: r => depthLeWith files sub cur r
  | .imp ip _ :: r =>
      (if isLess ip then
        match findFile files (resolve cur ip) with
        | none => true
        | some us => sub (resolve cur ip) us
       else true) && depthLeWith files sub cur r

/-- every chain of LESS imports that starts in these units and runs through existing files (the last
    import may name a missing file) has at most `d` imports, and a file reached by `d` imports has no
    import statement at all (the parser of level 9 aborts at any import statement) -/
def depthLe (files : Files) : Nat → Path → List Unit' → Bool
  | 0 => fun _ => noImp
  | d + 1 => depthLeWith files (depthLe files d)

def allExistWith (files : Files) (sub : Path → List Unit' → Bool) (cur : Path) : List Unit' → Bool
  | [] => true
  | .other _ :: r => allExistWith files sub cur r
  | .imp ip _ :: r =>
      (if isLess ip then
        match findFile files (resolve cur ip) with
        | none => false
        | some us => sub (resolve cur ip) us
       else true) && allExistWith files sub cur r

/-- every LESS import followed within `d` levels names an existing file -/
def allExist (files : Files) : Nat → Path → List Unit' → Bool
  | 0 => allExistWith files (fun _ _ => true)
  | d + 1 => allExistWith files (allExist files d)

/-! ### 2.1 `++` -/

theorem pasteWith_append (files : Files) (sub) (cur : Path) (a b : List Unit') :
    pasteWith files sub cur (a ++ b) = pasteWith files sub cur a ++ pasteWith files sub cur b := by
  induction a with
  | nil => rfl
  | cons u r ih => cases u <;> simp [pasteWith, ih]

theorem paste_append (files : Files) (d : Nat) (cur : Path) (a b : List Unit') :
    paste files d cur (a ++ b) = paste files d cur a ++ paste files d cur b := by
  cases d <;> exact pasteWith_append ..

theorem missingWith_append (files : Files) (sub) (cur : Path) (a b : List Unit') :
    missingWith files sub cur (a ++ b) =
      missingWith files sub cur a ++ missingWith files sub cur b := by
  induction a with
  | nil => rfl
  | cons u r ih => cases u <;> simp [missingWith, ih]

theorem missingOf_append (files : Files) (d : Nat) (cur : Path) (a b : List Unit') :
    missingOf files d cur (a ++ b) = missingOf files d cur a ++ missingOf files d cur b := by
  cases d <;> exact missingWith_append ..

theorem noImp_append (a b : List Unit') : noImp (a ++ b) = (noImp a && noImp b) := by
  induction a with
  | nil => rfl
  | cons u r ih => cases u <;> simp [noImp, ih]

theorem depthLeWith_append (files : Files) (sub) (cur : Path) (a b : List Unit') :
    depthLeWith files sub cur (a ++ b) =
      (depthLeWith files sub cur a && depthLeWith files sub cur b) := by
  induction a with
  | nil => rfl
  | cons u r ih => cases u <;> simp [depthLeWith, ih, Bool.and_assoc]

theorem depthLe_append (files : Files) (d : Nat) (cur : Path) (a b : List Unit') :
    depthLe files d cur (a ++ b) = (depthLe files d cur a && depthLe files d cur b) := by
  cases d
  · exact noImp_append ..
  · exact depthLeWith_append ..

theorem allExistWith_append (files : Files) (sub) (cur : Path) (a b : List Unit') :
    allExistWith files sub cur (a ++ b) =
      (allExistWith files sub cur a && allExistWith files sub cur b) := by
  induction a with
  | nil => rfl
  | cons u r ih => cases u <;> simp [allExistWith, ih, Bool.and_assoc]

theorem allExist_append (files : Files) (d : Nat) (cur : Path) (a b : List Unit') :
    allExist files d cur (a ++ b) = (allExist files d cur a && allExist files d cur b) := by
  cases d <;> exact allExistWith_append ..

/-! ### 2.2 one-unit equations of the specification -/

theorem paste_nil (files : Files) (d : Nat) (cur : Path) : paste files d cur [] = [] := by
  cases d <;> rfl

theorem paste_other (files : Files) (d : Nat) (cur : Path) (t : String) (r : List Unit') :
    paste files d cur (.other t :: r) = t :: paste files d cur r := by
  cases d <;> rfl

theorem paste_imp_nonless (files : Files) (d : Nat) (cur : Path) {ip : String} (raw : String)
    (r : List Unit') (h : isLess ip = false) :
    paste files d cur (.imp ip raw :: r) = raw :: paste files d cur r := by
  cases d <;> simp [paste, pasteWith, h]

theorem paste_imp_missing (files : Files) (d : Nat) (cur : Path) {ip : String} (raw : String)
    (r : List Unit') (h : isLess ip = true) (hf : findFile files (resolve cur ip) = none) :
    paste files d cur (.imp ip raw :: r) = paste files d cur r := by
  cases d <;> simp [paste, pasteWith, h, hf]

theorem paste_imp_less (files : Files) (d : Nat) (cur : Path) {ip : String} (raw : String)
    (r : List Unit') {us : List Unit'} (h : isLess ip = true)
    (hf : findFile files (resolve cur ip) = some us) :
    paste files (d + 1) cur (.imp ip raw :: r) =
      paste files d (resolve cur ip) us ++ paste files (d + 1) cur r := by
  simp [paste, pasteWith, h, hf]

/-! ### 2.3 shallow imports expand completely -/

theorem load_noImp (files : Files) (b : Nat) (cur : Path) {us : List Unit'} (h : noImp us = true) :
    load files b cur us = (some (paste files b cur us), []) ∧ missingOf files b cur us = [] ∧
      ∀ sub, pasteWith files sub cur us = paste files b cur us := by
  induction us with
  | nil => cases b <;> simp [load_nil, paste, pasteWith, missingOf, missingWith]
  | cons u r ih =>
    cases u with
    | imp ip raw => simp [noImp] at h
    | other t =>
      obtain ⟨h1, h2, h3⟩ := ih (by simpa [noImp] using h)
      rw [load_other, h1]
      cases b with
      | zero =>
        simp only [paste, missingOf, pasteWith, missingWith] at h2 h3 ⊢
        exact ⟨rfl, h2, fun sub => by rw [h3 sub]⟩
      | succ b =>
        simp only [paste, missingOf, pasteWith, missingWith] at h2 h3 ⊢
        exact ⟨rfl, h2, fun sub => by rw [h3 sub]⟩

/-- shallow imports expand completely: output = pasted text, register = the missing files -/
theorem load_shallow (files : Files) : ∀ (b : Nat) (cur : Path) (us : List Unit'),
    depthLe files b cur us = true →
    load files b cur us = (some (paste files b cur us), missingOf files b cur us) := by
  intro b
  induction b with
  | zero =>
    intro cur us h
    have := load_noImp files 0 cur (us := us) (by simpa [depthLe] using h)
    rw [this.1, this.2.1]
  | succ b ihb =>
    intro cur us h
    induction us with
    | nil => simp [load_nil, paste, pasteWith, missingOf, missingWith]
    | cons u r ih =>
      cases u with
      | other t =>
        have hr : depthLe files (b + 1) cur r = true := by simpa [depthLe, depthLeWith] using h
        rw [load_other, ih hr]
        simp [paste, pasteWith, missingOf, missingWith]
      | imp ip raw =>
        simp only [depthLe, depthLeWith, Bool.and_eq_true] at h
        have hr : depthLe files (b + 1) cur r = true := by simpa [depthLe] using h.2
        rw [load_imp_succ, ih hr]
        unfold impOut impErrs
        cases hl : isLess ip with
        | false => simp [paste, pasteWith, missingOf, missingWith, hl]
        | true =>
          cases hf : findFile files (resolve cur ip) with
          | none => simp [paste, pasteWith, missingOf, missingWith, hl, hf]
          | some uf =>
            have hfd : depthLe files b (resolve cur ip) uf = true := by simpa [hl, hf] using h.1
            simp [paste, pasteWith, missingOf, missingWith, hl, hf, ihb _ uf hfd]

theorem missingWith_nil_of_allExistWith (files : Files) {subE : Path → List Unit' → Bool}
    {subM : Path → List Unit' → List IErr}
    (hsub : ∀ p us, subE p us = true → subM p us = []) (cur : Path) (us : List Unit')
    (h : allExistWith files subE cur us = true) : missingWith files subM cur us = [] := by
  induction us with
  | nil => rfl
  | cons u r ih =>
    cases u with
    | other t => exact ih (by simpa [allExistWith] using h)
    | imp ip raw =>
      simp only [allExistWith, Bool.and_eq_true] at h
      have h2 := ih h.2
      cases hl : isLess ip with
      | false => simp [missingWith, hl, h2]
      | true =>
        cases hf : findFile files (resolve cur ip) with
        | none => simp [hl, hf] at h
        | some uf =>
          have := hsub _ uf (by simpa [hl, hf] using h.1)
          simp [missingWith, hl, hf, this, h2]

theorem missingOf_of_allExist (files : Files) : ∀ (b : Nat) (cur : Path) (us : List Unit'),
    allExist files b cur us = true → missingOf files b cur us = []
  | 0, cur, us, h => missingWith_nil_of_allExistWith files (fun _ _ _ => rfl) cur us h
  | b + 1, cur, us, h =>
    missingWith_nil_of_allExistWith files (fun p us h => missingOf_of_allExist files b p us h) cur us h

theorem tooDeep_not_mem_missingWith (files : Files) {sub : Path → List Unit' → List IErr}
    (hsub : ∀ p us, IErr.tooDeep ∉ sub p us) (cur : Path) (us : List Unit') :
    IErr.tooDeep ∉ missingWith files sub cur us := by
  induction us with
  | nil => simp [missingWith]
  | cons u r ih =>
    cases u with
    | other t => simpa [missingWith] using ih
    | imp ip raw =>
      cases hl : isLess ip with
      | false => simpa [missingWith, hl] using ih
      | true =>
        cases hf : findFile files (resolve cur ip) with
        | none => simpa [missingWith, hl, hf] using ih
        | some uf => simpa [missingWith, hl, hf] using ⟨hsub _ uf, ih⟩

theorem tooDeep_not_mem_missingOf (files : Files) : ∀ (b : Nat) (cur : Path) (us : List Unit'),
    IErr.tooDeep ∉ missingOf files b cur us
  | 0, cur, us => tooDeep_not_mem_missingWith files (fun _ _ => by simp) cur us
  | b + 1, cur, us =>
    tooDeep_not_mem_missingWith files (fun p us => tooDeep_not_mem_missingOf files b p us) cur us

/-! ### 2.4 fuel independence -/

theorem depthLeWith_of_noImp (files : Files) (sub) (cur : Path) {us : List Unit'}
    (h : noImp us = true) : depthLeWith files sub cur us = true := by
  induction us with
  | nil => rfl
  | cons u r ih =>
    cases u with
    | imp ip raw => simp [noImp] at h
    | other t => exact ih (by simpa [noImp] using h)

theorem depthLeWith_mono (files : Files) {sub sub' : Path → List Unit' → Bool}
    (hs : ∀ p us, sub p us = true → sub' p us = true) (cur : Path) (us : List Unit')
    (h : depthLeWith files sub cur us = true) : depthLeWith files sub' cur us = true := by
  induction us with
  | nil => rfl
  | cons u r ih =>
    cases u with
    | other t => exact ih (by simpa [depthLeWith] using h)
    | imp ip raw =>
      simp only [depthLeWith, Bool.and_eq_true] at h ⊢
      refine ⟨?_, ih h.2⟩
      cases hl : isLess ip with
      | false => simp
      | true =>
        cases hf : findFile files (resolve cur ip) with
        | none => simp
        | some uf => simpa [hl, hf] using hs _ uf (by simpa [hl, hf] using h.1)

theorem depthLe_succ (files : Files) : ∀ (d : Nat) (cur : Path) (us : List Unit'),
    depthLe files d cur us = true → depthLe files (d + 1) cur us = true
  | 0, cur, us, h => depthLeWith_of_noImp files _ cur (by simpa [depthLe] using h)
  | d + 1, cur, us, h => depthLeWith_mono files (fun p us h => depthLe_succ files d p us h) cur us h

theorem depthLe_add (files : Files) (d k : Nat) (cur : Path) (us : List Unit')
    (h : depthLe files d cur us = true) : depthLe files (d + k) cur us = true := by
  induction k with
  | zero => exact h
  | succ k ih => exact depthLe_succ files (d + k) cur us ih

theorem pasteWith_congr (files : Files) {subD : Path → List Unit' → Bool}
    {sub sub' : Path → List Unit' → List String}
    (hs : ∀ p us, subD p us = true → sub p us = sub' p us) (cur : Path) (us : List Unit')
    (h : depthLeWith files subD cur us = true) :
    pasteWith files sub cur us = pasteWith files sub' cur us := by
  induction us with
  | nil => rfl
  | cons u r ih =>
    cases u with
    | other t => simp [pasteWith, ih (by simpa [depthLeWith] using h)]
    | imp ip raw =>
      simp only [depthLeWith, Bool.and_eq_true] at h
      have h2 := ih h.2
      cases hl : isLess ip with
      | false => simp [pasteWith, hl, h2]
      | true =>
        cases hf : findFile files (resolve cur ip) with
        | none => simp [pasteWith, hl, hf, h2]
        | some uf =>
          have := hs _ uf (by simpa [hl, hf] using h.1)
          simp [pasteWith, hl, hf, this, h2]

/-- the fuel of the specification does not matter once it covers the import depth -/
theorem paste_fuel (files : Files) : ∀ (d k : Nat) (cur : Path) (us : List Unit'),
    depthLe files d cur us = true → paste files (d + k) cur us = paste files d cur us
  | 0, k, cur, us, h => by
    have h' : noImp us = true := by simpa [depthLe] using h
    have h1 := (load_noImp files (0 + k) cur h').2.2 (fun _ _ => [])
    have h2 := (load_noImp files 0 cur h').2.2 (fun _ _ => [])
    rw [← h1, h2]
  | d + 1, k, cur, us, h => by
    have e : d + 1 + k = (d + k) + 1 := by omega
    rw [e]
    exact pasteWith_congr files (fun p us h => paste_fuel files d k p us h) cur us h

theorem missingWith_congr (files : Files) {subD : Path → List Unit' → Bool}
    {sub sub' : Path → List Unit' → List IErr}
    (hs : ∀ p us, subD p us = true → sub p us = sub' p us) (cur : Path) (us : List Unit')
    (h : depthLeWith files subD cur us = true) :
    missingWith files sub cur us = missingWith files sub' cur us := by
  induction us with
  | nil => rfl
  | cons u r ih =>
    cases u with
    | other t => simp [missingWith, ih (by simpa [depthLeWith] using h)]
    | imp ip raw =>
      simp only [depthLeWith, Bool.and_eq_true] at h
      have h2 := ih h.2
      cases hl : isLess ip with
      | false => simp [missingWith, hl, h2]
      | true =>
        cases hf : findFile files (resolve cur ip) with
        | none => simp [missingWith, hl, hf, h2]
        | some uf =>
          have := hs _ uf (by simpa [hl, hf] using h.1)
          simp [missingWith, hl, hf, this, h2]

theorem missingOf_fuel (files : Files) : ∀ (d k : Nat) (cur : Path) (us : List Unit'),
    depthLe files d cur us = true → missingOf files (d + k) cur us = missingOf files d cur us
  | 0, k, cur, us, h => by
    have h' : noImp us = true := by simpa [depthLe] using h
    rw [(load_noImp files (0 + k) cur h').2.1, (load_noImp files 0 cur h').2.1]
  | d + 1, k, cur, us, h => by
    have e : d + 1 + k = (d + k) + 1 := by omega
    rw [e]
    exact missingWith_congr files (fun p us h => missingOf_fuel files d k p us h) cur us h


/-! ## 3 paths -/

/-! ### 3.1 `splitSlash` -/

theorem splitSlashAux_slash (r cur : List Char) :
    splitSlashAux ('/' :: r) cur = String.ofList cur.reverse :: splitSlashAux r [] := by
  rw [splitSlashAux]

theorem splitSlashAux_ne (c : Char) (r cur : List Char) (h : c ≠ '/') :
    splitSlashAux (c :: r) cur = splitSlashAux r (c :: cur) := by
  rw [splitSlashAux]; exact fun e => h e

theorem splitSlashAux_noSlash (cs cur : List Char) (h : '/' ∉ cs) :
    splitSlashAux cs cur = [String.ofList (cur.reverse ++ cs)] := by
  induction cs generalizing cur with
  | nil => simp [splitSlashAux]
  | cons c r ih =>
    have hc : c ≠ '/' := fun e => h (e ▸ List.mem_cons_self ..)
    rw [splitSlashAux_ne c r cur hc, ih _ (fun hm => h (List.mem_cons_of_mem _ hm))]
    simp

theorem splitSlashAux_append_slash (a b cur : List Char) (h : '/' ∉ a) :
    splitSlashAux (a ++ '/' :: b) cur = String.ofList (cur.reverse ++ a) :: splitSlashAux b [] := by
  induction a generalizing cur with
  | nil => simp [splitSlashAux_slash]
  | cons c r ih =>
    have hc : c ≠ '/' := fun e => h (e ▸ List.mem_cons_self ..)
    rw [List.cons_append, splitSlashAux_ne c _ cur hc, ih _ (fun hm => h (List.mem_cons_of_mem _ hm))]
    simp

theorem splitSlashAux_ne_nil (cs cur : List Char) : splitSlashAux cs cur ≠ [] := by
  induction cs generalizing cur with
  | nil => simp [splitSlashAux]
  | cons c r ih =>
    by_cases hc : c = '/'
    · subst hc; simp [splitSlashAux_slash]
    · rw [splitSlashAux_ne c r cur hc]; exact ih _

/-- the last component only depends on what follows the last '/' -/
theorem splitSlashAux_getLast (a b cur : List Char) (h : '/' ∉ b) :
    (splitSlashAux (a ++ '/' :: b) cur).getLastD "" = String.ofList b := by
  induction a generalizing cur with
  | nil => simp [splitSlashAux_slash, splitSlashAux_noSlash b [] h]
  | cons c r ih =>
    by_cases hc : c = '/'
    · subst hc
      rw [List.cons_append, splitSlashAux_slash]
      have := ih []
      cases hs : splitSlashAux (r ++ '/' :: b) [] with
      | nil => exact absurd hs (splitSlashAux_ne_nil _ _)
      | cons x xs => rw [hs] at this; simpa using this
    · rw [List.cons_append, splitSlashAux_ne c _ cur hc]; exact ih _

theorem splitSlash_noSlash (s : String) (h : '/' ∉ s.toList) : splitSlash s = [s] := by
  simp [splitSlash, splitSlashAux_noSlash _ _ h]

theorem slash_toList : ("/" : String).toList = ['/'] := by decide

theorem intercalate_cons_cons (sep a b : List Char) (r : List (List Char)) :
    sep.intercalate (a :: b :: r) = a ++ sep ++ sep.intercalate (b :: r) := by
  simp [List.intercalate, List.intersperse]

/-- splitting at '/' undoes joining with "/" (components without '/', at least one component) -/
theorem splitSlash_intercalate (cs : List String) (hne : cs ≠ [])
    (h : ∀ c ∈ cs, '/' ∉ c.toList) : splitSlash (String.intercalate "/" cs) = cs := by
  unfold splitSlash
  rw [String.toList_intercalate, slash_toList]
  induction cs with
  | nil => exact absurd rfl hne
  | cons a r ih =>
    cases r with
    | nil =>
      have := splitSlashAux_noSlash a.toList [] (h a (List.mem_cons_self ..))
      simpa [List.intercalate] using this
    | cons b r' =>
      rw [List.map_cons, List.map_cons, intercalate_cons_cons, List.append_assoc]
      have := splitSlashAux_append_slash a.toList (['/'].intercalate (b.toList :: r'.map String.toList)) []
        (h a (List.mem_cons_self ..))
      simp only [List.singleton_append]
      rw [this]
      have ih' := ih (by simp) (fun c hc => h c (List.mem_cons_of_mem _ hc))
      simp only [List.map_cons] at ih'
      rw [ih']; simp


/-! ### 3.2 `normalize` -/

/-- a proper path component: not empty, not `.`, not `..` -/
def Proper (c : String) : Prop := c ≠ "" ∧ c ≠ "." ∧ c ≠ ".."

instance (c : String) : Decidable (Proper c) := by unfold Proper; infer_instance

theorem normalizeAux_proper (c : String) (r acc : List String) (h : Proper c) :
    normalizeAux (c :: r) acc = normalizeAux r (c :: acc) := by
  simp [normalizeAux, h.1, h.2.1, h.2.2]

theorem normalizeAux_dot (r acc : List String) : normalizeAux ("." :: r) acc = normalizeAux r acc := by
  simp [normalizeAux]

theorem normalizeAux_empty (r acc : List String) : normalizeAux ("" :: r) acc = normalizeAux r acc := by
  simp [normalizeAux]

theorem normalizeAux_dotdot (r acc : List String) :
    normalizeAux (".." :: r) acc = normalizeAux r acc.tail := by
  simp [normalizeAux]

theorem normalizeAux_proper_append (xs ys acc : List String) (h : ∀ c ∈ xs, Proper c) :
    normalizeAux (xs ++ ys) acc = normalizeAux ys (xs.reverse ++ acc) := by
  induction xs generalizing acc with
  | nil => rfl
  | cons c r ih =>
    rw [List.cons_append, normalizeAux_proper c _ acc (h c (List.mem_cons_self ..)),
      ih _ (fun c hc => h c (List.mem_cons_of_mem _ hc))]
    simp

/-- a list of proper components is its own normal form -/
theorem normalize_proper (xs : List String) (h : ∀ c ∈ xs, Proper c) : normalize xs = xs := by
  have := normalizeAux_proper_append xs [] [] h
  simp only [List.append_nil] at this
  simp [normalize, this, normalizeAux]

/-- `d/..` cancels -/
theorem normalize_dotdot (dir rest : List String) (d : String) (hdir : ∀ c ∈ dir, Proper c)
    (hd : Proper d) : normalize (dir ++ [d, ".."] ++ rest) = normalize (dir ++ rest) := by
  unfold normalize
  rw [List.append_assoc, normalizeAux_proper_append dir _ [] hdir,
    normalizeAux_proper_append dir _ [] hdir]
  simp only [List.cons_append, List.nil_append]
  rw [normalizeAux_proper d _ _ hd, normalizeAux_dotdot, List.tail_cons]

/-- `.` and empty components are dropped, wherever they are -/
theorem normalizeAux_skip (xs ys acc : List String) (c : String) (hc : c = "" ∨ c = ".") :
    normalizeAux (xs ++ c :: ys) acc = normalizeAux (xs ++ ys) acc := by
  induction xs generalizing acc with
  | nil => rcases hc with rfl | rfl <;> simp [normalizeAux]
  | cons x r ih =>
    simp only [List.cons_append, normalizeAux]
    split
    · exact ih _
    · split
      · exact ih _
      · exact ih _

theorem normalize_skip (xs ys : List String) (c : String) (hc : c = "" ∨ c = ".") :
    normalize (xs ++ c :: ys) = normalize (xs ++ ys) := normalizeAux_skip xs ys [] c hc

/-- the result of `normalize` consists of proper components only, so it is a fixed point -/
theorem normalizeAux_all_proper (xs acc : List String) (h : ∀ c ∈ acc, Proper c) :
    ∀ c ∈ normalizeAux xs acc, Proper c := by
  induction xs generalizing acc with
  | nil => simpa [normalizeAux] using h
  | cons x r ih =>
    simp only [normalizeAux]
    split
    · exact ih _ h
    · rename_i h1
      split
      · exact ih _ (fun c hc => h c (List.mem_of_mem_tail hc))
      · rename_i h2
        refine ih _ (fun c hc => ?_)
        rcases List.mem_cons.1 hc with rfl | hc
        · simp only [Bool.or_eq_true, beq_iff_eq, not_or] at h1
          exact ⟨h1.1, h1.2, by simpa using h2⟩
        · exact h c hc

theorem normalize_all_proper (xs : List String) : ∀ c ∈ normalize xs, Proper c :=
  normalizeAux_all_proper xs [] (by simp)

theorem normalize_idem (xs : List String) : normalize (normalize xs) = normalize xs :=
  normalize_proper _ (normalize_all_proper xs)

/-! ### 3.3 `extChars`, `isLess` -/

/-- the last component of a written path -/
def lastComp (p : String) : String := (splitSlash p).getLastD ""

/-- `splitext` of one component -/
def extOf (cs : List Char) : List Char :=
  if (cs.dropWhile (· == '.')).contains '.' then
    '.' :: ((cs.dropWhile (· == '.')).reverse.takeWhile (· != '.')).reverse
  else []

theorem extChars_eq (p : String) : extChars p = extOf (lastComp p).toList := rfl

theorem lastComp_noSlash (n : String) (h : '/' ∉ n.toList) : lastComp n = n := by
  simp [lastComp, splitSlash_noSlash n h, List.getLastD]

theorem lastComp_pre (pre n : String) (h : '/' ∉ n.toList) : lastComp (pre ++ "/" ++ n) = n := by
  unfold lastComp splitSlash
  simp only [String.toList_append, slash_toList, List.append_assoc, List.singleton_append]
  rw [splitSlashAux_getLast _ _ _ h, String.ofList_toList]

theorem extOf_nodot (cs : List Char) (h : '.' ∉ cs) : extOf cs = [] := by
  unfold extOf
  have : '.' ∉ cs.dropWhile (· == '.') := fun hc => h ((List.dropWhile_sublist _).subset hc)
  simp [this]

theorem less_toList : (".less" : String).toList = ['.', 'l', 'e', 's', 's'] := by decide

theorem dropWhile_append_of_ne_nil {α} (p : α → Bool) (a b : List α) (h : a.dropWhile p ≠ []) :
    (a ++ b).dropWhile p = a.dropWhile p ++ b := by
  induction a with
  | nil => simp at h
  | cons x r ih =>
    simp only [List.cons_append, List.dropWhile_cons] at h ⊢
    split
    · rename_i hx; simp only [hx, if_true] at h; exact ih h
    · rfl

theorem all_of_dropWhile_nil {α} (p : α → Bool) (a : List α) (h : a.dropWhile p = []) :
    ∀ x ∈ a, p x = true := by
  induction a with
  | nil => simp
  | cons x r ih =>
    simp only [List.dropWhile_cons] at h
    split at h
    · rename_i hx
      intro y hy
      rcases List.mem_cons.1 hy with rfl | hy
      · exact hx
      · exact ih h y hy
    · cases h

/-- a component that is not made of dots only, followed by `.less`, has the extension `.less` -/
theorem extOf_less (cs : List Char) (h : ∃ c ∈ cs, c ≠ '.') :
    extOf (cs ++ ['.', 'l', 'e', 's', 's']) = ['.', 'l', 'e', 's', 's'] := by
  have hne : cs.dropWhile (· == '.') ≠ [] := by
    obtain ⟨c, hc, hcd⟩ := h
    intro he
    exact hcd (by simpa using all_of_dropWhile_nil _ _ he c hc)
  unfold extOf
  rw [dropWhile_append_of_ne_nil _ _ _ hne]
  have h1 : (cs.dropWhile (· == '.') ++ ['.', 'l', 'e', 's', 's']).contains '.' = true := by
    simp
  rw [h1]
  simp [List.takeWhile]

theorem isLess_of_ext_nil {p : String} (h : extChars p = []) : isLess p = true := by
  simp [isLess, h]

theorem isLess_of_ext_less {p : String} (h : extChars p = ['.', 'l', 'e', 's', 's']) :
    isLess p = true := by
  simp only [isLess, h]; decide


/-! ### 3.4 `resolve` -/

theorem resolve_of_ext_nil (cur : Path) {p : String} (h : extChars p = []) :
    resolve cur p = normalize (cur.dropLast ++ splitSlash (p ++ ".less")) := by
  simp [resolve, h]

theorem resolve_of_ext_ne_nil (cur : Path) {p : String} (h : extChars p ≠ []) :
    resolve cur p = normalize (cur.dropLast ++ splitSlash p) := by
  simp [resolve, h]

/-- a path without extension and the same path with `.less` name the same file -/
theorem resolve_ext_optional (cur : Path) {p : String} (h1 : extChars p = [])
    (h2 : extChars (p ++ ".less") ≠ []) : resolve cur p = resolve cur (p ++ ".less") := by
  rw [resolve_of_ext_nil cur h1, resolve_of_ext_ne_nil cur h2]

theorem extChars_name_nodot (n : String) (hs : '/' ∉ n.toList) (hd : '.' ∉ n.toList) :
    extChars n = [] := by
  rw [extChars_eq, lastComp_noSlash n hs, extOf_nodot _ hd]

theorem extChars_pre_nodot (pre n : String) (hs : '/' ∉ n.toList) (hd : '.' ∉ n.toList) :
    extChars (pre ++ "/" ++ n) = [] := by
  rw [extChars_eq, lastComp_pre pre n hs, extOf_nodot _ hd]

theorem slash_not_mem_less (n : String) (hs : '/' ∉ n.toList) : '/' ∉ (n ++ ".less").toList := by
  simp [String.toList_append, less_toList, hs]

theorem extChars_name_less (n : String) (hs : '/' ∉ n.toList) (hn : ∃ c ∈ n.toList, c ≠ '.') :
    extChars (n ++ ".less") = ['.', 'l', 'e', 's', 's'] := by
  rw [extChars_eq, lastComp_noSlash _ (slash_not_mem_less n hs), String.toList_append, less_toList,
    extOf_less _ hn]

theorem extChars_pre_less (pre n : String) (hs : '/' ∉ n.toList) (hn : ∃ c ∈ n.toList, c ≠ '.') :
    extChars (pre ++ "/" ++ n ++ ".less") = ['.', 'l', 'e', 's', 's'] := by
  rw [String.append_assoc (s₁ := pre ++ "/"), extChars_eq, lastComp_pre _ _ (slash_not_mem_less n hs),
    String.toList_append, less_toList, extOf_less _ hn]

theorem exists_ne_dot_of_nodot (n : String) (hne : n ≠ "") (hd : '.' ∉ n.toList) :
    ∃ c ∈ n.toList, c ≠ '.' := by
  cases h : n.toList with
  | nil => exact absurd (String.toList_eq_nil_iff.1 h) hne
  | cons c r =>
    refine ⟨c, List.mem_cons_self .., fun e => hd ?_⟩
    rw [h, e]; exact List.mem_cons_self ..

theorem proper_less (g : String) : Proper (g ++ ".less") := by
  have key : ∀ s : String, s.toList.length < 5 → g ++ ".less" ≠ s := by
    intro s hs e
    have := congrArg (fun t => t.toList.length) e
    simp only [String.toList_append, less_toList, List.length_append, List.length_cons,
      List.length_nil] at this
    omega
  exact ⟨key _ (by decide), key _ (by decide), key _ (by decide)⟩

theorem intercalate_snoc_append (sub : List String) (g e : String) :
    String.intercalate "/" (sub ++ [g]) ++ e = String.intercalate "/" (sub ++ [g ++ e]) := by
  rw [← String.toList_inj]
  simp only [String.toList_append, String.toList_intercalate, slash_toList]
  induction sub with
  | nil => simp [List.intercalate]
  | cons a r ih =>
    cases r with
    | nil =>
      simp [List.intercalate, List.intersperse]
    | cons b r' =>
      simp only [List.cons_append, List.map_cons, intercalate_cons_cons, List.append_assoc] at ih ⊢
      rw [ih]

/-- written path with extension, relative to the directory of the importing file -/
theorem resolve_relative (dir sub : List String) (f g' : String)
    (hdir : ∀ c ∈ dir, Proper c) (hsub : ∀ c ∈ sub, Proper c ∧ '/' ∉ c.toList)
    (hg : Proper g' ∧ '/' ∉ g'.toList) (hext : extOf g'.toList ≠ []) :
    resolve (dir ++ [f]) (String.intercalate "/" (sub ++ [g'])) = dir ++ sub ++ [g'] := by
  have hsp : splitSlash (String.intercalate "/" (sub ++ [g'])) = sub ++ [g'] :=
    splitSlash_intercalate _ (by simp) (by
      intro c hc
      rcases List.mem_append.1 hc with hc | hc
      · exact (hsub c hc).2
      · rw [List.mem_singleton.1 hc]; exact hg.2)
  have he : extChars (String.intercalate "/" (sub ++ [g'])) ≠ [] := by
    rw [extChars_eq, lastComp, hsp]; simpa using hext
  rw [resolve_of_ext_ne_nil _ he, hsp, List.dropLast_concat, ← List.append_assoc]
  apply normalize_proper
  intro c hc
  simp only [List.mem_append, List.mem_singleton] at hc
  rcases hc with (hc | hc) | rfl
  · exact hdir c hc
  · exact (hsub c hc).1
  · exact hg.1


/-! ## 4 the pasted file as a file -/

/-- the text a unit contributes when nothing is imported -/
def Unit'.text : Unit' → String
  | .other t => t
  | .imp _ raw => raw

/-- units → units, with `sub tgt us` for the units `us` of an imported file `tgt` -/
def pasteUWith (files : Files) (sub : Path → List Unit' → List Unit') (cur : Path) :
    List Unit' → List Unit'
  | [] => []
  | .other t :: r => .other t :: pasteUWith files sub cur r
  | .imp ip raw :: r =>
      (if isLess ip then
        match findFile files (resolve cur ip) with
        | none => []
        | some us => sub (resolve cur ip) us
       else [.imp ip raw]) ++ pasteUWith files sub cur r

/-- the units of the one file obtained by pasting: every LESS import statement replaced by the pasted
    units of the file it names; the other units, the non-LESS import statements among them, are kept -/
def pasteU (files : Files) : Nat → Path → List Unit' → List Unit'
  | 0 => pasteUWith files (fun _ _ => [])
  | d + 1 => pasteUWith files (pasteU files d)

/-- no LESS import statement is left -/
def nonLessOnly : List Unit' → Bool
  | [] => true
  | .other _ :: r => nonLessOnly r
  | .imp ip _ :: r => !isLess ip && nonLessOnly r

theorem nonLessOnly_append (a b : List Unit') :
    nonLessOnly (a ++ b) = (nonLessOnly a && nonLessOnly b) := by
  induction a with
  | nil => rfl
  | cons u r ih => cases u <;> simp [nonLessOnly, ih, Bool.and_assoc]

theorem pasteWith_eq_text (files : Files) {sub : Path → List Unit' → List String}
    {subU : Path → List Unit' → List Unit'}
    (hs : ∀ p us, sub p us = (subU p us).map Unit'.text) (cur : Path) (us : List Unit') :
    pasteWith files sub cur us = (pasteUWith files subU cur us).map Unit'.text := by
  induction us with
  | nil => rfl
  | cons u r ih =>
    cases u with
    | other t => simp [pasteWith, pasteUWith, ih, Unit'.text]
    | imp ip raw =>
      cases hl : isLess ip with
      | false => simp [pasteWith, pasteUWith, ih, hl, Unit'.text]
      | true =>
        cases hf : findFile files (resolve cur ip) with
        | none => simp [pasteWith, pasteUWith, ih, hl, hf]
        | some uf => simp [pasteWith, pasteUWith, ih, hl, hf, hs]

/-- the pasted text is the text of the pasted file -/
theorem paste_eq_text : ∀ (files : Files) (d : Nat) (cur : Path) (us : List Unit'),
    paste files d cur us = (pasteU files d cur us).map Unit'.text
  | files, 0, cur, us =>
    pasteWith_eq_text files (sub := fun _ _ => []) (subU := fun _ _ => []) (fun _ _ => rfl) cur us
  | files, d + 1, cur, us => pasteWith_eq_text files (fun p us => paste_eq_text files d p us) cur us

theorem nonLessOnly_pasteUWith (files : Files) {subU : Path → List Unit' → List Unit'}
    (hs : ∀ p us, nonLessOnly (subU p us) = true) (cur : Path) (us : List Unit') :
    nonLessOnly (pasteUWith files subU cur us) = true := by
  induction us with
  | nil => rfl
  | cons u r ih =>
    cases u with
    | other t => simpa [pasteUWith, nonLessOnly] using ih
    | imp ip raw =>
      cases hl : isLess ip with
      | false => simp [pasteUWith, nonLessOnly, ih, hl]
      | true =>
        cases hf : findFile files (resolve cur ip) with
        | none => simp [pasteUWith, ih, hl, hf]
        | some uf => simp [pasteUWith, nonLessOnly_append, ih, hl, hf, hs]

theorem nonLessOnly_pasteU : ∀ (files : Files) (d : Nat) (cur : Path) (us : List Unit'),
    nonLessOnly (pasteU files d cur us) = true
  | files, 0, cur, us => nonLessOnly_pasteUWith files (subU := fun _ _ => []) (fun _ _ => rfl) cur us
  | files, d + 1, cur, us =>
    nonLessOnly_pasteUWith files (fun p us => nonLessOnly_pasteU files d p us) cur us

/-- a file without LESS imports: its output is its text, in any file tree and at any place -/
theorem load_nonLessOnly (files : Files) (b : Nat) (cur : Path) (us : List Unit')
    (h : nonLessOnly us = true) : load files (b + 1) cur us = (some (us.map Unit'.text), []) := by
  induction us with
  | nil => simp [load_nil]
  | cons u r ih =>
    cases u with
    | other t =>
      rw [load_other, ih (by simpa [nonLessOnly] using h)]
      simp [Unit'.text]
    | imp ip raw =>
      simp only [nonLessOnly, Bool.and_eq_true, Bool.not_eq_true'] at h
      rw [load_imp_succ, ih h.2]
      simp [impOut, impErrs, h.1, Unit'.text]

theorem findFile_single (p : Path) (us : List Unit') : findFile [(p, us)] p = some us := by
  simp [findFile]

/-- the parser of level 9 finishes exactly the files without import statement -/
theorem load_zero_none_iff (files : Files) (cur : Path) (us : List Unit') :
    (load files 0 cur us).1 = none ↔ noImp us = false := by
  constructor
  · intro h
    cases hn : noImp us with
    | false => rfl
    | true => rw [(load_noImp files 0 cur hn).1] at h; cases h
  · intro h
    induction us with
    | nil => simp [noImp] at h
    | cons u r ih =>
      cases u with
      | other t => rw [load_other, ih (by simpa [noImp] using h)]; rfl
      | imp ip raw => rw [load_imp_zero]

end Lessm.Imp
