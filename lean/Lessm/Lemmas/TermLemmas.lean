/-
  Helper definitions and lemmas for property C20 (termination counters), about `Lessm/Model/Term.lean`.

  Part A (variables):
    * `Occurs ts n`      : the reference `@n` occurs in `ts`, at top level or inside nodes at any depth
    * `Reach env ts n`   : `@n` is reachable from `ts` through the definitions of `env`
    * `AllDef env ts`    : every reachable name is defined
    * `Cyc env n`        : `n` is defined and reachable from its own value
    * `Dies env d ts`    : the top-level references of `ts` are gone after `d` substitution rounds
    * decidable sufficient checks for concrete data: `namesL`, `allDefB`, `rankOKB`
  Part B (imports):
    * `Imports`, `IReach`, `HasPath`  : the import graph of a set of files
    * `inline`, `missingOf`, `depthLe`, `allExist` : the textual-inclusion specification
-/
import Lessm.Model.Term

namespace Lessm.Term

deriving instance DecidableEq for Except

/-! ## A. variables -/

/-! ### A.0 unfolding equations without `do` -/

theorem parseNodes_lit (inner) (s r) : parseNodes inner (.lit s :: r) =
    match parseNodes inner r with
    | .error e => .error e
    | .ok r' => .ok (.lit s :: r') := by
  simp only [parseNodes]; cases parseNodes inner r <;> rfl

theorem parseNodes_ref (inner) (s r) : parseNodes inner (.ref s :: r) =
    match parseNodes inner r with
    | .error e => .error e
    | .ok r' => .ok (.ref s :: r') := by
  simp only [parseNodes]; cases parseNodes inner r <;> rfl

theorem parseNodes_node (inner) (ts r) : parseNodes inner (.node ts :: r) =
    match inner ts with
    | .error e => .error e
    | .ok v =>
      match parseNodes inner r with
      | .error e => .error e
      | .ok r' => .ok (.lit (String.join v) :: r') := by
  simp only [parseNodes]
  cases inner ts
  · rfl
  · cases parseNodes inner r <;> rfl

theorem substOnce_ref (env n r) : substOnce env (.ref n :: r) =
    match lookup env n with
    | none => .error (.unknown n)
    | some v =>
      match substOnce env r with
      | .error e => .error e
      | .ok r' => .ok (v ++ r') := by
  simp only [substOnce]
  cases lookup env n
  · rfl
  · cases substOnce env r <;> rfl

theorem substOnce_lit (env s r) : substOnce env (.lit s :: r) =
    match substOnce env r with
    | .error e => .error e
    | .ok r' => .ok (.lit s :: r') := by
  simp only [substOnce]; cases substOnce env r <;> rfl

theorem substOnce_node (env s r) : substOnce env (.node s :: r) =
    match substOnce env r with
    | .error e => .error e
    | .ok r' => .ok (.node s :: r') := by
  simp only [substOnce]; cases substOnce env r <;> rfl

/-! ### A.1 occurrence and reachability -/

/-- the reference `@n` occurs in the token list, at top level or inside nodes at any depth -/
inductive Occurs : List Tok → String → Prop
  | here (n : String) (r : List Tok) : Occurs (.ref n :: r) n
  | inNode {ts : List Tok} {n : String} (r : List Tok) : Occurs ts n → Occurs (.node ts :: r) n
  | tail {r : List Tok} {n : String} (t : Tok) : Occurs r n → Occurs (t :: r) n

/-- `@n` is reachable from `ts`: it occurs in `ts`, or in the value of a reachable name -/
inductive Reach (env : Env) (ts : List Tok) : String → Prop
  | base {n : String} : Occurs ts n → Reach env ts n
  | step {n m : String} {v : List Tok} :
      Reach env ts n → lookup env n = some v → Occurs v m → Reach env ts m

/-- every name reachable from `ts` is defined -/
def AllDef (env : Env) (ts : List Tok) : Prop := ∀ n, Reach env ts n → (lookup env n).isSome

/-- `n` is defined in terms of itself (directly or through other variables, at any nesting depth) -/
def Cyc (env : Env) (n : String) : Prop := ∃ v, lookup env n = some v ∧ Reach env v n

/-- `ts` reaches a cyclic name -/
def ReachesCycle (env : Env) (ts : List Tok) : Prop := ∃ n, Reach env ts n ∧ Cyc env n

/-- no name reachable from `ts` is reachable from its own value -/
def Acyclic (env : Env) (ts : List Tok) : Prop :=
  ∀ n v, Reach env ts n → lookup env n = some v → ¬ Reach env v n

theorem occurs_nil (n : String) : ¬ Occurs [] n := by
  intro h; cases h

theorem occurs_cons {t : Tok} {r : List Tok} {n : String} :
    Occurs (t :: r) n ↔ t = .ref n ∨ (∃ ts, t = .node ts ∧ Occurs ts n) ∨ Occurs r n := by
  constructor
  · intro h
    cases h with
    | here => exact .inl rfl
    | inNode _ h => exact .inr (.inl ⟨_, rfl, h⟩)
    | tail _ h => exact .inr (.inr h)
  · rintro (rfl | ⟨ts, rfl, h⟩ | h)
    · exact .here _ _
    · exact .inNode _ h
    · exact .tail _ h

theorem occurs_append {a b : List Tok} {n : String} :
    Occurs (a ++ b) n ↔ Occurs a n ∨ Occurs b n := by
  induction a with
  | nil => simp [occurs_nil]
  | cons t r ih =>
    rw [List.cons_append, occurs_cons, occurs_cons, ih]
    constructor
    · rintro (h | h | h | h)
      · exact .inl (.inl h)
      · exact .inl (.inr (.inl h))
      · exact .inl (.inr (.inr h))
      · exact .inr h
    · rintro ((h | h | h) | h)
      · exact .inl h
      · exact .inr (.inl h)
      · exact .inr (.inr (.inl h))
      · exact .inr (.inr (.inr h))

theorem occurs_of_ref_mem {ts : List Tok} {n : String} (h : Tok.ref n ∈ ts) : Occurs ts n := by
  induction ts with
  | nil => cases h
  | cons t r ih =>
    rcases List.mem_cons.1 h with h | h
    · subst h; exact .here _ _
    · exact .tail _ (ih h)

theorem occurs_of_node_mem {ts ts' : List Tok} {n : String} (h : Tok.node ts' ∈ ts)
    (ho : Occurs ts' n) : Occurs ts n := by
  induction ts with
  | nil => cases h
  | cons t r ih =>
    rcases List.mem_cons.1 h with h | h
    · subst h; exact .inNode _ ho
    · exact .tail _ (ih h)

/-- a reference occurs at top level or inside one of the top-level nodes -/
theorem occurs_split {ts : List Tok} {n : String} (h : Occurs ts n) :
    Tok.ref n ∈ ts ∨ ∃ ts', Tok.node ts' ∈ ts ∧ Occurs ts' n := by
  induction ts with
  | nil => exact absurd h (occurs_nil _)
  | cons t r ih =>
    rcases occurs_cons.1 h with rfl | ⟨ts', rfl, h'⟩ | h'
    · exact .inl (List.mem_cons_self ..)
    · exact .inr ⟨ts', List.mem_cons_self .., h'⟩
    · rcases ih h' with h1 | ⟨ts', h1, h2⟩
      · exact .inl (List.mem_cons_of_mem _ h1)
      · exact .inr ⟨ts', List.mem_cons_of_mem _ h1, h2⟩

/-- reachability is monotone in the set of starting occurrences -/
theorem Reach.mono {env : Env} {ts ts' : List Tok} (hs : ∀ m, Occurs ts' m → Reach env ts m)
    {n : String} (h : Reach env ts' n) : Reach env ts n := by
  induction h with
  | base ho => exact hs _ ho
  | step _ hl ho ih => exact .step ih hl ho

theorem Reach.trans {env : Env} {ts v : List Tok} {n m : String} (h : Reach env ts n)
    (hl : lookup env n = some v) (hv : Reach env v m) : Reach env ts m :=
  Reach.mono (fun _ ho => .step h hl ho) hv

/-- a reachable name occurs, or is reachable from the value of a name that occurs -/
theorem Reach.head {env : Env} {ts : List Tok} {n : String} (h : Reach env ts n) :
    Occurs ts n ∨ ∃ n0 v, Occurs ts n0 ∧ lookup env n0 = some v ∧ Reach env v n := by
  induction h with
  | base ho => exact .inl ho
  | step _ hl ho ih =>
    rcases ih with h1 | ⟨n0, v0, h1, h2, h3⟩
    · exact .inr ⟨_, _, h1, hl, .base ho⟩
    · exact .inr ⟨n0, v0, h1, h2, .step h3 hl ho⟩

theorem Reach.exists_occurs {env : Env} {ts : List Tok} {n : String} (h : Reach env ts n) :
    ∃ n0, Occurs ts n0 := by
  induction h with
  | base ho => exact ⟨_, ho⟩
  | step _ _ _ ih => exact ih

theorem AllDef.mono {env : Env} {ts ts' : List Tok} (hs : ∀ m, Occurs ts' m → Reach env ts m)
    (h : AllDef env ts) : AllDef env ts' :=
  fun n hn => h n (Reach.mono hs hn)

theorem Acyclic.mono {env : Env} {ts ts' : List Tok} (hs : ∀ m, Occurs ts' m → Reach env ts m)
    (h : Acyclic env ts) : Acyclic env ts' :=
  fun n v hn => h n v (Reach.mono hs hn)

/-! ### A.2 what `parseNodes`, `substOnce`, `hasRef` do to occurrences -/

/-- no node at top level -/
def noNode : List Tok → Bool
  | [] => true
  | .node _ :: _ => false
  | _ :: r => noNode r

theorem ref_mem_of_noNode {ts : List Tok} {n : String} (hn : noNode ts = true) (h : Occurs ts n) :
    Tok.ref n ∈ ts := by
  induction ts with
  | nil => exact absurd h (occurs_nil _)
  | cons t r ih =>
    rcases occurs_cons.1 h with rfl | ⟨ts', rfl, _⟩ | h'
    · exact List.mem_cons_self ..
    · simp [noNode] at hn
    · cases t with
      | node _ => simp [noNode] at hn
      | lit _ => exact List.mem_cons_of_mem _ (ih (by simpa [noNode] using hn) h')
      | ref _ => exact List.mem_cons_of_mem _ (ih (by simpa [noNode] using hn) h')

theorem hasRef_of_mem {ts : List Tok} {n : String} (h : Tok.ref n ∈ ts) : hasRef ts = true := by
  induction ts with
  | nil => cases h
  | cons t r ih =>
    cases t with
    | ref _ => rfl
    | lit _ =>
      rcases List.mem_cons.1 h with h | h
      · cases h
      · simpa [hasRef] using ih h
    | node _ =>
      rcases List.mem_cons.1 h with h | h
      · cases h
      · simpa [hasRef] using ih h

theorem hasRef_false_iff {ts : List Tok} : hasRef ts = false ↔ ∀ n, Tok.ref n ∉ ts := by
  constructor
  · intro h n hm
    rw [hasRef_of_mem hm] at h; cases h
  · intro h
    induction ts with
    | nil => rfl
    | cons t r ih =>
      cases t with
      | ref n => exact absurd (List.mem_cons_self ..) (h n)
      | lit _ => simpa [hasRef] using ih (fun n hm => h n (List.mem_cons_of_mem _ hm))
      | node _ => simpa [hasRef] using ih (fun n hm => h n (List.mem_cons_of_mem _ hm))

/-- everything `parseNodes` does, as one relation: top-level references and literals are kept, every
    node is replaced by the literal of its (successful) evaluation -/
inductive Parsed (inner : List Tok → Except Err (List String)) : List Tok → List Tok → Prop
  | nil : Parsed inner [] []
  | lit {r r' : List Tok} (s : String) : Parsed inner r r' → Parsed inner (.lit s :: r) (.lit s :: r')
  | ref {r r' : List Tok} (n : String) : Parsed inner r r' → Parsed inner (.ref n :: r) (.ref n :: r')
  | node {r r' ts : List Tok} {v : List String} :
      inner ts = .ok v → Parsed inner r r' →
      Parsed inner (.node ts :: r) (.lit (String.join v) :: r')

theorem parseNodes_ok {inner} {ts ts1 : List Tok} (h : parseNodes inner ts = .ok ts1) :
    Parsed inner ts ts1 := by
  induction ts generalizing ts1 with
  | nil => simp [parseNodes] at h; subst h; exact .nil
  | cons t r ih =>
    cases t with
    | lit s =>
      rw [parseNodes_lit] at h
      cases hr : parseNodes inner r with
      | error e => rw [hr] at h; cases h
      | ok r' => rw [hr] at h; cases h; exact .lit _ (ih hr)
    | ref n =>
      rw [parseNodes_ref] at h
      cases hr : parseNodes inner r with
      | error e => rw [hr] at h; cases h
      | ok r' => rw [hr] at h; cases h; exact .ref _ (ih hr)
    | node ts' =>
      rw [parseNodes_node] at h
      cases hi : inner ts' with
      | error e => rw [hi] at h; cases h
      | ok v =>
        rw [hi] at h
        cases hr : parseNodes inner r with
        | error e => rw [hr] at h; cases h
        | ok r' => rw [hr] at h; cases h; exact .node hi (ih hr)

theorem Parsed.to_eq {inner} {ts ts1 : List Tok} (h : Parsed inner ts ts1) :
    parseNodes inner ts = .ok ts1 := by
  induction h with
  | nil => rfl
  | lit s _ ih => rw [parseNodes_lit, ih]
  | ref n _ ih => rw [parseNodes_ref, ih]
  | node hi _ ih => rw [parseNodes_node, hi, ih]

/-- an error of `parseNodes` is the error of one of the top-level nodes -/
theorem parseNodes_error {inner} {ts : List Tok} {e : Err} (h : parseNodes inner ts = .error e) :
    ∃ ts', Tok.node ts' ∈ ts ∧ inner ts' = .error e := by
  induction ts with
  | nil => simp [parseNodes] at h
  | cons t r ih =>
    have lift : (∃ ts', Tok.node ts' ∈ r ∧ inner ts' = .error e) →
        ∃ ts', Tok.node ts' ∈ t :: r ∧ inner ts' = .error e :=
      fun ⟨ts', h1, h2⟩ => ⟨ts', List.mem_cons_of_mem _ h1, h2⟩
    cases t with
    | lit s =>
      rw [parseNodes_lit] at h
      cases hr : parseNodes inner r with
      | error e' => rw [hr] at h; cases h; exact lift (ih hr)
      | ok r' => rw [hr] at h; cases h
    | ref n =>
      rw [parseNodes_ref] at h
      cases hr : parseNodes inner r with
      | error e' => rw [hr] at h; cases h; exact lift (ih hr)
      | ok r' => rw [hr] at h; cases h
    | node ts' =>
      rw [parseNodes_node] at h
      cases hi : inner ts' with
      | error e' => rw [hi] at h; cases h; exact ⟨ts', List.mem_cons_self .., hi⟩
      | ok v =>
        rw [hi] at h
        cases hr : parseNodes inner r with
        | error e' => rw [hr] at h; cases h; exact lift (ih hr)
        | ok r' => rw [hr] at h; cases h

theorem Parsed.noNode {inner} {ts ts1 : List Tok} (h : Parsed inner ts ts1) : noNode ts1 = true := by
  induction h <;> simp_all [Term.noNode]

theorem Parsed.ref_mem {inner} {ts ts1 : List Tok} (h : Parsed inner ts ts1) (n : String) :
    Tok.ref n ∈ ts1 ↔ Tok.ref n ∈ ts := by
  induction h <;> simp_all

theorem Parsed.node_ok {inner} {ts ts1 : List Tok} (h : Parsed inner ts ts1) {ts' : List Tok}
    (hm : Tok.node ts' ∈ ts) : ∃ v, inner ts' = .ok v := by
  induction h with
  | nil => cases hm
  | lit s _ ih => exact ih (by simpa using hm)
  | ref n _ ih => exact ih (by simpa using hm)
  | node hi _ ih =>
    rcases List.mem_cons.1 hm with h | h
    · cases h; exact ⟨_, hi⟩
    · exact ih h

theorem Parsed.occurs_sub {inner} {ts ts1 : List Tok} (h : Parsed inner ts ts1) {n : String}
    (ho : Occurs ts1 n) : Occurs ts n :=
  occurs_of_ref_mem ((h.ref_mem n).1 (ref_mem_of_noNode h.noNode ho))

/-- a name reachable before `parseNodes` is reachable afterwards, unless it was reachable only
    through a node (whose evaluation succeeded) -/
theorem Parsed.reach {inner} {env : Env} {ts ts1 : List Tok} (h : Parsed inner ts ts1) {n : String}
    (hr : Reach env ts n) :
    Reach env ts1 n ∨ ∃ ts' v, Tok.node ts' ∈ ts ∧ inner ts' = .ok v ∧ Reach env ts' n := by
  induction hr with
  | base ho =>
    rcases occurs_split ho with h1 | ⟨ts', h1, h2⟩
    · exact .inl (.base (occurs_of_ref_mem ((h.ref_mem _).2 h1)))
    · obtain ⟨v, hv⟩ := h.node_ok h1
      exact .inr ⟨ts', v, h1, hv, .base h2⟩
  | step _ hl ho ih =>
    rcases ih with h1 | ⟨ts', v, h1, h2, h3⟩
    · exact .inl (.step h1 hl ho)
    · exact .inr ⟨ts', v, h1, h2, .step h3 hl ho⟩

/-- an error of `substOnce` is an undefined top-level reference -/
theorem substOnce_error {env : Env} {ts : List Tok} {e : Err} (h : substOnce env ts = .error e) :
    ∃ n, Tok.ref n ∈ ts ∧ lookup env n = none ∧ e = .unknown n := by
  induction ts with
  | nil => simp [substOnce] at h
  | cons t r ih =>
    have lift : (∃ n, Tok.ref n ∈ r ∧ lookup env n = none ∧ e = .unknown n) →
        ∃ n, Tok.ref n ∈ t :: r ∧ lookup env n = none ∧ e = .unknown n :=
      fun ⟨n, h1, h2⟩ => ⟨n, List.mem_cons_of_mem _ h1, h2⟩
    cases t with
    | lit s =>
      rw [substOnce_lit] at h
      cases hr : substOnce env r with
      | error e' => rw [hr] at h; cases h; exact lift (ih hr)
      | ok r' => rw [hr] at h; cases h
    | node s =>
      rw [substOnce_node] at h
      cases hr : substOnce env r with
      | error e' => rw [hr] at h; cases h; exact lift (ih hr)
      | ok r' => rw [hr] at h; cases h
    | ref n =>
      rw [substOnce_ref] at h
      cases hl : lookup env n with
      | none => rw [hl] at h; cases h; exact ⟨n, List.mem_cons_self .., hl, rfl⟩
      | some v =>
        rw [hl] at h
        cases hr : substOnce env r with
        | error e' => rw [hr] at h; cases h; exact lift (ih hr)
        | ok r' => rw [hr] at h; cases h

/-- everything a successful `substOnce` does, as one relation -/
inductive Substd (env : Env) : List Tok → List Tok → Prop
  | nil : Substd env [] []
  | lit {r r' : List Tok} (s : String) : Substd env r r' → Substd env (.lit s :: r) (.lit s :: r')
  | node {r r' : List Tok} (s : List Tok) :
      Substd env r r' → Substd env (.node s :: r) (.node s :: r')
  | ref {r r' v : List Tok} {n : String} :
      lookup env n = some v → Substd env r r' → Substd env (.ref n :: r) (v ++ r')

theorem substOnce_ok {env : Env} {ts ts2 : List Tok} (h : substOnce env ts = .ok ts2) :
    Substd env ts ts2 := by
  induction ts generalizing ts2 with
  | nil => simp [substOnce] at h; subst h; exact .nil
  | cons t r ih =>
    cases t with
    | lit s =>
      rw [substOnce_lit] at h
      cases hr : substOnce env r with
      | error e => rw [hr] at h; cases h
      | ok r' => rw [hr] at h; cases h; exact .lit _ (ih hr)
    | node s =>
      rw [substOnce_node] at h
      cases hr : substOnce env r with
      | error e => rw [hr] at h; cases h
      | ok r' => rw [hr] at h; cases h; exact .node _ (ih hr)
    | ref n =>
      rw [substOnce_ref] at h
      cases hl : lookup env n with
      | none => rw [hl] at h; cases h
      | some v =>
        rw [hl] at h
        cases hr : substOnce env r with
        | error e => rw [hr] at h; cases h
        | ok r' => rw [hr] at h; cases h; exact .ref hl (ih hr)

/-- the value of a top-level reference is part of the result -/
theorem Substd.occurs_value {env : Env} {ts ts2 : List Tok} (h : Substd env ts ts2) {n m : String}
    {v : List Tok} (hm : Tok.ref n ∈ ts) (hl : lookup env n = some v) (ho : Occurs v m) :
    Occurs ts2 m := by
  induction h with
  | nil => cases hm
  | lit s _ ih => exact .tail _ (ih (by simpa using hm))
  | node s _ ih => exact .tail _ (ih (by simpa using hm))
  | ref hl' _ ih =>
    rcases List.mem_cons.1 hm with h | h
    · cases h
      rw [hl] at hl'; cases hl'
      exact occurs_append.2 (.inl ho)
    · exact occurs_append.2 (.inr (ih h))

/-- everything in the result is reachable from the input -/
theorem Substd.occurs_reach {env : Env} {ts ts2 : List Tok} (h : Substd env ts ts2) {m : String}
    (ho : Occurs ts2 m) : Reach env ts m := by
  induction h with
  | nil => exact absurd ho (occurs_nil _)
  | lit s _ ih =>
    rcases occurs_cons.1 ho with h | ⟨_, h, _⟩ | h
    · cases h
    · cases h
    · exact Reach.mono (fun _ ho' => .base (.tail _ ho')) (ih h)
  | node s _ ih =>
    rcases occurs_cons.1 ho with h | ⟨_, h, h'⟩ | h
    · cases h
    · cases h; exact .base (.inNode _ h')
    · exact Reach.mono (fun _ ho' => .base (.tail _ ho')) (ih h)
  | ref hl _ ih =>
    rcases occurs_append.1 ho with h | h
    · exact .step (.base (.here _ _)) hl h
    · exact Reach.mono (fun _ ho' => .base (.tail _ ho')) (ih h)

/-! ### A.3 a reachable cycle is never evaluated successfully -/

theorem loop_cycle_not_ok {env : Env} {inner : List Tok → Except Err (List String)}
    (hin : ∀ ts, ReachesCycle env ts → ∀ v, inner ts ≠ .ok v) :
    ∀ (left : Nat) (ts : List Tok), ReachesCycle env ts → ∀ v, loop inner env left ts ≠ .ok v := by
  intro left
  induction left with
  | zero =>
    intro ts ⟨n, hr, hc⟩ v
    rw [loop.eq_1]
    cases hp : parseNodes inner ts with
    | error e => simp
    | ok ts1 =>
      have hP := parseNodes_ok hp
      rcases hP.reach hr with h1 | ⟨ts', v', _, h2, h3⟩
      · obtain ⟨n0, h0⟩ := h1.exists_occurs
        have : hasRef ts1 = true := hasRef_of_mem (ref_mem_of_noNode hP.noNode h0)
        simp [this]
      · exact absurd h2 (hin ts' ⟨n, h3, hc⟩ v')
  | succ left ih =>
    intro ts ⟨n, hr, hc⟩ v
    rw [loop.eq_1]
    cases hp : parseNodes inner ts with
    | error e => simp
    | ok ts1 =>
      have hP := parseNodes_ok hp
      rcases hP.reach hr with h1 | ⟨ts', v', _, h2, h3⟩
      · obtain ⟨n0, h0⟩ := h1.exists_occurs
        have hh : hasRef ts1 = true := hasRef_of_mem (ref_mem_of_noNode hP.noNode h0)
        simp only [hh, if_true]
        cases hs : substOnce env ts1 with
        | error e => simp
        | ok ts2 =>
          have hS := substOnce_ok hs
          simp only
          apply ih
          obtain ⟨vc, hlc, hrc⟩ := hc
          refine ⟨n, ?_, vc, hlc, hrc⟩
          rcases h1.head with ho | ⟨n1, v1, ho, hl1, hr1⟩
          · exact Reach.mono (fun m hm => .base (hS.occurs_value
              (ref_mem_of_noNode hP.noNode ho) hlc hm)) hrc
          · exact Reach.mono (fun m hm => .base (hS.occurs_value
              (ref_mem_of_noNode hP.noNode ho) hl1 hm)) hr1
      · exact absurd h2 (hin ts' ⟨n, h3, hc⟩ v')

theorem process_cycle_not_ok {env : Env} :
    ∀ (b : Nat) (ts : List Tok), ReachesCycle env ts → ∀ v, process env b ts ≠ .ok v := by
  intro b
  induction b with
  | zero => intro ts _ v; simp [process]
  | succ b ih => intro ts h v; rw [process]; exact loop_cycle_not_ok ih _ _ h v

/-! ### A.4 if every reachable name is defined, `unknown` is never reported -/

theorem loop_no_unknown {env : Env} {inner : List Tok → Except Err (List String)}
    (hin : ∀ ts, AllDef env ts → ∀ m, inner ts ≠ .error (.unknown m)) :
    ∀ (left : Nat) (ts : List Tok), AllDef env ts →
      ∀ m, loop inner env left ts ≠ .error (.unknown m) := by
  intro left
  induction left with
  | zero =>
    intro ts hd m
    rw [loop.eq_1]
    cases hp : parseNodes inner ts with
    | error e =>
      obtain ⟨ts', h1, h2⟩ := parseNodes_error hp
      simp only
      intro he; cases he
      exact hin ts' (hd.mono fun _ ho => .base (occurs_of_node_mem h1 ho)) m h2
    | ok ts1 =>
      simp only
      split <;> simp
  | succ left ih =>
    intro ts hd m
    rw [loop.eq_1]
    cases hp : parseNodes inner ts with
    | error e =>
      obtain ⟨ts', h1, h2⟩ := parseNodes_error hp
      simp only
      intro he; cases he
      exact hin ts' (hd.mono fun _ ho => .base (occurs_of_node_mem h1 ho)) m h2
    | ok ts1 =>
      have hP := parseNodes_ok hp
      have hd1 : AllDef env ts1 := hd.mono fun _ ho => .base (hP.occurs_sub ho)
      simp only
      split
      · cases hs : substOnce env ts1 with
        | error e =>
          obtain ⟨n, h1, h2, _⟩ := substOnce_error hs
          have := hd1 n (.base (occurs_of_ref_mem h1))
          rw [h2] at this; cases this
        | ok ts2 =>
          have hS := substOnce_ok hs
          simp only
          exact ih ts2 (hd1.mono fun _ ho => hS.occurs_reach ho) m
      · simp

theorem process_no_unknown {env : Env} :
    ∀ (b : Nat) (ts : List Tok), AllDef env ts → ∀ m, process env b ts ≠ .error (.unknown m) := by
  intro b
  induction b with
  | zero => intro ts _ m; simp [process]
  | succ b ih => intro ts h m; rw [process]; exact loop_no_unknown ih _ _ h m

/-! ### A.5 monotonicity of successful runs -/

theorem parseNodes_mono {inner inner' : List Tok → Except Err (List String)}
    (hin : ∀ ts v, inner ts = .ok v → inner' ts = .ok v) {ts ts1 : List Tok}
    (h : parseNodes inner ts = .ok ts1) : parseNodes inner' ts = .ok ts1 := by
  have hP := parseNodes_ok h
  apply Parsed.to_eq
  induction hP with
  | nil => exact .nil
  | lit s hp ih => exact .lit s (ih hp.to_eq)
  | ref n hp ih => exact .ref n (ih hp.to_eq)
  | node hi hp ih => exact .node (hin _ _ hi) (ih hp.to_eq)

theorem loop_mono {env : Env} {inner inner' : List Tok → Except Err (List String)}
    (hin : ∀ ts v, inner ts = .ok v → inner' ts = .ok v) :
    ∀ (left left' : Nat) (ts : List Tok) (v : List String), left ≤ left' →
      loop inner env left ts = .ok v → loop inner' env left' ts = .ok v := by
  intro left
  induction left with
  | zero =>
    intro left' ts v _ h
    rw [loop.eq_1] at h
    rw [loop.eq_1]
    cases hp : parseNodes inner ts with
    | error e => rw [hp] at h; cases h
    | ok ts1 =>
      rw [hp] at h
      rw [parseNodes_mono hin hp]
      simp only at h ⊢
      split at h
      · cases h
      · rename_i hh; simp only [hh]; exact h
  | succ left ih =>
    intro left' ts v hle h
    obtain ⟨l', rfl⟩ : ∃ l', left' = l' + 1 := ⟨left' - 1, by omega⟩
    rw [loop.eq_1] at h
    rw [loop.eq_1]
    cases hp : parseNodes inner ts with
    | error e => rw [hp] at h; cases h
    | ok ts1 =>
      rw [hp] at h
      rw [parseNodes_mono hin hp]
      simp only at h ⊢
      split at h
      · rename_i hh
        simp only [hh, if_true]
        cases hs : substOnce env ts1 with
        | error e => rw [hs] at h; cases h
        | ok ts2 =>
          rw [hs] at h
          simp only at h ⊢
          exact ih l' ts2 v (by omega) h
      · rename_i hh; simp only [hh]; exact h

theorem process_mono {env : Env} :
    ∀ (b b' : Nat) (ts : List Tok) (v : List String), b ≤ b' →
      process env b ts = .ok v → process env b' ts = .ok v := by
  intro b
  induction b with
  | zero => intro b' ts v _ h; simp [process] at h
  | succ b ih =>
    intro b' ts v hle h
    obtain ⟨c, rfl⟩ : ∃ c, b' = c + 1 := ⟨b' - 1, by omega⟩
    rw [process] at h ⊢
    exact loop_mono (fun ts v hv => ih c ts v (by omega) hv) _ _ ts v (Nat.le_refl _) h

/-! ### A.5b successful runs, characterised -/

theorem Substd.to_eq {env : Env} {ts ts2 : List Tok} (h : Substd env ts ts2) :
    substOnce env ts = .ok ts2 := by
  induction h with
  | nil => rfl
  | lit s _ ih => rw [substOnce_lit, ih]
  | node s _ ih => rw [substOnce_node, ih]
  | ref hl _ ih => rw [substOnce_ref, hl, ih]

/-- `Rounds inner env k ts ts'`: `ts'` is the token list after `k` full substitution rounds and the
    final `parseNodes` (every intermediate list still had a top-level reference) -/
def Rounds (inner : List Tok → Except Err (List String)) (env : Env) : Nat → List Tok → List Tok → Prop
  | 0, ts, ts' => Parsed inner ts ts'
  | k + 1, ts, ts' => ∃ ts1 ts2, Parsed inner ts ts1 ∧ hasRef ts1 = true ∧ Substd env ts1 ts2 ∧
      Rounds inner env k ts2 ts'

theorem Rounds.noNode {inner env} : ∀ {k : Nat} {ts ts' : List Tok}, Rounds inner env k ts ts' →
    noNode ts' = true
  | 0, _, _, h => Parsed.noNode h
  | _ + 1, _, _, ⟨_, _, _, _, _, h⟩ => h.noNode

/-- the loop succeeds exactly if within the allowance a round ends without top-level references -/
theorem loop_ok_iff {inner env} : ∀ (left : Nat) (ts : List Tok) (v : List String),
    loop inner env left ts = .ok v ↔
      ∃ k, k ≤ left ∧ ∃ ts', Rounds inner env k ts ts' ∧ hasRef ts' = false ∧ v = texts ts' := by
  intro left
  induction left with
  | zero =>
    intro ts v
    rw [loop.eq_1]
    constructor
    · intro h
      cases hp : parseNodes inner ts with
      | error e => rw [hp] at h; cases h
      | ok ts1 =>
        rw [hp] at h
        simp only at h
        split at h
        · cases h
        · rename_i hh
          cases h
          exact ⟨0, Nat.le_refl _, ts1, parseNodes_ok hp, by simpa using hh, rfl⟩
    · rintro ⟨k, hk, ts', hr, hh, rfl⟩
      obtain rfl : k = 0 := by omega
      rw [Parsed.to_eq hr]
      simp [hh]
  | succ left ih =>
    intro ts v
    rw [loop.eq_1]
    constructor
    · intro h
      cases hp : parseNodes inner ts with
      | error e => rw [hp] at h; cases h
      | ok ts1 =>
        rw [hp] at h
        simp only at h
        split at h
        · rename_i hh
          cases hs : substOnce env ts1 with
          | error e => rw [hs] at h; cases h
          | ok ts2 =>
            rw [hs] at h
            obtain ⟨k, hk, ts', hr, hh', hv⟩ := (ih ts2 v).1 h
            exact ⟨k + 1, by omega, ts', ⟨ts1, ts2, parseNodes_ok hp, hh, substOnce_ok hs, hr⟩, hh', hv⟩
        · rename_i hh
          cases h
          exact ⟨0, Nat.zero_le _, ts1, parseNodes_ok hp, by simpa using hh, rfl⟩
    · rintro ⟨k, hk, ts', hr, hh, rfl⟩
      cases k with
      | zero =>
        rw [Parsed.to_eq hr]
        simp [hh]
      | succ k =>
        obtain ⟨ts1, ts2, hp, hh1, hs, hr'⟩ := hr
        rw [Parsed.to_eq hp]
        simp only [hh1, if_true, hs.to_eq]
        exact (ih ts2 _).2 ⟨k, by omega, ts', hr', hh, rfl⟩

/-- without top-level nodes and references only literals are left -/
theorem all_lit_of_noNode_noRef {ts : List Tok} (h1 : noNode ts = true) (h2 : hasRef ts = false) :
    ts = (texts ts).map Tok.lit := by
  induction ts with
  | nil => rfl
  | cons t r ih =>
    cases t with
    | lit s => simp only [texts, List.map_cons]; rw [← ih (by simpa [noNode] using h1) (by simpa [hasRef] using h2)]
    | ref n => simp [hasRef] at h2
    | node s => simp [noNode] at h1

theorem not_occurs_map_lit (ls : List String) (n : String) : ¬ Occurs (ls.map Tok.lit) n := by
  induction ls with
  | nil => exact occurs_nil _
  | cons s r ih =>
    intro h
    rcases occurs_cons.1 h with h | ⟨_, h, _⟩ | h
    · cases h
    · cases h
    · exact ih h

/-! ### A.6 the round limit -/

/-- the top-level references of `ts` are gone after `d` substitution rounds (nodes count as text:
    they are evaluated to text by the next `parseNodes`) -/
inductive Dies (env : Env) : Nat → List Tok → Prop
  | nil {d : Nat} : Dies env d []
  | lit {d : Nat} {r : List Tok} (s : String) : Dies env d r → Dies env d (.lit s :: r)
  | node {d : Nat} {r : List Tok} (s : List Tok) : Dies env d r → Dies env d (.node s :: r)
  | ref {d : Nat} {r v : List Tok} {n : String} :
      lookup env n = some v → Dies env d v → Dies env (d + 1) r → Dies env (d + 1) (.ref n :: r)

theorem Dies.zero_hasRef {env : Env} {d : Nat} {ts : List Tok} (h : Dies env d ts) (hd : d = 0) :
    hasRef ts = false := by
  induction h with
  | nil => rfl
  | lit s _ ih => simpa [hasRef] using ih hd
  | node s _ ih => simpa [hasRef] using ih hd
  | ref => cases hd

theorem Dies.succ {env : Env} {d : Nat} {ts : List Tok} (h : Dies env d ts) : Dies env (d + 1) ts := by
  induction h with
  | nil => exact .nil
  | lit s _ ih => exact .lit s ih
  | node s _ ih => exact .node s ih
  | ref hl _ _ ih1 ih2 => exact .ref hl ih1 ih2

theorem Dies.le {env : Env} {d d' : Nat} {ts : List Tok} (h : Dies env d ts) (hle : d ≤ d') :
    Dies env d' ts := by
  induction hle with
  | refl => exact h
  | step _ ih => exact ih.succ

theorem Dies.append {env : Env} {d : Nat} {a b : List Tok} (ha : Dies env d a) (hb : Dies env d b) :
    Dies env d (a ++ b) := by
  induction ha with
  | nil => exact hb
  | lit s _ ih => exact .lit s (ih hb)
  | node s _ ih => exact .node s (ih hb)
  | ref hl hv _ _ ih2 => exact .ref hl hv (ih2 hb)

theorem Dies.parsed {env : Env} {inner} {d : Nat} {ts ts1 : List Tok} (h : Dies env d ts)
    (hP : Parsed inner ts ts1) : Dies env d ts1 := by
  induction h generalizing ts1 with
  | nil => cases hP; exact .nil
  | lit s _ ih => cases hP with | lit _ hp => exact .lit s (ih hp)
  | node s _ ih => cases hP with | node _ hp => exact .lit _ (ih hp)
  | ref hl hv _ _ ih2 => cases hP with | ref _ hp => exact .ref hl hv (ih2 hp)

theorem Dies.substd {env : Env} {d : Nat} {ts ts2 : List Tok} (hS : Substd env ts ts2)
    (h : Dies env (d + 1) ts) : Dies env d ts2 := by
  induction hS with
  | nil => exact .nil
  | lit s _ ih => cases h with | lit _ h' => exact .lit s (ih h')
  | node s _ ih => cases h with | node _ h' => exact .node s (ih h')
  | ref hl _ ih =>
    cases h with
    | ref hl' hv hr =>
      rw [hl] at hl'; cases hl'
      exact hv.append (ih hr)

/-- once the allowance covers the number of rounds the references need, more rounds change nothing -/
theorem loop_stable {env : Env} (inner : List Tok → Except Err (List String)) :
    ∀ (left d k : Nat) (ts : List Tok), Dies env d ts → d ≤ left →
      loop inner env (left + k) ts = loop inner env left ts := by
  intro left
  induction left with
  | zero =>
    intro d k ts hd hle
    have hd0 : d = 0 := by omega
    rw [loop.eq_1, loop.eq_1 inner env 0]
    cases hp : parseNodes inner ts with
    | error e => rfl
    | ok ts1 =>
      have := (hd.parsed (parseNodes_ok hp)).zero_hasRef hd0
      simp [this]
  | succ left ih =>
    intro d k ts hd hle
    have e : left + 1 + k = (left + k) + 1 := by omega
    rw [e, loop.eq_1, loop.eq_1 inner env (left + 1)]
    cases hp : parseNodes inner ts with
    | error e => rfl
    | ok ts1 =>
      have hd1 := hd.parsed (parseNodes_ok hp)
      simp only
      split
      · cases hs : substOnce env ts1 with
        | error e => rfl
        | ok ts2 =>
          simp only
          cases d with
          | zero =>
            rename_i hh
            rw [hd1.zero_hasRef rfl] at hh; cases hh
          | succ d' =>
            exact ih d' k ts2 (Dies.substd (substOnce_ok hs) hd1) (by omega)
      · rfl

theorem mem_keys_of_lookup {env : Env} {n : String} {v : List Tok} (h : lookup env n = some v) :
    n ∈ env.map (·.1) := by
  induction env with
  | nil => simp [lookup] at h
  | cons p r ih =>
    obtain ⟨k, w⟩ := p
    simp only [lookup] at h
    split at h
    · rename_i hk
      have : k = n := by simpa using hk
      subst this; simp
    · simp only [List.map_cons, List.mem_cons]; exact .inr (ih h)

/-- pigeonhole: a duplicate-free list of members of `keys` is not longer than `keys` -/
theorem nodup_sub_length {α : Type} [DecidableEq α] :
    ∀ (seen keys : List α), seen.Nodup → (∀ s ∈ seen, s ∈ keys) → seen.length ≤ keys.length := by
  intro seen
  induction seen with
  | nil => intros; simp
  | cons a r ih =>
    intro keys hn hs
    have ha : a ∈ keys := hs a (List.mem_cons_self ..)
    have hn' := List.nodup_cons.1 hn
    have h1 := ih (keys.erase a) hn'.2 (fun s hsr => by
      have hne : s ≠ a := fun e => hn'.1 (e ▸ hsr)
      exact (List.mem_erase_of_ne hne).2 (hs s (List.mem_cons_of_mem _ hsr)))
    have h2 := List.length_erase_of_mem ha
    have h3 : 0 < keys.length := List.length_pos_of_mem ha
    simp only [List.length_cons]
    omega

/-- the core of the pigeonhole argument: `seen` is a duplicate-free dependency chain of defined
    names, every one of which reaches everything occurring in `ts`; in an acyclic definition set no
    occurring name can be on the chain, so each round makes the chain longer, and it cannot become
    longer than the environment -/
theorem dies_of_acyclic {env : Env} {ts0 : List Tok} (hdef : AllDef env ts0) (hac : Acyclic env ts0) :
    ∀ (f : Nat) (seen : List String) (ts : List Tok),
      seen.Nodup → (∀ s ∈ seen, s ∈ env.map (·.1)) → env.length < seen.length + f →
      (∀ m, Occurs ts m → Reach env ts0 m) →
      (∀ s ∈ seen, ∀ m, Occurs ts m → ∃ v, lookup env s = some v ∧ Reach env v m) →
      Dies env f ts := by
  intro f
  induction f with
  | zero =>
    intro seen ts hn hk hlen _ _
    have := nodup_sub_length seen (env.map (·.1)) hn hk
    simp at this hlen
    omega
  | succ f ih =>
    intro seen ts hn hk hlen
    induction ts with
    | nil => intros; exact .nil
    | cons t r ihr =>
      intro hsub hseen
      have hr : Dies env (f + 1) r :=
        ihr (fun m hm => hsub m (.tail _ hm)) (fun s hs m hm => hseen s hs m (.tail _ hm))
      cases t with
      | lit s => exact .lit s hr
      | node s => exact .node s hr
      | ref n =>
        have hrn : Reach env ts0 n := hsub n (.here _ _)
        have hsome := hdef n hrn
        obtain ⟨v, hl⟩ := Option.isSome_iff_exists.1 hsome
        have hnot : n ∉ seen := by
          intro hmem
          obtain ⟨v', hl', hr'⟩ := hseen n hmem n (.here _ _)
          exact hac n v' hrn hl' hr'
        refine .ref hl ?_ hr
        apply ih (n :: seen) v (List.nodup_cons.2 ⟨hnot, hn⟩)
        · intro s hs
          rcases List.mem_cons.1 hs with rfl | hs
          · exact mem_keys_of_lookup hl
          · exact hk s hs
        · simp only [List.length_cons]; omega
        · exact fun m hm => .step hrn hl hm
        · intro s hs m hm
          rcases List.mem_cons.1 hs with rfl | hs
          · exact ⟨v, hl, .base hm⟩
          · obtain ⟨v', hl', hr'⟩ := hseen s hs n (.here _ _)
            exact ⟨v', hl', .step hr' hl hm⟩

theorem dies_of_acyclic' {env : Env} {ts : List Tok} (hdef : AllDef env ts) (hac : Acyclic env ts) :
    Dies env (env.length + 1) ts :=
  dies_of_acyclic hdef hac (env.length + 1) [] ts List.nodup_nil (by simp) (by simp)
    (fun _ hm => .base hm) (by simp)

/-! ### A.7 decidable sufficient checks for concrete data -/

mutual
/-- all names referenced in a token, at any depth -/
def Tok.names : Tok → List String
  | .lit _ => []
  | .ref n => [n]
  | .node ts => namesL ts
/-- all names referenced in a token list, at any depth -/
def namesL : List Tok → List String
  | [] => []
  | t :: r => t.names ++ namesL r
end

theorem mem_namesL_of_occurs {ts : List Tok} {n : String} (h : Occurs ts n) : n ∈ namesL ts := by
  induction h with
  | here n r => simp [namesL, Tok.names]
  | inNode r _ ih => simp [namesL, Tok.names, ih]
  | tail t _ ih => simp [namesL, ih]

mutual
theorem Tok.occurs_of_mem_names : ∀ (t : Tok) (r : List Tok) (n : String),
    n ∈ t.names → Occurs (t :: r) n
  | .lit _, _, _, h => by simp [Tok.names] at h
  | .ref m, r, n, h => by
      have : n = m := by simpa [Tok.names] using h
      subst this; exact .here _ _
  | .node ts, r, n, h => .inNode _ (occurs_of_mem_namesL ts n (by simpa [Tok.names] using h))
theorem occurs_of_mem_namesL : ∀ (ts : List Tok) (n : String), n ∈ namesL ts → Occurs ts n
  | [], _, h => by simp [namesL] at h
  | t :: r, n, h => by
      rcases List.mem_append.1 (by simpa [namesL] using h) with h | h
      · exact t.occurs_of_mem_names r n h
      · exact .tail _ (occurs_of_mem_namesL r n h)
end

theorem occurs_iff_mem_namesL {ts : List Tok} {n : String} : Occurs ts n ↔ n ∈ namesL ts :=
  ⟨mem_namesL_of_occurs, occurs_of_mem_namesL ts n⟩

instance (ts : List Tok) (n : String) : Decidable (Occurs ts n) :=
  decidable_of_iff _ occurs_iff_mem_namesL.symm

theorem mem_of_lookup {env : Env} {n : String} {v : List Tok} (h : lookup env n = some v) :
    ∃ k, (k, v) ∈ env ∧ k = n := by
  induction env with
  | nil => simp [lookup] at h
  | cons p r ih =>
    obtain ⟨k, w⟩ := p
    simp only [lookup] at h
    split at h
    · rename_i hk
      cases h
      exact ⟨k, List.mem_cons_self .., by simpa using hk⟩
    · obtain ⟨k', h1, h2⟩ := ih h
      exact ⟨k', List.mem_cons_of_mem _ h1, h2⟩

/-- every name used in `ts` or in any value of `env` is defined -/
def allDefB (env : Env) (ts : List Tok) : Bool :=
  (namesL ts).all (fun n => (lookup env n).isSome) &&
  env.all (fun p => (namesL p.2).all (fun n => (lookup env n).isSome))

theorem allDef_of_allDefB {env : Env} {ts : List Tok} (h : allDefB env ts = true) : AllDef env ts := by
  simp only [allDefB, Bool.and_eq_true, List.all_eq_true] at h
  intro n hr
  induction hr with
  | base ho => exact h.1 _ (mem_namesL_of_occurs ho)
  | step _ hl ho _ =>
    obtain ⟨k, hk, _⟩ := mem_of_lookup hl
    exact h.2 _ hk _ (mem_namesL_of_occurs ho)

/-- `rk` strictly decreases along every definition of `env` -/
def rankOKB (env : Env) (rk : String → Nat) : Bool :=
  env.all (fun p => (namesL p.2).all (fun m => rk m < rk p.1))

theorem acyclic_of_rank {env : Env} (rk : String → Nat) (h : rankOKB env rk = true)
    (ts : List Tok) : Acyclic env ts := by
  simp only [rankOKB, List.all_eq_true, decide_eq_true_eq] at h
  have step : ∀ n v m, lookup env n = some v → Occurs v m → rk m < rk n := by
    intro n v m hl ho
    obtain ⟨k, hk, rfl⟩ := mem_of_lookup hl
    exact h _ hk _ (mem_namesL_of_occurs ho)
  intro n v _ hl hr
  have : ∀ m, Reach env v m → rk m < rk n := by
    intro m hm
    induction hm with
    | base ho => exact step _ _ _ hl ho
    | step _ hl' ho ih => exact Nat.lt_trans (step _ _ _ hl' ho) ih
  exact Nat.lt_irrefl _ (this n hr)

/-! ## B. imports -/

/-! ### B.0 unfolding equations -/

/-- output contributed by `@import f` read by a parser with `b` levels left below it -/
def impOut (files : Files) (b : Nat) (f : String) : List String :=
  match findFileU files f with
  | none => []
  | some us => ((loadUnits files b us).1).getD []

/-- errors registered while handling `@import f`: those of the imported file, then `tooDeep` if its
    parser was aborted; or `missing f` -/
def impErrs (files : Files) (b : Nat) (f : String) : List IErr :=
  match findFileU files f with
  | none => [.missing f]
  | some us => (loadUnits files b us).2 ++ (if (loadUnits files b us).1.isNone then [.tooDeep] else [])

theorem loadUnits_rule (files : Files) (b : Nat) (t : String) (r : List Unit') :
    loadUnits files b (.rule t :: r) =
      ((loadUnits files b r).1.map (t :: ·), (loadUnits files b r).2) := by
  rw [loadUnits.eq_2]
  rcases h : loadUnits files b r with ⟨_ | out, errs⟩ <;> rfl

theorem loadUnits_imp (files : Files) (b : Nat) (f : String) (r : List Unit') :
    loadUnits files (b + 1) (.imp f :: r) =
      ((loadUnits files (b + 1) r).1.map (impOut files b f ++ ·),
       impErrs files b f ++ (loadUnits files (b + 1) r).2) := by
  rw [loadUnits.eq_4]
  unfold impOut impErrs
  cases findFileU files f with
  | none => rcases h : loadUnits files (b + 1) r with ⟨_ | out, errs⟩ <;> rfl
  | some us =>
    rcases h1 : loadUnits files b us with ⟨_ | o1, e1⟩ <;>
      rcases h : loadUnits files (b + 1) r with ⟨_ | out, errs⟩ <;> simp [h1]

/-! ### B.1 only the level-9 parser aborts; errors are only ever concatenated -/

theorem loadUnits_succ_isSome (files : Files) (b : Nat) (us : List Unit') :
    (loadUnits files (b + 1) us).1.isSome = true := by
  induction us with
  | nil => simp [loadUnits]
  | cons u r ih =>
    cases u with
    | rule t => rw [loadUnits_rule]; simpa using ih
    | imp f => rw [loadUnits_imp]; simpa using ih

theorem loadUnits_errs_append (files : Files) (b : Nat) (us1 us2 : List Unit') :
    (loadUnits files (b + 1) (us1 ++ us2)).2 =
      (loadUnits files (b + 1) us1).2 ++ (loadUnits files (b + 1) us2).2 := by
  induction us1 with
  | nil => simp [loadUnits]
  | cons u r ih =>
    cases u with
    | rule t => simp only [List.cons_append, loadUnits_rule, ih]
    | imp f => simp only [List.cons_append, loadUnits_imp, ih, List.append_assoc]

theorem loadUnits_out_append (files : Files) (b : Nat) (us1 us2 : List Unit') :
    ((loadUnits files (b + 1) (us1 ++ us2)).1).getD [] =
      ((loadUnits files (b + 1) us1).1).getD [] ++ ((loadUnits files (b + 1) us2).1).getD [] := by
  induction us1 with
  | nil => simp [loadUnits]
  | cons u r ih =>
    have h1 := loadUnits_succ_isSome files b (r ++ us2)
    have h2 := loadUnits_succ_isSome files b r
    obtain ⟨o1, e1⟩ := Option.isSome_iff_exists.1 h1
    obtain ⟨o2, e2⟩ := Option.isSome_iff_exists.1 h2
    rw [e1, e2] at ih
    cases u with
    | rule t => simp only [List.cons_append, loadUnits_rule, e1, e2]; simpa using ih
    | imp f => simp only [List.cons_append, loadUnits_imp, e1, e2]; simpa using ih

/-- a level-9 parser that meets an import aborts -/
theorem loadUnits_zero_imp (files : Files) {us : List Unit'} {g : String} (h : Unit'.imp g ∈ us) :
    (loadUnits files 0 us).1 = none := by
  induction us with
  | nil => cases h
  | cons u r ih =>
    cases u with
    | rule t =>
      rw [loadUnits_rule]
      rcases List.mem_cons.1 h with h | h
      · cases h
      · simp [ih h]
    | imp f => simp [loadUnits]

/-- what was registered while handling one import is in the register of the whole file -/
theorem mem_errs_of_imp (files : Files) (b : Nat) {us : List Unit'} {g : String} {x : IErr}
    (h : Unit'.imp g ∈ us) (hx : x ∈ impErrs files b g) : x ∈ (loadUnits files (b + 1) us).2 := by
  induction us with
  | nil => cases h
  | cons u r ih =>
    cases u with
    | rule t =>
      rw [loadUnits_rule]
      rcases List.mem_cons.1 h with h | h
      · cases h
      · exact ih h
    | imp f =>
      rw [loadUnits_imp]
      rcases List.mem_cons.1 h with h | h
      · cases h; exact List.mem_append_left _ hx
      · exact List.mem_append_right _ (ih h)

/-! ### B.2 the import graph -/

/-- file `f` exists and contains `@import g`, and `g` exists -/
def Imports (files : Files) (f g : String) : Prop :=
  ∃ us, findFileU files f = some us ∧ Unit'.imp g ∈ us ∧ (findFileU files g).isSome = true

instance (files : Files) (f g : String) : Decidable (Imports files f g) :=
  match h : findFileU files f with
  | none => isFalse (by rintro ⟨us, h1, _⟩; rw [h] at h1; cases h1)
  | some us =>
    if h2 : Unit'.imp g ∈ us ∧ (findFileU files g).isSome = true then isTrue ⟨us, h, h2.1, h2.2⟩
    else isFalse (by rintro ⟨us', h1, h3⟩; rw [h] at h1; cases h1; exact h2 h3)

/-- transitive closure of `Imports` -/
inductive IReach (files : Files) : String → String → Prop
  | single {f g : String} : Imports files f g → IReach files f g
  | step {f g h : String} : Imports files f g → IReach files g h → IReach files f h

/-- there is a chain of exactly `k` imports through existing files that starts in `f` -/
def HasPath (files : Files) : Nat → String → Prop
  | 0, f => (findFileU files f).isSome = true
  | k + 1, f => ∃ g, Imports files f g ∧ HasPath files k g

theorem Imports.exists_left {files : Files} {f g : String} (h : Imports files f g) :
    (findFileU files f).isSome = true := by
  obtain ⟨us, h1, _⟩ := h; simp [h1]

theorem HasPath.pred {files : Files} : ∀ {k : Nat} {f : String},
    HasPath files (k + 1) f → HasPath files k f
  | 0, _, ⟨_, hi, _⟩ => hi.exists_left
  | _ + 1, _, ⟨g, hi, hp⟩ => ⟨g, hi, hp.pred⟩

theorem HasPath.le {files : Files} {k k' : Nat} {f : String} (hle : k ≤ k')
    (h : HasPath files k' f) : HasPath files k f := by
  induction hle with
  | refl => exact h
  | step _ ih => exact ih h.pred

theorem IReach.path {files : Files} {a c : String} (h : IReach files a c) {k : Nat}
    (hp : HasPath files k c) : ∃ k', k < k' ∧ HasPath files k' a := by
  induction h with
  | single hi => exact ⟨k + 1, Nat.lt_succ_self _, _, hi, hp⟩
  | step hi _ ih =>
    obtain ⟨k', hk, hp'⟩ := ih hp
    exact ⟨k' + 1, by omega, _, hi, hp'⟩

theorem IReach.exists_left {files : Files} {a c : String} (h : IReach files a c) :
    (findFileU files a).isSome = true := by
  cases h with
  | single hi => exact hi.exists_left
  | step hi _ => exact hi.exists_left

/-- a file on a cycle starts import chains of every length -/
theorem cycle_paths {files : Files} {c : String} (h : IReach files c c) : ∀ k, HasPath files k c
  | 0 => h.exists_left
  | k + 1 => by
    obtain ⟨k', hk, hp⟩ := h.path (cycle_paths h k)
    exact hp.le (by omega)

/-- an import chain longer than the budget is cut: the parser at the bottom aborts, or `tooDeep`
    has been registered on the way -/
theorem tooDeep_of_path (files : Files) : ∀ (b : Nat) (f : String) (us : List Unit'),
    findFileU files f = some us → HasPath files (b + 1) f →
    (loadUnits files b us).1 = none ∨ IErr.tooDeep ∈ (loadUnits files b us).2
  | 0, f, us, hf, ⟨g, ⟨us', hf', hm, _⟩, _⟩ => by
    rw [hf] at hf'; cases hf'
    exact .inl (loadUnits_zero_imp files hm)
  | b + 1, f, us, hf, ⟨g, ⟨us', hf', hm, hg⟩, hp⟩ => by
    rw [hf] at hf'; cases hf'
    obtain ⟨ug, hug⟩ := Option.isSome_iff_exists.1 hg
    right
    apply mem_errs_of_imp files b hm
    unfold impErrs
    rw [hug]
    rcases tooDeep_of_path files b g ug hug hp with h | h
    · simp [h]
    · exact List.mem_append_left _ h

/-! ### B.3 the textual-inclusion specification -/

/-- units → text, with `sub` for the units of an imported file -/
def inlineWith (files : Files) (sub : List Unit' → List String) : List Unit' → List String
  | [] => []
  | .rule t :: r => t :: inlineWith files sub r
  | .imp f :: r =>
      (match findFileU files f with
       | none => []
       | some us => sub us) ++ inlineWith files sub r

/-- textual inclusion with `d` levels of imports followed (a rule is its text, an existing import the
    inlined units of its file, a missing import nothing) -/
def inline (files : Files) : Nat → List Unit' → List String
  | 0 => inlineWith files (fun _ => [])
  | d + 1 => inlineWith files (inline files d)

def missingWith (files : Files) (sub : List Unit' → List IErr) : List Unit' → List IErr
  | [] => []
  | .rule _ :: r => missingWith files sub r
  | .imp f :: r =>
      (match findFileU files f with
       | none => [.missing f]
       | some us => sub us) ++ missingWith files sub r

/-- the missing imports in traversal order, `d` levels of imports followed -/
def missingOf (files : Files) : Nat → List Unit' → List IErr
  | 0 => missingWith files (fun _ => [])
  | d + 1 => missingWith files (missingOf files d)

def noImp : List Unit' → Bool
  | [] => true
  | .rule _ :: r => noImp r
  | .imp _ :: _ => false

def depthLeWith (files : Files) (sub : List Unit' → Bool) : List Unit' → Bool
  | [] => true
  | .rule _ :: r => depthLeWith files sub r
  | .imp f :: r =>
      (match findFileU files f with
       | none => true
       | some us => sub us) && depthLeWith files sub r

/-- every chain of import statements that starts in these units and runs through existing files
    (the last import may name a missing file) has at most `d` imports -/
def depthLe (files : Files) : Nat → List Unit' → Bool
  | 0 => noImp
  | d + 1 => depthLeWith files (depthLe files d)

def allExistWith (files : Files) (sub : List Unit' → Bool) : List Unit' → Bool
  | [] => true
  | .rule _ :: r => allExistWith files sub r
  | .imp f :: r =>
      (match findFileU files f with
       | none => false
       | some us => sub us) && allExistWith files sub r

/-- every import followed within `d` levels names an existing file -/
def allExist (files : Files) : Nat → List Unit' → Bool
  | 0 => allExistWith files (fun _ => true)
  | d + 1 => allExistWith files (allExist files d)

theorem loadUnits_noImp (files : Files) (b : Nat) {us : List Unit'} (h : noImp us = true) :
    loadUnits files b us = (some (inline files b us), []) ∧ missingOf files b us = [] ∧
      ∀ sub, inlineWith files sub us = inline files b us := by
  induction us with
  | nil => cases b <;> simp [loadUnits, inline, inlineWith, missingOf, missingWith]
  | cons u r ih =>
    cases u with
    | imp f => simp [noImp] at h
    | rule t =>
      obtain ⟨h1, h2, h3⟩ := ih (by simpa [noImp] using h)
      rw [loadUnits_rule, h1]
      cases b with
      | zero =>
        simp only [inline, missingOf, inlineWith, missingWith] at h2 h3 ⊢
        exact ⟨rfl, h2, fun sub => by rw [h3 sub]⟩
      | succ b =>
        simp only [inline, missingOf, inlineWith, missingWith] at h2 h3 ⊢
        exact ⟨rfl, h2, fun sub => by rw [h3 sub]⟩

/-- shallow imports expand completely: output = textual inclusion, register = the missing files -/
theorem loadUnits_shallow (files : Files) : ∀ (b : Nat) (us : List Unit'),
    depthLe files b us = true →
    loadUnits files b us = (some (inline files b us), missingOf files b us) := by
  intro b
  induction b with
  | zero =>
    intro us h
    have := loadUnits_noImp files 0 (us := us) (by simpa [depthLe] using h)
    rw [this.1, this.2.1]
  | succ b ihb =>
    intro us h
    induction us with
    | nil => simp [loadUnits, inline, inlineWith, missingOf, missingWith]
    | cons u r ih =>
      cases u with
      | rule t =>
        have hr : depthLe files (b + 1) r = true := by simpa [depthLe, depthLeWith] using h
        rw [loadUnits_rule, ih hr]
        simp [inline, inlineWith, missingOf, missingWith]
      | imp f =>
        simp only [depthLe, depthLeWith, Bool.and_eq_true] at h
        have hr : depthLe files (b + 1) r = true := by simpa [depthLe] using h.2
        rw [loadUnits_imp, ih hr]
        unfold impOut impErrs
        cases hf : findFileU files f with
        | none => simp [inline, inlineWith, missingOf, missingWith, hf]
        | some uf =>
          have hfd : depthLe files b uf = true := by simpa [hf] using h.1
          simp [inline, inlineWith, missingOf, missingWith, hf, ihb uf hfd]

theorem missingOf_of_allExist (files : Files) : ∀ (b : Nat) (us : List Unit'),
    allExist files b us = true → missingOf files b us = [] := by
  intro b
  induction b with
  | zero =>
    intro us h
    induction us with
    | nil => rfl
    | cons u r ih =>
      cases u with
      | rule t =>
        have hr : allExist files 0 r = true := by simpa [allExist, allExistWith] using h
        simpa [missingOf, missingWith] using ih hr
      | imp f =>
        simp only [allExist, allExistWith, Bool.and_eq_true] at h
        have hr : allExist files 0 r = true := by simpa [allExist] using h.2
        cases hf : findFileU files f with
        | none => simp [hf] at h
        | some uf => simpa [missingOf, missingWith, hf] using ih hr
  | succ b ihb =>
    intro us h
    induction us with
    | nil => rfl
    | cons u r ih =>
      cases u with
      | rule t =>
        have hr : allExist files (b + 1) r = true := by simpa [allExist, allExistWith] using h
        simpa [missingOf, missingWith] using ih hr
      | imp f =>
        simp only [allExist, allExistWith, Bool.and_eq_true] at h
        have hr : allExist files (b + 1) r = true := by simpa [allExist] using h.2
        cases hf : findFileU files f with
        | none => simp [hf] at h
        | some uf =>
          have := ihb uf (by simpa [hf] using h.1)
          have h2 := ih hr
          simp only [missingOf] at h2 ⊢
          simp [missingWith, hf, this, h2]

theorem tooDeep_not_mem_missingOf (files : Files) : ∀ (b : Nat) (us : List Unit'),
    IErr.tooDeep ∉ missingOf files b us := by
  intro b
  induction b with
  | zero =>
    intro us
    induction us with
    | nil => simp [missingOf, missingWith]
    | cons u r ih =>
      cases u with
      | rule t => simpa [missingOf, missingWith] using ih
      | imp f => cases hf : findFileU files f <;> simpa [missingOf, missingWith, hf] using ih
  | succ b ihb =>
    intro us
    induction us with
    | nil => simp [missingOf, missingWith]
    | cons u r ih =>
      cases u with
      | rule t => simpa [missingOf, missingWith] using ih
      | imp f =>
        simp only [missingOf] at ih ⊢
        cases hf : findFileU files f with
        | none => simpa [missingWith, hf] using ih
        | some uf => simpa [missingWith, hf] using ⟨ihb uf, ih⟩

/-- the fuel of the specification does not matter once it covers the import depth -/
theorem inline_fuel (files : Files) : ∀ (d k : Nat) (us : List Unit'),
    depthLe files d us = true → inline files (d + k) us = inline files d us := by
  intro d
  induction d with
  | zero =>
    intro k us h
    have h' : noImp us = true := by simpa [depthLe] using h
    have h1 := (loadUnits_noImp files (0 + k) h').2.2 (fun _ => [])
    have h2 := (loadUnits_noImp files 0 h').2.2 (fun _ => [])
    rw [← h1, h2]
  | succ d ihd =>
    intro k us h
    have e : d + 1 + k = (d + k) + 1 := by omega
    rw [e]
    induction us with
    | nil => simp [inline, inlineWith]
    | cons u r ih =>
      cases u with
      | rule t =>
        have hr : depthLe files (d + 1) r = true := by simpa [depthLe, depthLeWith] using h
        have := ih hr
        simp only [inline] at this ⊢
        simp [inlineWith, this]
      | imp f =>
        simp only [depthLe, depthLeWith, Bool.and_eq_true] at h
        have hr : depthLe files (d + 1) r = true := by simpa [depthLe] using h.2
        have := ih hr
        simp only [inline] at this ⊢
        cases hf : findFileU files f with
        | none => simp [inlineWith, hf, this]
        | some uf =>
          have h3 := ihd k uf (by simpa [hf] using h.1)
          simp [inlineWith, hf, this, h3]

end Lessm.Term
