/-
  Helper definitions and lemmas for property C16 (directory / batch mode), about the model
  `Lessm/Model/Batch.lean`.

  Contents
    §0  specification vocabulary used by the statements in `Lessm/Props/C16.lean`
        (`outFilesOf`, `outSubsOf`, `logLine`, `stepSt`, `maxSrcMtime`, `WF`, `LessNodup`)
    §1  `findFile` / `setFile` / `findSub` / `setSub` algebra
    §2  names: `outName` is injective on `.less` names, so distinct names give distinct out-names
    §3  one step of the loop (`stepSt`) and the `compileFiles` invariants
    §4  an induction principle for `Tree`, unfolding equations for `runDir` / `runSubs`
    §5  `runDir` / `runSubs`: clock monotone, dry run, recursion structure, idempotence
    §6  example data (a concrete directory) for the non-vacuity examples
-/
import Lessm.Model.Batch
namespace Lessm.Batch

/-! ### §0 vocabulary -/

/-- the files of the output directory at the start of a run (`[]` when it does not exist yet) -/
def outFilesOf (out : Option Tree) : List (String × File) :=
  match out with | some o => o.files | none => []

/-- the sub-directories of the output directory at the start of a run -/
def outSubsOf (out : Option Tree) : List (String × Tree) :=
  match out with | some o => o.subs | none => []

/-- the line announced on stdout for a recompiled file -/
def logLine (fl : Flags) (inDir outDir name : String) : String :=
  inDir ++ "/" ++ name ++ " -> " ++ outDir ++ "/" ++ outName fl name

/-- the body of the loop of `compileFiles` for one directory entry -/
def stepSt (cc : String → String) (fl : Flags) (inDir outDir : String) (name : String) (src : File)
    (st : St) : St :=
  if isLess name && stale fl src (findFile st.outFiles (outName fl name)) then
    if fl.dry then { st with log := st.log ++ [logLine fl inDir outDir name] }
    else { outFiles := setFile st.outFiles (outName fl name) ⟨cc src.bytes, st.clock⟩,
           clock := st.clock + 1, log := st.log ++ [logLine fl inDir outDir name] }
  else st

/-- "the out-names of the `.less` files of this listing are pairwise distinct" -/
def LessNodup (fl : Flags) (files : List (String × File)) : Prop :=
  ((files.filter (fun p => isLess p.1)).map (fun p => outName fl p.1)).Nodup

instance (fl : Flags) (files : List (String × File)) : Decidable (LessNodup fl files) := by
  unfold LessNodup; infer_instance

/-- the latest modification time among the given files -/
def maxFileMtime : List (String × File) → Nat
  | [] => 0
  | p :: r => max p.2.mtime (maxFileMtime r)

mutual
/-- the latest modification time of any file of the whole input tree -/
def maxSrcMtime : Tree → Nat
  | .mk files subs => max (maxFileMtime files) (maxSrcSubs subs)
/-- the same for a list of named sub-directories -/
def maxSrcSubs : List (String × Tree) → Nat
  | [] => 0
  | (_, t) :: r => max (maxSrcMtime t) (maxSrcSubs r)
end

mutual
/-- a well-formed directory tree, as every real file system delivers it: in each directory the file
    names are pairwise distinct and the sub-directory names are pairwise distinct, recursively -/
def WF : Tree → Bool
  | .mk files subs =>
      decide (files.map (·.1)).Nodup && decide (subs.map (·.1)).Nodup && WFs subs
/-- all listed sub-directories are well formed -/
def WFs : List (String × Tree) → Bool
  | [] => true
  | (_, t) :: r => WF t && WFs r
end

/-! ### §1 `findFile` / `setFile` / `findSub` / `setSub` -/

@[simp] theorem findFile_nil (n : String) : findFile [] n = none := rfl

theorem findFile_cons (k : String) (v : File) (r : List (String × File)) (n : String) :
    findFile ((k, v) :: r) n = if k = n then some v else findFile r n := by
  unfold findFile
  rw [List.find?_cons]
  by_cases h : k = n
  · have : (k == n) = true := by simp [h]
    simp [h]
  · have : (k == n) = false := by simp [h]
    simp [this, h]

theorem findFile_setFile_same (fs : List (String × File)) (n : String) (f : File) :
    findFile (setFile fs n f) n = some f := by
  induction fs with
  | nil => simp [setFile, findFile_cons]
  | cons p r ih =>
    obtain ⟨k, v⟩ := p
    by_cases h : k = n
    · simp [setFile, h, findFile_cons]
    · simp [setFile, h, findFile_cons, ih]

theorem findFile_setFile_ne (fs : List (String × File)) (n m : String) (f : File) (hne : n ≠ m) :
    findFile (setFile fs n f) m = findFile fs m := by
  induction fs with
  | nil => simp [setFile, findFile_cons, hne]
  | cons p r ih =>
    obtain ⟨k, v⟩ := p
    by_cases h : k = n
    · subst h; simp [setFile, findFile_cons, hne]
    · simp [setFile, h, findFile_cons, ih]

theorem findFile_setFile (fs : List (String × File)) (n m : String) (f : File) :
    findFile (setFile fs n f) m = if n = m then some f else findFile fs m := by
  by_cases h : n = m
  · subst h; simp [findFile_setFile_same]
  · simp [h, findFile_setFile_ne _ _ _ _ h]

/-- writing back what is already there does not change the listing -/
theorem setFile_of_findFile (fs : List (String × File)) (n : String) (f : File)
    (h : findFile fs n = some f) : setFile fs n f = fs := by
  induction fs with
  | nil => simp at h
  | cons p r ih =>
    obtain ⟨k, v⟩ := p
    rw [findFile_cons] at h
    by_cases hk : k = n
    · simp [hk] at h; subst h; simp [setFile, hk]
    · simp [hk] at h; simp [setFile, hk, ih h]

theorem findFile_some_mem (fs : List (String × File)) (n : String) (f : File)
    (h : findFile fs n = some f) : (n, f) ∈ fs := by
  induction fs with
  | nil => simp at h
  | cons p r ih =>
    obtain ⟨k, v⟩ := p
    rw [findFile_cons] at h
    by_cases hk : k = n
    · simp [hk] at h; subst h; subst hk; simp
    · simp [hk] at h; exact List.mem_cons_of_mem _ (ih h)

theorem findFile_none_iff (fs : List (String × File)) (n : String) :
    findFile fs n = none ↔ n ∉ fs.map (·.1) := by
  induction fs with
  | nil => simp
  | cons p r ih =>
    obtain ⟨k, v⟩ := p
    rw [findFile_cons]
    by_cases hk : k = n
    · simp [hk]
    · simp only [hk, if_false, ih, List.map_cons, List.mem_cons, not_or]
      constructor
      · intro h; exact ⟨fun e => hk e.symm, h⟩
      · intro h; exact h.2

@[simp] theorem findSub_nil (n : String) : findSub [] n = none := rfl

theorem findSub_cons (k : String) (v : Tree) (r : List (String × Tree)) (n : String) :
    findSub ((k, v) :: r) n = if k = n then some v else findSub r n := by
  unfold findSub
  rw [List.find?_cons]
  by_cases h : k = n
  · have : (k == n) = true := by simp [h]
    simp [h]
  · have : (k == n) = false := by simp [h]
    simp [this, h]

theorem findSub_setSub_same (ss : List (String × Tree)) (n : String) (t : Tree) :
    findSub (setSub ss n t) n = some t := by
  induction ss with
  | nil => simp [setSub, findSub_cons]
  | cons p r ih =>
    obtain ⟨k, v⟩ := p
    by_cases h : k = n
    · simp [setSub, h, findSub_cons]
    · simp [setSub, h, findSub_cons, ih]

theorem findSub_setSub_ne (ss : List (String × Tree)) (n m : String) (t : Tree) (hne : n ≠ m) :
    findSub (setSub ss n t) m = findSub ss m := by
  induction ss with
  | nil => simp [setSub, findSub_cons, hne]
  | cons p r ih =>
    obtain ⟨k, v⟩ := p
    by_cases h : k = n
    · subst h; simp [setSub, findSub_cons, hne]
    · simp [setSub, h, findSub_cons, ih]

/-- writing back the sub-directory that is already there does not change the listing -/
theorem setSub_of_findSub (ss : List (String × Tree)) (n : String) (t : Tree)
    (h : findSub ss n = some t) : setSub ss n t = ss := by
  induction ss with
  | nil => simp at h
  | cons p r ih =>
    obtain ⟨k, v⟩ := p
    rw [findSub_cons] at h
    by_cases hk : k = n
    · simp [hk] at h; subst h; simp [setSub, hk]
    · simp [hk] at h; simp [setSub, hk, ih h]

theorem findSub_none_iff (ss : List (String × Tree)) (n : String) :
    findSub ss n = none ↔ n ∉ ss.map (·.1) := by
  induction ss with
  | nil => simp
  | cons p r ih =>
    obtain ⟨k, v⟩ := p
    rw [findSub_cons]
    by_cases hk : k = n
    · simp [hk]
    · simp only [hk, if_false, ih, List.map_cons, List.mem_cons, not_or]
      constructor
      · intro h; exact ⟨fun e => hk e.symm, h⟩
      · intro h; exact h.2

theorem filterMap_congr' {α β : Type _} {f g : α → Option β} {l : List α}
    (h : ∀ a ∈ l, f a = g a) : l.filterMap f = l.filterMap g := by
  induction l with
  | nil => rfl
  | cons a r ih =>
    rw [List.filterMap_cons, List.filterMap_cons, h a List.mem_cons_self,
      ih (fun b hb => h b (List.mem_cons_of_mem _ hb))]

/-! ### §2 names -/

theorem isLess_toList {a : String} (h : isLess a = true) :
    a.toList = (baseOf a).toList ++ lessExt := by
  unfold isLess at h
  simp only [Bool.and_eq_true, beq_iff_eq] at h
  unfold baseOf
  rw [String.toList_ofList, ← h.1.1, List.take_append_drop]

/-- two `.less` names with the same output name are the same name -/
theorem outName_inj (fl : Flags) {a b : String} (ha : isLess a = true) (hb : isLess b = true)
    (h : outName fl a = outName fl b) : a = b := by
  unfold outName at h
  have h' := congrArg String.toList h
  simp only [String.toList_append] at h'
  have h2 := List.append_cancel_right (List.append_cancel_right h')
  apply String.toList_inj.mp
  rw [isLess_toList ha, isLess_toList hb, h2]

/-- distinct file names (a fact of every file system) give distinct out-names of the `.less` files -/
theorem lessNodup_of_names_nodup (fl : Flags) (files : List (String × File))
    (h : (files.map (·.1)).Nodup) : LessNodup fl files := by
  unfold LessNodup
  induction files with
  | nil => simp
  | cons p r ih =>
    simp only [List.map_cons, List.nodup_cons] at h
    rw [List.filter_cons]
    by_cases hp : isLess p.1 = true
    · simp only [hp, if_true, List.map_cons, List.nodup_cons]
      refine ⟨?_, ih h.2⟩
      intro hm
      obtain ⟨q, hq, he⟩ := List.mem_map.mp hm
      obtain ⟨hq1, hq2⟩ := List.mem_filter.mp hq
      have := outName_inj fl hq2 hp he
      exact h.1 (this ▸ List.mem_map.mpr ⟨q, hq1, rfl⟩)
    · simp only [hp]
      exact ih h.2

theorem lessNodup_cons {fl : Flags} {name : String} {src : File} {rest : List (String × File)}
    (h : LessNodup fl ((name, src) :: rest)) :
    LessNodup fl rest ∧
      (isLess name = true → ∀ p ∈ rest, isLess p.1 = true → outName fl p.1 ≠ outName fl name) := by
  unfold LessNodup at h ⊢
  rw [List.filter_cons] at h
  by_cases hp : isLess name = true
  · simp only [hp, if_true, List.map_cons, List.nodup_cons] at h
    refine ⟨h.2, fun _ p hpr hpl he => h.1 ?_⟩
    exact List.mem_map.mpr ⟨p, List.mem_filter.mpr ⟨hpr, hpl⟩, he⟩
  · simp only [hp] at h
    exact ⟨h, fun hh => absurd hh hp⟩

theorem LessNodup.perm {fl : Flags} {l₁ l₂ : List (String × File)} (hp : l₁.Perm l₂)
    (h : LessNodup fl l₁) : LessNodup fl l₂ :=
  (((hp.filter _).map _).nodup_iff).mp h

/-! ### §3 one step of the loop, and the loop -/

theorem compileFiles_nil (cc : String → String) (fl : Flags) (i o : String) (st : St) :
    compileFiles cc fl i o [] st = st := rfl

theorem compileFiles_cons (cc : String → String) (fl : Flags) (i o : String) (name : String)
    (src : File) (rest : List (String × File)) (st : St) :
    compileFiles cc fl i o ((name, src) :: rest) st
      = compileFiles cc fl i o rest (stepSt cc fl i o name src st) := by
  rw [compileFiles]
  unfold stepSt logLine
  by_cases h1 : isLess name = true
  · by_cases h2 : stale fl src (findFile st.outFiles (outName fl name)) = true
    · simp [h1, h2]
    · simp [h1, h2]
  · simp [h1]

theorem stepSt_clock_le (cc : String → String) (fl : Flags) (i o name : String) (src : File) (st : St) :
    st.clock ≤ (stepSt cc fl i o name src st).clock := by
  unfold stepSt
  split
  · split <;> simp
  · exact Nat.le_refl _

theorem stepSt_dry (cc : String → String) (fl : Flags) (i o name : String) (src : File) (st : St)
    (hd : fl.dry = true) :
    (stepSt cc fl i o name src st).outFiles = st.outFiles ∧
      (stepSt cc fl i o name src st).clock = st.clock := by
  unfold stepSt
  split <;> simp

theorem stepSt_fresh (cc : String → String) (fl : Flags) (i o name : String) (src : File) (st : St)
    (h : (isLess name && stale fl src (findFile st.outFiles (outName fl name))) = false) :
    stepSt cc fl i o name src st = st := by
  unfold stepSt
  simp [h]

theorem stepSt_written (cc : String → String) (fl : Flags) (i o name : String) (src : File) (st : St)
    (hl : isLess name = true) (hs : stale fl src (findFile st.outFiles (outName fl name)) = true)
    (hd : fl.dry = false) :
    stepSt cc fl i o name src st =
      { outFiles := setFile st.outFiles (outName fl name) ⟨cc src.bytes, st.clock⟩,
        clock := st.clock + 1, log := st.log ++ [logLine fl i o name] } := by
  unfold stepSt
  simp [hl, hs, hd]

theorem stepSt_find_ne (cc : String → String) (fl : Flags) (i o name : String) (src : File) (st : St)
    (n : String) (hne : isLess name = true → outName fl name ≠ n) :
    findFile (stepSt cc fl i o name src st).outFiles n = findFile st.outFiles n := by
  unfold stepSt
  split
  · rename_i h
    simp only [Bool.and_eq_true] at h
    split
    · rfl
    · exact findFile_setFile_ne _ _ _ _ (hne h.1)
  · rfl

theorem stepSt_log (cc : String → String) (fl : Flags) (i o name : String) (src : File) (st : St) :
    (stepSt cc fl i o name src st).log =
      st.log ++ (if isLess name && stale fl src (findFile st.outFiles (outName fl name))
                 then [logLine fl i o name] else []) := by
  unfold stepSt
  split
  · split <;> simp
  · simp

theorem compileFiles_clock_le (cc : String → String) (fl : Flags) (i o : String)
    (files : List (String × File)) (st : St) :
    st.clock ≤ (compileFiles cc fl i o files st).clock := by
  induction files generalizing st with
  | nil => exact Nat.le_refl _
  | cons p r ih =>
    obtain ⟨name, src⟩ := p
    rw [compileFiles_cons]
    exact Nat.le_trans (stepSt_clock_le ..) (ih _)

theorem compileFiles_dry (cc : String → String) (fl : Flags) (i o : String)
    (files : List (String × File)) (st : St) (hd : fl.dry = true) :
    (compileFiles cc fl i o files st).outFiles = st.outFiles ∧
      (compileFiles cc fl i o files st).clock = st.clock := by
  induction files generalizing st with
  | nil => exact ⟨rfl, rfl⟩
  | cons p r ih =>
    obtain ⟨name, src⟩ := p
    rw [compileFiles_cons]
    have h1 := stepSt_dry cc fl i o name src st hd
    have h2 := ih (stepSt cc fl i o name src st)
    exact ⟨h2.1.trans h1.1, h2.2.trans h1.2⟩

/-- a name that is not the out-name of a `.less` file of the listing keeps its entry -/
theorem compileFiles_untouched (cc : String → String) (fl : Flags) (i o : String)
    (files : List (String × File)) (st : St) (n : String)
    (h : ∀ p ∈ files, isLess p.1 = true → outName fl p.1 ≠ n) :
    findFile (compileFiles cc fl i o files st).outFiles n = findFile st.outFiles n := by
  induction files generalizing st with
  | nil => rfl
  | cons p r ih =>
    obtain ⟨name, src⟩ := p
    rw [compileFiles_cons, ih _ (fun q hq => h q (List.mem_cons_of_mem _ hq))]
    exact stepSt_find_ne _ _ _ _ _ _ _ _ (h (name, src) List.mem_cons_self)

/-- the staleness law for one directory, for an arbitrary start state -/
theorem compileFiles_file (cc : String → String) (fl : Flags) (i o : String)
    (files : List (String × File)) (st : St) (hnd : LessNodup fl files)
    (name : String) (src : File) (hmem : (name, src) ∈ files) (hl : isLess name = true) :
    ((fl.dry = true ∨ stale fl src (findFile st.outFiles (outName fl name)) = false) →
        findFile (compileFiles cc fl i o files st).outFiles (outName fl name)
          = findFile st.outFiles (outName fl name)) ∧
    ((fl.dry = false ∧ stale fl src (findFile st.outFiles (outName fl name)) = true) →
        ∃ t, st.clock ≤ t ∧ t < (compileFiles cc fl i o files st).clock ∧
          findFile (compileFiles cc fl i o files st).outFiles (outName fl name)
            = some ⟨cc src.bytes, t⟩) := by
  induction files generalizing st with
  | nil => cases hmem
  | cons p r ih =>
    obtain ⟨name', src'⟩ := p
    obtain ⟨hndr, hne⟩ := lessNodup_cons hnd
    rw [compileFiles_cons]
    rcases List.mem_cons.mp hmem with heq | hin
    · -- the file is the head of the listing: nothing later touches its out-name
      cases heq
      have hrest := compileFiles_untouched cc fl i o r (stepSt cc fl i o name src st)
        (outName fl name) (hne hl)
      have hclk := compileFiles_clock_le cc fl i o r (stepSt cc fl i o name src st)
      rw [hrest]
      constructor
      · intro h
        rcases h with hd | hs
        · rw [(stepSt_dry cc fl i o name src st hd).1]
        · rw [stepSt_fresh cc fl i o name src st (by simp [hs])]
      · intro ⟨hd, hs⟩
        rw [stepSt_written cc fl i o name src st hl hs hd] at hclk ⊢
        exact ⟨st.clock, Nat.le_refl _, hclk, findFile_setFile_same _ _ _⟩
    · -- the file comes later: the head writes a different name
      have hne' : isLess name' = true → outName fl name' ≠ outName fl name :=
        fun h' e => hne h' (name, src) hin hl e.symm
      have hfind := stepSt_find_ne cc fl i o name' src' st (outName fl name) hne'
      have hclk := stepSt_clock_le cc fl i o name' src' st
      have := ih (stepSt cc fl i o name' src' st) hndr hin
      rw [hfind] at this
      refine ⟨this.1, fun h => ?_⟩
      obtain ⟨t, h1, h2, h3⟩ := this.2 h
      exact ⟨t, Nat.le_trans hclk h1, h2, h3⟩

/-- the log: the lines of exactly the stale `.less` files, judged against the *start* state -/
theorem compileFiles_log (cc : String → String) (fl : Flags) (i o : String)
    (files : List (String × File)) (st : St) (hnd : LessNodup fl files) :
    (compileFiles cc fl i o files st).log =
      st.log ++ files.filterMap (fun p =>
        if isLess p.1 && stale fl p.2 (findFile st.outFiles (outName fl p.1))
        then some (logLine fl i o p.1) else none) := by
  induction files generalizing st with
  | nil => simp [compileFiles_nil]
  | cons p r ih =>
    obtain ⟨name, src⟩ := p
    obtain ⟨hndr, hne⟩ := lessNodup_cons hnd
    rw [compileFiles_cons, ih _ hndr, stepSt_log, List.filterMap_cons]
    have hcongr : r.filterMap (fun p =>
          if isLess p.1 && stale fl p.2
              (findFile (stepSt cc fl i o name src st).outFiles (outName fl p.1))
          then some (logLine fl i o p.1) else none)
        = r.filterMap (fun p =>
          if isLess p.1 && stale fl p.2 (findFile st.outFiles (outName fl p.1))
          then some (logLine fl i o p.1) else none) := by
      apply filterMap_congr'
      intro q hq
      by_cases hql : isLess q.1 = true
      · rw [stepSt_find_ne cc fl i o name src st (outName fl q.1)
          (fun h e => hne h q hq hql e.symm)]
      · simp [hql]
    rw [hcongr]
    by_cases hc : (isLess name && stale fl src (findFile st.outFiles (outName fl name))) = true
    · simp [hc]
    · simp [hc]

/-- when no `.less` file is stale nothing happens at all -/
theorem compileFiles_noop (cc : String → String) (fl : Flags) (i o : String)
    (files : List (String × File)) (st : St)
    (h : ∀ p ∈ files, isLess p.1 = true →
      stale fl p.2 (findFile st.outFiles (outName fl p.1)) = false) :
    compileFiles cc fl i o files st = st := by
  induction files with
  | nil => rfl
  | cons p r ih =>
    obtain ⟨name, src⟩ := p
    rw [compileFiles_cons, stepSt_fresh]
    · exact ih (fun q hq => h q (List.mem_cons_of_mem _ hq))
    · by_cases hl : isLess name = true
      · simp [h (name, src) List.mem_cons_self hl]
      · simp [hl]

/-! ### §4 induction on trees; unfolding equations -/

/-- induction on directory trees: a property holds of a directory when it holds of every listed
    sub-directory -/
theorem Tree.induct' {P : Tree → Prop}
    (h : ∀ files subs, (∀ p ∈ subs, P p.2) → P (.mk files subs)) : ∀ t, P t := by
  intro t
  exact Tree.rec (motive_1 := P) (motive_2 := fun l => ∀ p ∈ l, P p.2) (motive_3 := fun p => P p.2)
    (fun f s ih => h f s ih)
    (fun p hp => by cases hp)
    (fun hd tl h1 h2 p hp => by
      rcases List.mem_cons.mp hp with e | e
      · exact e ▸ h1
      · exact h2 p e)
    (fun _ _ h => h) t

theorem runDir_eq (cc : String → String) (fl : Flags) (i o : String) (files : List (String × File))
    (subs : List (String × Tree)) (out : Option Tree) (clock : Nat) :
    runDir cc fl i o (.mk files subs) out clock =
      if fl.recurse = true then
        (if (out.isSome || !fl.dry) = true then
            some (.mk (compileFiles cc fl i o files ⟨outFilesOf out, clock, []⟩).outFiles
              (runSubs cc fl i o subs (outSubsOf out)
                (compileFiles cc fl i o files ⟨outFilesOf out, clock, []⟩).clock).1)
          else none,
         (runSubs cc fl i o subs (outSubsOf out)
            (compileFiles cc fl i o files ⟨outFilesOf out, clock, []⟩).clock).2.1,
         (compileFiles cc fl i o files ⟨outFilesOf out, clock, []⟩).log ++
           (runSubs cc fl i o subs (outSubsOf out)
              (compileFiles cc fl i o files ⟨outFilesOf out, clock, []⟩).clock).2.2)
      else
        (if (out.isSome || !fl.dry) = true then
            some (.mk (compileFiles cc fl i o files ⟨outFilesOf out, clock, []⟩).outFiles
              (outSubsOf out))
          else none,
         (compileFiles cc fl i o files ⟨outFilesOf out, clock, []⟩).clock,
         (compileFiles cc fl i o files ⟨outFilesOf out, clock, []⟩).log) := by
  cases out <;> rw [runDir] <;> rfl

theorem runSubs_nil (cc : String → String) (fl : Flags) (i o : String)
    (outSubs : List (String × Tree)) (clock : Nat) :
    runSubs cc fl i o [] outSubs clock = (outSubs, clock, []) := by
  rw [runSubs]

theorem runSubs_cons_hidden (cc : String → String) (fl : Flags) (i o : String) (name : String)
    (t : Tree) (rest outSubs : List (String × Tree)) (clock : Nat) (h : hidden name = true) :
    runSubs cc fl i o ((name, t) :: rest) outSubs clock = runSubs cc fl i o rest outSubs clock := by
  rw [runSubs]; simp [h]

/-- the output listing after the sub-directory `name` has been processed with result `r` -/
def subsAfter (outSubs : List (String × Tree)) (name : String) (r : Option Tree) :
    List (String × Tree) :=
  match r with
  | some ot => setSub outSubs name ot
  | none => outSubs

theorem runSubs_cons_visible (cc : String → String) (fl : Flags) (i o : String) (name : String)
    (t : Tree) (rest outSubs : List (String × Tree)) (clock : Nat) (h : hidden name = false) :
    runSubs cc fl i o ((name, t) :: rest) outSubs clock =
      ((runSubs cc fl i o rest
          (subsAfter outSubs name
            (runDir cc fl (i ++ "/" ++ name) (o ++ "/" ++ name) t (findSub outSubs name) clock).1)
          (runDir cc fl (i ++ "/" ++ name) (o ++ "/" ++ name) t (findSub outSubs name) clock).2.1).1,
       (runSubs cc fl i o rest
          (subsAfter outSubs name
            (runDir cc fl (i ++ "/" ++ name) (o ++ "/" ++ name) t (findSub outSubs name) clock).1)
          (runDir cc fl (i ++ "/" ++ name) (o ++ "/" ++ name) t (findSub outSubs name) clock).2.1).2.1,
       (runDir cc fl (i ++ "/" ++ name) (o ++ "/" ++ name) t (findSub outSubs name) clock).2.2 ++
       (runSubs cc fl i o rest
          (subsAfter outSubs name
            (runDir cc fl (i ++ "/" ++ name) (o ++ "/" ++ name) t (findSub outSubs name) clock).1)
          (runDir cc fl (i ++ "/" ++ name) (o ++ "/" ++ name) t (findSub outSubs name) clock).2.1).2.2) := by
  rw [runSubs]; simp only [h, Bool.false_eq_true, if_false]; rfl

/-! ### §5 `runDir` / `runSubs` -/

theorem subsAfter_findSub (outSubs : List (String × Tree)) (name : String) :
    subsAfter outSubs name (findSub outSubs name) = outSubs := by
  unfold subsAfter
  split
  · rename_i ot h; exact setSub_of_findSub _ _ _ h
  · rfl

theorem findSub_subsAfter_ne (outSubs : List (String × Tree)) (name n : String) (r : Option Tree)
    (hne : name ≠ n) : findSub (subsAfter outSubs name r) n = findSub outSubs n := by
  unfold subsAfter
  split
  · exact findSub_setSub_ne _ _ _ _ hne
  · rfl

/-- the clock never goes back: sub-directory list, given the statement for the listed trees -/
theorem runSubs_clock_le_of (cc : String → String) (fl : Flags) (subs : List (String × Tree))
    (ih : ∀ p ∈ subs, ∀ i o out clock, clock ≤ (runDir cc fl i o p.2 out clock).2.1)
    (i o : String) (outSubs : List (String × Tree)) (clock : Nat) :
    clock ≤ (runSubs cc fl i o subs outSubs clock).2.1 := by
  induction subs generalizing outSubs clock with
  | nil => rw [runSubs_nil]; exact Nat.le_refl _
  | cons p r ihr =>
    obtain ⟨name, t⟩ := p
    have ihr' := ihr (fun q hq => ih q (List.mem_cons_of_mem _ hq))
    by_cases hh : hidden name = true
    · rw [runSubs_cons_hidden _ _ _ _ _ _ _ _ _ hh]; exact ihr' _ _
    · have hh : hidden name = false := by simpa using hh
      rw [runSubs_cons_visible _ _ _ _ _ _ _ _ _ hh]
      exact Nat.le_trans (ih (name, t) List.mem_cons_self _ _ _ _) (ihr' _ _)

/-- the clock never goes back -/
theorem runDir_clock_le (cc : String → String) (fl : Flags) (t : Tree) :
    ∀ (i o : String) (out : Option Tree) (clock : Nat),
      clock ≤ (runDir cc fl i o t out clock).2.1 := by
  induction t using Tree.induct' with
  | h files subs ih =>
    intro i o out clock
    rw [runDir_eq]
    split
    · exact Nat.le_trans (compileFiles_clock_le cc fl i o files ⟨outFilesOf out, clock, []⟩)
        (runSubs_clock_le_of cc fl subs ih i o _ _)
    · exact compileFiles_clock_le cc fl i o files ⟨outFilesOf out, clock, []⟩

theorem runSubs_clock_le (cc : String → String) (fl : Flags) (subs : List (String × Tree))
    (i o : String) (outSubs : List (String × Tree)) (clock : Nat) :
    clock ≤ (runSubs cc fl i o subs outSubs clock).2.1 :=
  runSubs_clock_le_of cc fl subs (fun p _ => runDir_clock_le cc fl p.2) i o outSubs clock

/-- dry run, sub-directory list, given the statement for the listed trees -/
theorem runSubs_dry_of (cc : String → String) (fl : Flags) (subs : List (String × Tree))
    (ih : ∀ p ∈ subs, ∀ i o out clock,
      (runDir cc fl i o p.2 out clock).1 = out ∧ (runDir cc fl i o p.2 out clock).2.1 = clock)
    (i o : String) (outSubs : List (String × Tree)) (clock : Nat) :
    (runSubs cc fl i o subs outSubs clock).1 = outSubs ∧
      (runSubs cc fl i o subs outSubs clock).2.1 = clock := by
  induction subs generalizing outSubs clock with
  | nil => rw [runSubs_nil]; exact ⟨rfl, rfl⟩
  | cons p r ihr =>
    obtain ⟨name, t⟩ := p
    have ihr' := ihr (fun q hq => ih q (List.mem_cons_of_mem _ hq))
    by_cases hh : hidden name = true
    · rw [runSubs_cons_hidden _ _ _ _ _ _ _ _ _ hh]; exact ihr' _ _
    · have hh : hidden name = false := by simpa using hh
      rw [runSubs_cons_visible _ _ _ _ _ _ _ _ _ hh]
      obtain ⟨h1, h2⟩ := ih (name, t) List.mem_cons_self (i ++ "/" ++ name) (o ++ "/" ++ name)
        (findSub outSubs name) clock
      simp only at h1 h2 ⊢
      rw [h1, h2, subsAfter_findSub]
      exact ihr' _ _

/-- a dry run leaves the output tree and the clock alone -/
theorem runDir_dry (cc : String → String) (fl : Flags) (hd : fl.dry = true) (t : Tree) :
    ∀ (i o : String) (out : Option Tree) (clock : Nat),
      (runDir cc fl i o t out clock).1 = out ∧ (runDir cc fl i o t out clock).2.1 = clock := by
  induction t using Tree.induct' with
  | h files subs ih =>
    intro i o out clock
    rw [runDir_eq]
    obtain ⟨hf, hc⟩ := compileFiles_dry cc fl i o files ⟨outFilesOf out, clock, []⟩ hd
    simp only at hf hc
    have hs := runSubs_dry_of cc fl subs ih i o (outSubsOf out) clock
    split
    · rw [hf, hc, hs.1, hs.2]
      refine ⟨?_, rfl⟩
      cases out with
      | none => simp [hd]
      | some ot => cases ot; simp [outFilesOf, outSubsOf, Tree.files, Tree.subs]
    · rw [hf, hc]
      refine ⟨?_, rfl⟩
      cases out with
      | none => simp [hd]
      | some ot => cases ot; simp [outFilesOf, outSubsOf, Tree.files, Tree.subs]

theorem runSubs_dry (cc : String → String) (fl : Flags) (hd : fl.dry = true)
    (subs : List (String × Tree)) (i o : String) (outSubs : List (String × Tree)) (clock : Nat) :
    (runSubs cc fl i o subs outSubs clock).1 = outSubs ∧
      (runSubs cc fl i o subs outSubs clock).2.1 = clock :=
  runSubs_dry_of cc fl subs (fun p _ => runDir_dry cc fl hd p.2) i o outSubs clock

/-- a real run creates the output directory -/
theorem runDir_some (cc : String → String) (fl : Flags) (hd : fl.dry = false) (i o : String)
    (t : Tree) (out : Option Tree) (clock : Nat) :
    ∃ res, (runDir cc fl i o t out clock).1 = some res := by
  obtain ⟨files, subs⟩ := t
  rw [runDir_eq]
  split <;> simp [hd]

/-- the files of the result of `runDir` are the result of the loop `compileFiles` -/
theorem runDir_files (cc : String → String) (fl : Flags) (i o : String) (files : List (String × File))
    (subs : List (String × Tree)) (out : Option Tree) (clock : Nat) (res : Tree)
    (h : (runDir cc fl i o (.mk files subs) out clock).1 = some res) :
    res.files = (compileFiles cc fl i o files ⟨outFilesOf out, clock, []⟩).outFiles := by
  rw [runDir_eq] at h
  split at h <;> simp only at h <;> split at h <;> simp at h <;> subst h <;> rfl

/-- sub-directories of the output that are not visited keep their entry -/
theorem runSubs_untouched (cc : String → String) (fl : Flags) (i o : String)
    (subs : List (String × Tree)) (outSubs : List (String × Tree)) (clock : Nat) (n : String)
    (h : ∀ p ∈ subs, hidden p.1 = false → p.1 ≠ n) :
    findSub (runSubs cc fl i o subs outSubs clock).1 n = findSub outSubs n := by
  induction subs generalizing outSubs clock with
  | nil => rw [runSubs_nil]
  | cons p r ihr =>
    obtain ⟨name, t⟩ := p
    have ihr' := fun os c => ihr os c (fun q hq => h q (List.mem_cons_of_mem _ hq))
    by_cases hh : hidden name = true
    · rw [runSubs_cons_hidden _ _ _ _ _ _ _ _ _ hh]; exact ihr' _ _
    · have hh : hidden name = false := by simpa using hh
      rw [runSubs_cons_visible _ _ _ _ _ _ _ _ _ hh]
      simp only
      rw [ihr', findSub_subsAfter_ne _ _ _ _ (h (name, t) List.mem_cons_self hh)]

/-- every visible sub-directory is mirrored: its entry in the result is what `runDir` returns for it
    (started at some later clock, against the entry of the same name that was there before) -/
theorem runSubs_visited (cc : String → String) (fl : Flags) (hd : fl.dry = false) (i o : String)
    (subs : List (String × Tree)) (hnd : (subs.map (·.1)).Nodup)
    (outSubs : List (String × Tree)) (clock : Nat)
    (name : String) (t : Tree) (hmem : (name, t) ∈ subs) (hh : hidden name = false) :
    ∃ c, clock ≤ c ∧ c ≤ (runSubs cc fl i o subs outSubs clock).2.1 ∧
      findSub (runSubs cc fl i o subs outSubs clock).1 name
        = (runDir cc fl (i ++ "/" ++ name) (o ++ "/" ++ name) t (findSub outSubs name) c).1 := by
  induction subs generalizing outSubs clock with
  | nil => cases hmem
  | cons p r ihr =>
    obtain ⟨name', t'⟩ := p
    simp only [List.map_cons, List.nodup_cons] at hnd
    rcases List.mem_cons.mp hmem with heq | hin
    · cases heq
      rw [runSubs_cons_visible _ _ _ _ _ _ _ _ _ hh]
      simp only
      refine ⟨clock, Nat.le_refl _,
        Nat.le_trans (runDir_clock_le ..) (runSubs_clock_le ..), ?_⟩
      rw [runSubs_untouched]
      · obtain ⟨res, hres⟩ := runDir_some cc fl hd (i ++ "/" ++ name) (o ++ "/" ++ name) t
          (findSub outSubs name) clock
        rw [hres]
        exact findSub_setSub_same _ _ _
      · intro q hq _ e
        exact hnd.1 (List.mem_map.mpr ⟨q, hq, e⟩)
    · have hne : name' ≠ name := fun e => hnd.1 (List.mem_map.mpr ⟨(name, t), hin, e.symm⟩)
      by_cases hh' : hidden name' = true
      · rw [runSubs_cons_hidden _ _ _ _ _ _ _ _ _ hh']; exact ihr hnd.2 _ _ hin
      · have hh' : hidden name' = false := by simpa using hh'
        rw [runSubs_cons_visible _ _ _ _ _ _ _ _ _ hh']
        simp only
        obtain ⟨c, h1, h2, h3⟩ := ihr hnd.2
          (subsAfter outSubs name'
            (runDir cc fl (i ++ "/" ++ name') (o ++ "/" ++ name') t' (findSub outSubs name') clock).1)
          (runDir cc fl (i ++ "/" ++ name') (o ++ "/" ++ name') t' (findSub outSubs name') clock).2.1
          hin
        rw [findSub_subsAfter_ne _ _ _ _ hne] at h3
        exact ⟨c, Nat.le_trans (runDir_clock_le ..) h1, h2, h3⟩

/-! #### idempotence -/

theorem outFilesOf_some_mk (f : List (String × File)) (s : List (String × Tree)) :
    outFilesOf (some (.mk f s)) = f := rfl

theorem outSubsOf_some_mk (f : List (String × File)) (s : List (String × Tree)) :
    outSubsOf (some (.mk f s)) = s := rfl

theorem mtime_le_maxFileMtime (files : List (String × File)) (p : String × File) (h : p ∈ files) :
    p.2.mtime ≤ maxFileMtime files := by
  induction files with
  | nil => cases h
  | cons q r ih =>
    rw [maxFileMtime]
    rcases List.mem_cons.mp h with e | e
    · subst e; exact Nat.le_max_left _ _
    · exact Nat.le_trans (ih e) (Nat.le_max_right _ _)

theorem maxSrcSubs_cons (name : String) (t : Tree) (r : List (String × Tree)) :
    maxSrcSubs ((name, t) :: r) = max (maxSrcMtime t) (maxSrcSubs r) := by
  rw [maxSrcSubs]

theorem maxSrcMtime_mk (files : List (String × File)) (subs : List (String × Tree)) :
    maxSrcMtime (.mk files subs) = max (maxFileMtime files) (maxSrcSubs subs) := by
  rw [maxSrcMtime]

theorem WFs_cons (name : String) (t : Tree) (r : List (String × Tree)) :
    WFs ((name, t) :: r) = (WF t && WFs r) := by
  rw [WFs]

theorem WF_mk (files : List (String × File)) (subs : List (String × Tree)) :
    WF (.mk files subs) =
      (decide (files.map (·.1)).Nodup && decide (subs.map (·.1)).Nodup && WFs subs) := by
  rw [WF]

theorem outName_congr {fl fl' : Flags} (h : fl'.minEnding = fl.minEnding) (name : String) :
    outName fl' name = outName fl name := by
  unfold outName; rw [h]

/-- after a real run that started later than every source was modified, no `.less` file of the
    listing is stale any more (for a run without `--force`) -/
theorem compileFiles_idem (cc : String → String) (fl fl' : Flags) (i o : String)
    (files : List (String × File)) (st : St)
    (hd : fl.dry = false) (hf : fl'.force = false) (hmin : fl'.minEnding = fl.minEnding)
    (hnd : LessNodup fl files) (hm : maxFileMtime files < st.clock) (st2 : St)
    (h2 : st2.outFiles = (compileFiles cc fl i o files st).outFiles) :
    compileFiles cc fl' i o files st2 = st2 := by
  apply compileFiles_noop
  intro p hp hl
  obtain ⟨name, src⟩ := p
  have hmt : src.mtime < st.clock := Nat.lt_of_le_of_lt (mtime_le_maxFileMtime files _ hp) hm
  have key := compileFiles_file cc fl i o files st hnd name src hp hl
  simp only at hl ⊢
  rw [outName_congr hmin, h2]
  by_cases hs : stale fl src (findFile st.outFiles (outName fl name)) = true
  · obtain ⟨t, h1, _, h3⟩ := key.2 ⟨hd, hs⟩
    rw [h3]
    unfold stale
    simp only [hf, Bool.false_or, decide_eq_false_iff_not]
    omega
  · have hs : stale fl src (findFile st.outFiles (outName fl name)) = false := by simpa using hs
    rw [key.1 (Or.inr hs)]
    unfold stale at hs ⊢
    simp only [Bool.or_eq_false_iff] at hs
    simp only [hf, Bool.false_or]
    exact hs.2

/-- idempotence, sub-directory list, given the statement for the listed trees -/
theorem runSubs_idem_of (cc : String → String) (fl fl' : Flags) (hd : fl.dry = false)
    (subs : List (String × Tree))
    (ih : ∀ p ∈ subs, ∀ i o out clock, WF p.2 = true → maxSrcMtime p.2 < clock → ∀ c2,
      runDir cc fl' i o p.2 (runDir cc fl i o p.2 out clock).1 c2
        = ((runDir cc fl i o p.2 out clock).1, c2, []))
    (hnd : (subs.map (·.1)).Nodup) (hwf : WFs subs = true)
    (i o : String) (outSubs : List (String × Tree)) (clock : Nat) (hm : maxSrcSubs subs < clock)
    (c2 : Nat) :
    runSubs cc fl' i o subs (runSubs cc fl i o subs outSubs clock).1 c2
      = ((runSubs cc fl i o subs outSubs clock).1, c2, []) := by
  induction subs generalizing outSubs clock with
  | nil => rw [runSubs_nil, runSubs_nil]
  | cons p r ihr =>
    obtain ⟨name, t⟩ := p
    simp only [List.map_cons, List.nodup_cons] at hnd
    rw [WFs_cons, Bool.and_eq_true] at hwf
    rw [maxSrcSubs_cons] at hm
    have ihr' := fun os c hc =>
      ihr (fun q hq => ih q (List.mem_cons_of_mem _ hq)) hnd.2 hwf.2 os c hc
    by_cases hh : hidden name = true
    · rw [runSubs_cons_hidden _ _ _ _ _ _ _ _ _ hh, runSubs_cons_hidden _ _ _ _ _ _ _ _ _ hh]
      exact ihr' _ _ (by omega)
    · have hh : hidden name = false := by simpa using hh
      -- first run
      obtain ⟨r1, hr1⟩ : ∃ r1, r1 = runDir cc fl (i ++ "/" ++ name) (o ++ "/" ++ name) t
        (findSub outSubs name) clock := ⟨_, rfl⟩
      obtain ⟨ot, hot⟩ : ∃ ot, r1.1 = some ot := hr1 ▸ runDir_some cc fl hd _ _ t _ clock
      have hclk : clock ≤ r1.2.1 := hr1 ▸ runDir_clock_le cc fl t _ _ _ clock
      obtain ⟨R, hR⟩ : ∃ R, R = (runSubs cc fl i o r (setSub outSubs name ot) r1.2.1).1 := ⟨_, rfl⟩
      have hrun1 : (runSubs cc fl i o ((name, t) :: r) outSubs clock).1 = R := by
        rw [runSubs_cons_visible _ _ _ _ _ _ _ _ _ hh, ← hr1, hot, hR]; rfl
      rw [hrun1]
      -- second run: the entry for `name` is the tree written by the first run
      have hfind : findSub R name = some ot := by
        rw [hR, runSubs_untouched, findSub_setSub_same]
        intro q hq _ e
        exact hnd.1 (List.mem_map.mpr ⟨q, hq, e⟩)
      have hsub : runDir cc fl' (i ++ "/" ++ name) (o ++ "/" ++ name) t (some ot) c2
          = (some ot, c2, []) := by
        have := ih (name, t) List.mem_cons_self (i ++ "/" ++ name) (o ++ "/" ++ name)
          (findSub outSubs name) clock hwf.1 (by show maxSrcMtime t < clock; omega) c2
        simp only [← hr1, hot] at this
        exact this
      have hrest : runSubs cc fl' i o r R c2 = (R, c2, []) := by
        rw [hR]; exact ihr' _ _ (by omega)
      rw [runSubs_cons_visible _ _ _ _ _ _ _ _ _ hh, hfind, hsub]
      simp only [subsAfter]
      rw [setSub_of_findSub _ _ _ hfind, hrest]
      rfl

/-- idempotence: a second run without `--force` (same `-m`, same `--recurse`) over the result of a
    real run started after the last source modification changes nothing and announces nothing;
    the second run may start at any clock -/
theorem runDir_idem (cc : String → String) (fl fl' : Flags) (hd : fl.dry = false)
    (hf : fl'.force = false) (hmin : fl'.minEnding = fl.minEnding)
    (hrec : fl'.recurse = fl.recurse) (t : Tree) :
    ∀ (i o : String) (out : Option Tree) (clock : Nat), WF t = true → maxSrcMtime t < clock →
      ∀ c2, runDir cc fl' i o t (runDir cc fl i o t out clock).1 c2
        = ((runDir cc fl i o t out clock).1, c2, []) := by
  induction t using Tree.induct' with
  | h files subs ih =>
    intro i o out clock hwf hm c2
    rw [WF_mk] at hwf
    simp only [Bool.and_eq_true, decide_eq_true_eq] at hwf
    obtain ⟨⟨hwf1, hwf2⟩, hwf3⟩ := hwf
    rw [maxSrcMtime_mk] at hm
    obtain ⟨st1, hst1⟩ : ∃ st1, st1 = compileFiles cc fl i o files ⟨outFilesOf out, clock, []⟩ :=
      ⟨_, rfl⟩
    have hclk : clock ≤ st1.clock :=
      hst1 ▸ compileFiles_clock_le cc fl i o files ⟨outFilesOf out, clock, []⟩
    have hfiles : compileFiles cc fl' i o files ⟨st1.outFiles, c2, []⟩
        = ⟨st1.outFiles, c2, []⟩ :=
      compileFiles_idem cc fl fl' i o files ⟨outFilesOf out, clock, []⟩ hd hf hmin
        (lessNodup_of_names_nodup fl files hwf1) (by show maxFileMtime files < clock; omega) _
        (by rw [hst1])
    by_cases hr : fl.recurse = true
    · obtain ⟨S, hS⟩ : ∃ S, S = (runSubs cc fl i o subs (outSubsOf out) st1.clock).1 := ⟨_, rfl⟩
      have hsubs : runSubs cc fl' i o subs S c2 = (S, c2, []) :=
        hS ▸ runSubs_idem_of cc fl fl' hd subs ih hwf2 hwf3 i o (outSubsOf out) st1.clock
          (by omega) c2
      have h1 : (runDir cc fl i o (.mk files subs) out clock).1 = some (.mk st1.outFiles S) := by
        rw [runDir_eq, ← hst1, ← hS]; simp [hr, hd]
      rw [h1, runDir_eq, outFilesOf_some_mk, outSubsOf_some_mk, hfiles]
      simp only [hrec, hr, if_true, hsubs]
      simp
    · have h1 : (runDir cc fl i o (.mk files subs) out clock).1
          = some (.mk st1.outFiles (outSubsOf out)) := by
        rw [runDir_eq, ← hst1]; simp [hr, hd]
      rw [h1, runDir_eq, outFilesOf_some_mk, outSubsOf_some_mk, hfiles]
      simp only [hrec, hr]
      simp

/-! ### §6 example data for the non-vacuity examples of `Lessm/Props/C16.lean`

  input directory `in`:   a.less (mtime 5)   b.less (mtime 3)   readme.txt   sub/c.less   .git/x.less
  output directory `out`: a.css (mtime 4, older than a.less)   b.css (mtime 7, newer than b.less)
                          keep.txt   other/                                                        -/
namespace Ex

/-- a stand-in compiler -/
def cc : String → String := fun s => "/*css*/" ++ s

def sub : Tree := .mk [("c.less", ⟨"c{}", 2⟩)] []

def files : List (String × File) :=
  [("a.less", ⟨"a{}", 5⟩), ("b.less", ⟨"b{}", 3⟩), ("readme.txt", ⟨"hi", 1⟩)]

/-- the same directory listed in another order -/
def filesRev : List (String × File) :=
  [("readme.txt", ⟨"hi", 1⟩), ("b.less", ⟨"b{}", 3⟩), ("a.less", ⟨"a{}", 5⟩)]

def subs : List (String × Tree) := [("sub", sub), (".git", .mk [("x.less", ⟨"", 1⟩)] [])]

def tree : Tree := .mk files subs

def outFiles : List (String × File) :=
  [("a.css", ⟨"old", 4⟩), ("b.css", ⟨"fresh", 7⟩), ("keep.txt", ⟨"k", 0⟩)]

def outSubs : List (String × Tree) := [("other", .mk [] [])]

def out : Option Tree := some (.mk outFiles outSubs)

/-- plain run -/
def flags : Flags := { force := false, dry := false, minEnding := false, recurse := false }
/-- `--recurse` -/
def flagsR : Flags := { flags with recurse := true }
/-- `--force --recurse` -/
def flagsF : Flags := { flagsR with force := true }
/-- `--dry-run --force --recurse` -/
def flagsD : Flags := { flagsF with dry := true }

end Ex

end Lessm.Batch
