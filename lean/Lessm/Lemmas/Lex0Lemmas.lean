/-
  Lemmas about the character-level front end: the backtracking matcher (`Lessm.Rx`), ply's token loop
  (`Lessm.Lex0.step`, `lexAll`) and the parser-facing stream (`front`).  Property theorems are in `Lessm/Props/C12Lex.lean`.
-/
import Lessm.Model.Lex0

namespace Lessm.Rx

/-! ### R1  the continuation only ever succeeds on a suffix of the input -/

/-- the contract of a matcher step: whenever it succeeds, the continuation succeeded on a suffix of the input -/
def StepSuffix {α : Type} (step : List Char → (List Char → Option α) → Option α) : Prop :=
  ∀ s k x, step s k = some x → ∃ p rest, s = p ++ rest ∧ k rest = some x

theorem repLoop_suffix {α : Type} {step : List Char → (List Char → Option α) → Option α} (hstep : StepSuffix step)
    (greedy : Bool) (fuel min : Nat) (max : Option Nat) (s : List Char) (k : List Char → Option α) (x : α)
    (h : repLoop step greedy fuel min max s k = some x) : ∃ p rest, s = p ++ rest ∧ k rest = some x := by
  induction fuel generalizing min max s x with
  | zero =>
    simp only [repLoop] at h
    split at h
    · exact ⟨[], s, rfl, h⟩
    · cases h
  | succ fuel ih =>
    have hmore : ∀ (b : Bool) y, (if b = true then
          step s (fun s' => if s'.length < s.length then
            repLoop step greedy fuel (min - 1) (max.map (· - 1)) s' k else none)
        else none) = some y → ∃ p rest, s = p ++ rest ∧ k rest = some y := by
      intro b y hy
      split at hy
      · obtain ⟨p, r, hs, hk⟩ := hstep _ _ _ hy
        split at hk
        · obtain ⟨p', r', hs', hk'⟩ := ih _ _ _ _ hk
          exact ⟨p ++ p', r', by rw [hs, hs', List.append_assoc], hk'⟩
        · cases hk
      · cases hy
    simp only [repLoop] at h
    split at h
    · exact hmore _ _ h
    · split at h
      · split at h
        · rename_i r hr
          cases h
          exact hmore _ _ hr
        · exact ⟨[], s, rfl, h⟩
      · split at h
        · rename_i r hr
          cases h
          exact ⟨[], s, rfl, hr⟩
        · exact hmore _ _ h

theorem m_suffix {α : Type} (r : Re) (s : List Char) (k : List Char → Option α) (x : α)
    (h : r.m s k = some x) : ∃ p rest, s = p ++ rest ∧ k rest = some x := by
  induction r generalizing s k x with
  | eps => exact ⟨[], s, rfl, h⟩
  | ch c =>
    cases s with
    | nil => simp [Re.m] at h
    | cons a t =>
      simp only [Re.m] at h
      split at h
      · exact ⟨[a], t, rfl, h⟩
      · cases h
  | notCh c =>
    cases s with
    | nil => simp [Re.m] at h
    | cons a t =>
      simp only [Re.m] at h
      split at h
      · exact ⟨[a], t, rfl, h⟩
      · cases h
  | any =>
    cases s with
    | nil => simp [Re.m] at h
    | cons a t =>
      simp only [Re.m] at h
      split at h
      · exact ⟨[a], t, rfl, h⟩
      · cases h
  | cls neg items =>
    cases s with
    | nil => simp [Re.m] at h
    | cons a t =>
      simp only [Re.m] at h
      split at h
      · exact ⟨[a], t, rfl, h⟩
      · cases h
  | seq a b iha ihb =>
    simp only [Re.m] at h
    obtain ⟨p, r, hs, hk⟩ := iha _ _ _ h
    obtain ⟨p', r', hs', hk'⟩ := ihb _ _ _ hk
    exact ⟨p ++ p', r', by rw [hs, hs', List.append_assoc], hk'⟩
  | alt a b iha ihb =>
    simp only [Re.m] at h
    split at h
    · rename_i r hr
      cases h
      exact iha _ _ _ hr
    · exact ihb _ _ _ h
  | rep min max greedy r ih =>
    simp only [Re.m] at h
    exact repLoop_suffix (fun s k x h => ih s k x h) _ _ _ _ _ _ _ h

theorem matchPrefix_suffix (r : Re) (s rest : List Char) (h : r.matchPrefix s = some rest) :
    ∃ p, s = p ++ rest := by
  obtain ⟨p, r', hs, hk⟩ := m_suffix r s some rest h
  cases hk
  exact ⟨p, hs⟩

/-! ### R2  a non-nullable expression consumes input -/

theorem step_guard {α : Type} {step : List Char → (List Char → Option α) → Option α} (hstep : StepSuffix step)
    (b : Bool) (s : List Char) (K : List Char → Option α) (y : α)
    (h : (if b = true then step s (fun s' => if s'.length < s.length then K s' else none) else none) = some y) :
    ∃ p rest, p ≠ [] ∧ s = p ++ rest ∧ K rest = some y := by
  split at h
  · obtain ⟨p, r, hs, hk⟩ := hstep _ _ _ h
    split at hk
    · rename_i hlt
      refine ⟨p, r, ?_, hs, hk⟩
      intro hnil
      subst hnil
      subst hs
      simp at hlt
    · cases hk
  · cases h

theorem repLoop_progress {α : Type} {step : List Char → (List Char → Option α) → Option α} (hstep : StepSuffix step)
    (greedy : Bool) (fuel min : Nat) (max : Option Nat) (s : List Char) (k : List Char → Option α) (x : α)
    (hmin : 0 < min) (h : repLoop step greedy fuel min max s k = some x) :
    ∃ p rest, p ≠ [] ∧ s = p ++ rest ∧ k rest = some x := by
  cases fuel with
  | zero =>
    simp only [repLoop] at h
    split at h
    · omega
    · cases h
  | succ fuel =>
    simp only [repLoop] at h
    rw [if_pos hmin] at h
    obtain ⟨p, r, hp, hs, hk⟩ := step_guard hstep _ _ _ _ h
    obtain ⟨p', r', hs', hk'⟩ := repLoop_suffix hstep _ _ _ _ _ _ _ hk
    exact ⟨p ++ p', r', by simp [hp], by rw [hs, hs', List.append_assoc], hk'⟩

theorem m_progress {α : Type} (r : Re) (s : List Char) (k : List Char → Option α) (x : α)
    (hn : r.nullable = false) (h : r.m s k = some x) :
    ∃ p rest, p ≠ [] ∧ s = p ++ rest ∧ k rest = some x := by
  induction r generalizing s k x with
  | eps => simp [Re.nullable] at hn
  | ch c =>
    cases s with
    | nil => simp [Re.m] at h
    | cons a t =>
      simp only [Re.m] at h
      split at h
      · exact ⟨[a], t, by simp, rfl, h⟩
      · cases h
  | notCh c =>
    cases s with
    | nil => simp [Re.m] at h
    | cons a t =>
      simp only [Re.m] at h
      split at h
      · exact ⟨[a], t, by simp, rfl, h⟩
      · cases h
  | any =>
    cases s with
    | nil => simp [Re.m] at h
    | cons a t =>
      simp only [Re.m] at h
      split at h
      · exact ⟨[a], t, by simp, rfl, h⟩
      · cases h
  | cls neg items =>
    cases s with
    | nil => simp [Re.m] at h
    | cons a t =>
      simp only [Re.m] at h
      split at h
      · exact ⟨[a], t, by simp, rfl, h⟩
      · cases h
  | seq a b iha ihb =>
    simp only [Re.m] at h
    simp only [Re.nullable, Bool.and_eq_false_iff] at hn
    rcases hn with hn | hn
    · obtain ⟨p, r, hp, hs, hk⟩ := iha _ _ _ hn h
      obtain ⟨p', r', hs', hk'⟩ := m_suffix _ _ _ _ hk
      exact ⟨p ++ p', r', by simp [hp], by rw [hs, hs', List.append_assoc], hk'⟩
    · obtain ⟨p, r, hs, hk⟩ := m_suffix _ _ _ _ h
      obtain ⟨p', r', hp, hs', hk'⟩ := ihb _ _ _ hn hk
      exact ⟨p ++ p', r', by simp [hp], by rw [hs, hs', List.append_assoc], hk'⟩
  | alt a b iha ihb =>
    simp only [Re.m] at h
    simp only [Re.nullable, Bool.or_eq_false_iff] at hn
    split at h
    · rename_i r hr
      cases h
      exact iha _ _ _ hn.1 hr
    · exact ihb _ _ _ hn.2 h
  | rep min max greedy r ih =>
    simp only [Re.m] at h
    simp only [Re.nullable, Bool.or_eq_false_iff, beq_eq_false_iff_ne] at hn
    exact repLoop_progress (fun s k x h => m_suffix r s k x h) _ _ _ _ _ _ _ (by omega) h

theorem matchPrefix_progress (r : Re) (s rest : List Char) (hn : r.nullable = false)
    (h : r.matchPrefix s = some rest) : rest.length < s.length := by
  obtain ⟨p, r', hp, hs, hk⟩ := m_progress r s some rest hn h
  cases hk
  subst hs
  have : 0 < p.length := List.length_pos_iff.mpr hp
  simp only [List.length_append]
  omega

/-! ### R3  the result depends on the continuation only through its values on suffixes of the input -/

/-- `k` and `k'` agree on every suffix of `s` -/
def AgreeOn {α : Type} (s : List Char) (k k' : List Char → Option α) : Prop :=
  ∀ p rest, s = p ++ rest → k rest = k' rest

theorem AgreeOn.self {α : Type} {s : List Char} {k k' : List Char → Option α} (h : AgreeOn s k k') : k s = k' s :=
  h [] s rfl

theorem AgreeOn.suffix {α : Type} {s p t : List Char} {k k' : List Char → Option α} (h : AgreeOn s k k')
    (hs : s = p ++ t) : AgreeOn t k k' :=
  fun p' rest ht => h (p ++ p') rest (by rw [hs, ht, List.append_assoc])

theorem repLoop_mono_k {α : Type} {step : List Char → (List Char → Option α) → Option α}
    (hstep : ∀ s k k', AgreeOn s k k' → step s k = step s k')
    (greedy : Bool) (fuel min : Nat) (max : Option Nat) (s : List Char) (k k' : List Char → Option α)
    (h : AgreeOn s k k') : repLoop step greedy fuel min max s k = repLoop step greedy fuel min max s k' := by
  induction fuel generalizing min max s with
  | zero => simp only [repLoop, h.self]
  | succ fuel ih =>
    have e1 : step s (fun s' => if s'.length < s.length then
            repLoop step greedy fuel (min - 1) (max.map (· - 1)) s' k else none)
        = step s (fun s' => if s'.length < s.length then
            repLoop step greedy fuel (min - 1) (max.map (· - 1)) s' k' else none) := by
      apply hstep
      intro p rest hs
      dsimp only
      split
      · exact ih _ _ _ (h.suffix hs)
      · rfl
    simp only [repLoop, e1, h.self]

theorem m_mono_k {α : Type} (r : Re) (s : List Char) (k k' : List Char → Option α)
    (h : AgreeOn s k k') : r.m s k = r.m s k' := by
  induction r generalizing s k k' with
  | eps => exact h.self
  | ch c =>
    cases s with
    | nil => rfl
    | cons a t => simp only [Re.m, h [a] t rfl]
  | notCh c =>
    cases s with
    | nil => rfl
    | cons a t => simp only [Re.m, h [a] t rfl]
  | any =>
    cases s with
    | nil => rfl
    | cons a t => simp only [Re.m, h [a] t rfl]
  | cls neg items =>
    cases s with
    | nil => rfl
    | cons a t => simp only [Re.m, h [a] t rfl]
  | seq a b iha ihb =>
    simp only [Re.m]
    apply iha
    intro p rest hs
    exact ihb _ _ _ (h.suffix hs)
  | alt a b iha ihb =>
    simp only [Re.m, iha _ _ _ h, ihb _ _ _ h]
  | rep min max greedy r ih =>
    simp only [Re.m]
    exact repLoop_mono_k (fun s k k' h => ih s k k' h) _ _ _ _ _ _ _ h

/-! ### R4  small exactness facts -/

theorem matchPrefix_ch (c : Char) (t : List Char) : (Re.ch c).matchPrefix (c :: t) = some t := by
  simp [Re.matchPrefix, Re.m]

theorem matchPrefix_seq (a b : Re) (s : List Char) :
    (Re.seq a b).matchPrefix s = a.m s (fun s' => b.matchPrefix s') := rfl

theorem matchPrefix_alt (a b : Re) (s : List Char) :
    (Re.alt a b).matchPrefix s = (match a.matchPrefix s with | some r => some r | none => b.matchPrefix s) := by
  unfold Re.matchPrefix
  rw [Re.m]
  cases a.m s some <;> rfl

/-- the greedy star of a one-character test runs over the maximal run of characters passing it -/
theorem repLoop_star_run {step : List Char → (List Char → Option (List Char)) → Option (List Char)} (f : Char → Bool)
    (hnil : ∀ k, step [] k = none) (hcons : ∀ x r k, step (x :: r) k = if f x = true then k r else none)
    (fuel : Nat) (xs t : List Char)
    (hxs : ∀ x ∈ xs, f x = true) (ht : ∀ y ∈ t.head?, f y = false) (hfuel : xs.length ≤ fuel) :
    repLoop step true fuel 0 none (xs ++ t) some = some t := by
  induction fuel generalizing xs with
  | zero =>
    have : xs = [] := List.length_eq_zero_iff.mp (by omega)
    subst this
    simp [repLoop]
  | succ fuel ih =>
    cases xs with
    | nil =>
      cases t with
      | nil => simp [repLoop, hnil]
      | cons y t' =>
        have hy : f y = false := ht y (by simp)
        simp [repLoop, hcons, hy]
    | cons x xs' =>
      have hx : f x = true := hxs x (by simp)
      have hrec := ih xs' (fun z hz => hxs z (by simp [hz])) (by simpa using hfuel)
      simp [repLoop, hcons, hx, hrec]

/-- `[items]*` on `xs ++ t`, all of `xs` in the class and the head of `t` (if any) outside it, leaves exactly `t` -/
theorem cls_star_maximal (items : List CC) (xs t : List Char)
    (hxs : ∀ x ∈ xs, items.any (ccMatch x) = true)
    (ht : ∀ y ∈ t.head?, items.any (ccMatch y) = false) :
    (Re.rep 0 none true (.cls false items)).matchPrefix (xs ++ t) = some t := by
  unfold Re.matchPrefix
  rw [Re.m]
  exact repLoop_star_run (fun c => items.any (ccMatch c)) (fun k => by simp [Re.m]) (fun x r k => by simp [Re.m])
    _ xs t hxs ht (by simp only [List.length_append]; omega)

end Lessm.Rx

namespace Lessm.Lex0
open Lessm.Rx

/-! ### rule selection -/

theorem firstMatch_some {rs : List Rule} {s : List Char} {r : Rule} {rest : List Char}
    (h : firstMatch rs s = some (r, rest)) : r ∈ rs ∧ r.re.matchPrefix s = some rest := by
  induction rs with
  | nil => simp [firstMatch] at h
  | cons a rs ih =>
    simp only [firstMatch] at h
    split at h
    · rename_i rest' hm
      cases h
      exact ⟨by simp, hm⟩
    · have := ih h
      exact ⟨by simp [this.1], this.2⟩

theorem mem_rulesOf {tb : Tables} {state : String} {r : Rule} (h : r ∈ rulesOf tb state) :
    ∃ p ∈ tb.rules, r ∈ p.2 := by
  have key : ∀ nm, r ∈ (match tb.rules.find? (·.1 == nm) with | some (_, rs) => rs | none => []) →
      ∃ p ∈ tb.rules, r ∈ p.2 := by
    intro nm hr
    split at hr
    · rename_i nm' rs hf
      exact ⟨_, List.mem_of_find?_eq_some hf, hr⟩
    · simp at hr
  unfold rulesOf at h
  dsimp only at h
  split at h
  · exact key _ h
  · rcases List.mem_append.mp h with h | h
    · exact key _ h
    · exact key _ h

/-! ### L1  one turn of the token loop -/

/-- what a successful turn is made of: a rule match that consumed input, or a literal character -/
theorem step_tok_cases {tb : Tables} {st st' : LState} {s rest : List Char} {t : Tok} {emit : Bool}
    (h : step tb st s = .tok t emit st' rest) :
    (∃ r, firstMatch (rulesOf tb st.cur) s = some (r, rest) ∧ rest.length < s.length ∧
        t = ⟨(action tb st r (s.take (s.length - rest.length))).1,
             (action tb st r (s.take (s.length - rest.length))).2.1, st.lineno,
             String.ofList (s.take (s.length - rest.length))⟩ ∧
        emit = (action tb st r (s.take (s.length - rest.length))).2.2.1 ∧
        st' = (action tb st r (s.take (s.length - rest.length))).2.2.2) ∨
    (firstMatch (rulesOf tb st.cur) s = none ∧ ∃ c, s = c :: rest ∧ tb.literals.contains c = true ∧
        t = ⟨String.singleton c, String.singleton c, st.lineno, String.singleton c⟩ ∧ emit = true ∧ st' = st) := by
  unfold step at h
  split at h
  · rename_i r rest0 hf
    split at h
    · rename_i hlt
      injection h with h1 h2 h3 h4
      subst h4
      exact .inl ⟨r, hf, hlt, h1.symm, h2.symm, h3.symm⟩
    · cases h
  · rename_i hf
    split at h
    · rename_i c rest0
      split at h
      · rename_i hc
        injection h with h1 h2 h3 h4
        subst h4
        exact .inr ⟨hf, c, rfl, hc, h1.symm, h2.symm, h3.symm⟩
      · cases h
    · cases h

theorem step_split {tb : Tables} {st st' : LState} {s rest : List Char} {t : Tok} {emit : Bool}
    (h : step tb st s = .tok t emit st' rest) : s = t.lexeme.toList ++ rest ∧ t.lexeme.toList ≠ [] := by
  rcases step_tok_cases h with ⟨r, hf, hlt, ht, -, -⟩ | ⟨-, c, hs, -, ht, -, -⟩
  · obtain ⟨p, hp⟩ := matchPrefix_suffix _ _ _ (firstMatch_some hf).2
    have htake : s.take (s.length - rest.length) = p := by
      subst hp
      simp
    rw [htake] at ht
    subst ht
    simp only [String.toList_ofList]
    refine ⟨hp, ?_⟩
    intro hnil
    subst hnil
    subst hp
    simp at hlt
  · subst ht
    simp [hs]

theorem step_rest_lt {tb : Tables} {st st' : LState} {s rest : List Char} {t : Tok} {emit : Bool}
    (h : step tb st s = .tok t emit st' rest) : rest.length < s.length := by
  obtain ⟨hs, hne⟩ := step_split h
  have : 0 < t.lexeme.toList.length := List.length_pos_iff.mpr hne
  rw [hs, List.length_append]
  omega

theorem step_lexeme_ne {tb : Tables} {st st' : LState} {s rest : List Char} {t : Tok} {emit : Bool}
    (h : step tb st s = .tok t emit st' rest) : t.lexeme ≠ "" := by
  intro e
  have := (step_split h).2
  rw [e] at this
  simp at this

/-- with non-nullable rules a turn at a non-empty input never ends in `stuck` -/
theorem step_ne_stuck {tb : Tables} (hnn : ∀ p ∈ tb.rules, ∀ r ∈ p.2, r.re.nullable = false)
    (st : LState) (s : List Char) (hs : s ≠ []) : step tb st s ≠ .stuck := by
  unfold step
  split
  · rename_i r rest hf
    obtain ⟨hmem, hm⟩ := firstMatch_some hf
    obtain ⟨p, hp, hr⟩ := mem_rulesOf hmem
    have := matchPrefix_progress _ _ _ (hnn p hp r hr) hm
    simp [this]
  · split
    · split <;> simp
    · exact absurd rfl hs

/-! ### L2 / L3  the whole raw stream -/

@[simp] theorem Res.items_cons (t : Item) (r : Res) : (r.cons t).items = t :: r.items := by
  cases r <;> rfl

theorem Res.cons_eq_ok {t : Item} {r : Res} {items : List Item} (h : r.cons t = .ok items) :
    ∃ items', r = .ok items' ∧ items = t :: items' := by
  cases r with
  | ok ts => simp only [Res.cons, Res.ok.injEq] at h; exact ⟨ts, rfl, h.symm⟩
  | illegal ts c l => simp [Res.cons] at h
  | stuck ts => simp [Res.cons] at h

theorem Res.cons_eq_illegal {t : Item} {r : Res} {items : List Item} {c : Char} {l : Nat}
    (h : r.cons t = .illegal items c l) : ∃ items', r = .illegal items' c l ∧ items = t :: items' := by
  cases r with
  | ok ts => simp [Res.cons] at h
  | illegal ts c' l' =>
    simp only [Res.cons, Res.illegal.injEq] at h
    obtain ⟨h1, h2, h3⟩ := h
    subst h2; subst h3
    exact ⟨ts, rfl, h1.symm⟩
  | stuck ts => simp [Res.cons] at h

theorem Res.cons_eq_stuck {t : Item} {r : Res} {items : List Item}
    (h : r.cons t = .stuck items) : ∃ items', r = .stuck items' ∧ items = t :: items' := by
  cases r with
  | ok ts => simp [Res.cons] at h
  | illegal ts c' l' => simp [Res.cons] at h
  | stuck ts => simp only [Res.cons, Res.stuck.injEq] at h; exact ⟨ts, rfl, h.symm⟩

theorem lexAll_nil (tb : Tables) (st : LState) : lexAll tb st [] = .ok [] := by
  rw [lexAll]

/-- unfolding `lexAll` at a successful turn (ply's loop: hand the token out, go on behind it) -/
theorem lexAll_tok {tb : Tables} {st st' : LState} {s rest : List Char} {t : Tok} {emit : Bool}
    (h : step tb st s = .tok t emit st' rest) : lexAll tb st s = (lexAll tb st' rest).cons (t, emit, st') := by
  have hl := step_rest_lt h
  cases s with
  | nil => simp at hl
  | cons a s' =>
    rw [lexAll]
    simp only [h, hl, dite_true]

theorem lexAll_illegal {tb : Tables} {st : LState} {s : List Char} {c : Char} {l : Nat} (hs : s ≠ [])
    (h : step tb st s = .illegal c l) : lexAll tb st s = .illegal [] c l := by
  cases s with
  | nil => exact absurd rfl hs
  | cons a s' =>
    rw [lexAll]
    simp only [h]

theorem lexAll_stuck {tb : Tables} {st : LState} {s : List Char} (hs : s ≠ [])
    (h : step tb st s = .stuck) : lexAll tb st s = .stuck [] := by
  cases s with
  | nil => exact absurd rfl hs
  | cons a s' =>
    rw [lexAll]
    simp only [h]

/-- the characters of a raw stream -/
abbrev charsOf (items : List Item) : List Char := items.flatMap (fun it => it.1.lexeme.toList)

theorem step_illegal_head {tb : Tables} {st : LState} {s : List Char} {c : Char} {l : Nat}
    (h : step tb st s = .illegal c l) : (∃ rest, s = c :: rest) ∧ l = st.lineno := by
  unfold step at h
  split at h
  · split at h <;> cases h
  · split at h
    · split at h
      · cases h
      · injection h with h1 h2
        subst h1; subst h2
        exact ⟨⟨_, rfl⟩, rfl⟩
    · cases h

theorem lexAll_partition_full (tb : Tables) (st : LState) (s : List Char) :
    ∃ rest, s = charsOf (lexAll tb st s).items ++ rest ∧
      (∀ items, lexAll tb st s = .ok items → rest = []) ∧
      (∀ items c l, lexAll tb st s = .illegal items c l → ∃ rest', rest = c :: rest') := by
  induction st, s using lexAll.induct tb with
  | case1 st => exact ⟨[], by simp [lexAll_nil, Res.items], fun _ _ => rfl, by simp [lexAll_nil]⟩
  | case2 st head tail t emit st' rest hstep hl ih =>
    rw [lexAll_tok hstep]
    obtain ⟨r, h1, h2, h3⟩ := ih
    refine ⟨r, ?_, ?_, ?_⟩
    · simp only [Res.items_cons, List.flatMap_cons, List.append_assoc]
      rw [← h1]
      exact (step_split hstep).1
    · intro items hi
      obtain ⟨items', hi', -⟩ := Res.cons_eq_ok hi
      exact h2 _ hi'
    · intro items c l hi
      obtain ⟨items', hi', -⟩ := Res.cons_eq_illegal hi
      exact h3 _ _ _ hi'
  | case3 st head tail t emit st' rest hstep hl => exact absurd (step_rest_lt hstep) hl
  | case4 st head tail c l hstep =>
    rw [lexAll_illegal (by simp) hstep]
    refine ⟨head :: tail, by simp [Res.items], by simp, ?_⟩
    intro items c' l' hi
    injection hi with _ hc _
    subst hc
    exact (step_illegal_head hstep).1
  | case5 st head tail hstep =>
    rw [lexAll_stuck (by simp) hstep]
    exact ⟨head :: tail, by simp [Res.items], by simp, by simp⟩

theorem lexAll_never_stuck_of {tb : Tables} (hnn : ∀ p ∈ tb.rules, ∀ r ∈ p.2, r.re.nullable = false)
    (st : LState) (s : List Char) (items : List Item) : lexAll tb st s ≠ .stuck items := by
  induction st, s using lexAll.induct tb generalizing items with
  | case1 st => simp [lexAll_nil]
  | case2 st head tail t emit st' rest hstep hl ih =>
    rw [lexAll_tok hstep]
    intro h
    obtain ⟨items', hi', -⟩ := Res.cons_eq_stuck h
    exact ih _ hi'
  | case3 st head tail t emit st' rest hstep hl => exact absurd (step_rest_lt hstep) hl
  | case4 st head tail c l hstep =>
    rw [lexAll_illegal (by simp) hstep]
    simp
  | case5 st head tail hstep => exact absurd hstep (step_ne_stuck hnn st _ (by simp))

end Lessm.Lex0
