/-
  Lemmas about the character-level front end: the backtracking matcher (`Lessm.Rx`), ply's token loop
  (`Lessm.Lex0.step`, `lexAll`) and the parser-facing stream (`front`).  Property theorems are in `Lessm/Props/C12Lex.lean`.
-/
import Lessm.Model.Lex0

namespace Lessm.Rx

/-! ### R1  the continuation only ever succeeds on a suffix of the input -/

/-- the contract of a matcher step: whenever it succeeds, the continuation succeeded on a suffix of the input -/
def StepSuffix {α : Type} (step : List Char → (List Char → Option α) → Option α) : Prop :=
  ∀ s k x, step s k = some x → ∃ p rest, s = p ++ rest ∧ k rest = some x

theorem repLoop_suffix_lem {α : Type} {step : List Char → (List Char → Option α) → Option α} (hstep : StepSuffix step)
    (greedy : Bool) (fuel min : Nat) (max : Option Nat) (s : List Char) (k : List Char → Option α) (x : α)
    (h : repLoop step greedy fuel min max s k = some x) : ∃ p rest, s = p ++ rest ∧ k rest = some x := by
  induction fuel generalizing min max s x with
  | zero =>
    simp only [repLoop] at h
    split at h
    · exact ⟨[], s, rfl, h⟩
    · cases h
  | succ fuel ih =>
    have hmore : ∀ (b : Bool) y, (if b = true then
          step s (fun s' => if s'.length < s.length then
            repLoop step greedy fuel (min - 1) (max.map (· - 1)) s' k else none)
        else none) = some y → ∃ p rest, s = p ++ rest ∧ k rest = some y := by
      intro b y hy
      split at hy
      · obtain ⟨p, r, hs, hk⟩ := hstep _ _ _ hy
        split at hk
        · obtain ⟨p', r', hs', hk'⟩ := ih _ _ _ _ hk
          exact ⟨p ++ p', r', by rw [hs, hs', List.append_assoc], hk'⟩
        · cases hk
      · cases hy
    simp only [repLoop] at h
    split at h
    · exact hmore _ _ h
    · split at h
      · split at h
        · rename_i r hr
          cases h
          exact hmore _ _ hr
        · exact ⟨[], s, rfl, h⟩
      · split at h
        · rename_i r hr
          cases h
          exact ⟨[], s, rfl, hr⟩
        · exact hmore _ _ h

theorem m_suffix_lem {α : Type} (r : Re) (s : List Char) (k : List Char → Option α) (x : α)
    (h : r.m s k = some x) : ∃ p rest, s = p ++ rest ∧ k rest = some x := by
  induction r generalizing s k x with
  | eps => exact ⟨[], s, rfl, h⟩
  | ch c =>
    cases s with
    | nil => simp [Re.m] at h
    | cons a t =>
      simp only [Re.m] at h
      split at h
      · exact ⟨[a], t, rfl, h⟩
      · cases h
  | notCh c =>
    cases s with
    | nil => simp [Re.m] at h
    | cons a t =>
      simp only [Re.m] at h
      split at h
      · exact ⟨[a], t, rfl, h⟩
      · cases h
  | any =>
    cases s with
    | nil => simp [Re.m] at h
    | cons a t =>
      simp only [Re.m] at h
      split at h
      · exact ⟨[a], t, rfl, h⟩
      · cases h
  | cls neg items =>
    cases s with
    | nil => simp [Re.m] at h
    | cons a t =>
      simp only [Re.m] at h
      split at h
      · exact ⟨[a], t, rfl, h⟩
      · cases h
  | seq a b iha ihb =>
    simp only [Re.m] at h
    obtain ⟨p, r, hs, hk⟩ := iha _ _ _ h
    obtain ⟨p', r', hs', hk'⟩ := ihb _ _ _ hk
    exact ⟨p ++ p', r', by rw [hs, hs', List.append_assoc], hk'⟩
  | alt a b iha ihb =>
    simp only [Re.m] at h
    split at h
    · rename_i r hr
      cases h
      exact iha _ _ _ hr
    · exact ihb _ _ _ h
  | rep min max greedy r ih =>
    simp only [Re.m] at h
    exact repLoop_suffix_lem (fun s k x h => ih s k x h) _ _ _ _ _ _ _ h

theorem matchPrefix_suffix_lem (r : Re) (s rest : List Char) (h : r.matchPrefix s = some rest) :
    ∃ p, s = p ++ rest := by
  obtain ⟨p, r', hs, hk⟩ := m_suffix_lem r s some rest h
  cases hk
  exact ⟨p, hs⟩

/-! ### R2  a non-nullable expression consumes input -/

theorem step_guard {α : Type} {step : List Char → (List Char → Option α) → Option α} (hstep : StepSuffix step)
    (b : Bool) (s : List Char) (K : List Char → Option α) (y : α)
    (h : (if b = true then step s (fun s' => if s'.length < s.length then K s' else none) else none) = some y) :
    ∃ p rest, p ≠ [] ∧ s = p ++ rest ∧ K rest = some y := by
  split at h
  · obtain ⟨p, r, hs, hk⟩ := hstep _ _ _ h
    split at hk
    · rename_i hlt
      refine ⟨p, r, ?_, hs, hk⟩
      intro hnil
      subst hnil
      subst hs
      simp at hlt
    · cases hk
  · cases h

theorem repLoop_progress_lem {α : Type} {step : List Char → (List Char → Option α) → Option α} (hstep : StepSuffix step)
    (greedy : Bool) (fuel min : Nat) (max : Option Nat) (s : List Char) (k : List Char → Option α) (x : α)
    (hmin : 0 < min) (h : repLoop step greedy fuel min max s k = some x) :
    ∃ p rest, p ≠ [] ∧ s = p ++ rest ∧ k rest = some x := by
  cases fuel with
  | zero =>
    simp only [repLoop] at h
    split at h
    · omega
    · cases h
  | succ fuel =>
    simp only [repLoop] at h
    rw [if_pos hmin] at h
    obtain ⟨p, r, hp, hs, hk⟩ := step_guard hstep _ _ _ _ h
    obtain ⟨p', r', hs', hk'⟩ := repLoop_suffix_lem hstep _ _ _ _ _ _ _ hk
    exact ⟨p ++ p', r', by simp [hp], by rw [hs, hs', List.append_assoc], hk'⟩

theorem m_progress_lem {α : Type} (r : Re) (s : List Char) (k : List Char → Option α) (x : α)
    (hn : r.nullable = false) (h : r.m s k = some x) :
    ∃ p rest, p ≠ [] ∧ s = p ++ rest ∧ k rest = some x := by
  induction r generalizing s k x with
  | eps => simp [Re.nullable] at hn
  | ch c =>
    cases s with
    | nil => simp [Re.m] at h
    | cons a t =>
      simp only [Re.m] at h
      split at h
      · exact ⟨[a], t, by simp, rfl, h⟩
      · cases h
  | notCh c =>
    cases s with
    | nil => simp [Re.m] at h
    | cons a t =>
      simp only [Re.m] at h
      split at h
      · exact ⟨[a], t, by simp, rfl, h⟩
      · cases h
  | any =>
    cases s with
    | nil => simp [Re.m] at h
    | cons a t =>
      simp only [Re.m] at h
      split at h
      · exact ⟨[a], t, by simp, rfl, h⟩
      · cases h
  | cls neg items =>
    cases s with
    | nil => simp [Re.m] at h
    | cons a t =>
      simp only [Re.m] at h
      split at h
      · exact ⟨[a], t, by simp, rfl, h⟩
      · cases h
  | seq a b iha ihb =>
    simp only [Re.m] at h
    simp only [Re.nullable, Bool.and_eq_false_iff] at hn
    rcases hn with hn | hn
    · obtain ⟨p, r, hp, hs, hk⟩ := iha _ _ _ hn h
      obtain ⟨p', r', hs', hk'⟩ := m_suffix_lem _ _ _ _ hk
      exact ⟨p ++ p', r', by simp [hp], by rw [hs, hs', List.append_assoc], hk'⟩
    · obtain ⟨p, r, hs, hk⟩ := m_suffix_lem _ _ _ _ h
      obtain ⟨p', r', hp, hs', hk'⟩ := ihb _ _ _ hn hk
      exact ⟨p ++ p', r', by simp [hp], by rw [hs, hs', List.append_assoc], hk'⟩
  | alt a b iha ihb =>
    simp only [Re.m] at h
    simp only [Re.nullable, Bool.or_eq_false_iff] at hn
    split at h
    · rename_i r hr
      cases h
      exact iha _ _ _ hn.1 hr
    · exact ihb _ _ _ hn.2 h
  | rep min max greedy r ih =>
    simp only [Re.m] at h
    simp only [Re.nullable, Bool.or_eq_false_iff, beq_eq_false_iff_ne] at hn
    exact repLoop_progress_lem (fun s k x h => m_suffix_lem r s k x h) _ _ _ _ _ _ _ (by omega) h

theorem matchPrefix_progress_lem (r : Re) (s rest : List Char) (hn : r.nullable = false)
    (h : r.matchPrefix s = some rest) : rest.length < s.length := by
  obtain ⟨p, r', hp, hs, hk⟩ := m_progress_lem r s some rest hn h
  cases hk
  subst hs
  have : 0 < p.length := List.length_pos_iff.mpr hp
  simp only [List.length_append]
  omega

/-! ### R3  the result depends on the continuation only through its values on suffixes of the input -/

/-- `k` and `k'` agree on every suffix of `s` -/
def AgreeOn {α : Type} (s : List Char) (k k' : List Char → Option α) : Prop :=
  ∀ p rest, s = p ++ rest → k rest = k' rest

theorem AgreeOn.self {α : Type} {s : List Char} {k k' : List Char → Option α} (h : AgreeOn s k k') : k s = k' s :=
  h [] s rfl

theorem AgreeOn.suffix {α : Type} {s p t : List Char} {k k' : List Char → Option α} (h : AgreeOn s k k')
    (hs : s = p ++ t) : AgreeOn t k k' :=
  fun p' rest ht => h (p ++ p') rest (by rw [hs, ht, List.append_assoc])

theorem repLoop_mono_k_lem {α : Type} {step : List Char → (List Char → Option α) → Option α}
    (hstep : ∀ s k k', AgreeOn s k k' → step s k = step s k')
    (greedy : Bool) (fuel min : Nat) (max : Option Nat) (s : List Char) (k k' : List Char → Option α)
    (h : AgreeOn s k k') : repLoop step greedy fuel min max s k = repLoop step greedy fuel min max s k' := by
  induction fuel generalizing min max s with
  | zero => simp only [repLoop, h.self]
  | succ fuel ih =>
    have e1 : step s (fun s' => if s'.length < s.length then
            repLoop step greedy fuel (min - 1) (max.map (· - 1)) s' k else none)
        = step s (fun s' => if s'.length < s.length then
            repLoop step greedy fuel (min - 1) (max.map (· - 1)) s' k' else none) := by
      apply hstep
      intro p rest hs
      dsimp only
      split
      · exact ih _ _ _ (h.suffix hs)
      · rfl
    simp only [repLoop, e1, h.self]

theorem m_mono_k_lem {α : Type} (r : Re) (s : List Char) (k k' : List Char → Option α)
    (h : AgreeOn s k k') : r.m s k = r.m s k' := by
  induction r generalizing s k k' with
  | eps => exact h.self
  | ch c =>
    cases s with
    | nil => rfl
    | cons a t => simp only [Re.m, h [a] t rfl]
  | notCh c =>
    cases s with
    | nil => rfl
    | cons a t => simp only [Re.m, h [a] t rfl]
  | any =>
    cases s with
    | nil => rfl
    | cons a t => simp only [Re.m, h [a] t rfl]
  | cls neg items =>
    cases s with
    | nil => rfl
    | cons a t => simp only [Re.m, h [a] t rfl]
  | seq a b iha ihb =>
    simp only [Re.m]
    apply iha
    intro p rest hs
    exact ihb _ _ _ (h.suffix hs)
  | alt a b iha ihb =>
    simp only [Re.m, iha _ _ _ h, ihb _ _ _ h]
  | rep min max greedy r ih =>
    simp only [Re.m]
    exact repLoop_mono_k_lem (fun s k k' h => ih s k k' h) _ _ _ _ _ _ _ h

/-! ### R4  small exactness facts -/

theorem matchPrefix_ch_lem (c : Char) (t : List Char) : (Re.ch c).matchPrefix (c :: t) = some t := by
  simp [Re.matchPrefix, Re.m]

theorem matchPrefix_seq_lem (a b : Re) (s : List Char) :
    (Re.seq a b).matchPrefix s = a.m s (fun s' => b.matchPrefix s') := rfl

theorem matchPrefix_alt_lem (a b : Re) (s : List Char) :
    (Re.alt a b).matchPrefix s = (match a.matchPrefix s with | some r => some r | none => b.matchPrefix s) := by
  unfold Re.matchPrefix
  rw [Re.m]
  cases a.m s some <;> rfl

/-- the greedy star of a one-character test runs over the maximal run of characters passing it -/
theorem repLoop_star_run {step : List Char → (List Char → Option (List Char)) → Option (List Char)} (f : Char → Bool)
    (hnil : ∀ k, step [] k = none) (hcons : ∀ x r k, step (x :: r) k = if f x = true then k r else none)
    (fuel : Nat) (xs t : List Char)
    (hxs : ∀ x ∈ xs, f x = true) (ht : ∀ y ∈ t.head?, f y = false) (hfuel : xs.length ≤ fuel) :
    repLoop step true fuel 0 none (xs ++ t) some = some t := by
  induction fuel generalizing xs with
  | zero =>
    have : xs = [] := List.length_eq_zero_iff.mp (by omega)
    subst this
    simp [repLoop]
  | succ fuel ih =>
    cases xs with
    | nil =>
      cases t with
      | nil => simp [repLoop, hnil]
      | cons y t' =>
        have hy : f y = false := ht y (by simp)
        simp [repLoop, hcons, hy]
    | cons x xs' =>
      have hx : f x = true := hxs x (by simp)
      have hrec := ih xs' (fun z hz => hxs z (by simp [hz])) (by simpa using hfuel)
      simp [repLoop, hcons, hx, hrec]

/-- `[items]*` on `xs ++ t`, all of `xs` in the class and the head of `t` (if any) outside it, leaves exactly `t` -/
theorem cls_star_maximal_lem (items : List CC) (xs t : List Char)
    (hxs : ∀ x ∈ xs, items.any (ccMatch x) = true)
    (ht : ∀ y ∈ t.head?, items.any (ccMatch y) = false) :
    (Re.rep 0 none true (.cls false items)).matchPrefix (xs ++ t) = some t := by
  unfold Re.matchPrefix
  rw [Re.m]
  exact repLoop_star_run (fun c => items.any (ccMatch c)) (fun k => by simp [Re.m]) (fun x r k => by simp [Re.m])
    _ xs t hxs ht (by simp only [List.length_append]; omega)

end Lessm.Rx

namespace Lessm.Lex0
open Lessm.Rx

/-! ### rule selection -/

theorem firstMatch_some {rs : List Rule} {s : List Char} {r : Rule} {rest : List Char}
    (h : firstMatch rs s = some (r, rest)) : r ∈ rs ∧ r.re.matchPrefix s = some rest := by
  induction rs with
  | nil => simp [firstMatch] at h
  | cons a rs ih =>
    simp only [firstMatch] at h
    split at h
    · rename_i rest' hm
      cases h
      exact ⟨by simp, hm⟩
    · have := ih h
      exact ⟨by simp [this.1], this.2⟩

theorem mem_rulesOf {tb : Tables} {state : String} {r : Rule} (h : r ∈ rulesOf tb state) :
    ∃ p ∈ tb.rules, r ∈ p.2 := by
  have key : ∀ nm, r ∈ (match tb.rules.find? (·.1 == nm) with | some (_, rs) => rs | none => []) →
      ∃ p ∈ tb.rules, r ∈ p.2 := by
    intro nm hr
    split at hr
    · rename_i nm' rs hf
      exact ⟨_, List.mem_of_find?_eq_some hf, hr⟩
    · simp at hr
  unfold rulesOf at h
  dsimp only at h
  split at h
  · exact key _ h
  · rcases List.mem_append.mp h with h | h
    · exact key _ h
    · exact key _ h

/-! ### L1  one turn of the token loop -/

/-- what a successful turn is made of: a rule match that consumed input, or a literal character -/
theorem step_tok_cases {tb : Tables} {st st' : LState} {s rest : List Char} {t : Tok} {emit : Bool}
    (h : step tb st s = .tok t emit st' rest) :
    (∃ r, firstMatch (rulesOf tb st.cur) s = some (r, rest) ∧ rest.length < s.length ∧
        t = ⟨(action tb st r (s.take (s.length - rest.length))).1,
             (action tb st r (s.take (s.length - rest.length))).2.1, st.lineno,
             String.ofList (s.take (s.length - rest.length))⟩ ∧
        emit = (action tb st r (s.take (s.length - rest.length))).2.2.1 ∧
        st' = (action tb st r (s.take (s.length - rest.length))).2.2.2) ∨
    (firstMatch (rulesOf tb st.cur) s = none ∧ ∃ c, s = c :: rest ∧ tb.literals.contains c = true ∧
        t = ⟨String.singleton c, String.singleton c, st.lineno, String.singleton c⟩ ∧ emit = true ∧ st' = st) := by
  unfold step at h
  split at h
  · rename_i r rest0 hf
    split at h
    · rename_i hlt
      injection h with h1 h2 h3 h4
      subst h4
      exact .inl ⟨r, hf, hlt, h1.symm, h2.symm, h3.symm⟩
    · cases h
  · rename_i hf
    split at h
    · rename_i c rest0
      split at h
      · rename_i hc
        injection h with h1 h2 h3 h4
        subst h4
        exact .inr ⟨hf, c, rfl, hc, h1.symm, h2.symm, h3.symm⟩
      · cases h
    · cases h

theorem step_split_lem {tb : Tables} {st st' : LState} {s rest : List Char} {t : Tok} {emit : Bool}
    (h : step tb st s = .tok t emit st' rest) : s = t.lexeme.toList ++ rest ∧ t.lexeme.toList ≠ [] := by
  rcases step_tok_cases h with ⟨r, hf, hlt, ht, -, -⟩ | ⟨-, c, hs, -, ht, -, -⟩
  · obtain ⟨p, hp⟩ := matchPrefix_suffix_lem _ _ _ (firstMatch_some hf).2
    have htake : s.take (s.length - rest.length) = p := by
      subst hp
      simp
    rw [htake] at ht
    subst ht
    simp only [String.toList_ofList]
    refine ⟨hp, ?_⟩
    intro hnil
    subst hnil
    subst hp
    simp at hlt
  · subst ht
    simp [hs]

theorem step_rest_lt {tb : Tables} {st st' : LState} {s rest : List Char} {t : Tok} {emit : Bool}
    (h : step tb st s = .tok t emit st' rest) : rest.length < s.length := by
  obtain ⟨hs, hne⟩ := step_split_lem h
  have : 0 < t.lexeme.toList.length := List.length_pos_iff.mpr hne
  rw [hs, List.length_append]
  omega

theorem step_lexeme_ne {tb : Tables} {st st' : LState} {s rest : List Char} {t : Tok} {emit : Bool}
    (h : step tb st s = .tok t emit st' rest) : t.lexeme ≠ "" := by
  intro e
  have := (step_split_lem h).2
  rw [e] at this
  simp at this

/-- with non-nullable rules a turn at a non-empty input never ends in `stuck` -/
theorem step_ne_stuck {tb : Tables} (hnn : ∀ p ∈ tb.rules, ∀ r ∈ p.2, r.re.nullable = false)
    (st : LState) (s : List Char) (hs : s ≠ []) : step tb st s ≠ .stuck := by
  unfold step
  split
  · rename_i r rest hf
    obtain ⟨hmem, hm⟩ := firstMatch_some hf
    obtain ⟨p, hp, hr⟩ := mem_rulesOf hmem
    have := matchPrefix_progress_lem _ _ _ (hnn p hp r hr) hm
    simp [this]
  · split
    · split <;> simp
    · exact absurd rfl hs

/-! ### L2 / L3  the whole raw stream -/

@[simp] theorem Res.items_cons (t : Item) (r : Res) : (r.cons t).items = t :: r.items := by
  cases r <;> rfl

theorem Res.cons_eq_ok {t : Item} {r : Res} {items : List Item} (h : r.cons t = .ok items) :
    ∃ items', r = .ok items' ∧ items = t :: items' := by
  cases r with
  | ok ts => simp only [Res.cons, Res.ok.injEq] at h; exact ⟨ts, rfl, h.symm⟩
  | illegal ts c l => simp [Res.cons] at h
  | stuck ts => simp [Res.cons] at h

theorem Res.cons_eq_illegal {t : Item} {r : Res} {items : List Item} {c : Char} {l : Nat}
    (h : r.cons t = .illegal items c l) : ∃ items', r = .illegal items' c l ∧ items = t :: items' := by
  cases r with
  | ok ts => simp [Res.cons] at h
  | illegal ts c' l' =>
    simp only [Res.cons, Res.illegal.injEq] at h
    obtain ⟨h1, h2, h3⟩ := h
    subst h2; subst h3
    exact ⟨ts, rfl, h1.symm⟩
  | stuck ts => simp [Res.cons] at h

theorem Res.cons_eq_stuck {t : Item} {r : Res} {items : List Item}
    (h : r.cons t = .stuck items) : ∃ items', r = .stuck items' ∧ items = t :: items' := by
  cases r with
  | ok ts => simp [Res.cons] at h
  | illegal ts c' l' => simp [Res.cons] at h
  | stuck ts => simp only [Res.cons, Res.stuck.injEq] at h; exact ⟨ts, rfl, h.symm⟩

theorem lexAll_nil (tb : Tables) (st : LState) : lexAll tb st [] = .ok [] := by
  rw [lexAll]

/-- unfolding `lexAll` at a successful turn (ply's loop: hand the token out, go on behind it) -/
theorem lexAll_tok {tb : Tables} {st st' : LState} {s rest : List Char} {t : Tok} {emit : Bool}
    (h : step tb st s = .tok t emit st' rest) : lexAll tb st s = (lexAll tb st' rest).cons (t, emit, st') := by
  have hl := step_rest_lt h
  cases s with
  | nil => simp at hl
  | cons a s' =>
    rw [lexAll]
    simp only [h, hl, dite_true]

theorem lexAll_illegal {tb : Tables} {st : LState} {s : List Char} {c : Char} {l : Nat} (hs : s ≠ [])
    (h : step tb st s = .illegal c l) : lexAll tb st s = .illegal [] c l := by
  cases s with
  | nil => exact absurd rfl hs
  | cons a s' =>
    rw [lexAll]
    simp only [h]

theorem lexAll_stuck {tb : Tables} {st : LState} {s : List Char} (hs : s ≠ [])
    (h : step tb st s = .stuck) : lexAll tb st s = .stuck [] := by
  cases s with
  | nil => exact absurd rfl hs
  | cons a s' =>
    rw [lexAll]
    simp only [h]

/-- the characters of a raw stream -/
abbrev charsOf (items : List Item) : List Char := items.flatMap (fun it => it.1.lexeme.toList)

theorem step_illegal_head {tb : Tables} {st : LState} {s : List Char} {c : Char} {l : Nat}
    (h : step tb st s = .illegal c l) : (∃ rest, s = c :: rest) ∧ l = st.lineno := by
  unfold step at h
  split at h
  · split at h <;> cases h
  · split at h
    · split at h
      · cases h
      · injection h with h1 h2
        subst h1; subst h2
        exact ⟨⟨_, rfl⟩, rfl⟩
    · cases h

theorem lexAll_partition_full (tb : Tables) (st : LState) (s : List Char) :
    ∃ rest, s = charsOf (lexAll tb st s).items ++ rest ∧
      (∀ items, lexAll tb st s = .ok items → rest = []) ∧
      (∀ items c l, lexAll tb st s = .illegal items c l → ∃ rest', rest = c :: rest') := by
  induction st, s using lexAll.induct tb with
  | case1 st => exact ⟨[], by simp [lexAll_nil, Res.items], fun _ _ => rfl, by simp [lexAll_nil]⟩
  | case2 st head tail t emit st' rest hstep hl ih =>
    rw [lexAll_tok hstep]
    obtain ⟨r, h1, h2, h3⟩ := ih
    refine ⟨r, ?_, ?_, ?_⟩
    · simp only [Res.items_cons, List.flatMap_cons, List.append_assoc]
      rw [← h1]
      exact (step_split_lem hstep).1
    · intro items hi
      obtain ⟨items', hi', -⟩ := Res.cons_eq_ok hi
      exact h2 _ hi'
    · intro items c l hi
      obtain ⟨items', hi', -⟩ := Res.cons_eq_illegal hi
      exact h3 _ _ _ hi'
  | case3 st head tail t emit st' rest hstep hl => exact absurd (step_rest_lt hstep) hl
  | case4 st head tail c l hstep =>
    rw [lexAll_illegal (by simp) hstep]
    refine ⟨head :: tail, by simp [Res.items], by simp, ?_⟩
    intro items c' l' hi
    injection hi with _ hc _
    subst hc
    exact (step_illegal_head hstep).1
  | case5 st head tail hstep =>
    rw [lexAll_stuck (by simp) hstep]
    exact ⟨head :: tail, by simp [Res.items], by simp, by simp⟩

theorem lexAll_never_stuck_of {tb : Tables} (hnn : ∀ p ∈ tb.rules, ∀ r ∈ p.2, r.re.nullable = false)
    (st : LState) (s : List Char) (items : List Item) : lexAll tb st s ≠ .stuck items := by
  induction st, s using lexAll.induct tb generalizing items with
  | case1 st => simp [lexAll_nil]
  | case2 st head tail t emit st' rest hstep hl ih =>
    rw [lexAll_tok hstep]
    intro h
    obtain ⟨items', hi', -⟩ := Res.cons_eq_stuck h
    exact ih _ hi'
  | case3 st head tail t emit st' rest hstep hl => exact absurd (step_rest_lt hstep) hl
  | case4 st head tail c l hstep =>
    rw [lexAll_illegal (by simp) hstep]
    simp
  | case5 st head tail hstep => exact absurd hstep (step_ne_stuck hnn st _ (by simp))

/-! ### L4  line numbers -/

@[simp] theorem push_lineno (st : LState) (s : String) : (push st s).lineno = st.lineno := rfl
@[simp] theorem pop_lineno (st : LState) : (pop st).lineno = st.lineno := by
  unfold pop; split <;> rfl

theorem classifyIdent_lineno (tb : Tables) (st : LState) (v : String) :
    (classifyIdent tb st v).2.lineno = st.lineno := by
  unfold classifyIdent
  split
  · rfl
  · repeat' split
    all_goals simp

/-- the rule functions that add the newlines of their lexeme to the line counter -/
def countingFns : List String :=
  ["t_newline", "t_css_comment", "t_css_string", "t_istringquotes_css_string", "t_istringapostrophe_css_string"]

theorem action_lineno_lem (tb : Tables) (st : LState) (r : Rule) (lexeme : List Char) :
    (action tb st r lexeme).2.2.2.lineno
      = st.lineno + (if r.fn ∈ countingFns then countNl lexeme else 0) := by
  generalize hd : (if r.fn ∈ countingFns then countNl lexeme else 0) = d
  unfold action
  dsimp only
  split
  all_goals first
    | (rename_i heq
       have hd' : d = countNl lexeme := by
         rw [← hd, heq]
         exact if_pos (by decide)
       rw [hd'])
    | (rename_i heq
       have hd' : d = 0 := by
         rw [← hd, heq]
         exact if_neg (by decide)
       rw [hd'])
    | (have hd' : d = 0 := by
         rw [← hd]
         refine if_neg (fun hmem => ?_)
         simp only [countingFns, List.mem_cons, List.not_mem_nil, or_false] at hmem
         rcases hmem with h | h | h | h | h <;> exact absurd h (by assumption)
       rw [hd'])
  all_goals first
    | (simp [classifyIdent_lineno]; done)
    | (split <;> simp; done)
    | (split <;> (try split) <;> (try split) <;> simp)

theorem countNl_append (a b : List Char) : countNl (a ++ b) = countNl a + countNl b := by
  simp [countNl, List.filter_append]

@[simp] theorem countNl_nil : countNl [] = 0 := rfl

/-- the line bookkeeping of one turn: the token carries the counter *before* the rule function ran, and the
    counter advances by the newlines of the lexeme (counting rule functions) or not at all (every other rule,
    and literal characters) -/
theorem step_lineno_delta {tb : Tables} {st st' : LState} {s rest : List Char} {t : Tok} {emit : Bool}
    (h : step tb st s = .tok t emit st' rest) :
    t.line = st.lineno ∧
    st'.lineno = st.lineno + (match firstMatch (rulesOf tb st.cur) s with
      | some (r, _) => if r.fn ∈ countingFns then countNl t.lexeme.toList else 0
      | none => 0) := by
  rcases step_tok_cases h with ⟨r, hf, hlt, ht, -, hst⟩ | ⟨hf, c, hs, -, ht, -, hst⟩
  · rw [hf]
    subst ht
    subst hst
    refine ⟨rfl, ?_⟩
    simp only [String.toList_ofList]
    exact action_lineno_lem _ _ _ _
  · rw [hf]
    subst ht
    subst hst
    exact ⟨rfl, rfl⟩

theorem step_lineno_lem {tb : Tables} {st st' : LState} {s rest : List Char} {t : Tok} {emit : Bool}
    (h : step tb st s = .tok t emit st' rest) :
    t.line = st.lineno ∧ st.lineno ≤ st'.lineno ∧ st'.lineno ≤ st.lineno + countNl t.lexeme.toList := by
  obtain ⟨h1, h2⟩ := step_lineno_delta h
  refine ⟨h1, ?_, ?_⟩
  · omega
  · rw [h2]
    split
    · split <;> omega
    · omega

/-- line bookkeeping along a raw stream whose first turn starts with the counter at `n` -/
def LinesOK : Nat → List Item → Prop
  | _, [] => True
  | n, it :: rest =>
      it.1.line = n ∧ n ≤ it.2.2.lineno ∧ it.2.2.lineno ≤ n + countNl it.1.lexeme.toList ∧ LinesOK it.2.2.lineno rest

theorem lexAll_linesOK (tb : Tables) (st : LState) (s : List Char) : LinesOK st.lineno (lexAll tb st s).items := by
  induction st, s using lexAll.induct tb with
  | case1 st => simp [lexAll_nil, Res.items, LinesOK]
  | case2 st head tail t emit st' rest hstep hl ih =>
    rw [lexAll_tok hstep]
    obtain ⟨h1, h2, h3⟩ := step_lineno_lem hstep
    simp only [Res.items_cons, LinesOK]
    exact ⟨h1, h2, h3, ih⟩
  | case3 st head tail t emit st' rest hstep hl => exact absurd (step_rest_lt hstep) hl
  | case4 st head tail c l hstep => simp [lexAll_illegal (by simp) hstep, Res.items, LinesOK]
  | case5 st head tail hstep => simp [lexAll_stuck (by simp) hstep, Res.items, LinesOK]

theorem LinesOK.head {n : Nat} {items : List Item} (h : LinesOK n items) {it : Item} (hh : items.head? = some it) :
    it.1.line = n := by
  cases items with
  | nil => simp at hh
  | cons a rest =>
    simp only [List.head?_cons, Option.some.injEq] at hh
    subst hh
    exact h.1

theorem LinesOK.next {n : Nat} {items : List Item} (h : LinesOK n items) {i : Nat} {a b : Item}
    (ha : items[i]? = some a) (hb : items[i + 1]? = some b) : b.1.line = a.2.2.lineno := by
  induction items generalizing n i with
  | nil => simp at ha
  | cons x rest ih =>
    cases i with
    | zero =>
      simp only [List.getElem?_cons_zero, Option.some.injEq] at ha
      subst ha
      simp only [List.getElem?_cons_succ] at hb
      exact h.2.2.2.head (by rw [List.head?_eq_getElem?]; exact hb)
    | succ k =>
      simp only [List.getElem?_cons_succ] at ha hb
      exact ih h.2.2.2 ha hb

/-- the line of the `i`-th item: at least the start, at most the start plus the newlines consumed before it;
    exactly that if every earlier item advanced the counter by the newlines of its lexeme -/
theorem LinesOK.at {n : Nat} {items : List Item} (h : LinesOK n items) {i : Nat} {a : Item}
    (ha : items[i]? = some a) :
    n ≤ a.1.line ∧ a.1.line ≤ n + countNl (charsOf (items.take i)) ∧
    ((∀ j b, j < i → items[j]? = some b → b.2.2.lineno = b.1.line + countNl b.1.lexeme.toList) →
      a.1.line = n + countNl (charsOf (items.take i))) := by
  induction items generalizing n i with
  | nil => simp at ha
  | cons x rest ih =>
    cases i with
    | zero =>
      simp only [List.getElem?_cons_zero, Option.some.injEq] at ha
      subst ha
      simp [h.1, charsOf]
    | succ k =>
      simp only [List.getElem?_cons_succ] at ha
      obtain ⟨h1, h2, h3, h4⟩ := h
      obtain ⟨i1, i2, i3⟩ := ih h4 ha
      simp only [List.take_succ_cons, charsOf, List.flatMap_cons, countNl_append]
      simp only [charsOf] at i2 i3
      refine ⟨by omega, by omega, ?_⟩
      intro hex
      have hx := hex 0 x (by omega) (by simp)
      rw [i3 (fun j b hj hb => hex (j + 1) b (by omega) (by simpa using hb))]
      omega

theorem LinesOK.mono {n : Nat} {items : List Item} (h : LinesOK n items) {i j : Nat} {a b : Item}
    (hij : i ≤ j) (ha : items[i]? = some a) (hb : items[j]? = some b) : a.1.line ≤ b.1.line := by
  induction items generalizing n i j with
  | nil => simp at ha
  | cons x rest ih =>
    cases i with
    | zero =>
      simp only [List.getElem?_cons_zero, Option.some.injEq] at ha
      subst ha
      have := (LinesOK.at h hb).1
      rw [h.1]
      exact this
    | succ k =>
      cases j with
      | zero => omega
      | succ l =>
        simp only [List.getElem?_cons_succ] at ha hb
        exact ih h.2.2.2 (by omega) ha hb

/-! ### L5  the parser-facing stream -/

def FRes.toks : FRes → List Tok
  | .ok ts => ts
  | .illegal ts _ _ => ts
  | .stuck ts => ts

@[simp] theorem FRes.toks_prepend (ts : List Tok) (r : FRes) : (r.prepend ts).toks = ts ++ r.toks := by
  cases r <;> rfl

theorem front_nil (tb : Tables) (sig : List String) (last : Option String) (st : LState) :
    front tb sig last st [] = .ok [] := by
  rw [front]

/-- the blank filter: a `t_ws` is dropped unless the last token handed out has a significant type -/
def wsDrop (sig : List String) (last : Option String) (t : Tok) : Bool :=
  t.type == "t_ws" && (match last with | none => true | some l => !sig.contains l)

/-- the `;` injection: a `}` that follows neither `{` nor `}` nor `;`, outside the escape states -/
def needSemi (last : Option String) (t : Tok) (st' : LState) : Bool :=
  t.type == "t_bclose" && (match last with
      | none => false
      | some l => l != "t_bopen" && l != "t_bclose" && l != "t_semicolon")
    && !(st'.cur == "escapequotes" || st'.cur == "escapeapostrophe")

/-- unfolding `front` at a successful turn -/
theorem front_tok {tb : Tables} {sig : List String} {last : Option String} {st st' : LState} {s rest : List Char}
    {t : Tok} {emit : Bool} (h : step tb st s = .tok t emit st' rest) :
    front tb sig last st s =
      if !emit then front tb sig last st' rest
      else if wsDrop sig last t then front tb sig last st' rest
      else if needSemi last t st' then
        (front tb sig (some "t_semicolon") { st' with inProp := false } rest).prepend
          [⟨"t_semicolon", ";", t.line, ""⟩, t]
      else (front tb sig (some t.type) st' rest).prepend [t] := by
  have hl := step_rest_lt h
  cases s with
  | nil => simp at hl
  | cons a s' =>
    rw [front.eq_def]
    simp only [h, hl, dite_true]
    rfl

theorem front_illegal {tb : Tables} {sig : List String} {last : Option String} {st : LState} {s : List Char}
    {c : Char} {l : Nat} (hs : s ≠ []) (h : step tb st s = .illegal c l) :
    front tb sig last st s = .illegal [] c l := by
  cases s with
  | nil => exact absurd rfl hs
  | cons a s' =>
    rw [front.eq_def]
    simp only [h]

theorem front_stuck {tb : Tables} {sig : List String} {last : Option String} {st : LState} {s : List Char}
    (hs : s ≠ []) (h : step tb st s = .stuck) : front tb sig last st s = .stuck [] := by
  cases s with
  | nil => exact absurd rfl hs
  | cons a s' =>
    rw [front.eq_def]
    simp only [h]

/-- `t` is a token some turn of the token loop produced -/
def FromStep (tb : Tables) (t : Tok) : Prop :=
  ∃ st s emit st' rest, step tb st s = .tok t emit st' rest

theorem FromStep.lexeme_ne {tb : Tables} {t : Tok} (h : FromStep tb t) : t.lexeme ≠ "" := by
  obtain ⟨st, s, emit, st', rest, hs⟩ := h
  exact step_lexeme_ne hs

/-- the injected `;`: no characters of its own, the line of the `}` behind it -/
def semiTok (line : Nat) : Tok := ⟨"t_semicolon", ";", line, ""⟩

/-- The shape of every output of `front`, `last` being the type of the last token handed out before it:
    tokens of the loop, a blank only behind a significant type, a `;` (which stays `last`) put in front of a `}`
    that follows neither `{` nor `}` nor `;`. -/
inductive FrontOut (tb : Tables) (sig : List String) : Option String → List Tok → Prop
  | nil (last : Option String) : FrontOut tb sig last []
  | emit {last : Option String} {t : Tok} {out : List Tok} :
      FromStep tb t → (t.type = "t_ws" → ∃ l, last = some l ∧ l ∈ sig) →
      FrontOut tb sig (some t.type) out → FrontOut tb sig last (t :: out)
  | inject {last : Option String} {t : Tok} {out : List Tok} :
      FromStep tb t → t.type = "t_bclose" →
      (∃ l, last = some l ∧ l ≠ "t_bopen" ∧ l ≠ "t_bclose" ∧ l ≠ "t_semicolon") →
      FrontOut tb sig (some "t_semicolon") out → FrontOut tb sig last (semiTok t.line :: t :: out)

theorem front_out (tb : Tables) (sig : List String) (last : Option String) (st : LState) (s : List Char) :
    FrontOut tb sig last (front tb sig last st s).toks := by
  induction last, st, s using front.induct tb sig with
  | case1 last st => rw [front_nil]; exact .nil _
  | case2 last st head tail t emit st' rest hc hstep hl ih =>
    rw [front_tok hstep, if_pos hc]
    exact ih
  | case3 last st head tail t emit st' rest hc1 hc2 hstep hl ih =>
    have hc2 : wsDrop sig last t = true := hc2
    rw [front_tok hstep, if_neg hc1, if_pos hc2]
    exact ih
  | case4 last st head tail t emit st' rest hc1 hc2 hc3 hstep hl ih =>
    have hc2 : ¬ wsDrop sig last t = true := hc2
    have hc3 : needSemi last t st' = true := hc3
    rw [front_tok hstep, if_neg hc1, if_neg hc2, if_pos hc3]
    simp only [FRes.toks_prepend, List.cons_append, List.nil_append]
    simp only [needSemi, Bool.and_eq_true, beq_iff_eq] at hc3
    refine .inject ⟨_, _, _, _, _, hstep⟩ hc3.1.1 ?_ ih
    cases last with
    | none => simp at hc3
    | some l =>
      have h3 : (¬l = "t_bopen" ∧ ¬l = "t_bclose") ∧ ¬l = "t_semicolon" := by simpa using hc3.1.2
      exact ⟨l, rfl, h3.1.1, h3.1.2, h3.2⟩
  | case5 last st head tail t emit st' rest hc1 hc2 hc3 hstep hl ih =>
    have hc2 : ¬ wsDrop sig last t = true := hc2
    have hc3 : ¬ needSemi last t st' = true := hc3
    rw [front_tok hstep, if_neg hc1, if_neg hc2, if_neg hc3]
    simp only [FRes.toks_prepend, List.cons_append, List.nil_append]
    refine .emit ⟨_, _, _, _, _, hstep⟩ ?_ ih
    intro hws
    cases last with
    | none => simp [wsDrop, hws] at hc2
    | some l =>
      refine ⟨l, rfl, ?_⟩
      simpa [wsDrop, hws] using hc2
  | case6 last st head tail t emit st' rest hstep hl => exact absurd (step_rest_lt hstep) hl
  | case7 last st head tail c l hstep =>
    rw [front_illegal (by simp) hstep]
    exact .nil _
  | case8 last st head tail hstep =>
    rw [front_stuck (by simp) hstep]
    exact .nil _

/-- (a) an injected `;` (the only tokens without characters) stands immediately before a `}` of the loop -/
theorem FrontOut.semi {tb : Tables} {sig : List String} {last : Option String} {out : List Tok}
    (h : FrontOut tb sig last out) {i : Nat} {q : Tok} (hi : out[i]? = some q) (hq : q.lexeme = "") :
    ∃ p, out[i + 1]? = some p ∧ p.type = "t_bclose" ∧ FromStep tb p ∧ q = semiTok p.line := by
  induction h generalizing i with
  | nil last => simp at hi
  | @emit last t out hfs hws _ ih =>
    cases i with
    | zero =>
      simp only [List.getElem?_cons_zero, Option.some.injEq] at hi
      subst hi
      exact absurd hq hfs.lexeme_ne
    | succ k =>
      simp only [List.getElem?_cons_succ] at hi ⊢
      exact ih hi
  | @inject last t out hfs hty hl _ ih =>
    match i with
    | 0 =>
      simp only [List.getElem?_cons_zero, Option.some.injEq] at hi
      subst hi
      exact ⟨t, by simp, hty, hfs, rfl⟩
    | 1 =>
      simp only [List.getElem?_cons_succ, List.getElem?_cons_zero, Option.some.injEq] at hi
      subst hi
      exact absurd hq hfs.lexeme_ne
    | k + 2 =>
      simp only [List.getElem?_cons_succ] at hi ⊢
      exact ih hi

/-- every token of the output is a token of the loop or an injected `;` -/
theorem FrontOut.origin {tb : Tables} {sig : List String} {last : Option String} {out : List Tok}
    (h : FrontOut tb sig last out) {t : Tok} (ht : t ∈ out) : FromStep tb t ∨ ∃ n, t = semiTok n := by
  induction h with
  | nil last => simp at ht
  | @emit last t' out hfs hws _ ih =>
    rcases List.mem_cons.mp ht with rfl | ht
    · exact .inl hfs
    · exact ih ht
  | @inject last t' out hfs hty hl _ ih =>
    rcases List.mem_cons.mp ht with rfl | ht
    · exact .inr ⟨_, rfl⟩
    · rcases List.mem_cons.mp ht with rfl | ht
      · exact .inl hfs
      · exact ih ht

/-- (c) a blank stands at the very beginning only if `last` is significant; otherwise directly behind a token of
    significant type — or behind a `}` that had a `;` injected, if `t_semicolon` is significant -/
theorem FrontOut.ws {tb : Tables} {sig : List String} {last : Option String} {out : List Tok}
    (h : FrontOut tb sig last out) {i : Nat} {w : Tok} (hi : out[i]? = some w) (hw : w.type = "t_ws") :
    (i = 0 ∧ ∃ l, last = some l ∧ l ∈ sig) ∨
    (∃ j p, i = j + 1 ∧ out[j]? = some p ∧
      (p.type ∈ sig ∨ (p.type = "t_bclose" ∧ "t_semicolon" ∈ sig ∧
        ∃ j' n, j = j' + 1 ∧ out[j']? = some (semiTok n)))) := by
  induction h generalizing i with
  | nil last => simp at hi
  | @emit last t out hfs hws _ ih =>
    cases i with
    | zero =>
      simp only [List.getElem?_cons_zero, Option.some.injEq] at hi
      subst hi
      exact .inl ⟨rfl, hws hw⟩
    | succ k =>
      simp only [List.getElem?_cons_succ] at hi
      right
      rcases ih hi with ⟨rfl, l, hl, hsig⟩ | ⟨j, p, rfl, hj, hp⟩
      · cases hl
        exact ⟨0, t, rfl, by simp, .inl hsig⟩
      · refine ⟨j + 1, p, rfl, by simpa using hj, ?_⟩
        rcases hp with hp | ⟨hp1, hp2, j', n, rfl, hj'⟩
        · exact .inl hp
        · exact .inr ⟨hp1, hp2, j' + 1, n, rfl, by simpa using hj'⟩
  | @inject last t out hfs hty hl _ ih =>
    match i with
    | 0 =>
      simp only [List.getElem?_cons_zero, Option.some.injEq] at hi
      subst hi
      simp [semiTok] at hw
    | 1 =>
      simp only [List.getElem?_cons_succ, List.getElem?_cons_zero, Option.some.injEq] at hi
      subst hi
      rw [hty] at hw
      simp at hw
    | k + 2 =>
      simp only [List.getElem?_cons_succ] at hi
      right
      rcases ih hi with ⟨rfl, l, hl, hsig⟩ | ⟨j, p, rfl, hj, hp⟩
      · cases hl
        exact ⟨1, t, rfl, by simp, .inr ⟨hty, hsig, 0, t.line, rfl, by simp⟩⟩
      · refine ⟨j + 2, p, rfl, by simpa using hj, ?_⟩
        rcases hp with hp | ⟨hp1, hp2, j', n, rfl, hj'⟩
        · exact .inl hp
        · exact .inr ⟨hp1, hp2, j' + 2, n, rfl, by simpa using hj'⟩

/-- (d) the characters of the output are a subsequence of the input -/
theorem front_sublist (tb : Tables) (sig : List String) (last : Option String) (st : LState) (s : List Char) :
    ((front tb sig last st s).toks.flatMap (fun t => t.lexeme.toList)).Sublist s := by
  induction last, st, s using front.induct tb sig with
  | case1 last st => rw [front_nil]; simp [FRes.toks]
  | case2 last st head tail t emit st' rest hc hstep hl ih =>
    rw [front_tok hstep, if_pos hc, (step_split_lem hstep).1]
    exact ih.trans (List.sublist_append_right _ _)
  | case3 last st head tail t emit st' rest hc1 hc2 hstep hl ih =>
    have hc2 : wsDrop sig last t = true := hc2
    rw [front_tok hstep, if_neg hc1, if_pos hc2, (step_split_lem hstep).1]
    exact ih.trans (List.sublist_append_right _ _)
  | case4 last st head tail t emit st' rest hc1 hc2 hc3 hstep hl ih =>
    have hc2 : ¬ wsDrop sig last t = true := hc2
    have hc3 : needSemi last t st' = true := hc3
    rw [front_tok hstep, if_neg hc1, if_neg hc2, if_pos hc3]
    conv => rhs; rw [(step_split_lem hstep).1]
    simp only [FRes.toks_prepend, List.cons_append, List.nil_append, List.flatMap_cons]
    have := List.Sublist.append_left ih t.lexeme.toList
    simpa using this
  | case5 last st head tail t emit st' rest hc1 hc2 hc3 hstep hl ih =>
    have hc2 : ¬ wsDrop sig last t = true := hc2
    have hc3 : ¬ needSemi last t st' = true := hc3
    rw [front_tok hstep, if_neg hc1, if_neg hc2, if_neg hc3]
    conv => rhs; rw [(step_split_lem hstep).1]
    simp only [FRes.toks_prepend, List.cons_append, List.nil_append, List.flatMap_cons]
    exact List.Sublist.append_left ih _
  | case6 last st head tail t emit st' rest hstep hl => exact absurd (step_rest_lt hstep) hl
  | case7 last st head tail c l hstep =>
    rw [front_illegal (by simp) hstep]
    simp [FRes.toks]
  | case8 last st head tail hstep =>
    rw [front_stuck (by simp) hstep]
    simp [FRes.toks]

theorem FRes.prepend_eq_stuck {ts : List Tok} {r : FRes} {x : List Tok} (h : r.prepend ts = .stuck x) :
    ∃ y, r = .stuck y := by
  cases r with
  | ok a => simp [FRes.prepend] at h
  | illegal a c l => simp [FRes.prepend] at h
  | stuck a => exact ⟨a, rfl⟩

theorem front_never_stuck_of {tb : Tables} (hnn : ∀ p ∈ tb.rules, ∀ r ∈ p.2, r.re.nullable = false)
    (sig : List String) (last : Option String) (st : LState) (s : List Char) (x : List Tok) :
    front tb sig last st s ≠ .stuck x := by
  induction last, st, s using front.induct tb sig generalizing x with
  | case1 last st => simp [front_nil]
  | case2 last st head tail t emit st' rest hc hstep hl ih =>
    rw [front_tok hstep, if_pos hc]
    exact ih x
  | case3 last st head tail t emit st' rest hc1 hc2 hstep hl ih =>
    have hc2 : wsDrop sig last t = true := hc2
    rw [front_tok hstep, if_neg hc1, if_pos hc2]
    exact ih x
  | case4 last st head tail t emit st' rest hc1 hc2 hc3 hstep hl ih =>
    have hc2 : ¬ wsDrop sig last t = true := hc2
    have hc3 : needSemi last t st' = true := hc3
    rw [front_tok hstep, if_neg hc1, if_neg hc2, if_pos hc3]
    intro h
    obtain ⟨y, hy⟩ := FRes.prepend_eq_stuck h
    exact ih y hy
  | case5 last st head tail t emit st' rest hc1 hc2 hc3 hstep hl ih =>
    have hc2 : ¬ wsDrop sig last t = true := hc2
    have hc3 : ¬ needSemi last t st' = true := hc3
    rw [front_tok hstep, if_neg hc1, if_neg hc2, if_neg hc3]
    intro h
    obtain ⟨y, hy⟩ := FRes.prepend_eq_stuck h
    exact ih y hy
  | case6 last st head tail t emit st' rest hstep hl => exact absurd (step_rest_lt hstep) hl
  | case7 last st head tail c l hstep =>
    rw [front_illegal (by simp) hstep]
    simp
  | case8 last st head tail hstep => exact absurd hstep (step_ne_stuck hnn st _ (by simp))

end Lessm.Lex0
