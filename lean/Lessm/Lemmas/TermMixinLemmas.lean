/-
  Helper lemmas for C20 (termination of mixin expansion): the model-only `gas` of
  `Lessm.Mixin.evalItems` is never the binding constraint, the depth limit alone bounds the recursion.

  Vocabulary (used by Lessm/Props/C20Mixin.lean):
    `nestItems items`        static rule nesting of an item list (`0` for the empty list, `1` for a list
                             of declarations and calls, `+ 1` through every nested rule)
    `nestTbl tbl`            the maximum of `nestItems` over all mixin bodies and plain-rule bodies of
                             the table
    `gasBound tbl items`     `nestItems items + 65 * nestTbl tbl`: gas with which no evaluation of
                             `items` against `tbl` runs out of gas
    `gasBoundSheet sheet`    `66 * nestTbl (buildTable sheet)`: the same for `compile`
    `CrashLe a b`            `a` is "out of gas" or `a = b`
    `quietItems items`       literal declarations and (recursively) rules of such: they cannot fail
    `Reaches P name items`   `items` contains the call `name()` directly or inside nested rules, the
                             items preceding it at every level satisfying `P`
    `loopDef`, `loopFrame k`, `countdown k`   the guarded countdown mixin, the frame of `.loop(k)`,
                             the declarations `w: k; w: k-1; …; w: 1`
    `countdownSheet n`       the sheet `.loop(@i) when (@i > 0) { w: @i; .loop(@i - 1); } .a { .loop(n); }`
-/
import Lessm.Lemmas.MixinLemmas

namespace Lessm.Mixin
open Lessm.Vars Lessm.Sel

/-! ### vocabulary -/

mutual
/-- gas needed by one item when no call expands to anything -/
def nestItem : Item → Nat
  | .decl _ _ => 1
  | .rule _ body => nestItems body + 1
  | .call _ _ => 1
/-- static rule nesting of an item list -/
def nestItems : List Item → Nat
  | [] => 0
  | i :: r => max (nestItem i) (nestItems r)
end

def maxOf : List Nat → Nat
  | [] => 0
  | a :: r => max a (maxOf r)

/-- the deepest static nesting among the bodies stored in the table -/
def nestTbl (tbl : Table) : Nat :=
  max (maxOf (tbl.mixins.map (fun nd => nestItems nd.2.body)))
      (maxOf (tbl.blocks.map (fun nb => nestItems nb.2)))

/-- gas that is enough for `items` against `tbl`, whatever the depth counter, scope and selector:
    the static nesting of `items`, plus 65 call levels (counters 0 … 64) of at most `nestTbl tbl`
    each (the unit of gas consumed by the call is the unit counted for the call item in the static
    nesting of the body it stands in) -/
def gasBound (tbl : Table) (items : List Item) : Nat := nestItems items + 65 * nestTbl tbl

/-- gas that is enough for `compile` (every top-level rule is also a plain-rule body of the table) -/
def gasBoundSheet (sheet : List Top) : Nat := 66 * nestTbl (buildTable sheet)

/-- `a` ran out of gas, or is `b` -/
def CrashLe {α : Type} (a b : Except Err α) : Prop := a = .error .crash ∨ a = b

mutual
/-- an item that cannot fail: a declaration of literal tokens, a rule of such items -/
def quietItem : Item → Bool
  | .decl _ v => !hasRef v
  | .rule _ body => quietItems body
  | .call _ _ => false
def quietItems : List Item → Bool
  | [] => true
  | i :: r => quietItem i && quietItems r
end

/-- `items` contains the argument-less call of `name`, as a direct item or inside nested rules; at
    every level the items in front of it satisfy `P` -/
inductive Reaches (P : List Item → Prop) (name : String) : List Item → Prop
  | here (pre post : List Item) : P pre → Reaches P name (pre ++ .call name [] :: post)
  | inside (pre : List Item) (sel : List Tok) (body post : List Item) : P pre →
      Reaches P name body → Reaches P name (pre ++ .rule sel body :: post)

/-! ### `CrashLe` -/

theorem CrashLe.refl {α : Type} (a : Except Err α) : CrashLe a a := .inr rfl

theorem CrashLe.bind {α β : Type} {a a' : Except Err α} {f f' : α → Except Err β}
    (h : CrashLe a a') (hf : ∀ x, CrashLe (f x) (f' x)) : CrashLe (a >>= f) (a' >>= f') := by
  rcases h with h | h
  · left; rw [h]; rfl
  · subst h
    cases a with
    | error e => right; rfl
    | ok x => exact hf x

theorem CrashLe.eq {α : Type} {a b : Except Err α} (h : CrashLe a b) (hn : a ≠ .error .crash) :
    a = b := by
  rcases h with h | h
  · exact absurd h hn
  · exact h

/-! ### M1: more gas changes nothing but "out of gas" -/

theorem expandCall_crashLe (tbl : Table) (g g' : Nat)
    (ih : ∀ (d : Nat) (ie : Bool) (sc : Scope) (me : List Sel) (items : List Item),
      CrashLe (evalItems tbl g d ie sc me items) (evalItems tbl g' d ie sc me items))
    (d : Nat) (sc : Scope) (me : List Sel) (name : String) (args' : List Value) :
    CrashLe (expandCall tbl g d sc me name args') (expandCall tbl g' d sc me name args') := by
  unfold expandCall
  split
  · exact ih _ _ _ _ _
  · split
    · split
      · exact ih _ _ _ _ _
      · exact .refl _
    · exact .refl _

theorem evalItems_crashLe (tbl : Table) : ∀ (g g' : Nat), g ≤ g' →
    ∀ (d : Nat) (ie : Bool) (sc : Scope) (me : List Sel) (items : List Item),
      CrashLe (evalItems tbl g d ie sc me items) (evalItems tbl g' d ie sc me items) := by
  intro g
  induction g with
  | zero =>
    intro g' _ d ie sc me items
    cases items with
    | nil => right; rw [evalItems.eq_1, evalItems.eq_1]
    | cons it rest => left; rw [evalItems.eq_2]
  | succ g ih =>
    intro g' hg
    obtain ⟨g'', rfl⟩ : ∃ g'', g' = g'' + 1 := ⟨g' - 1, by omega⟩
    have ih' := ih g'' (by omega)
    intro d ie sc me items
    induction items with
    | nil => right; rw [evalItems.eq_1, evalItems.eq_1]
    | cons it rest ihr =>
      cases it with
      | decl p v =>
        rw [evalItems.eq_3, evalItems.eq_3]
        exact CrashLe.bind (.refl _) (fun v' => CrashLe.bind ihr (fun x => .refl _))
      | rule sel body =>
        rw [evalItems.eq_4, evalItems.eq_4]
        exact CrashLe.bind (ih' _ _ _ _ _) (fun x => CrashLe.bind ihr (fun y => .refl _))
      | call name args =>
        rw [call_unfold, call_unfold]
        split
        · exact .refl _
        · exact CrashLe.bind (.refl _) (fun args' =>
            CrashLe.bind (expandCall_crashLe tbl g g'' ih' _ _ _ _ _)
              (fun r1 => CrashLe.bind ihr (fun r => .refl _)))

/-! ### M2: the depth limit alone bounds the recursion -/

theorem bind_ne_crash {α β : Type} {a : Except Err α} {f : α → Except Err β}
    (h : a ≠ .error .crash) (hf : ∀ x, f x ≠ .error .crash) : (a >>= f) ≠ .error .crash := by
  cases a with
  | error e => intro h'; apply h; cases h'; rfl
  | ok x => exact hf x

theorem liftV_ne_crash {α : Type} (a : Except Vars.Err α) : liftV a ≠ .error .crash := by
  cases a with
  | ok x => simp [liftV]
  | error e => cases e <;> simp [liftV]

theorem evalArg_ne_crash (sc : Scope) (a : Arg) : evalArg sc a ≠ .error .crash := by
  cases a with
  | val v =>
    rw [evalArg_val]
    split
    · split <;> simp
    · simp
  | arith n k =>
    rw [evalArg_arith]
    refine bind_ne_crash (liftV_ne_crash _) (fun v => ?_)
    unfold arithVal
    split
    · simp only; split <;> simp
    · simp

theorem mapM_ne_crash {α β : Type} {f : α → Except Err β} (hf : ∀ a, f a ≠ .error .crash) :
    ∀ l : List α, l.mapM f ≠ .error .crash
  | [] => by simp [pure, Except.pure]
  | a :: l => by
    rw [List.mapM_cons]
    exact bind_ne_crash (hf a) (fun b => bind_ne_crash (mapM_ne_crash hf l) (fun bs => by
      simp [pure, Except.pure]))

theorem nestItems_cons_pos (i : Item) (r : List Item) : 1 ≤ nestItems (i :: r) := by
  rw [nestItems]
  cases i <;> simp only [nestItem] <;> omega

theorem le_maxOf {l : List Nat} {a : Nat} (h : a ∈ l) : a ≤ maxOf l := by
  induction l with
  | nil => cases h
  | cons b r ih =>
    rw [maxOf]
    rcases List.mem_cons.mp h with rfl | h
    · omega
    · have := ih h; omega

theorem nestItems_mixin_le {tbl : Table} {n : String} {m : MixinDef} (h : (n, m) ∈ tbl.mixins) :
    nestItems m.body ≤ nestTbl tbl := by
  have : nestItems m.body ≤ maxOf (tbl.mixins.map (fun nd => nestItems nd.2.body)) :=
    le_maxOf (List.mem_map.mpr ⟨_, h, rfl⟩)
  unfold nestTbl; omega

theorem nestItems_block_le {tbl : Table} {n : String} {b : List Item} (h : (n, b) ∈ tbl.blocks) :
    nestItems b ≤ nestTbl tbl := by
  have : nestItems b ≤ maxOf (tbl.blocks.map (fun nb => nestItems nb.2)) :=
    le_maxOf (List.mem_map.mpr ⟨_, h, rfl⟩)
  unfold nestTbl; omega

/-- the number of call levels still available below a call met at (`ie`, `d`) -/
def levelsLeft (ie : Bool) (d : Nat) : Nat := if ie then 64 - d else 65

theorem expandCall_ne_crash (tbl : Table) (g d : Nat)
    (ih : ∀ (sc : Scope) (me : List Sel) (items : List Item),
      nestItems items + (64 - d) * nestTbl tbl ≤ g →
        evalItems tbl g d true sc me items ≠ .error .crash)
    (hg : nestTbl tbl + (64 - d) * nestTbl tbl ≤ g)
    (sc : Scope) (me : List Sel) (name : String) (args' : List Value) :
    expandCall tbl g d sc me name args' ≠ .error .crash := by
  unfold expandCall
  split
  · rename_i m fr hfa
    have hm := nestItems_mixin_le (mem_candidates (firstApplicable_some _ hfa).1)
    exact ih _ _ _ (by omega)
  · split
    · split
      · rename_i body hb
        obtain ⟨k, hk⟩ := block_mem hb
        have hm := nestItems_block_le hk
        exact ih _ _ _ (by omega)
      · simp
    · simp

theorem evalItems_ne_crash (tbl : Table) : ∀ (g d : Nat) (ie : Bool) (sc : Scope) (me : List Sel)
    (items : List Item), nestItems items + levelsLeft ie d * nestTbl tbl ≤ g →
      evalItems tbl g d ie sc me items ≠ .error .crash := by
  intro g
  induction g with
  | zero =>
    intro d ie sc me items h
    cases items with
    | nil => rw [evalItems.eq_1]; simp
    | cons it rest => have := nestItems_cons_pos it rest; omega
  | succ g ih =>
    intro d ie sc me items
    induction items with
    | nil => intro _; rw [evalItems.eq_1]; simp
    | cons it rest ihr =>
      intro h
      rw [nestItems] at h
      have hrest := ihr (by omega)
      cases it with
      | decl p v =>
        rw [evalItems.eq_3]
        exact bind_ne_crash (liftV_ne_crash _) (fun v' => bind_ne_crash hrest (fun x => by
          simp [pure, Except.pure]))
      | rule sel body =>
        rw [evalItems.eq_4]
        rw [nestItem] at h
        exact bind_ne_crash (ih _ _ _ _ _ (by omega)) (fun x => bind_ne_crash hrest (fun y => by
          simp [pure, Except.pure]))
      | call name args =>
        rw [call_unfold]
        split
        · simp
        · rename_i hd
          rw [nestItem] at h
          refine bind_ne_crash (mapM_ne_crash (evalArg_ne_crash sc) args) (fun args' =>
            bind_ne_crash (expandCall_ne_crash tbl g _ (fun sc me items hi => ih _ _ _ _ _ ?_) ?_
              _ _ _ _) (fun r1 => bind_ne_crash hrest (fun r => by simp [pure, Except.pure])))
          · simpa [levelsLeft] using hi
          · cases ie with
            | true =>
              simp only [callDepth, if_true, levelsLeft] at hd h ⊢
              have e : 64 - d = (64 - (d + 1)) + 1 := by omega
              rw [e, Nat.add_mul] at h
              omega
            | false =>
              simp only [callDepth, levelsLeft, Bool.false_eq_true, if_false] at hd h ⊢
              omega

theorem levelsLeft_le (ie : Bool) (d : Nat) : levelsLeft ie d ≤ 65 := by
  unfold levelsLeft; split <;> omega

theorem evalItems_gasBound (tbl : Table) (g d : Nat) (ie : Bool) (sc : Scope) (me : List Sel)
    (items : List Item) (h : gasBound tbl items ≤ g) :
    evalItems tbl g d ie sc me items ≠ .error .crash := by
  apply evalItems_ne_crash
  have := Nat.mul_le_mul_right (nestTbl tbl) (levelsLeft_le ie d)
  unfold gasBound at h
  omega

/-! ### `compile` -/

theorem compileRules_crashLe (tbl : Table) (g g' : Nat) (h : g ≤ g') :
    ∀ rs : List (List Tok × List Item), CrashLe (compileRules tbl g rs) (compileRules tbl g' rs)
  | [] => .refl _
  | (sel, body) :: rs => by
    simp only [compileRules, compileRule]
    exact CrashLe.bind (CrashLe.bind (evalItems_crashLe tbl g g' h _ _ _ _ _) (fun x => .refl _))
      (fun a => CrashLe.bind (compileRules_crashLe tbl g g' h rs) (fun r => .refl _))

theorem compileRules_ne_crash (tbl : Table) (g : Nat) :
    ∀ rs : List (List Tok × List Item), (∀ r ∈ rs, gasBound tbl r.2 ≤ g) →
      compileRules tbl g rs ≠ .error .crash
  | [], _ => by simp [compileRules]
  | (sel, body) :: rs, h => by
    simp only [compileRules, compileRule]
    exact bind_ne_crash
      (bind_ne_crash (evalItems_gasBound tbl g _ _ _ _ _ (h _ List.mem_cons_self))
        (fun x => by simp [pure, Except.pure]))
      (fun a => bind_ne_crash
        (compileRules_ne_crash tbl g rs (fun r hr => h r (List.mem_cons_of_mem _ hr)))
        (fun r => by simp [pure, Except.pure]))

theorem rulesOf_block (sheet : List Top) :
    ∀ r ∈ rulesOf sheet, ∃ k, (k, r.2) ∈ (buildTable sheet).blocks := by
  induction sheet with
  | nil => intro r hr; simp [rulesOf] at hr
  | cons t rest ih =>
    intro r hr
    cases t with
    | mdef n d =>
      simp only [rulesOf] at hr
      obtain ⟨k, hk⟩ := ih r hr
      exact ⟨k, by simpa [buildTable] using hk⟩
    | rule sel body =>
      simp only [rulesOf, List.mem_cons] at hr
      rcases hr with rfl | hr
      · exact ⟨_, by simp only [buildTable]; exact List.mem_cons_self⟩
      · obtain ⟨k, hk⟩ := ih r hr
        exact ⟨k, by simp [buildTable, hk]⟩

theorem gasBound_rule_le (sheet : List Top) :
    ∀ r ∈ rulesOf sheet, gasBound (buildTable sheet) r.2 ≤ gasBoundSheet sheet := by
  intro r hr
  obtain ⟨k, hk⟩ := rulesOf_block sheet r hr
  have := nestItems_block_le hk
  unfold gasBound gasBoundSheet
  omega

/-! ### M3: recursion without a base case -/

/-- evaluation of a concatenation -/
theorem evalItems_append (tbl : Table) : ∀ (g d : Nat) (ie : Bool) (sc : Scope) (me : List Sel)
    (a b : List Item), evalItems tbl g d ie sc me (a ++ b) = (do
      let ra ← evalItems tbl g d ie sc me a
      let rb ← evalItems tbl g d ie sc me b
      pure (ra.1 ++ rb.1, ra.2 ++ rb.2)) := by
  intro g d ie sc me a b
  have hnil : evalItems tbl g d ie sc me b = (do
      let ra ← evalItems tbl g d ie sc me []
      let rb ← evalItems tbl g d ie sc me b
      pure (ra.1 ++ rb.1, ra.2 ++ rb.2)) := by
    rw [evalItems.eq_1]
    cases evalItems tbl g d ie sc me b with
    | error e => rfl
    | ok r => rfl
  cases g with
  | zero =>
    cases a with
    | nil => exact hnil
    | cons it rest => rw [List.cons_append, evalItems.eq_2, evalItems.eq_2]; rfl
  | succ g =>
    induction a with
    | nil => exact hnil
    | cons it rest ih =>
      rw [List.cons_append]
      cases it with
      | decl p v =>
        rw [evalItems.eq_3, evalItems.eq_3, ih]
        cases liftV (expand sc 64 v) with
        | error e => rfl
        | ok v' =>
          cases evalItems tbl (g + 1) d ie sc me rest with
          | error e => rfl
          | ok r =>
            cases evalItems tbl (g + 1) d ie sc me b with
            | error e => rfl
            | ok rb => rfl
      | rule sel body =>
        rw [evalItems.eq_4, evalItems.eq_4, ih]
        cases evalItems tbl g d ie ([] :: sc) (identParse (some me) sel) body with
        | error e => rfl
        | ok r1 =>
          cases evalItems tbl (g + 1) d ie sc me rest with
          | error e => rfl
          | ok r =>
            cases evalItems tbl (g + 1) d ie sc me b with
            | error e => rfl
            | ok rb => simp [bind, Except.bind, pure, Except.pure]
      | call name args =>
        rw [call_unfold, call_unfold, ih]
        split
        · rfl
        · cases List.mapM (evalArg sc) args with
          | error e => rfl
          | ok args' =>
            simp only [bind, Except.bind]
            cases expandCall tbl g (callDepth ie d) sc me name args' with
            | error e => rfl
            | ok r1 =>
              cases evalItems tbl (g + 1) d ie sc me rest with
              | error e => rfl
              | ok r =>
                cases evalItems tbl (g + 1) d ie sc me b with
                | error e => rfl
                | ok rb => simp [pure, Except.pure]

/-- quiet items yield a result, or run out of gas -/
theorem quiet_sound (tbl : Table) : ∀ (g d : Nat) (ie : Bool) (sc : Scope) (me : List Sel)
    (items : List Item), quietItems items = true →
      evalItems tbl g d ie sc me items = .error .crash ∨
        ∃ r, evalItems tbl g d ie sc me items = .ok r := by
  intro g
  induction g with
  | zero =>
    intro d ie sc me items _
    cases items with
    | nil => right; exact ⟨_, evalItems.eq_1 ..⟩
    | cons it rest => left; exact evalItems.eq_2 ..
  | succ g ih =>
    intro d ie sc me items
    induction items with
    | nil => intro _; right; exact ⟨_, evalItems.eq_1 ..⟩
    | cons it rest ihr =>
      intro h
      rw [quietItems, Bool.and_eq_true] at h
      have hrest := ihr h.2
      cases it with
      | decl p v =>
        have hv : hasRef v = false := by simpa [quietItem] using h.1
        rw [evalItems.eq_3, expand_of_noRef sc 64 v hv]
        rcases hrest with hr | ⟨r, hr⟩
        · left; rw [hr]; rfl
        · right; rw [hr]; exact ⟨_, rfl⟩
      | rule sel body =>
        have hb : quietItems body = true := by simpa [quietItem] using h.1
        rw [evalItems.eq_4]
        rcases ih d ie ([] :: sc) (identParse (some me) sel) body hb with h1 | ⟨r1, h1⟩
        · left; rw [h1]; rfl
        · rcases hrest with hr | ⟨r, hr⟩
          · left; rw [h1, hr]; rfl
          · right; rw [h1, hr]; exact ⟨_, rfl⟩
      | call name args => simp [quietItem] at h

theorem quiet_error (tbl : Table) {g d : Nat} {ie : Bool} {sc : Scope} {me : List Sel}
    {items : List Item} {e : Err} (hq : quietItems items = true)
    (h : evalItems tbl g d ie sc me items = .error e) : e = .crash := by
  rcases quiet_sound tbl g d ie sc me items hq with h1 | ⟨r, h1⟩
  · rw [h1] at h; cases h; rfl
  · rw [h1] at h; cases h

theorem Reaches.ne_nil {P : List Item → Prop} {name : String} {items : List Item}
    (h : Reaches P name items) : items ≠ [] := by
  cases h <;> simp

theorem Reaches.mono {P Q : List Item → Prop} (hPQ : ∀ l, P l → Q l) {name : String}
    {items : List Item} (h : Reaches P name items) : Reaches Q name items := by
  induction h with
  | here pre post hp => exact .here pre post (hPQ _ hp)
  | inside pre sel body post hp _ ih => exact .inside pre sel body post (hPQ _ hp) ih

/-- a definition without parameters and without guard applies to the empty argument list -/
theorem firstApplicable_plain (sc : Scope) (body : List Item) (hne : body ≠ []) :
    firstApplicable sc [] [⟨[], [], body⟩] = some (⟨[], [], body⟩, [("arguments", [])]) := by
  have : body.isEmpty = false := by cases body <;> simp_all
  simp [firstApplicable, tryMixin, bindParams, guardHolds, intersperseSp, this]

/-- if every evaluation of the call `name()` (at this depth) is an error in `S`, and so is every
    error of the items in front of it, then a body that reaches the call evaluates to an error in `S` -/
theorem reaches_err (tbl : Table) (S : Err → Prop) (hS : S .crash) (d : Nat) (ie : Bool)
    (name : String) (P : List Item → Prop)
    (H : ∀ (g : Nat) (sc : Scope) (me : List Sel) (post : List Item),
      ∃ e, evalItems tbl g d ie sc me (.call name [] :: post) = .error e ∧ S e)
    (hP : ∀ pre, P pre → ∀ (g : Nat) (sc : Scope) (me : List Sel) (e : Err),
      evalItems tbl g d ie sc me pre = .error e → S e) :
    ∀ body, Reaches P name body → ∀ (g : Nat) (sc : Scope) (me : List Sel),
      ∃ e, evalItems tbl g d ie sc me body = .error e ∧ S e := by
  intro body hr
  induction hr with
  | here pre post hp =>
    intro g sc me
    rw [evalItems_append]
    obtain ⟨e, he, hse⟩ := H g sc me post
    cases hpre : evalItems tbl g d ie sc me pre with
    | error e' => exact ⟨e', rfl, hP pre hp g sc me e' hpre⟩
    | ok r0 => rw [he]; exact ⟨e, rfl, hse⟩
  | inside pre sel body post hp _ ih =>
    intro g sc me
    rw [evalItems_append]
    cases hpre : evalItems tbl g d ie sc me pre with
    | error e' => exact ⟨e', rfl, hP pre hp g sc me e' hpre⟩
    | ok r0 =>
      cases g with
      | zero => rw [evalItems.eq_2]; exact ⟨_, rfl, hS⟩
      | succ g =>
        obtain ⟨e, he, hse⟩ := ih g ([] :: sc) (identParse (some me) sel)
        rw [evalItems.eq_4, he]
        exact ⟨e, rfl, hse⟩

/-- the trap: nodes `i : ι` name parameterless, unguarded, singly defined mixins whose body reaches
    the call of a successor node (`R i i'`).  A call of node `i` met with `k = 65 - callDepth` levels
    to go is an error in `S k i`, for every family `S` that contains "out of gas", the `NameError` of
    the node reached at the limit, and the errors of the items in front of the calls. -/
theorem trap_err {ι : Type} (tbl : Table) (nm : ι → String) (R : ι → ι → Prop) (C : ι → Prop)
    (P : List Item → Prop) (S : Nat → ι → Err → Prop)
    (hS1 : ∀ k i, S k i .crash) (hS2 : ∀ i, S 0 i (.nameError (nm i)))
    (hS3 : ∀ k i i' e, R i i' → S k i' e → S (k + 1) i e)
    (hP : ∀ pre, P pre → ∀ (g d : Nat) (ie : Bool) (sc : Scope) (me : List Sel) (e : Err),
      evalItems tbl g d ie sc me pre = .error e → ∀ k i, S k i e)
    (hC : ∀ i, C i → ∃ i' body, C i' ∧ R i i' ∧ tbl.candidates (nm i) = [⟨[], [], body⟩] ∧
      Reaches P (nm i') body) :
    ∀ (k : Nat) (i : ι), C i → ∀ (d : Nat) (ie : Bool), 65 - callDepth ie d = k →
      ∀ (g : Nat) (sc : Scope) (me : List Sel) (rest : List Item),
        ∃ e, evalItems tbl g d ie sc me (.call (nm i) [] :: rest) = .error e ∧ S k i e := by
  intro k
  induction k with
  | zero =>
    intro i _ d ie hk g sc me rest
    cases g with
    | zero => rw [evalItems.eq_2]; exact ⟨_, rfl, hS1 _ _⟩
    | succ g =>
      rw [call_unfold, if_pos (by omega)]
      exact ⟨_, rfl, hS2 i⟩
  | succ k ih =>
    intro i hi d ie hk g sc me rest
    cases g with
    | zero => rw [evalItems.eq_2]; exact ⟨_, rfl, hS1 _ _⟩
    | succ g =>
      obtain ⟨i', body, hnext, hR, hcand, hreach⟩ := hC i hi
      have hbody := reaches_err tbl (S k i') (hS1 _ _) (callDepth ie d) true (nm i') P
        (fun g sc me post => ih i' hnext (callDepth ie d) true
          (by show 65 - (callDepth ie d + 1) = k; omega) g sc me post)
        (fun pre hp g sc me e he => hP pre hp g _ _ sc me e he _ _) body hreach g
        ([("arguments", [])] :: sc) me
      obtain ⟨e, he, hse⟩ := hbody
      rw [call_unfold, if_neg (by omega)]
      refine ⟨e, ?_, hS3 _ _ _ _ hR hse⟩
      simp only [List.mapM_nil, pure, Except.pure, bind, Except.bind, expandCall, hcand,
        firstApplicable_plain sc body hreach.ne_nil, he]

/-- the trap with arbitrary items in front of the calls: every call into it is an error -/
theorem trap_isErr (tbl : Table) (C : String → Prop)
    (hC : ∀ n, C n → ∃ n' body, C n' ∧ tbl.candidates n = [⟨[], [], body⟩] ∧
      Reaches (fun _ => True) n' body) (n : String) (hn : C n)
    (g d : Nat) (ie : Bool) (sc : Scope) (me : List Sel) (rest : List Item) :
    ∃ e, evalItems tbl g d ie sc me (.call n [] :: rest) = .error e := by
  obtain ⟨e, he, _⟩ := trap_err tbl (fun n => n) (fun _ _ => True) C (fun _ => True)
    (fun _ _ _ => True) (fun _ _ => trivial) (fun _ => trivial) (fun _ _ _ _ _ _ => trivial)
    (fun _ _ _ _ _ _ _ _ _ _ _ => trivial)
    (fun i hi => by
      obtain ⟨n', body, h1, h2, h3⟩ := hC i hi
      exact ⟨n', body, h1, trivial, h2, h3⟩)
    _ n hn d ie rfl g sc me rest
  exact ⟨e, he⟩

/-- a chain `nm 0 → nm 1 → …` with quiet items in front of the calls: a call of `nm i` is out of gas
    or the `NameError` of the node met at depth 65 -/
theorem chain_err (tbl : Table) (nm : Nat → String)
    (h : ∀ i, ∃ body, tbl.candidates (nm i) = [⟨[], [], body⟩] ∧
      Reaches (fun pre => quietItems pre = true) (nm (i + 1)) body)
    (i g d : Nat) (ie : Bool) (sc : Scope) (me : List Sel) (rest : List Item) :
    ∃ e, evalItems tbl g d ie sc me (.call (nm i) [] :: rest) = .error e ∧
      (e = .crash ∨ e = .nameError (nm (i + (65 - callDepth ie d)))) := by
  refine trap_err tbl nm (fun i i' => i' = i + 1) (fun _ => True)
    (fun pre => quietItems pre = true)
    (fun k i e => e = .crash ∨ e = .nameError (nm (i + k)))
    (fun _ _ => .inl rfl) (fun _ => .inr rfl) ?_ ?_ ?_ _ i trivial d ie rfl g sc me rest
  · rintro k i i' e rfl (he | he)
    · exact .inl he
    · right; rw [he, Nat.add_assoc, Nat.add_comm 1 k]
  · intro pre hp g d ie sc me e he k i
    exact .inl (quiet_error tbl hp he)
  · intro i _
    obtain ⟨body, h1, h2⟩ := h i
    exact ⟨i + 1, body, trivial, rfl, h1, h2⟩

/-! ### M4: the countdown `.loop(@i) when (@i > 0) { w: @i; .loop(@i - 1); }`

Decimal numerals: `toString k` is read back as `k` by `Num.analyze` (the lexeme of a number). -/

theorem numIsDigit_eq (c : Char) : Num.isDigit c = c.isDigit := by
  simp [Num.isDigit, Char.isDigit, Char.le_def]

theorem digitsVal_eq (l : List Char) : Num.digitsVal l = Nat.ofDigitChars 10 l 0 := by
  unfold Num.digitsVal Nat.ofDigitChars
  congr 1
  funext acc c
  rw [Nat.mul_comm]

theorem takeWhile_all {α} (p : α → Bool) : ∀ l : List α, (∀ c ∈ l, p c = true) → l.takeWhile p = l
  | [], _ => rfl
  | a :: l, h => by
    simp only [List.takeWhile_cons, h a List.mem_cons_self, if_true,
      takeWhile_all p l (fun c hc => h c (List.mem_cons_of_mem _ hc))]

theorem dropWhile_all {α} (p : α → Bool) : ∀ l : List α, (∀ c ∈ l, p c = true) → l.dropWhile p = []
  | [], _ => rfl
  | a :: l, h => by
    simp only [List.dropWhile_cons, h a List.mem_cons_self, if_true,
      dropWhile_all p l (fun c hc => h c (List.mem_cons_of_mem _ hc))]

theorem splitUnit_digits (l : List Char) (hne : l ≠ []) (h : ∀ c ∈ l, Num.isDigit c = true) :
    Num.splitUnit l = some (l, []) := by
  have htw : l.takeWhile (fun c => Num.isDigit c || c == '.') = l :=
    takeWhile_all _ l (fun c hc => by simp [h c hc])
  have hdw : l.dropWhile (fun c => Num.isDigit c || c == '.') = [] :=
    dropWhile_all _ l (fun c hc => by simp [h c hc])
  unfold Num.splitUnit
  split
  rename_i heq
  split at heq
  · have := h '-' (by simp)
    simp [Num.isDigit] at this
  · cases heq
    simp [htw, hdw, hne]

theorem parseDec_digits (l : List Char) (hne : l ≠ []) (h : ∀ c ∈ l, Num.isDigit c = true) :
    Num.parseDec l = some (Num.digitsVal l : Rat) := by
  have htw : l.takeWhile Num.isDigit = l := takeWhile_all _ l h
  have hdw : l.dropWhile Num.isDigit = [] := dropWhile_all _ l h
  unfold Num.parseDec
  split
  rename_i heq
  split at heq
  · have := h '-' (by simp)
    simp [Num.isDigit] at this
  · cases heq
    simp [htw, hdw, hne, Num.digitsVal]
    grind

theorem analyze_toString (k : Nat) : Num.analyze (toString k).toList = some ((k : Rat), []) := by
  have hd : ∀ c ∈ Nat.toDigits 10 k, Num.isDigit c = true := fun c hc => by
    rw [numIsDigit_eq]; exact Nat.isDigit_of_mem_toDigits (by decide) (by decide) hc
  have hne : Nat.toDigits 10 k ≠ [] := Nat.toDigits_ne_nil
  rw [Nat.toString_eq_repr, Nat.toList_repr]
  simp [Num.analyze, splitUnit_digits _ hne hd, parseDec_digits _ hne hd, digitsVal_eq]

theorem numOf_toString (k : Nat) : numOf [.lit (toString k)] = some (k : Rat) := by
  simp only [numOf, analyze_toString, Option.map]

theorem unitOf_toString (k : Nat) : unitOf [.lit (toString k)] = "" := by
  simp only [unitOf, analyze_toString]

theorem arithVal_pred (k : Nat) :
    arithVal [.lit (toString (k + 1))] (-1) = .ok [.lit (toString k)] := by
  have hr : (((k + 1 : Nat) : Rat) + ((-1 : Int) : Rat)) = ((k : Nat) : Rat) := by
    rw [← Rat.intCast_natCast, ← Rat.intCast_natCast, ← Rat.intCast_add]
    congr 1; omega
  simp only [arithVal, numOf_toString, unitOf_toString, hr]
  by_cases hk : k = 0
  · subst hk; rfl
  · have : ¬ ((k : Nat) : Rat) = 0 := by simpa using hk
    simp only [this, if_false, Rat.num_natCast, Rat.den_natCast, if_true, String.append_empty]
    rfl

theorem expand_ref_lit {sc : Scope} {n s : String} (h : lookup sc n = some [.lit s]) (f : Nat) :
    expand sc (f + 1) [.ref n] = .ok [.lit s] := by
  simp only [expand, hasRef, if_true, substOnce, h, bind, Except.bind, pure, Except.pure,
    List.append_nil]
  exact expand_of_noRef sc f _ rfl

/-- `.loop(@i) when (@i > 0) { w: @i; .loop(@i - 1); }` -/
def loopDef : MixinDef :=
  { params := [("i", none)], guard := [[⟨false, "i", .gt, 0⟩]],
    body := [.decl "w" [.ref "i"], .call ".loop" [.arith "i" (-1)]] }

/-- the frame of the expansion `.loop(k)` -/
def loopFrame (k : Nat) : Frame := [("i", [.lit (toString k)]), ("arguments", [.lit (toString k)])]

theorem condHolds_loop (sc : Scope) (k : Nat) :
    condHolds (loopFrame k) sc ⟨false, "i", .gt, 0⟩ = decide (0 < k) := by
  have hg : Frame.get (loopFrame k) "i" = some [.lit (toString k)] := by
    simp [loopFrame, Frame.get]
  simp only [condHolds, hg, Option.bind, numOf_toString, Guard.Cmp.eval, Bool.false_eq_true,
    if_false]
  exact decide_eq_decide.mpr Rat.natCast_pos

theorem firstApplicable_loop (sc : Scope) (k : Nat) :
    firstApplicable sc [[.lit (toString k)]] [loopDef] =
      if 0 < k then some (loopDef, loopFrame k) else none := by
  have hf : [("i", [VTok.lit (toString k)])] ++
      [("arguments", intersperseSp [[VTok.lit (toString k)]])] = loopFrame k := rfl
  simp only [firstApplicable, tryMixin, loopDef, bindParams, Option.map, List.isEmpty_cons,
    Bool.false_eq_true, if_false, hf, guardHolds, List.any_cons, List.all_cons, List.any_nil,
    List.all_nil, condHolds_loop, Bool.and_true, Bool.or_false, Bool.not_false, Bool.false_or,
    decide_eq_true_eq]
  by_cases hk : 0 < k <;> simp only [hk, if_true, if_false]

/-- `[("w", k), ("w", k-1), …, ("w", 1)]` -/
def countdown (k : Nat) : List (String × String) :=
  (List.range k).map (fun j => ("w", toString (k - j)))

theorem countdown_succ (k : Nat) : countdown (k + 1) = ("w", toString (k + 1)) :: countdown k := by
  simp only [countdown, List.range_succ_eq_map, List.map_cons, List.map_map, Nat.sub_zero]
  congr 1
  apply List.map_congr_left
  intro j _
  show ("w", toString (k + 1 - (j + 1))) = ("w", toString (k - j))
  rw [Nat.add_sub_add_right]

theorem evalArg_loop_pred (sc : Scope) (k : Nat) :
    evalArg (loopFrame (k + 1) :: sc) (.arith "i" (-1)) = .ok [.lit (toString k)] := by
  have hl : lookup (loopFrame (k + 1) :: sc) "i" = some [.lit (toString (k + 1))] := by
    simp [lookup, loopFrame, Frame.get]
  rw [evalArg_arith, expand_ref_lit hl]
  exact arithVal_pred k

theorem loop_call_zero (tbl : Table) (hc : tbl.candidates ".loop" = [loopDef]) (g d : Nat)
    (ie : Bool) (sc : Scope) (me : List Sel) (a : Arg)
    (ha : evalArg sc a = .ok [.lit (toString 0)]) (hd : callDepth ie d ≤ 64) :
    evalItems tbl (g + 1) d ie sc me [.call ".loop" [a]] = .ok ([], []) := by
  rw [call_unfold, if_neg (by omega), evalItems.eq_1]
  simp only [List.mapM_cons, List.mapM_nil, ha, expandCall, hc, firstApplicable_loop, bind,
    Except.bind, pure, Except.pure, Nat.lt_irrefl, if_false, List.isEmpty_cons, Bool.false_eq_true,
    List.append_nil]

theorem loop_call_succ (tbl : Table) (hc : tbl.candidates ".loop" = [loopDef]) (g d k : Nat)
    (ie : Bool) (sc : Scope) (me : List Sel) (a : Arg)
    (ha : evalArg sc a = .ok [.lit (toString (k + 1))]) (hd : callDepth ie d ≤ 64) :
    evalItems tbl (g + 2) d ie sc me [.call ".loop" [a]] =
      (match evalItems tbl (g + 1) (callDepth ie d) true (loopFrame (k + 1) :: sc) me
          [.call ".loop" [.arith "i" (-1)]] with
        | .ok r => .ok (("w", toString (k + 1)) :: r.1, r.2)
        | .error e => .error e) := by
  have hl : lookup (loopFrame (k + 1) :: sc) "i" = some [.lit (toString (k + 1))] := by
    simp [lookup, loopFrame, Frame.get]
  have hbody : loopDef.body = [.decl "w" [.ref "i"], .call ".loop" [.arith "i" (-1)]] := rfl
  rw [call_unfold, if_neg (by omega), evalItems.eq_1]
  simp only [List.mapM_cons, List.mapM_nil, ha, expandCall, hc, firstApplicable_loop,
    bind, Except.bind, pure, Except.pure, Nat.succ_pos, if_true, hbody]
  rw [evalItems.eq_3, expand_ref_lit hl]
  cases evalItems tbl (g + 1) (callDepth ie d) true (loopFrame (k + 1) :: sc) me
      [.call ".loop" [.arith "i" (-1)]] with
  | error e => rfl
  | ok r => simp [liftV, bind, Except.bind, pure, Except.pure, valText, litText, String.join]

theorem loop_ok (tbl : Table) (hc : tbl.candidates ".loop" = [loopDef]) :
    ∀ (k g d : Nat) (ie : Bool) (sc : Scope) (me : List Sel) (a : Arg),
      evalArg sc a = .ok [.lit (toString k)] → callDepth ie d + k ≤ 64 → k + 1 ≤ g →
        evalItems tbl g d ie sc me [.call ".loop" [a]] = .ok (countdown k, []) := by
  intro k
  induction k with
  | zero =>
    intro g d ie sc me a ha hd hg
    obtain ⟨g', rfl⟩ : ∃ g', g = g' + 1 := ⟨g - 1, by omega⟩
    exact loop_call_zero tbl hc g' d ie sc me a ha (by omega)
  | succ k ih =>
    intro g d ie sc me a ha hd hg
    obtain ⟨g', rfl⟩ : ∃ g', g = g' + 2 := ⟨g - 2, by omega⟩
    rw [loop_call_succ tbl hc g' d k ie sc me a ha (by omega),
      ih (g' + 1) (callDepth ie d) true _ me _ (evalArg_loop_pred sc k)
        (by show callDepth ie d + 1 + k ≤ 64; omega) (by omega), countdown_succ]

theorem loop_err (tbl : Table) (hc : tbl.candidates ".loop" = [loopDef]) :
    ∀ (j k g d : Nat) (ie : Bool) (sc : Scope) (me : List Sel) (a : Arg),
      evalArg sc a = .ok [.lit (toString k)] → 65 - callDepth ie d = j → j ≤ k → j + 1 ≤ g →
        evalItems tbl g d ie sc me [.call ".loop" [a]] = .error (.nameError ".loop") := by
  intro j
  induction j with
  | zero =>
    intro k g d ie sc me a ha hd hk hg
    obtain ⟨g', rfl⟩ : ∃ g', g = g' + 1 := ⟨g - 1, by omega⟩
    rw [call_unfold, if_pos (by omega)]
  | succ j ih =>
    intro k g d ie sc me a ha hd hk hg
    obtain ⟨g', rfl⟩ : ∃ g', g = g' + 2 := ⟨g - 2, by omega⟩
    obtain ⟨k', rfl⟩ : ∃ k', k = k' + 1 := ⟨k - 1, by omega⟩
    rw [loop_call_succ tbl hc g' d k' ie sc me a ha (by omega),
      ih k' (g' + 1) (callDepth ie d) true _ me _ (evalArg_loop_pred sc k')
        (by show 65 - (callDepth ie d + 1) = j; omega) (by omega) (by omega)]

/-! ### `compile` on a sheet whose first / only rule is known -/

theorem compile_first_rule_error (g : Nat) (sheet : List Top) (sel : List Tok) (body : List Item)
    (rs : List (List Tok × List Item)) (e : Err) (hr : rulesOf sheet = (sel, body) :: rs)
    (h : evalItems (buildTable sheet) g 0 false [[], []] (identParse none sel) body = .error e) :
    compile g sheet = .error e := by
  rw [compile_eq_go, go_eq_compileRules, hr]
  simp only [compileRules, compileRule, h]
  rfl

theorem compile_single_rule (g : Nat) (sheet : List Top) (sel : List Tok) (body : List Item)
    (ds : List (String × String)) (out : List OutRule) (hr : rulesOf sheet = [(sel, body)])
    (h : evalItems (buildTable sheet) g 0 false [[], []] (identParse none sel) body = .ok (ds, out)) :
    compile g sheet =
      .ok ((if ds.isEmpty then [] else [⟨identParse none sel, ds⟩]) ++ out) := by
  rw [compile_eq_go, go_eq_compileRules, hr]
  simp only [compileRules, compileRule, h, bind, Except.bind, pure, Except.pure, List.append_nil]

/-- the sheet `.loop(@i) when (@i > 0) { w: @i; .loop(@i - 1); }  .a { .loop(n); }` -/
def countdownSheet (n : Nat) : List Top :=
  [.mdef ".loop" loopDef, .rule [".a"] [.call ".loop" [.val [.lit (toString n)]]]]

theorem countdownSheet_candidates (n : Nat) :
    (buildTable (countdownSheet n)).candidates ".loop" = [loopDef] := by
  simp [countdownSheet, buildTable, Table.candidates]

theorem identParse_a : identParse none [".a"] = [[".a"]] := by decide +kernel

end Lessm.Mixin
