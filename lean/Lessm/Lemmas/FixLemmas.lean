/-
  Helper lemmas of property C10 (reading the output back): the selector round trip
  `encode (joinSels sels) = sels`, `pairwiseFilter s = s`, and the invariants that make the output of
  `identParse` canonical.
-/
import Lessm.Spec.FixSpec
import Lessm.Props.C01
namespace Lessm.Nest
open Lessm.Sel

/-! ### tokens -/

theorem isEnc_cases {t : Tok} (h : isEnc t = true) : t = "?>?" ∨ t = "?+?" ∨ t = "?~?" := by
  simpa [isEnc, or_assoc] using h

theorem isComb_cases {t : Tok} (h : isComb t = true) : t = ">" ∨ t = "+" ∨ t = "~" := by
  simpa [isComb, or_assoc] using h

theorem isEncLike_of_isEnc {t : Tok} (h : isEnc t = true) : isEncLike t = true := by
  rcases isEnc_cases h with rfl | rfl | rfl <;> decide

theorem isEnc_encComb {t : Tok} (h : isComb t = true) : isEnc (encComb t) = true := by
  rcases isComb_cases h with rfl | rfl | rfl <;> decide

theorem canonTok_encComb {t : Tok} (h : isComb t = true) : canonTok (encComb t) = true := by
  rcases isComb_cases h with rfl | rfl | rfl <;> decide

theorem encComb_ne_space {t : Tok} (h : isComb t = true) : encComb t ≠ " " := by
  rcases isComb_cases h with rfl | rfl | rfl <;> decide

theorem decodeTok_of_not_enc {t : Tok} (h : isEnc t = false) : decodeTok t = t := by
  simp only [isEnc, Bool.or_eq_false_iff] at h
  simp [decodeTok, h.1.1, h.1.2, h.2]

theorem decodeTok_enc {t : Tok} (h : isEnc t = true) :
    isComb (decodeTok t) = true ∧ encComb (decodeTok t) = t ∧ (decodeTok t == "*") = false := by
  rcases isEnc_cases h with rfl | rfl | rfl <;> decide

theorem canonTok_not_enc {t : Tok} (h : canonTok t = true) (_he : isEnc t = false) :
    (t == "*") = false ∧ isComb t = false ∧ (t == ",") = false := by
  simp only [canonTok, Bool.and_eq_true, bne_iff_ne, ne_eq, Bool.not_eq_true'] at h
  obtain ⟨⟨⟨⟨h1, _⟩, h3⟩, h4⟩, _⟩ := h
  exact ⟨by simpa using h3, h4, by simpa using h1⟩

/-! ### the selector round trip -/

theorem popSpaceRev_id {cur : List Tok} (h : cur.head? ≠ some " ") : popSpaceRev cur = cur := by
  unfold popSpaceRev
  split
  · simp at h
  · rfl

/-- re-encoding the decoded tokens of one canonical selector appends it to the current name -/
theorem encodeLoop_decodeSel (s : Sel) : ∀ (cur : List Tok) (done : List Sel) (rest : List Tok),
    s.all canonTok = true → noSpaceBeforeEnc s = true →
    (∀ u r, s = u :: r → isEnc u = true → cur.head? ≠ some " ") →
    encodeLoop (decodeSel s ++ rest) cur done = encodeLoop rest (s.reverse ++ cur) done := by
  induction s with
  | nil => intros; rfl
  | cons t s' ih =>
    intro cur done rest hc hn hcur
    simp only [List.all_cons, Bool.and_eq_true] at hc
    have hn' : noSpaceBeforeEnc s' = true := by
      cases s' with
      | nil => rfl
      | cons u r => simp only [noSpaceBeforeEnc, Bool.and_eq_true] at hn; exact hn.2
    simp only [decodeSel, List.map_cons, List.cons_append, List.reverse_cons, List.append_assoc]
    cases he : isEnc t with
    | true =>
      obtain ⟨h1, h2, h3⟩ := decodeTok_enc he
      have hpop := popSpaceRev_id (hcur t s' rfl he)
      simp only [encodeLoop, h3, h1, Bool.false_eq_true, if_false, if_true, h2, hpop]
      have := ih (t :: cur) done rest hc.2 hn' (fun u r _ _ => by
        simp only [List.head?_cons, ne_eq, Option.some.injEq]
        rcases isEnc_cases he with rfl | rfl | rfl <;> decide)
      simpa [decodeSel] using this
    | false =>
      obtain ⟨h1, h2, h3⟩ := canonTok_not_enc hc.1 he
      simp only [decodeTok_of_not_enc he, encodeLoop, h1, h2, h3, Bool.false_eq_true, if_false]
      have := ih (t :: cur) done rest hc.2 hn' (fun u r hs hu => by
        subst hs
        simp only [noSpaceBeforeEnc, Bool.and_eq_true, Bool.not_eq_true', Bool.and_eq_false_iff] at hn
        simp only [List.head?_cons, ne_eq, Option.some.injEq]
        rcases hn.1 with h | h
        · simpa using h
        · rw [isEncLike_of_isEnc hu] at h; exact absurd h (by decide))
      simpa [decodeSel] using this

/-- the minimal hypothesis of the round trip on one selector -/
def Readable (s : Sel) : Prop := s.all canonTok = true ∧ noSpaceBeforeEnc s = true

theorem encodeLoop_joinSels : ∀ (sels : List Sel) (done : List Sel), sels ≠ [] →
    (∀ s ∈ sels, Readable s) → encodeLoop (joinSels sels) [] done = done.reverse ++ sels
  | [], _, h, _ => absurd rfl h
  | [s], done, _, hs => by
      have h := hs s (by simp)
      have := encodeLoop_decodeSel s [] done [] h.1 h.2 (fun _ _ _ _ => by simp)
      simp only [List.append_nil] at this
      simp [joinSels, this, encodeLoop]
  | s :: s2 :: r, done, _, hs => by
      have h := hs s (by simp)
      have := encodeLoop_decodeSel s [] done ("," :: joinSels (s2 :: r)) h.1 h.2 (fun _ _ _ _ => by simp)
      simp only [List.append_nil] at this
      have h1 : (("," : Tok) == "*") = false := by decide
      have h2 : isComb "," = false := by decide
      simp only [joinSels, this, encodeLoop, h1, h2, Bool.false_eq_true, if_false, beq_self_eq_true,
        if_true, List.reverse_reverse]
      rw [encodeLoop_joinSels (s2 :: r) (s :: done) (by simp) (fun x hx => hs x (by simp [hx]))]
      simp

theorem encode_joinSels (sels : List Sel) (hne : sels ≠ []) (hs : ∀ s ∈ sels, Readable s) :
    encode (joinSels sels) = sels := by
  unfold encode
  rw [encodeLoop_joinSels sels [] hne hs]; rfl

theorem pairwiseFilter_id : ∀ (s : Sel), noSpaceBeforeEnc s = true → pairwiseFilter s = s
  | [], _ => rfl
  | [t], h => by
      have : (t == " ") = false := by simpa [noSpaceBeforeEnc] using h
      simp [pairwiseFilter, this]
  | t :: u :: r, h => by
      simp only [noSpaceBeforeEnc, Bool.and_eq_true, Bool.not_eq_true'] at h
      simp only [pairwiseFilter, h.1, Bool.false_eq_true, if_false]
      rw [pairwiseFilter_id (u :: r) h.2]

/-- the selector round trip: a non-empty list of readable selectors, written with `,` and decoded
    combinators, is parsed back to itself -/
theorem identParse_joinSels (sels : List Sel) (hne : sels ≠ []) (hs : ∀ s ∈ sels, Readable s) :
    identParse none (joinSels sels) = sels := by
  rw [C01_no_parent, encode_joinSels sels hne hs]
  conv => rhs; rw [← List.map_id sels]
  apply List.map_congr_left
  intro s h
  exact pairwiseFilter_id s (hs s h).2

/-! ### chains -/

/-- a token after which a `" "` may not stand -/
def soft (t : Tok) : Bool := t == " " || isEnc t

/-- may `b` follow `a` in a rooted selector? -/
def okAfter (a b : Tok) : Bool := !(b == " " && soft a)

/-- `chainFrom a s`: `s`, read after the token `a`, has no `" "` after a `" "` or an encoded
    combinator; `chainFrom " " s` also says that `s` does not start with `" "` -/
def chainFrom (a : Tok) : Sel → Bool
  | [] => true
  | b :: r => okAfter a b && chainFrom b r

/-- the last token of `a :: l` -/
def lastOr (a : Tok) : Sel → Tok
  | [] => a
  | b :: r => lastOr b r

theorem lastOr_append (l₁ l₂ : Sel) (a : Tok) : lastOr a (l₁ ++ l₂) = lastOr (lastOr a l₁) l₂ := by
  induction l₁ generalizing a with
  | nil => rfl
  | cons b r ih => simp [lastOr, ih]

theorem lastOr_ne_nil {l : Sel} (h : l ≠ []) (a b : Tok) : lastOr a l = lastOr b l := by
  cases l with
  | nil => exact absurd rfl h
  | cons x r => rfl

theorem getLast?_eq_lastOr {l : Sel} (h : l ≠ []) (a : Tok) : l.getLast? = some (lastOr a l) := by
  induction l generalizing a with
  | nil => exact absurd rfl h
  | cons b r ih =>
    cases r with
    | nil => rfl
    | cons c r' => rw [List.getLast?_cons_cons, ih (by simp) b]; rfl

theorem chainFrom_append (l₁ l₂ : Sel) (a : Tok) :
    chainFrom a (l₁ ++ l₂) = (chainFrom a l₁ && chainFrom (lastOr a l₁) l₂) := by
  induction l₁ generalizing a with
  | nil => simp [chainFrom, lastOr]
  | cons b r ih => simp [chainFrom, ih, lastOr, Bool.and_assoc]

theorem chainFrom_congr {a a' : Tok} (h : soft a = soft a') (l : Sel) : chainFrom a l = chainFrom a' l := by
  cases l with
  | nil => rfl
  | cons b r => simp [chainFrom, okAfter, h]

theorem chainFrom_weaken {a : Tok} {l : Sel} (h : chainFrom " " l = true) : chainFrom a l = true := by
  cases l with
  | nil => rfl
  | cons b r =>
    simp only [chainFrom, okAfter, Bool.and_eq_true, Bool.not_eq_true', Bool.and_eq_false_iff] at h ⊢
    refine ⟨?_, h.2⟩
    rcases h.1 with h1 | h1
    · exact Or.inl h1
    · exact absurd h1 (by decide)

/-- the explicit conditions of `CanonSel` are the chain condition -/
theorem chainFrom_cons_eq (a b : Tok) (r : Sel) :
    chainFrom a (b :: r) = (okAfter a b && noSpaceAfterEnc (b :: r) && noDoubleSpace (b :: r)) := by
  induction r generalizing a b with
  | nil => simp [chainFrom, noSpaceAfterEnc, noDoubleSpace]
  | cons c r' ih =>
    rw [chainFrom, ih b c]
    have e : okAfter b c = !(c == " " && (b == " " || isEnc b)) := rfl
    rw [e]
    simp only [noSpaceAfterEnc, noDoubleSpace]
    generalize okAfter a b = x
    generalize noSpaceAfterEnc (c :: r') = y
    generalize noDoubleSpace (c :: r') = z
    generalize (c == " ") = p
    generalize (b == " ") = q
    generalize isEnc b = w
    cases x <;> cases y <;> cases z <;> cases p <;> cases q <;> cases w <;> rfl

theorem chainFrom_space_iff (s : Sel) :
    chainFrom " " s = (noSpaceAfterEnc s && noDoubleSpace s && (s.head? != some " ")) := by
  cases s with
  | nil => rfl
  | cons b r =>
    rw [chainFrom_cons_eq]
    have : okAfter " " b = (some b != some " ") := by
      by_cases h : b = " "
      · subst h; decide
      · have h1 : (b == " ") = false := by simpa using h
        have h2 : (some b == some " ") = false := by simpa using h
        simp [okAfter, h1, bne, h2]
    simp only [this, List.head?_cons]
    generalize (some b != some " ") = x
    generalize noSpaceAfterEnc (b :: r) = y
    generalize noDoubleSpace (b :: r) = z
    cases x <;> cases y <;> cases z <;> rfl

theorem canonSel_iff (s : Sel) :
    CanonSel s = true ↔ s ≠ [] ∧ s.all canonTok = true ∧ noSpaceBeforeEnc s = true ∧ chainFrom " " s = true := by
  rw [chainFrom_space_iff]
  simp only [CanonSel, Bool.and_eq_true, Bool.not_eq_true', List.isEmpty_eq_false_iff]
  constructor
  · rintro ⟨⟨⟨⟨⟨a, b⟩, c⟩, d⟩, e⟩, f⟩; exact ⟨a, b, c, ⟨d, e⟩, f⟩
  · rintro ⟨a, b, c, ⟨d, e⟩, f⟩; exact ⟨⟨⟨⟨⟨a, b⟩, c⟩, d⟩, e⟩, f⟩

/-! ### `pairwiseFilter` makes a rooted selector canonical -/

theorem pf_head {t : Tok} (r : Sel) (h : t ≠ " ") : ∃ X, pairwiseFilter (t :: r) = t :: X := by
  have h' : (t == " ") = false := by simpa using h
  cases r with
  | nil => exact ⟨[], by simp [pairwiseFilter, h']⟩
  | cons u rest => exact ⟨pairwiseFilter (u :: rest), by simp [pairwiseFilter, h']⟩

theorem pf_subset : ∀ (s : Sel), ∀ x ∈ pairwiseFilter s, x ∈ s
  | [], _, h => by simp [pairwiseFilter] at h
  | [t], x, h => by
      cases ht : (t == " ") with
      | true => simp [pairwiseFilter, ht] at h
      | false => simpa [pairwiseFilter, ht] using h
  | t :: u :: r, x, h => by
      cases hc : (t == " " && isEncLike u) with
      | true =>
        simp only [pairwiseFilter, hc, if_true] at h
        exact List.mem_cons_of_mem _ (pf_subset (u :: r) x h)
      | false =>
        simp only [pairwiseFilter, hc, Bool.false_eq_true, if_false, List.mem_cons] at h
        rcases h with h | h
        · simp [h]
        · exact List.mem_cons_of_mem _ (pf_subset (u :: r) x h)

theorem pf_chain : ∀ (s : Sel) (a : Tok), chainFrom a s = true → chainFrom a (pairwiseFilter s) = true
  | [], _, _ => rfl
  | [t], a, h => by
      cases ht : (t == " ") with
      | true => simp [pairwiseFilter, ht, chainFrom]
      | false => simpa [pairwiseFilter, ht] using h
  | t :: u :: r, a, h => by
      have h' := h
      rw [chainFrom, Bool.and_eq_true] at h'
      cases hc : (t == " " && isEncLike u) with
      | true =>
        simp only [pairwiseFilter, hc, if_true]
        have ht : t = " " := by
          simp only [Bool.and_eq_true, beq_iff_eq] at hc; exact hc.1
        subst ht
        exact chainFrom_weaken (pf_chain (u :: r) " " h'.2)
      | false =>
        simp only [pairwiseFilter, hc, Bool.false_eq_true, if_false]
        simp only [chainFrom, Bool.and_eq_true]
        exact ⟨h'.1, pf_chain (u :: r) t h'.2⟩

theorem nsbe_cons {t : Tok} {X : Sel} (ht : t ≠ " ") (h : noSpaceBeforeEnc X = true) :
    noSpaceBeforeEnc (t :: X) = true := by
  have h' : (t == " ") = false := by simpa using ht
  cases X with
  | nil => simp [noSpaceBeforeEnc, ht]
  | cons x r => simp [noSpaceBeforeEnc, h', h]

theorem pf_nsbe : ∀ (s : Sel) (a : Tok), chainFrom a s = true → noSpaceBeforeEnc (pairwiseFilter s) = true
  | [], _, _ => rfl
  | [t], a, h => by
      cases ht : (t == " ") with
      | true => simp [pairwiseFilter, ht, noSpaceBeforeEnc]
      | false =>
        simp only [pairwiseFilter, ht, Bool.false_eq_true, if_false, noSpaceBeforeEnc]
        simpa using ht
  | t :: u :: r, a, h => by
      have h' := h
      rw [chainFrom, Bool.and_eq_true] at h'
      have ih := pf_nsbe (u :: r) t h'.2
      cases hc : (t == " " && isEncLike u) with
      | true => simpa only [pairwiseFilter, hc, if_true] using ih
      | false =>
        simp only [pairwiseFilter, hc, Bool.false_eq_true, if_false]
        by_cases ht : t = " "
        · subst ht
          have hq : isEncLike u = false := by simpa using hc
          have hu : u ≠ " " := by
            have := h'.2
            rw [chainFrom, Bool.and_eq_true] at this
            intro hu; subst hu
            exact absurd this.1 (by decide)
          obtain ⟨X, hX⟩ := pf_head r hu
          rw [hX] at ih ⊢
          simp [noSpaceBeforeEnc, hq, ih]
        · exact nsbe_cons ht ih

theorem pf_last : ∀ (s : Sel) (a : Tok), chainFrom a s = true → isEnc (lastOr a s) = false →
    isEnc (lastOr a (pairwiseFilter s)) = false
  | [], _, _, h => h
  | [t], a, hch, h => by
      cases ht : (t == " ") with
      | true =>
        simp only [pairwiseFilter, ht, if_true, lastOr]
        have ht' : t = " " := by simpa using ht
        subst ht'
        simp only [chainFrom, okAfter, soft, Bool.and_true, Bool.not_eq_true', Bool.and_eq_false_iff,
          Bool.or_eq_false_iff] at hch
        rcases hch with h1 | h1
        · exact absurd h1 (by decide)
        · exact h1.2
      | false => simpa [pairwiseFilter, ht] using h
  | t :: u :: r, a, hch, h => by
      have h' := hch
      rw [chainFrom, Bool.and_eq_true] at h'
      have ih := pf_last (u :: r) t h'.2 h
      cases hc : (t == " " && isEncLike u) with
      | false =>
        simp only [pairwiseFilter, hc, Bool.false_eq_true, if_false]
        exact ih
      | true =>
        simp only [pairwiseFilter, hc, if_true]
        have ht : t = " " := by
          simp only [Bool.and_eq_true, beq_iff_eq] at hc; exact hc.1
        subst ht
        cases hp : pairwiseFilter (u :: r) with
        | nil =>
          simp only [lastOr]
          have := h'.1
          simp only [okAfter, soft, Bool.not_eq_true', Bool.and_eq_false_iff, Bool.or_eq_false_iff] at this
          rcases this with h1 | h1
          · exact absurd h1 (by decide)
          · exact h1.2
        | cons x X => rw [hp] at ih; exact ih

theorem nsbe_last : ∀ (l : Sel) (d : Tok), l ≠ [] → noSpaceBeforeEnc l = true → lastOr d l ≠ " "
  | [], _, h, _ => absurd rfl h
  | [t], _, _, h => by simpa [noSpaceBeforeEnc, lastOr] using h
  | t :: u :: r, _, _, h => by
      simp only [noSpaceBeforeEnc, Bool.and_eq_true] at h
      exact nsbe_last (u :: r) t (by simp) h.2

/-- a rooted selector before / after `pairwiseFilter` -/
def PreSel (s : Sel) : Prop :=
  s ≠ [] ∧ s.all canonTok = true ∧ chainFrom " " s = true ∧ isEnc (lastOr " " s) = false

/-- canonical, and not ending in an encoded combinator: the invariant of nesting -/
def StrongSel (s : Sel) : Prop :=
  s ≠ [] ∧ s.all canonTok = true ∧ noSpaceBeforeEnc s = true ∧ chainFrom " " s = true ∧
    soft (lastOr " " s) = false

theorem StrongSel.canon {s : Sel} (h : StrongSel s) : CanonSel s = true :=
  (canonSel_iff s).mpr ⟨h.1, h.2.1, h.2.2.1, h.2.2.2.1⟩

theorem strong_of_pre {s : Sel} (h : PreSel s) : StrongSel (pairwiseFilter s) := by
  obtain ⟨hne, hc, hch, hl⟩ := h
  have hne' : pairwiseFilter s ≠ [] := by
    cases s with
    | nil => exact absurd rfl hne
    | cons t r =>
      have ht : t ≠ " " := by
        intro ht; subst ht
        rw [chainFrom, Bool.and_eq_true] at hch
        exact absurd hch.1 (by decide)
      obtain ⟨X, hX⟩ := pf_head r ht
      simp [hX]
  have hn := pf_nsbe s " " hch
  refine ⟨hne', ?_, hn, pf_chain s " " hch, ?_⟩
  · exact List.all_eq_true.mpr (fun x hx => List.all_eq_true.mp hc x (pf_subset s x hx))
  · have h1 := nsbe_last _ " " hne' hn
    have h2 := pf_last s " " hch hl
    simp [soft, h1, h2]

/-! ### rooting -/

/-- token of an encoded name: canonical, or — inside a rule — `&` -/
def tokA (top : Bool) (t : Tok) : Bool := canonTok t || (!top && t == "&")

/-- an encoded name (member of `encode toks` for a well-formed `toks`) -/
def NameOK (top : Bool) (n : Sel) : Prop :=
  n ≠ [] ∧ n.all (tokA top) = true ∧ chainFrom " " n = true ∧ isEnc (lastOr " " n) = false

theorem soft_amp : soft "&" = false := by decide
theorem canonTok_space : canonTok " " = true := by decide

theorem soft_of_bracket {l : Tok} (h : endsWithBracket l = true) : soft l = false := by
  cases hs : soft l with
  | false => rfl
  | true =>
    simp only [soft, Bool.or_eq_true, beq_iff_eq] at hs
    rcases hs with rfl | hs
    · exact absurd h (by decide)
    · rcases isEnc_cases hs with rfl | rfl | rfl <;> exact absurd h (by decide)

theorem StrongSel.noTrail {p : Sel} (h : StrongSel p) : NoTrail p := by
  unfold NoTrail
  rw [getLast?_eq_lastOr h.1 " "]
  intro h1
  have h2 := h.2.2.2.2
  simp only [Option.some.injEq] at h1
  rw [h1] at h2
  exact absurd h2 (by decide)

theorem isEnc_false_of_soft {t : Tok} (h : soft t = false) : isEnc t = false := by
  simp only [soft, Bool.or_eq_false_iff] at h; exact h.2

theorem countAmp_cons (t : Tok) (ts : Sel) :
    countAmp (t :: ts) = countAmp ts + if (t == "&") = true then 1 else 0 := by
  simp [countAmp, List.count_cons]

theorem substAmp_pre (name : Sel) : ∀ (perm : List Sel) (acc : Sel),
    perm.length = countAmp name → name.all (tokA false) = true → (∀ p ∈ perm, StrongSel p) →
    acc.all canonTok = true → chainFrom " " acc = true → chainFrom (lastOr " " acc) name = true →
    isEnc (lastOr " " (acc ++ name)) = false → (acc ≠ [] ∨ name ≠ []) →
    PreSel (substAmp name perm acc) := by
  induction name with
  | nil =>
    intro perm acc _ _ _ hacc hch _ hl hne
    simp only [List.append_nil] at hl
    simp only [substAmp]
    exact ⟨by simpa using hne, hacc, hch, hl⟩
  | cons t ts ih =>
    intro perm acc hlen hname hperm hacc hch hnext hl _
    simp only [List.all_cons, Bool.and_eq_true] at hname
    rw [chainFrom, Bool.and_eq_true] at hnext
    rw [countAmp_cons] at hlen
    cases ht : (t == "&") with
    | true =>
      have ht' : t = "&" := by simpa using ht
      subst ht'
      simp only [ht, if_true] at hlen
      cases perm with
      | nil => simp at hlen
      | cons p perm' =>
        have hp := hperm p (by simp)
        simp only [substAmp, beq_self_eq_true, if_true]
        rw [dropLastSpace_id p hp.noTrail]
        have hacc1 : ∃ acc1, (if lastEndsBracket acc = true then acc ++ [" "] else acc) = acc1 ∧
            acc1.all canonTok = true ∧ chainFrom " " acc1 = true := by
          cases hb : lastEndsBracket acc with
          | false => exact ⟨acc, by simp, hacc, hch⟩
          | true =>
            refine ⟨acc ++ [" "], by simp, by simp [List.all_append, hacc, canonTok_space], ?_⟩
            rw [chainFrom_append, hch]
            have hne : acc ≠ [] := by
              intro h0; subst h0; simp [lastEndsBracket] at hb
            have hs : soft (lastOr " " acc) = false := by
              unfold lastEndsBracket at hb
              rw [getLast?_eq_lastOr hne " "] at hb
              exact soft_of_bracket hb
            simp [chainFrom, okAfter, hs]
        obtain ⟨acc1, he, hc1, hch1⟩ := hacc1
        rw [he]
        have hpl : soft (lastOr (lastOr " " acc1) p) = false := by
          rw [lastOr_ne_nil hp.1 _ " "]; exact hp.2.2.2.2
        apply ih perm' (acc1 ++ p) (by simpa using hlen) hname.2 (fun q hq => hperm q (by simp [hq]))
        · simp [List.all_append, hc1, hp.2.1]
        · rw [chainFrom_append, hch1, chainFrom_weaken hp.2.2.2.1]; rfl
        · rw [lastOr_append, chainFrom_congr (hpl.trans soft_amp.symm)]; exact hnext.2
        · rw [List.append_assoc, lastOr_append, lastOr_append]
          rw [lastOr_append] at hl
          cases ts with
          | nil => simpa [lastOr] using isEnc_false_of_soft hpl
          | cons x r => simpa [lastOr] using hl
        · exact Or.inl (by simp [hp.1])
    | false =>
      simp only [ht, Bool.false_eq_true, if_false, Nat.add_zero] at hlen
      have hct : canonTok t = true := by
        have := hname.1
        simpa [tokA, ht] using this
      simp only [substAmp, ht, Bool.false_eq_true, if_false]
      apply ih perm (acc ++ [t]) hlen hname.2 hperm
      · simp [List.all_append, hacc, hct]
      · rw [chainFrom_append, hch]; simp [chainFrom, hnext.1]
      · rw [lastOr_append]; exact hnext.2
      · simpa using hl
      · exact Or.inl (by simp)

theorem tokA_no_amp {name : Sel} {top : Bool} (hc : name.all (tokA top) = true) (h0 : countAmp name = 0) :
    name.all canonTok = true := by
  rw [List.all_eq_true] at hc ⊢
  intro t ht
  have := hc t ht
  have hne : (t == "&") = false := by
    cases h : (t == "&") with
    | false => rfl
    | true =>
      have : t = "&" := by simpa using h
      subst this
      have : 0 < countAmp name := List.count_pos_iff.mpr ht
      omega
  simpa [tokA, hne] using this

theorem rootOne_pre (ps : List Sel) (name : Sel) (hps : ∀ p ∈ ps, StrongSel p) (hn : NameOK false name) :
    ∀ s ∈ rootOne ps name, PreSel s := by
  intro s hs
  unfold rootOne at hs
  by_cases hk : countAmp name = 0
  · simp only [hk, ne_eq, not_true_eq_false, if_false, List.mem_map] at hs
    obtain ⟨part, hpart, rfl⟩ := hs
    have hp := hps part hpart
    have h1 : part.isEmpty = false := by simpa using hp.1
    have hsoft := hp.2.2.2.2
    have h2 : (part.getLast? != some " ") = true := by
      have := hp.noTrail
      unfold NoTrail at this
      simpa [bne_iff_ne] using this
    simp only [h1, Bool.false_eq_true, if_false, h2, if_true]
    refine ⟨by simp [hp.1], ?_, ?_, ?_⟩
    · simp [List.all_append, hp.2.1, canonTok_space, tokA_no_amp hn.2.1 hk]
    · rw [chainFrom_append, chainFrom_append, hp.2.2.2.1, lastOr_append]
      simp [chainFrom, okAfter, hsoft, lastOr, hn.2.2.1]
    · rw [lastOr_append, lastOr_append]; simpa [lastOr] using hn.2.2.2
  · simp only [hk, ne_eq, not_false_eq_true, if_true, List.mem_map] at hs
    obtain ⟨perm, hperm, rfl⟩ := hs
    obtain ⟨hlen, hmem⟩ := (tuples_mem ps _ perm).mp hperm
    exact substAmp_pre name perm [] hlen (by
        rw [List.all_eq_true] at *
        intro t ht
        have := hn.2.1
        rw [List.all_eq_true] at this
        exact this t ht) (fun p hp => hps p (hmem p hp)) rfl rfl hn.2.2.1
      (by simpa using hn.2.2.2) (Or.inr hn.1)

theorem rootOne_ne_nil (ps : List Sel) (name : Sel) (hps : ps ≠ []) : rootOne ps name ≠ [] := by
  unfold rootOne
  by_cases hk : countAmp name = 0
  · simp [hk, hps]
  · simp only [hk, ne_eq, not_false_eq_true, if_true]
    intro h
    have := congrArg List.length h
    simp only [List.length_map, tuples_length, List.length_nil] at this
    have hpos : 0 < ps.length := List.length_pos_iff.mpr hps
    have := Nat.pow_pos (n := countAmp name) hpos
    omega

/-! ### encoding a well-formed source selector -/

/-- the previous source token `prev` is consistent with the head of the (reversed) current name -/
def link (prev : Tok) : List Tok → Bool
  | [] => prev == ","
  | h :: _ =>
      if h == " " then prev == " " else if isEnc h then isComb prev
      else !(prev == "," || prev == " " || isComb prev)

theorem lastOr_reverse_cons (d h : Tok) (c : List Tok) : lastOr d (h :: c).reverse = h := by
  simp [lastOr_append, lastOr]

theorem srcPair_comma {prev : Tok} (h : srcPair prev "," = true) :
    (prev == ",") = false ∧ isComb prev = false := by
  have e : srcPair prev "," = !(prev == "," || isComb prev) := by
    simp [srcPair]
  rw [e] at h
  simpa using h

theorem srcPair_space {prev : Tok} (h : srcPair prev " " = true) :
    (prev == " ") = false ∧ (prev == ",") = false ∧ isComb prev = false := by
  have e : srcPair prev " " = !(prev == " " || prev == "," || isComb prev) := by
    simp [srcPair]
  rw [e] at h
  simpa [and_assoc] using h

theorem link_soft {prev : Tok} {cur : List Tok} (hl : link prev cur = true) (hp : srcPair prev " " = true) :
    soft (lastOr " " cur.reverse) = false := by
  obtain ⟨h1, h2, h3⟩ := srcPair_space hp
  cases cur with
  | nil => simp [link, h2] at hl
  | cons h c =>
    rw [lastOr_reverse_cons]
    simp only [link] at hl
    cases hs : (h == " ") with
    | true => simp [hs, h1] at hl
    | false =>
      cases he : isEnc h with
      | true => simp [hs, he, h3] at hl
      | false => simp [soft, hs, he]

theorem encode_fin {top : Bool} {prev : Tok} {cur : List Tok} (hp : srcPair prev "," = true)
    (hl : link prev cur = true) (hc : cur.all (tokA top) = true) (hch : chainFrom " " cur.reverse = true) :
    NameOK top cur.reverse := by
  obtain ⟨h1, h2⟩ := srcPair_comma hp
  cases cur with
  | nil => simp [link, h1] at hl
  | cons h c =>
    refine ⟨by simp, by simpa [List.all_reverse, and_comm] using hc, hch, ?_⟩
    rw [lastOr_reverse_cons]
    cases he : isEnc h with
    | false => rfl
    | true =>
      have hs : (h == " ") = false := by
        rcases isEnc_cases he with rfl | rfl | rfl <;> decide
      simp [link, hs, he, h2] at hl

theorem popSpaceRev_cases (cur : List Tok) : popSpaceRev cur = cur ∨ cur = " " :: popSpaceRev cur := by
  unfold popSpaceRev
  split
  · exact Or.inr rfl
  · exact Or.inl rfl

theorem isEncLike_false_not_enc {t : Tok} (h : isEncLike t = false) : isEnc t = false := by
  cases he : isEnc t with
  | false => rfl
  | true => rw [isEncLike_of_isEnc he] at h; exact absurd h (by decide)

theorem encodeLoop_ok (top : Bool) (toks : List Tok) : ∀ (prev : Tok) (cur : List Tok) (done : List Sel),
    toks.all (srcTok top) = true → srcChain prev (toks ++ [","]) = true → link prev cur = true →
    cur.all (tokA top) = true → chainFrom " " cur.reverse = true → (∀ n ∈ done, NameOK top n) →
    ∀ n ∈ encodeLoop toks cur done, NameOK top n := by
  induction toks with
  | nil =>
    intro prev cur done _ hsc hl hc hch hd n hn
    have hp : srcPair prev "," = true := by simpa [srcChain] using hsc
    simp only [encodeLoop, List.reverse_cons, List.mem_append, List.mem_reverse, List.mem_singleton] at hn
    rcases hn with hn | rfl
    · exact hd n hn
    · exact encode_fin hp hl hc hch
  | cons t ts ih =>
    intro prev cur done htoks hsc hl hc hch hd
    simp only [List.all_cons, Bool.and_eq_true] at htoks
    simp only [List.cons_append, srcChain, Bool.and_eq_true] at hsc
    obtain ⟨hpair, hsc'⟩ := hsc
    have hst := htoks.1
    simp only [srcTok, Bool.and_eq_true, bne_iff_ne, ne_eq, Bool.not_eq_true', Bool.or_eq_true] at hst
    obtain ⟨⟨hstar, hq⟩, hamp⟩ := hst
    have hstar' : (t == "*") = false := by simpa using hstar
    cases hcomb : isComb t with
    | true =>
      simp only [encodeLoop, hstar', hcomb, Bool.false_eq_true, if_false, if_true]
      have henc := isEnc_encComb hcomb
      have hsp : (encComb t == " ") = false := by simpa using encComb_ne_space hcomb
      apply ih t (encComb t :: popSpaceRev cur) done htoks.2 hsc'
      · simp [link, hsp, henc, hcomb]
      · have hpop : (popSpaceRev cur).all (tokA top) = true := by
          rcases popSpaceRev_cases cur with h | h
          · rw [h]; exact hc
          · rw [h] at hc; simp only [List.all_cons, Bool.and_eq_true] at hc; exact hc.2
        simp [tokA, canonTok_encComb hcomb, hpop]
      · have hpop : chainFrom " " (popSpaceRev cur).reverse = true := by
          rcases popSpaceRev_cases cur with h | h
          · rw [h]; exact hch
          · rw [h, List.reverse_cons, chainFrom_append, Bool.and_eq_true] at hch; exact hch.1
        rw [List.reverse_cons, chainFrom_append, hpop]
        simp [chainFrom, okAfter, hsp]
      · exact hd
    | false =>
      cases hcm : (t == ",") with
      | true =>
        have ht : t = "," := by simpa using hcm
        subst ht
        simp only [encodeLoop, hstar', hcomb, Bool.false_eq_true, if_false, beq_self_eq_true, if_true]
        apply ih "," [] (cur.reverse :: done) htoks.2 hsc' (by decide) rfl rfl
        intro n hn
        rcases List.mem_cons.mp hn with rfl | hn
        · exact encode_fin hpair hl hc hch
        · exact hd n hn
      | false =>
        simp only [encodeLoop, hstar', hcomb, hcm, Bool.false_eq_true, if_false]
        have hne := isEncLike_false_not_enc hq
        apply ih t (t :: cur) done htoks.2 hsc'
        · cases hs : (t == " ") with
          | true => simp [link, hs]
          | false => simp [link, hs, hne, hcm, hcomb]
        · have : tokA top t = true := by
            cases ha : (t == "&") with
            | true =>
              have : t = "&" := by simpa using ha
              subst this
              rcases hamp with h | h
              · subst h; decide
              · exact absurd rfl h
            | false =>
              have ha' : t ≠ "&" := by simpa using ha
              have hcm' : t ≠ "," := by simpa using hcm
              simp [tokA, canonTok, ha', hcm', hstar, hcomb, hq]
          simp [this, hc]
        · rw [List.reverse_cons, chainFrom_append, hch]
          cases hs : (t == " ") with
          | true =>
            have : t = " " := by simpa using hs
            subst this
            simp [chainFrom, okAfter, link_soft hl hpair]
          | false => simp [chainFrom, okAfter, hs]
        · exact hd

theorem encodeLoop_ne_nil (toks : List Tok) : ∀ (cur : List Tok) (done : List Sel),
    encodeLoop toks cur done ≠ [] := by
  induction toks with
  | nil => intro cur done; simp [encodeLoop]
  | cons t ts ih =>
    intro cur done
    simp only [encodeLoop]
    split
    · exact ih _ _
    · split
      · exact ih _ _
      · split <;> exact ih _ _

theorem encode_ok (top : Bool) (toks : List Tok) (h : selOK top toks = true) :
    encode toks ≠ [] ∧ ∀ n ∈ encode toks, NameOK top n := by
  simp only [selOK, Bool.and_eq_true] at h
  refine ⟨?_, encodeLoop_ok top toks "," [] [] h.1 h.2 (by decide) rfl rfl (by simp)⟩
  exact encodeLoop_ne_nil toks [] []

/-! ### `identParse` keeps the nesting invariant -/

/-- the parent selector list of a nested rule: non-empty, every member canonical and not ending in an
    encoded combinator -/
def ParentOK : Option (List Sel) → Prop
  | none => True
  | some ps => ps ≠ [] ∧ ∀ q ∈ ps, StrongSel q

theorem preSel_of_nameOK_top {n : Sel} (h : NameOK true n) : PreSel n := by
  refine ⟨h.1, ?_, h.2.2.1, h.2.2.2⟩
  have := h.2.1
  simpa [tokA] using this

theorem identParse_strong (p : Option (List Sel)) (toks : List Tok) (hp : ParentOK p)
    (h : selOK p.isNone toks = true) :
    identParse p toks ≠ [] ∧ ∀ s ∈ identParse p toks, StrongSel s := by
  obtain ⟨hne, hnames⟩ := encode_ok _ toks h
  unfold identParse
  cases p with
  | none =>
    simp only [root]
    refine ⟨by simpa using hne, ?_⟩
    intro s hs
    obtain ⟨n, hn, rfl⟩ := List.mem_map.mp hs
    exact strong_of_pre (preSel_of_nameOK_top (hnames n hn))
  | some ps =>
    obtain ⟨hps, hq⟩ := hp
    cases ps with
    | nil => exact absurd rfl hps
    | cons x xs =>
      simp only [root]
      constructor
      · cases hen : encode toks with
        | nil => exact absurd hen hne
        | cons n ns =>
          have := rootOne_ne_nil (x :: xs) n (by simp)
          simp [this]
      · intro s hs
        obtain ⟨s', hs', rfl⟩ := List.mem_map.mp hs
        obtain ⟨n, hn, hs''⟩ := List.mem_flatMap.mp hs'
        exact strong_of_pre (rootOne_pre (x :: xs) n hq (hnames n hn) s' hs'')

/-- an output rule whose selectors satisfy the nesting invariant -/
def RuleStrong (r : OutRule) : Prop := r.decls ≠ [] ∧ r.sels ≠ [] ∧ ∀ s ∈ r.sels, StrongSel s

mutual
theorem flat_strong (p : Option (List Sel)) (hp : ParentOK p) :
    ∀ t : Item, itemOK p.isNone t = true → ∀ r ∈ flat p t, RuleStrong r
  | .decl _, _ => by simp [flat]
  | .rule sel body, h => by
      simp only [itemOK, Bool.and_eq_true] at h
      obtain ⟨hne, hs⟩ := identParse_strong p sel hp h.1
      intro r hr
      simp only [flat, List.mem_append] at hr
      rcases hr with hr | hr
      · by_cases hd : srcDecls body = []
        · simp [hd] at hr
        · simp only [hd, if_false, List.mem_singleton] at hr
          subst hr
          exact ⟨hd, hne, hs⟩
      · exact flatList_strong (some (identParse p sel)) ⟨hne, hs⟩ body h.2 r hr
theorem flatList_strong (p : Option (List Sel)) (hp : ParentOK p) :
    ∀ ts : List Item, itemsOK p.isNone ts = true → ∀ r ∈ flatList p ts, RuleStrong r
  | [], _ => by simp [flatList]
  | i :: is, h => by
      simp only [itemsOK, Bool.and_eq_true] at h
      intro r hr
      simp only [flatList, List.mem_append] at hr
      rcases hr with hr | hr
      · exact flat_strong p hp i h.1 r hr
      · exact flatList_strong p hp is h.2 r hr
end

theorem canonOut_of_strong (out : List OutRule) (h : ∀ r ∈ out, RuleStrong r) : CanonOut out = true := by
  simp only [CanonOut, List.all_eq_true, Bool.and_eq_true, Bool.not_eq_true', List.isEmpty_eq_false_iff]
  intro r hr
  obtain ⟨h1, h2, h3⟩ := h r hr
  exact ⟨⟨h1, h2⟩, fun s hs => (h3 s hs).canon⟩

end Lessm.Nest
