/-
  Helper lemmas for C07 (@media bubbling).
-/
import Lessm.Spec.MediaSpec
namespace Lessm.Media
open Lessm.Sel Lessm.Nest

/-! ### observation -/

theorem obsList_append (ctx : List Query) (a b : List OBlock) :
    obsList ctx (a ++ b) = obsList ctx a ++ obsList ctx b := by
  induction a with
  | nil => simp [obsList]
  | cons x xs ih => simp [obsList, ih]

theorem obsList_singleton (ctx : List Query) (b : OBlock) : obsList ctx [b] = obs ctx b := by
  simp [obsList]

/-- the media context as the model carries it -/
def ctxOf : Option Query → List Query
  | none => []
  | some q => [q]

/-- observation of a bubbling @media block whose own declarations still wait for the selector `s` of
    the enclosing rule, under the enclosing condition `pre` -/
def obsMed (pre : Option Query) (s : List Sel) : OBlock → List STriple
  | .mk (.media q) props inner =>
      own (some (conj pre q)) s props ++ (obsList [conj pre q] inner).map toSTriple
  | .mk (.sel _) _ _ => []

theorem conj_mergeQ (m : Option Query) (a b : Query) : conj m (mergeQ a b) = mergeQ (conj m a) b := by
  cases m <;> simp [conj, mergeQ]

/-! ### shape of what `evalItem` returns -/

theorem isMedia_rotate (me : List Sel) (mb b : OBlock) (hm : mb.isMedia = true)
    (hb : b ∈ rotateOutOfRule me mb) : b.isMedia = true := by
  obtain ⟨n, p, i⟩ := mb
  cases n with
  | sel s => simp [OBlock.isMedia] at hm
  | media q =>
    unfold rotateOutOfRule at hb
    simp only [OBlock.name] at hb
    split at hb
    · simp at hb; subst hb; rfl
    · simp at hb

theorem isMedia_merge (q : Query) (mb b : OBlock) (hb : b ∈ mergeIntoMedia q mb) :
    b.isMedia = true := by
  obtain ⟨n, p, i⟩ := mb
  cases n with
  | sel s => simp [mergeIntoMedia, OBlock.name] at hb
  | media q2 =>
    simp only [mergeIntoMedia, OBlock.name] at hb
    split at hb
    · simp at hb; subst hb; rfl
    · simp at hb

theorem filter_isMedia_flatMap_rotate (me : List Sel) (l : List OBlock) :
    ((l.filter (·.isMedia)).flatMap (rotateOutOfRule me)).filter (·.isMedia)
      = (l.filter (·.isMedia)).flatMap (rotateOutOfRule me) := by
  rw [List.filter_eq_self]
  intro b hb
  obtain ⟨mb, hmb, hb⟩ := List.mem_flatMap.mp hb
  exact isMedia_rotate me mb b (List.mem_filter.mp hmb).2 hb

theorem filter_not_isMedia_flatMap_rotate (me : List Sel) (l : List OBlock) :
    ((l.filter (·.isMedia)).flatMap (rotateOutOfRule me)).filter (fun b => !b.isMedia) = [] := by
  rw [List.filter_eq_nil_iff]
  intro b hb
  obtain ⟨mb, hmb, hb⟩ := List.mem_flatMap.mp hb
  simp [isMedia_rotate me mb b (List.mem_filter.mp hmb).2 hb]

theorem filter_isMedia_flatMap_merge (q : Query) (l : List OBlock) :
    (l.flatMap (mergeIntoMedia q)).filter (·.isMedia) = l.flatMap (mergeIntoMedia q) := by
  rw [List.filter_eq_self]
  intro b hb
  obtain ⟨mb, _, hb⟩ := List.mem_flatMap.mp hb
  exact isMedia_merge q mb b hb

theorem filter_not_isMedia_flatMap_merge (q : Query) (l : List OBlock) :
    (l.flatMap (mergeIntoMedia q)).filter (fun b => !b.isMedia) = [] := by
  rw [List.filter_eq_nil_iff]
  intro b hb
  obtain ⟨mb, _, hb⟩ := List.mem_flatMap.mp hb
  simp [isMedia_merge q mb b hb]

/-- the rule block an item `.rule sel body` evaluates to (before it is dropped when empty) -/
def selfRule (parent : Option (List Sel)) (sel : List Tok) (body : List Item) : OBlock :=
  .mk (.sel (identParse parent sel)) (declsOf body)
    ((evalList (some (identParse parent sel)) body).filter (fun b => !b.isMedia))

def selfMedia (parent : Option (List Sel)) (q : Query) (body : List Item) : OBlock :=
  .mk (.media q) (declsOf body) ((evalList parent body).filter (fun b => !b.isMedia))

def optBlock (b : OBlock) : List OBlock := if b.nonEmpty then [b] else []

theorem evalItem_rule (p : Option (List Sel)) (sel : List Tok) (body : List Item) :
    evalItem p (.rule sel body)
      = optBlock (selfRule p sel body)
        ++ ((evalList (some (identParse p sel)) body).filter (·.isMedia)).flatMap
            (rotateOutOfRule (identParse p sel)) := by
  rw [evalItem]; rfl

theorem evalItem_media (p : Option (List Sel)) (q : Query) (body : List Item) :
    evalItem p (.media q body)
      = optBlock (selfMedia p q body)
        ++ ((evalList p body).filter (·.isMedia)).flatMap (mergeIntoMedia q) := by
  rw [evalItem]; rfl

theorem optBlock_filter_not_rule (p : Option (List Sel)) (sel : List Tok) (body : List Item) :
    (optBlock (selfRule p sel body)).filter (fun b => !b.isMedia) = optBlock (selfRule p sel body) := by
  unfold optBlock; split <;> simp [selfRule, OBlock.isMedia]

theorem optBlock_filter_rule (p : Option (List Sel)) (sel : List Tok) (body : List Item) :
    (optBlock (selfRule p sel body)).filter (·.isMedia) = [] := by
  unfold optBlock; split <;> simp [selfRule, OBlock.isMedia]

theorem optBlock_filter_not_media (p : Option (List Sel)) (q : Query) (body : List Item) :
    (optBlock (selfMedia p q body)).filter (fun b => !b.isMedia) = [] := by
  unfold optBlock; split <;> simp [selfMedia, OBlock.isMedia]

theorem optBlock_filter_media (p : Option (List Sel)) (q : Query) (body : List Item) :
    (optBlock (selfMedia p q body)).filter (·.isMedia) = optBlock (selfMedia p q body) := by
  unfold optBlock; split <;> simp [selfMedia, OBlock.isMedia]

/-- the non-@media part of an evaluated rule item is the rule's own block -/
theorem evalItem_rule_U (p : Option (List Sel)) (sel : List Tok) (body : List Item) :
    (evalItem p (.rule sel body)).filter (fun b => !b.isMedia) = optBlock (selfRule p sel body) := by
  rw [evalItem_rule, List.filter_append, filter_not_isMedia_flatMap_rotate, optBlock_filter_not_rule]
  simp

theorem evalItem_rule_B (p : Option (List Sel)) (sel : List Tok) (body : List Item) :
    (evalItem p (.rule sel body)).filter (·.isMedia)
      = ((evalList (some (identParse p sel)) body).filter (·.isMedia)).flatMap
            (rotateOutOfRule (identParse p sel)) := by
  rw [evalItem_rule, List.filter_append, filter_isMedia_flatMap_rotate, optBlock_filter_rule]
  simp

theorem evalItem_media_U (p : Option (List Sel)) (q : Query) (body : List Item) :
    (evalItem p (.media q body)).filter (fun b => !b.isMedia) = [] := by
  rw [evalItem_media, List.filter_append, filter_not_isMedia_flatMap_merge, optBlock_filter_not_media]
  simp

theorem evalItem_media_B (p : Option (List Sel)) (q : Query) (body : List Item) :
    (evalItem p (.media q body)).filter (·.isMedia) = evalItem p (.media q body) := by
  rw [evalItem_media, List.filter_append, filter_isMedia_flatMap_merge, optBlock_filter_media]

/-- an evaluated item is its non-@media part followed by its @media part -/
theorem evalItem_split (p : Option (List Sel)) (i : Item) :
    evalItem p i = (evalItem p i).filter (fun b => !b.isMedia) ++ (evalItem p i).filter (·.isMedia) := by
  cases i with
  | decl d => simp [evalItem]
  | rule sel body => rw [evalItem_rule_U, evalItem_rule_B]; exact evalItem_rule p sel body
  | media q body => rw [evalItem_media_U, evalItem_media_B]; simp

/-! ### observation of the own block -/

theorem obsList_optBlock (ctx : List Query) (b : OBlock) : obsList ctx (optBlock b) = obs ctx b := by
  unfold optBlock
  split
  · simp [obsList]
  · rename_i h
    obtain ⟨n, p, i⟩ := b
    simp only [OBlock.nonEmpty, Bool.or_eq_true, Bool.not_eq_true', not_or, Bool.not_eq_false,
      List.isEmpty_iff] at h
    obtain ⟨rfl, rfl⟩ := h
    cases n <;> simp [obs, obsList]

theorem toSTriple_ctxOf (m : Option Query) (s : List Sel) (ds : List Decl) :
    toSTriple ⟨ctxOf m, s, ds⟩ = ⟨m, s, ds⟩ := by
  cases m <;> rfl

theorem map_own (m : Option Query) (s : List Sel) (ds : List Decl) :
    (if ds.isEmpty then [] else [(⟨ctxOf m, s, ds⟩ : Triple)]).map toSTriple = own m s ds := by
  unfold own; split <;> simp [toSTriple_ctxOf]

/-! ### model = spec, item by item -/

mutual
/-- the part that stays at the current @media level -/
theorem evalU (m : Option Query) (p : Option (List Sel)) : ∀ i : Item,
    (obsList (ctxOf m) ((evalItem p i).filter (fun b => !b.isMedia))).map toSTriple = specU m p i
  | .decl d => by simp [evalItem, obsList, specU]
  | .rule sel body => by
      rw [evalItem_rule_U, obsList_optBlock]
      simp only [selfRule, obs, specU, List.map_append, map_own]
      rw [evalUL m (some (identParse p sel)) body]
  | .media q body => by
      rw [evalItem_media_U]; simp [obsList, specU]
theorem evalUL (m : Option Query) (p : Option (List Sel)) : ∀ is : List Item,
    (obsList (ctxOf m) ((evalList p is).filter (fun b => !b.isMedia))).map toSTriple = specUList m p is
  | [] => by simp [evalList, obsList, specUList]
  | i :: is => by
      simp only [evalList, List.filter_append, obsList_append, List.map_append, specUList]
      rw [evalU m p i, evalUL m p is]
end

theorem obsMed_optBlock (pre : Option Query) (s : List Sel) (b : OBlock) :
    (optBlock b).flatMap (obsMed pre s) = obsMed pre s b := by
  unfold optBlock
  split
  · simp
  · rename_i h
    obtain ⟨n, p, i⟩ := b
    simp only [OBlock.nonEmpty, Bool.or_eq_true, Bool.not_eq_true', not_or, Bool.not_eq_false,
      List.isEmpty_iff] at h
    obtain ⟨rfl, rfl⟩ := h
    cases n <;> simp [obsMed, obsList, own]

theorem obsMed_rotate (pre : Option Query) (s me : List Sel) (mb : OBlock) (hm : mb.isMedia = true) :
    (rotateOutOfRule me mb).flatMap (obsMed pre s) = obsMed pre me mb := by
  obtain ⟨n, props, inner⟩ := mb
  cases n with
  | sel s => simp [OBlock.isMedia] at hm
  | media q =>
    have : rotateOutOfRule me (.mk (.media q) props inner)
        = (optBlock (.mk (.sel me) props inner)).map (fun w => .mk (.media q) [] [w]) := by
      unfold rotateOutOfRule optBlock
      simp only [OBlock.props, OBlock.inner, OBlock.name]
      split <;> simp [*]
    rw [this]
    unfold optBlock
    split
    · simp only [List.map_cons, List.map_nil, List.flatMap_cons, List.flatMap_nil, List.append_nil,
        obsMed, obsList, obs, own, List.isEmpty_nil, if_true, List.nil_append, List.map_append]
      congr 1
      split <;> simp [toSTriple]
    · rename_i h
      simp only [OBlock.nonEmpty, Bool.or_eq_true, Bool.not_eq_true', not_or, Bool.not_eq_false,
        List.isEmpty_iff] at h
      obtain ⟨rfl, rfl⟩ := h
      simp [obsMed, obsList, own]

theorem obsMed_merge (pre : Option Query) (s : List Sel) (q : Query) (mb : OBlock) :
    (mergeIntoMedia q mb).flatMap (obsMed pre s) = obsMed (some (conj pre q)) s mb := by
  obtain ⟨n, props, inner⟩ := mb
  cases n with
  | sel s => simp [mergeIntoMedia, OBlock.name, obsMed]
  | media q2 =>
    have : mergeIntoMedia q (.mk (.media q2) props inner)
        = optBlock (.mk (.media (mergeQ q q2)) props inner) := by
      simp only [mergeIntoMedia, optBlock, OBlock.name, OBlock.props, OBlock.inner]; rfl
    rw [this, obsMed_optBlock]
    simp only [obsMed, conj_mergeQ]
    rfl

theorem flatMap_flatMap_congr {α β γ} (l : List α) (f : α → List β) (g : β → List γ) (h : α → List γ)
    (H : ∀ a ∈ l, (f a).flatMap g = h a) : (l.flatMap f).flatMap g = l.flatMap h := by
  induction l with
  | nil => rfl
  | cons a r ih =>
    simp only [List.flatMap_cons, List.flatMap_append]
    rw [H a (by simp), ih (fun x hx => H x (by simp [hx]))]

mutual
/-- the part that bubbles out -/
theorem evalB (m : Option Query) (p : Option (List Sel)) : ∀ i : Item,
    ((evalItem p i).filter (·.isMedia)).flatMap (obsMed m (p.getD [])) = specB m p i
  | .decl d => by simp [evalItem, specB]
  | .rule sel body => by
      rw [evalItem_rule_B, specB]
      rw [flatMap_flatMap_congr _ _ _ (obsMed m (identParse p sel))
        (fun b hb => obsMed_rotate m _ _ b (List.mem_filter.mp hb).2)]
      exact evalBL m (some (identParse p sel)) body
  | .media q body => by
      rw [evalItem_media_B, evalItem_media, specB, List.flatMap_append, obsMed_optBlock]
      rw [flatMap_flatMap_congr _ _ _ (obsMed (some (conj m q)) (p.getD []))
        (fun b _ => obsMed_merge m _ q b)]
      rw [evalBL (some (conj m q)) p body]
      simp only [selfMedia, obsMed]
      rw [show [conj m q] = ctxOf (some (conj m q)) from rfl, evalUL (some (conj m q)) p body]
theorem evalBL (m : Option Query) (p : Option (List Sel)) : ∀ is : List Item,
    ((evalList p is).filter (·.isMedia)).flatMap (obsMed m (p.getD [])) = specBList m p is
  | [] => by simp [evalList, specBList]
  | i :: is => by
      simp only [evalList, List.filter_append, List.flatMap_append, specBList]
      rw [evalB m p i, evalBL m p is]
end

/-- at top level the bubbling blocks are printed as they are -/
theorem obs_top_media (b : OBlock) (hb : b.isMedia = true) :
    (obs [] b).map toSTriple = obsMed none [] b := by
  obtain ⟨n, props, inner⟩ := b
  cases n with
  | sel s => simp [OBlock.isMedia] at hb
  | media q =>
    simp only [obs, obsMed, List.nil_append, conj, own, List.map_append]
    congr 1
    split <;> simp [toSTriple]

theorem obsList_top_media (l : List OBlock) (h : ∀ b ∈ l, b.isMedia = true) :
    (obsList [] l).map toSTriple = l.flatMap (obsMed none []) := by
  induction l with
  | nil => simp [obsList]
  | cons b r ih =>
    simp only [obsList, List.map_append, List.flatMap_cons]
    rw [obs_top_media b (h b (by simp)), ih (fun x hx => h x (by simp [hx]))]

theorem observe_item (i : Item) :
    (obsList [] (evalItem none i)).map toSTriple = specU none none i ++ specB none none i := by
  rw [evalItem_split none i, obsList_append, List.map_append]
  rw [show ([] : List Query) = ctxOf none from rfl, evalU none none i]
  rw [show ctxOf none = ([] : List Query) from rfl, obsList_top_media _ (fun b hb => (List.mem_filter.mp hb).2)]
  rw [← evalB none none i]; rfl

/-! ### well-formedness of the output: every @media block is top-level -/

theorem ruleOnlyList_iff (l : List OBlock) : ruleOnlyList l = true ↔ ∀ b ∈ l, ruleOnly b = true := by
  induction l with
  | nil => simp [ruleOnlyList]
  | cons a r ih => simp [ruleOnlyList, ih]

theorem ruleOnly_iff (b : OBlock) : ruleOnly b = true ↔ b.isMedia = false ∧ WF b := by
  obtain ⟨n, p, i⟩ := b
  cases n <;> simp [ruleOnly, OBlock.isMedia, WF, OBlock.inner]

theorem WF_optBlock (b c : OBlock) (h : WF b) (hc : c ∈ optBlock b) : WF c := by
  unfold optBlock at hc
  split at hc
  · simp at hc; subst hc; exact h
  · simp at hc

theorem WF_rotate (me : List Sel) (mb b : OBlock) (h : WF mb) (hb : b ∈ rotateOutOfRule me mb) :
    WF b := by
  unfold rotateOutOfRule at hb
  simp only at hb
  split at hb
  · simp at hb; subst hb
    simpa [WF, OBlock.inner, ruleOnlyList, ruleOnly] using h
  · simp at hb

theorem WF_merge (q : Query) (mb b : OBlock) (h : WF mb) (hb : b ∈ mergeIntoMedia q mb) : WF b := by
  unfold mergeIntoMedia at hb
  split at hb
  · simp only at hb
    split at hb
    · simp at hb; subst hb; exact h
    · simp at hb
  · simp at hb

theorem WF_self (n : Name) (props : List Decl) (kids : List OBlock) (h : ∀ b ∈ kids, WF b) :
    WF (.mk n props (kids.filter (fun b => !b.isMedia))) := by
  simp only [WF, OBlock.inner, ruleOnlyList_iff]
  intro c hc
  obtain ⟨hc, hm⟩ := List.mem_filter.mp hc
  exact (ruleOnly_iff c).mpr ⟨by simpa using hm, h c hc⟩

mutual
theorem WF_evalItem (p : Option (List Sel)) : ∀ i : Item, ∀ b ∈ evalItem p i, WF b
  | .decl d => by simp [evalItem]
  | .rule sel body => by
      intro b hb
      rw [evalItem_rule] at hb
      rcases List.mem_append.mp hb with hb | hb
      · exact WF_optBlock _ b (WF_self _ _ _ (WF_evalList _ body)) hb
      · obtain ⟨mb, hmb, hb⟩ := List.mem_flatMap.mp hb
        exact WF_rotate _ mb b (WF_evalList _ body mb (List.mem_filter.mp hmb).1) hb
  | .media q body => by
      intro b hb
      rw [evalItem_media] at hb
      rcases List.mem_append.mp hb with hb | hb
      · exact WF_optBlock _ b (WF_self _ _ _ (WF_evalList _ body)) hb
      · obtain ⟨mb, hmb, hb⟩ := List.mem_flatMap.mp hb
        exact WF_merge _ mb b (WF_evalList _ body mb (List.mem_filter.mp hmb).1) hb
theorem WF_evalList (p : Option (List Sel)) : ∀ is : List Item, ∀ b ∈ evalList p is, WF b
  | [] => by simp [evalList]
  | i :: is => by
      intro b hb
      simp only [evalList] at hb
      rcases List.mem_append.mp hb with hb | hb
      · exact WF_evalItem p i b hb
      · exact WF_evalList p is b hb
end

theorem below_not_media (c b : OBlock) (hb : Below c b) : WF b → c.isMedia = false := by
  induction hb with
  | child hc =>
    intro h
    exact ((ruleOnly_iff _).mp ((ruleOnlyList_iff _).mp h _ hc)).1
  | deeper hc _ ih =>
    intro h
    exact ih ((ruleOnly_iff _).mp ((ruleOnlyList_iff _).mp h _ hc)).2

mutual
theorem obs_ruleOnly (ctx : List Query) : ∀ b : OBlock, ruleOnly b = true → ∀ t ∈ obs ctx b, t.medias = ctx
  | .mk (.sel s) props inner => by
      intro h t ht
      simp only [ruleOnly] at h
      simp only [obs] at ht
      rcases List.mem_append.mp ht with ht | ht
      · split at ht
        · simp at ht
        · simp at ht; subst ht; rfl
      · exact obsList_ruleOnly ctx inner h t ht
  | .mk (.media q) props inner => by
      intro h; simp [ruleOnly] at h
theorem obsList_ruleOnly (ctx : List Query) : ∀ l : List OBlock, ruleOnlyList l = true →
    ∀ t ∈ obsList ctx l, t.medias = ctx
  | [] => by simp [obsList]
  | b :: bs => by
      intro h t ht
      simp only [ruleOnlyList, Bool.and_eq_true] at h
      simp only [obsList] at ht
      rcases List.mem_append.mp ht with ht | ht
      · exact obs_ruleOnly ctx b h.1 t ht
      · exact obsList_ruleOnly ctx bs h.2 t ht
end

theorem obs_WF_len (b : OBlock) (h : WF b) : ∀ t ∈ obs [] b, t.medias.length ≤ 1 := by
  obtain ⟨n, props, inner⟩ := b
  intro t ht
  cases n with
  | sel s =>
    have := obs_ruleOnly [] (.mk (.sel s) props inner) (by simpa [ruleOnly, WF, OBlock.inner] using h) t ht
    simp [this]
  | media q =>
    simp only [obs, List.nil_append] at ht
    rcases List.mem_append.mp ht with ht | ht
    · split at ht
      · simp at ht
      · simp at ht; subst ht; simp
    · have := obsList_ruleOnly [q] inner h t ht
      simp [this]

theorem mem_obsList (ctx : List Query) (l : List OBlock) (t : Triple) :
    t ∈ obsList ctx l ↔ ∃ b ∈ l, t ∈ obs ctx b := by
  induction l with
  | nil => simp [obsList]
  | cons a r ih => simp [obsList, ih]

/-! ### conjunction of nested conditions -/

theorem extends_conj (m : Option Query) (q : Query) : Extends m (conj m q) := by
  cases m with
  | none => trivial
  | some a => exact ⟨q, rfl⟩

theorem extends_trans (m : Option Query) (q q' : Query) (h : Extends (some (conj m q)) q') :
    Extends m q' := by
  cases m with
  | none => trivial
  | some a =>
    obtain ⟨r, rfl⟩ := h
    exact ⟨q ++ ["and"] ++ r, by simp [conj, mergeQ]⟩

theorem extends_ne (a q : Query) (h : Extends (some a) q) : q ≠ a := by
  obtain ⟨r, rfl⟩ := h
  intro e
  have := congrArg List.length e
  simp [mergeQ] at this

theorem mem_own (m : Option Query) (s : List Sel) (ds : List Decl) (t : STriple) (h : t ∈ own m s ds) :
    t = ⟨m, s, ds⟩ ∧ ds ≠ [] := by
  unfold own at h
  split at h
  · simp at h
  · rename_i hd
    simp at h
    exact ⟨h, by simpa using hd⟩

mutual
theorem specU_media (m : Option Query) (p : Option (List Sel)) : ∀ i : Item, ∀ t ∈ specU m p i, t.media = m
  | .decl d => by simp [specU]
  | .media q body => by simp [specU]
  | .rule sel body => by
      intro t ht
      simp only [specU] at ht
      rcases List.mem_append.mp ht with ht | ht
      · rw [(mem_own _ _ _ _ ht).1]
      · exact specUList_media m _ body t ht
theorem specUList_media (m : Option Query) (p : Option (List Sel)) : ∀ is : List Item,
    ∀ t ∈ specUList m p is, t.media = m
  | [] => by simp [specUList]
  | i :: is => by
      intro t ht
      simp only [specUList] at ht
      rcases List.mem_append.mp ht with ht | ht
      · exact specU_media m p i t ht
      · exact specUList_media m p is t ht
end

mutual
theorem specB_media (m : Option Query) (p : Option (List Sel)) : ∀ i : Item,
    ∀ t ∈ specB m p i, ∃ q, t.media = some q ∧ Extends m q
  | .decl d => by simp [specB]
  | .rule sel body => by
      intro t ht
      simp only [specB] at ht
      exact specBList_media m _ body t ht
  | .media q body => by
      intro t ht
      simp only [specB] at ht
      rcases List.mem_append.mp ht with ht | ht
      · rcases List.mem_append.mp ht with ht | ht
        · rw [(mem_own _ _ _ _ ht).1]
          exact ⟨conj m q, rfl, extends_conj m q⟩
        · exact ⟨conj m q, specUList_media _ p body t ht, extends_conj m q⟩
      · obtain ⟨q', h1, h2⟩ := specBList_media (some (conj m q)) p body t ht
        exact ⟨q', h1, extends_trans m q q' h2⟩
theorem specBList_media (m : Option Query) (p : Option (List Sel)) : ∀ is : List Item,
    ∀ t ∈ specBList m p is, ∃ q, t.media = some q ∧ Extends m q
  | [] => by simp [specBList]
  | i :: is => by
      intro t ht
      simp only [specBList] at ht
      rcases List.mem_append.mp ht with ht | ht
      · exact specB_media m p i t ht
      · exact specBList_media m p is t ht
end

theorem conjFrom_append (m : Option Query) (qs : List Query) (q : Query) :
    conjFrom m (qs ++ [q]) = some (conj (conjFrom m qs) q) := by
  simp [conjFrom, List.foldl_append]

theorem conjFrom_some (a : Query) (qs : List Query) :
    conjFrom (some a) qs = some (a ++ (qs.map (fun q => ["and"] ++ q)).flatten) := by
  induction qs generalizing a with
  | nil => simp [conjFrom]
  | cons q r ih =>
    have := ih (mergeQ a q)
    simp only [conjFrom, List.foldl_cons, conj] at this ⊢
    rw [this]; simp [mergeQ]

theorem intercalate_cons {α} (sep a : List α) (r : List (List α)) :
    List.intercalate sep (a :: r) = a ++ (r.map (fun q => sep ++ q)).flatten := by
  induction r generalizing a with
  | nil => simp [List.intercalate]
  | cons b r ih =>
    have := ih b
    simp only [List.intercalate, List.intersperse_cons_cons, List.flatten_cons, List.map_cons] at this ⊢
    rw [this]; simp

/-! ### nests of @media blocks -/

theorem declsOf_mediaNest (q : Query) (qs : List Query) (body : List Item) :
    declsOf [mediaNest q qs body] = [] := by
  cases qs <;> simp [mediaNest, declsOf]

theorem specU_mediaNest (m : Option Query) (p : Option (List Sel)) (q : Query) (qs : List Query)
    (body : List Item) : specU m p (mediaNest q qs body) = [] := by
  cases qs <;> simp [mediaNest, specU]

/-! ### every declaration list once -/

theorem map_decls_own (m : Option Query) (s : List Sel) (ds : List Decl) :
    (own m s ds).map (·.decls) = group ds := by
  unfold own group; split <;> simp

mutual
theorem once_item (m : Option Query) (p : Option (List Sel)) : ∀ i : Item,
    List.Perm ((specU m p i ++ specB m p i).map (·.decls)) (allDeclGroups i)
  | .decl d => by simp [specU, specB, allDeclGroups]
  | .rule sel body => by
      simp only [specU, specB, allDeclGroups, List.append_assoc, List.map_append, map_decls_own]
      have := once_list m (some (identParse p sel)) body
      simp only [List.map_append] at this
      exact List.Perm.append_left _ this
  | .media q body => by
      simp only [specU, specB, allDeclGroups, List.append_assoc, List.map_append, map_decls_own,
        List.nil_append]
      have := once_list (some (conj m q)) p body
      simp only [List.map_append] at this
      exact List.Perm.append_left _ this
theorem once_list (m : Option Query) (p : Option (List Sel)) : ∀ is : List Item,
    List.Perm ((specUList m p is ++ specBList m p is).map (·.decls)) (allDeclGroupsList is)
  | [] => by simp [specUList, specBList, allDeclGroupsList]
  | i :: is => by
      simp only [specUList, specBList, allDeclGroupsList]
      have h1 := once_item m p i
      have h2 := once_list m p is
      simp only [List.map_append] at h1 h2 ⊢
      refine List.Perm.trans ?_ (List.Perm.append h1 h2)
      simp only [List.append_assoc]
      apply List.Perm.append_left
      simp only [← List.append_assoc]
      apply List.Perm.append_right
      exact List.perm_append_comm
end

end Lessm.Media
