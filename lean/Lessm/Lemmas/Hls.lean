/-
  Helper lemmas for C09 (colour functions): the colorsys round trip over ℚ, range facts,
  rounding / truncation facts.  The model (Lessm/Model/ColorFn.lean) is import-free and uses core
  `Rat.floor`, `Rat.instMax`, `Rat.instMin`; the `_def` lemmas below (all `rfl`) restate the
  definitions with Mathlib's `⌊·⌋`, `max`, `min` so that Mathlib's lemmas apply syntactically.
-/
import Lessm.Model.ColorFn
import Lessm.Props.C17
import Mathlib.Tactic.Linarith
import Mathlib.Tactic.FieldSimp
import Mathlib.Tactic.Ring
import Mathlib.Algebra.Order.Floor.Ring
import Mathlib.Data.Rat.Floor

namespace Lessm.ColorFn
open Lessm.Builtins

/-! ### bridging lemmas (definitional) -/

theorem frac1_def (x : ℚ) : frac1 x = x - ⌊x⌋ := rfl

theorem clamp01_def (x : ℚ) : clamp01 x = min 1 (max 0 x) := rfl

theorem pmod_def (x m : ℚ) : pmod x m = x - m * ⌊x / m⌋ := rfl

theorem rgbToHls_def (r g b : ℚ) : rgbToHls r g b =
    (let maxc := max r (max g b)
     let minc := min r (min g b)
     let sumc := maxc + minc
     let rangec := maxc - minc
     let l := sumc / 2
     if minc = maxc then (0, l, 0) else
     let s := if l ≤ 1/2 then rangec / sumc else rangec / (2 - maxc - minc)
     let rc := (maxc - r) / rangec
     let gc := (maxc - g) / rangec
     let bc := (maxc - b) / rangec
     let h := if r = maxc then bc - gc else if g = maxc then 2 + rc - bc else 4 + gc - rc
     (frac1 (h / 6), l, s)) := rfl

/-! ### frac1 / vv -/

theorem frac1_nonneg (x : ℚ) : 0 ≤ frac1 x := by
  rw [frac1_def]; have := Int.floor_le x; linarith

theorem frac1_lt_one (x : ℚ) : frac1 x < 1 := by
  rw [frac1_def]; have := Int.lt_floor_add_one x; linarith

theorem frac1_shift (x : ℚ) (n : ℤ) (h1 : (n : ℚ) ≤ x) (h2 : x < n + 1) : frac1 x = x - n := by
  rw [frac1_def]
  have : ⌊x⌋ = n := Int.floor_eq_iff.mpr ⟨h1, h2⟩
  rw [this]

theorem frac1_id (x : ℚ) (h0 : 0 ≤ x) (h1 : x < 1) : frac1 x = x := by
  have := frac1_shift x 0 (by simpa using h0) (by simpa using h1)
  simpa using this

/-- with m < M the intermediate values m1, m2 of hlsToRgb are the min and the max again -/
theorem m2_eq (M m : ℚ) (h0 : 0 ≤ m) (h1 : m < M) (h2 : M ≤ 1) :
    let l := (M + m) / 2
    let s := if l ≤ 1/2 then (M - m) / (M + m) else (M - m) / (2 - M - m)
    (if l ≤ 1/2 then l * (1 + s) else l + s - l * s) = M ∧ s ≠ 0 := by
  intro l s
  have hsum : 0 < M + m := by linarith
  have hsum2 : 0 < 2 - M - m := by linarith
  by_cases hl : l ≤ 1/2
  · simp only [s, hl, if_true]
    constructor
    · simp only [l]; field_simp; ring
    · have : 0 < (M - m) / (M + m) := div_pos (by linarith) hsum
      exact ne_of_gt this
  · simp only [s, hl, if_false]
    constructor
    · simp only [l]; field_simp; ring
    · have : 0 < (M - m) / (2 - M - m) := div_pos (by linarith) hsum2
      exact ne_of_gt this

theorem frac1_add_int (x : ℚ) (n : ℤ) : frac1 (x + n) = frac1 x := by
  rw [frac1_def, frac1_def, Int.floor_add_intCast]; push_cast; ring

theorem vv_add_int (m1 m2 x : ℚ) (n : ℤ) : vv m1 m2 (x + n) = vv m1 m2 x := by
  unfold vv; rw [frac1_add_int]

theorem vv_frac (m1 m2 x y : ℚ) : vv m1 m2 (frac1 x + y) = vv m1 m2 (x + y) := by
  have : frac1 x + y = (x + y) + ((-⌊x⌋ : ℤ) : ℚ) := by rw [frac1_def]; push_cast; ring
  rw [this, vv_add_int]

/-- value of `vv` once the fractional position `t = hue - n` is known -/
theorem vv_at (m1 m2 hue : ℚ) (n : ℤ) (t : ℚ) (ht : t = hue - n) (h0 : 0 ≤ t) (h1 : t < 1) :
    vv m1 m2 hue =
      if t < 1/6 then m1 + (m2 - m1) * t * 6 else if t < 1/2 then m2
      else if t < 2/3 then m1 + (m2 - m1) * (2/3 - t) * 6 else m1 := by
  have : frac1 hue = t := by
    rw [frac1_shift hue n (by linarith) (by linarith)]; linarith
  unfold vv; simp only [this]

/-- the three channels are recovered from the hue offset δ of the "next" channel x over the "previous" y -/
theorem core (M m x y : ℚ) (hd : m < M) (hx : m ≤ x ∧ x ≤ M) (hy : m ≤ y ∧ y ≤ M)
    (hmin : (y ≤ x → y = m) ∧ (x < y → x = m)) :
    let δ := (x - y) / (6 * (M - m))
    vv m M (δ + 1/3) = M ∧ vv m M δ = x ∧ vv m M (δ - 1/3) = y := by
  intro δ
  have hdp : 0 < M - m := by linarith
  have h6d : 0 < 6 * (M - m) := by linarith
  have hδ : δ * (6 * (M - m)) = x - y := by simp only [δ]; field_simp
  by_cases hxy : y ≤ x
  · have hym : y = m := hmin.1 hxy
    have hδ0 : 0 ≤ δ := div_nonneg (by linarith) (le_of_lt h6d)
    have hδ1 : δ ≤ 1/6 := by
      rw [div_le_iff₀ h6d]; linarith [hx.2]
    refine ⟨?_, ?_, ?_⟩
    · rw [vv_at m M (δ + 1/3) 0 (δ + 1/3) (by simp) (by linarith) (by linarith)]
      have n1 : ¬ (δ + 1/3 < 1/6) := by linarith
      by_cases h2 : δ + 1/3 < 1/2
      · rw [if_neg n1, if_pos h2]
      · have : δ = 1/6 := by linarith
        have n3 : δ + 1/3 < 2/3 := by linarith
        simp only [n1, h2, n3, if_false, if_true]; rw [this]; ring
    · rw [vv_at m M δ 0 δ (by simp) hδ0 (by linarith)]
      by_cases h1 : δ < 1/6
      · simp only [h1, if_true]; nlinarith [hδ]
      · have h16 : δ = 1/6 := by linarith
        have n2 : δ < 1/2 := by linarith
        simp only [h1, n2, if_false, if_true]
        rw [h16] at hδ; linarith
    · rw [vv_at m M (δ - 1/3) (-1) (δ - 1/3 + 1) (by push_cast; ring) (by linarith) (by linarith)]
      have n1 : ¬ (δ - 1/3 + 1 < 1/6) := by linarith
      have n2 : ¬ (δ - 1/3 + 1 < 1/2) := by linarith
      have n3 : ¬ (δ - 1/3 + 1 < 2/3) := by linarith
      simp only [n1, n2, n3, if_false]; exact hym.symm
  · have hxy' : x < y := lt_of_not_ge hxy
    have hxm : x = m := hmin.2 hxy'
    have hδ0 : δ < 0 := div_neg_of_neg_of_pos (by linarith) h6d
    have hδ1 : -(1/6) ≤ δ := by
      rw [le_div_iff₀ h6d]; linarith [hy.2]
    refine ⟨?_, ?_, ?_⟩
    · rw [vv_at m M (δ + 1/3) 0 (δ + 1/3) (by simp) (by linarith) (by linarith)]
      have n1 : ¬ (δ + 1/3 < 1/6) := by linarith
      have h2 : δ + 1/3 < 1/2 := by linarith
      rw [if_neg n1, if_pos h2]
    · rw [vv_at m M δ (-1) (δ + 1) (by push_cast; ring) (by linarith) (by linarith)]
      have n1 : ¬ (δ + 1 < 1/6) := by linarith
      have n2 : ¬ (δ + 1 < 1/2) := by linarith
      have n3 : ¬ (δ + 1 < 2/3) := by linarith
      simp only [n1, n2, n3, if_false]; exact hxm.symm
    · rw [vv_at m M (δ - 1/3) (-1) (δ - 1/3 + 1) (by push_cast; ring) (by linarith) (by linarith)]
      have n1 : ¬ (δ - 1/3 + 1 < 1/6) := by linarith
      have n2 : ¬ (δ - 1/3 + 1 < 1/2) := by linarith
      have h3 : δ - 1/3 + 1 < 2/3 := by linarith
      simp only [n1, n2, h3, if_false, if_true]; nlinarith [hδ]

/-- HLS → RGB inverts RGB → HLS exactly over ℚ -/
theorem roundtrip (r g b : ℚ) (hr : 0 ≤ r ∧ r ≤ 1) (hg : 0 ≤ g ∧ g ≤ 1) (hb : 0 ≤ b ∧ b ≤ 1) :
    let hls := rgbToHls r g b
    hlsToRgb hls.1 hls.2.1 hls.2.2 = (r, g, b) := by
  intro hls
  -- facts about max / min
  obtain ⟨M, hM⟩ : ∃ M, M = max r (max g b) := ⟨_, rfl⟩
  obtain ⟨m, hm⟩ : ∃ m, m = min r (min g b) := ⟨_, rfl⟩
  have rM : r ≤ M := hM ▸ le_max_left _ _
  have gM : g ≤ M := hM ▸ le_trans (le_max_left _ _) (le_max_right _ _)
  have bM : b ≤ M := hM ▸ le_trans (le_max_right _ _) (le_max_right _ _)
  have mr : m ≤ r := hm ▸ min_le_left _ _
  have mg : m ≤ g := hm ▸ le_trans (min_le_right _ _) (min_le_left _ _)
  have mb : m ≤ b := hm ▸ le_trans (min_le_right _ _) (min_le_right _ _)
  have Mcases : M = r ∨ M = g ∨ M = b := by
    rcases max_choice r (max g b) with h | h
    · left; rw [hM, h]
    · rcases max_choice g b with h' | h'
      · right; left; rw [hM, h, h']
      · right; right; rw [hM, h, h']
  have mcases : m = r ∨ m = g ∨ m = b := by
    rcases min_choice r (min g b) with h | h
    · left; rw [hm, h]
    · rcases min_choice g b with h' | h'
      · right; left; rw [hm, h, h']
      · right; right; rw [hm, h, h']
  have M1 : M ≤ 1 := by rcases Mcases with h | h | h <;> rw [h] <;> [exact hr.2; exact hg.2; exact hb.2]
  have m0 : 0 ≤ m := by rcases mcases with h | h | h <;> rw [h] <;> [exact hr.1; exact hg.1; exact hb.1]
  have hls_def : hls = rgbToHls r g b := rfl
  rw [rgbToHls_def] at hls_def
  simp only [← hM, ← hm] at hls_def
  by_cases hmm : m = M
  · -- achromatic
    have e1 : r = M := le_antisymm rM (hmm ▸ mr)
    have e2 : g = M := le_antisymm gM (hmm ▸ mg)
    have e3 : b = M := le_antisymm bM (hmm ▸ mb)
    rw [if_pos hmm] at hls_def
    rw [hls_def]; simp only [hlsToRgb, if_true]
    rw [hmm, e1, e2, e3]; congr 1 <;> [ring; (congr 1 <;> ring)]
  · have hlt : m < M := lt_of_le_of_ne (le_trans mr rM) hmm
    have hd : 0 < M - m := by linarith
    rw [if_neg hmm] at hls_def
    obtain ⟨hm2, hs0⟩ := m2_eq M m m0 hlt M1
    rw [hls_def]
    simp only [hlsToRgb]
    have hs0' : (if (M + m) / 2 ≤ 1 / 2 then (M - m) / (M + m) else (M - m) / (2 - M - m)) ≠ 0 := hs0
    rw [if_neg hs0']
    simp only [hm2]
    have hm1 : 2 * ((M + m) / 2) - M = m := by ring
    rw [hm1]
    -- remove frac1
    have f1 : ∀ x, vv m M (frac1 x + 1/3) = vv m M (x + 1/3) := fun x => vv_frac m M x (1/3)
    have f2 : ∀ x, vv m M (frac1 x) = vv m M x := fun x => by have := vv_frac m M x 0; simpa using this
    have f3 : ∀ x, vv m M (frac1 x - 1/3) = vv m M (x - 1/3) := fun x => by
      have := vv_frac m M x (-(1/3)); simpa [sub_eq_add_neg] using this
    rw [f1, f2, f3]
    by_cases c1 : r = M
    · -- red is the maximum: next = g, prev = b
      rw [if_pos c1]
      have hmin : (b ≤ g → b = m) ∧ (g < b → g = m) := by
        constructor <;> intro h <;> rcases mcases with e | e | e <;> linarith
      obtain ⟨k1, k2, k3⟩ := core M m g b hlt ⟨mg, gM⟩ ⟨mb, bM⟩ hmin
      have hδ : ((M - b) / (M - m) - (M - g) / (M - m)) / 6 = (g - b) / (6 * (M - m)) := by
        field_simp; ring
      rw [hδ, k1, k2, k3, c1]
    · rw [if_neg c1]
      by_cases c2 : g = M
      · -- green is the maximum: next = b, prev = r
        rw [if_pos c2]
        have hmin : (r ≤ b → r = m) ∧ (b < r → b = m) := by
          constructor <;> intro h <;> rcases mcases with e | e | e <;> linarith
        obtain ⟨k1, k2, k3⟩ := core M m b r hlt ⟨mb, bM⟩ ⟨mr, rM⟩ hmin
        have hδ : (2 + (M - r) / (M - m) - (M - b) / (M - m)) / 6 = (b - r) / (6 * (M - m)) + 1/3 := by
          field_simp; ring
        rw [hδ]
        have e1 : (b - r) / (6 * (M - m)) + 1/3 + 1/3 = ((b - r) / (6 * (M - m)) - 1/3) + ((1 : ℤ) : ℚ) := by push_cast; ring
        have e3 : (b - r) / (6 * (M - m)) + 1/3 - 1/3 = (b - r) / (6 * (M - m)) := by ring
        rw [e1, vv_add_int, e3, k1, k2, k3, c2]
      · -- blue is the maximum: next = r, prev = g
        have c3 : b = M := by rcases Mcases with h | h | h <;> [exact absurd h.symm c1; exact absurd h.symm c2; exact h.symm]
        rw [if_neg c2]
        have hmin : (g ≤ r → g = m) ∧ (r < g → r = m) := by
          constructor <;> intro h <;> rcases mcases with e | e | e <;> linarith
        obtain ⟨k1, k2, k3⟩ := core M m r g hlt ⟨mr, rM⟩ ⟨mg, gM⟩ hmin
        have hδ : (4 + (M - g) / (M - m) - (M - r) / (M - m)) / 6 = (r - g) / (6 * (M - m)) + 2/3 := by
          field_simp; ring
        rw [hδ]
        have e1 : (r - g) / (6 * (M - m)) + 2/3 + 1/3 = (r - g) / (6 * (M - m)) + ((1 : ℤ) : ℚ) := by push_cast; ring
        have e2 : (r - g) / (6 * (M - m)) + 2/3 = ((r - g) / (6 * (M - m)) - 1/3) + ((1 : ℤ) : ℚ) := by push_cast; ring
        have e3 : (r - g) / (6 * (M - m)) + 2/3 - 1/3 = (r - g) / (6 * (M - m)) + 1/3 := by ring
        have q1 : vv m M ((r - g) / (6 * (M - m)) + 2/3 + 1/3) = r := by rw [e1, vv_add_int, k2]
        have q2 : vv m M ((r - g) / (6 * (M - m)) + 2/3) = g := by rw [e2, vv_add_int, k3]
        have q3 : vv m M ((r - g) / (6 * (M - m)) + 2/3 - 1/3) = b := by rw [e3, k1, c3]
        rw [q1, q2, q3]

/-! ### range facts -/

theorem vv_between (m1 m2 x : ℚ) (h : m1 ≤ m2) : m1 ≤ vv m1 m2 x ∧ vv m1 m2 x ≤ m2 := by
  have h0 := frac1_nonneg x
  have h1 := frac1_lt_one x
  have hd : 0 ≤ m2 - m1 := by linarith
  unfold vv
  simp only
  split_ifs with c1 c2 c3
  · constructor
    · nlinarith [mul_nonneg hd h0]
    · nlinarith [mul_nonneg hd (by linarith : (0:ℚ) ≤ 1/6 - frac1 x)]
  · exact ⟨h, le_refl _⟩
  · constructor
    · nlinarith [mul_nonneg hd (by linarith : (0:ℚ) ≤ 2/3 - frac1 x)]
    · nlinarith [mul_nonneg hd (by linarith : (0:ℚ) ≤ frac1 x - 1/2)]
  · exact ⟨le_refl _, h⟩

/-- the intermediate values of `hlsToRgb` satisfy 0 ≤ m1 ≤ m2 ≤ 1 -/
theorem m12_range (l s : ℚ) (hl : 0 ≤ l ∧ l ≤ 1) (hs : 0 ≤ s ∧ s ≤ 1) :
    let m2 := if l ≤ 1/2 then l * (1 + s) else l + s - l * s
    0 ≤ 2 * l - m2 ∧ 2 * l - m2 ≤ m2 ∧ m2 ≤ 1 := by
  intro m2
  by_cases c : l ≤ 1/2
  · have e : m2 = l * (1 + s) := by simp only [m2, c, if_true]
    rw [e]
    have p1 := mul_nonneg hl.1 hs.1
    have p2 := mul_nonneg hl.1 (by linarith [hs.2] : (0:ℚ) ≤ 1 - s)
    refine ⟨by nlinarith, by nlinarith, by nlinarith⟩
  · have e : m2 = l + s - l * s := by simp only [m2, c, if_false]
    rw [e]
    have c' : 1/2 < l := lt_of_not_ge c
    have p1 := mul_nonneg hs.1 (by linarith [hl.2] : (0:ℚ) ≤ 1 - l)
    have p2 := mul_nonneg (by linarith [hs.2] : (0:ℚ) ≤ 1 - s) (by linarith [hl.2] : (0:ℚ) ≤ 1 - l)
    refine ⟨by nlinarith, by nlinarith, by nlinarith⟩

theorem hlsToRgb_range (h l s : ℚ) (hl : 0 ≤ l ∧ l ≤ 1) (hs : 0 ≤ s ∧ s ≤ 1) :
    (0 ≤ (hlsToRgb h l s).1 ∧ (hlsToRgb h l s).1 ≤ 1) ∧
    (0 ≤ (hlsToRgb h l s).2.1 ∧ (hlsToRgb h l s).2.1 ≤ 1) ∧
    (0 ≤ (hlsToRgb h l s).2.2 ∧ (hlsToRgb h l s).2.2 ≤ 1) := by
  unfold hlsToRgb
  by_cases c : s = 0
  · rw [if_pos c]; exact ⟨hl, hl, hl⟩
  · rw [if_neg c]
    obtain ⟨a1, a2, a3⟩ := m12_range l s hl hs
    simp only at a1 a2 a3 ⊢
    have b1 := vv_between _ _ (h + 1/3) a2
    have b2 := vv_between _ _ h a2
    have b3 := vv_between _ _ (h - 1/3) a2
    exact ⟨⟨le_trans a1 b1.1, le_trans b1.2 a3⟩, ⟨le_trans a1 b2.1, le_trans b2.2 a3⟩,
      ⟨le_trans a1 b3.1, le_trans b3.2 a3⟩⟩

theorem rgbToHls_range (r g b : ℚ) (hr : 0 ≤ r ∧ r ≤ 1) (hg : 0 ≤ g ∧ g ≤ 1) (hb : 0 ≤ b ∧ b ≤ 1) :
    (0 ≤ (rgbToHls r g b).1 ∧ (rgbToHls r g b).1 < 1) ∧
    (0 ≤ (rgbToHls r g b).2.1 ∧ (rgbToHls r g b).2.1 ≤ 1) ∧
    (0 ≤ (rgbToHls r g b).2.2 ∧ (rgbToHls r g b).2.2 ≤ 1) := by
  obtain ⟨M, hM⟩ : ∃ M, M = max r (max g b) := ⟨_, rfl⟩
  obtain ⟨m, hm⟩ : ∃ m, m = min r (min g b) := ⟨_, rfl⟩
  have rM : r ≤ M := hM ▸ le_max_left _ _
  have mr : m ≤ r := hm ▸ min_le_left _ _
  have M1 : M ≤ 1 := by rw [hM]; exact max_le hr.2 (max_le hg.2 hb.2)
  have m0 : 0 ≤ m := by rw [hm]; exact le_min hr.1 (le_min hg.1 hb.1)
  rw [rgbToHls_def]
  simp only [← hM, ← hm]
  by_cases hmm : m = M
  · rw [if_pos hmm]
    refine ⟨⟨le_refl _, by norm_num⟩, ⟨?_, ?_⟩, ⟨le_refl _, by norm_num⟩⟩
    · show 0 ≤ (M + m) / 2
      linarith
    · show (M + m) / 2 ≤ 1
      linarith
  · rw [if_neg hmm]
    have hlt : m < M := lt_of_le_of_ne (le_trans mr rM) hmm
    refine ⟨⟨frac1_nonneg _, frac1_lt_one _⟩, ⟨?_, ?_⟩, ?_⟩
    · show 0 ≤ (M + m) / 2
      linarith
    · show (M + m) / 2 ≤ 1
      linarith
    · show 0 ≤ (if (M + m) / 2 ≤ 1 / 2 then (M - m) / (M + m) else (M - m) / (2 - M - m)) ∧
        (if (M + m) / 2 ≤ 1 / 2 then (M - m) / (M + m) else (M - m) / (2 - M - m)) ≤ 1
      have hsum : 0 < M + m := by linarith
      have hsum2 : 0 < 2 - M - m := by linarith
      split_ifs
      · exact ⟨div_nonneg (by linarith) (le_of_lt hsum), by rw [div_le_one hsum]; linarith⟩
      · exact ⟨div_nonneg (by linarith) (le_of_lt hsum2), by rw [div_le_one hsum2]; linarith⟩

/-! ### clamp01, pmod -/

theorem clamp01_range (x : ℚ) : 0 ≤ clamp01 x ∧ clamp01 x ≤ 1 := by
  rw [clamp01_def]
  exact ⟨le_min (by norm_num) (le_max_left _ _), min_le_left _ _⟩

theorem clamp01_id (x : ℚ) (h0 : 0 ≤ x) (h1 : x ≤ 1) : clamp01 x = x := by
  rw [clamp01_def, max_eq_right h0, min_eq_right h1]

theorem clamp01_low (x : ℚ) (h : x ≤ 0) : clamp01 x = 0 := by
  rw [clamp01_def, max_eq_left h, min_eq_right (by norm_num)]

theorem clamp01_high (x : ℚ) (h : 1 ≤ x) : clamp01 x = 1 := by
  rw [clamp01_def, max_eq_right (by linarith), min_eq_left h]

theorem pmod_add_mul (x : ℚ) (k : ℤ) : pmod (x + 360 * k) 360 = pmod x 360 := by
  rw [pmod_def, pmod_def]
  have : (x + 360 * k) / 360 = x / 360 + k := by field_simp
  rw [this, Int.floor_add_intCast]; push_cast; ring

theorem pmod_range (x : ℚ) : 0 ≤ pmod x 360 ∧ pmod x 360 < 360 := by
  rw [pmod_def]
  have h1 := Int.floor_le (x / 360)
  have h2 := Int.lt_floor_add_one (x / 360)
  have e : x = x / 360 * 360 := by field_simp
  constructor <;> linarith

theorem pmod_id (x : ℚ) (h0 : 0 ≤ x) (h1 : x < 360) : pmod x 360 = x := by
  rw [pmod_def]
  have : ⌊x / 360⌋ = 0 := by
    rw [Int.floor_eq_iff]
    constructor
    · simpa using div_nonneg h0 (by norm_num : (0:ℚ) ≤ 360)
    · rw [Int.cast_zero, zero_add, div_lt_one (by norm_num)]; exact h1
  rw [this]; simp

/-! ### byteOf, rounding -/

theorem byteOf_le (x : ℚ) : byteOf x ≤ 255 := by
  unfold byteOf
  split
  · exact le_refl _
  · split
    · exact Nat.zero_le _
    · rename_i h1 h2
      have h1' : x ≤ 255 := not_lt.mp h1
      have h3 : (⌊x⌋ : ℚ) ≤ 255 := le_trans (Int.floor_le x) h1'
      have h4 : ⌊x⌋ ≤ 255 := by exact_mod_cast h3
      rw [floor_eq]; omega

/-- for `x ∈ [0, 255]`, `byteOf x` is `⌊x⌋` -/
theorem byteOf_floor (x : ℚ) (h0 : 0 ≤ x) (h1 : x ≤ 255) : ((byteOf x : ℕ) : ℤ) = ⌊x⌋ := by
  unfold byteOf
  rw [if_neg (not_lt.mpr h1), if_neg (not_lt.mpr h0), floor_eq]
  exact Int.toNat_of_nonneg (Int.floor_nonneg.mpr h0)

theorem byteOf_int (k : ℤ) (h0 : 0 ≤ k) (h1 : k ≤ 255) : ((byteOf (k : ℚ) : ℕ) : ℤ) = k := by
  rw [byteOf_floor _ (by exact_mod_cast h0) (by exact_mod_cast h1), Int.floor_intCast]

theorem byteOf_nat (n : ℕ) (h : n ≤ 255) : byteOf (n : ℚ) = n := by
  have := byteOf_int (n : ℤ) (Int.natCast_nonneg n) (by exact_mod_cast h)
  have e : ((n : ℤ) : ℚ) = (n : ℚ) := Int.cast_natCast n
  rw [e] at this
  exact_mod_cast this

/-- an integer within ½ of a point of [0, 255] is a byte, and `byteOf` keeps it -/
theorem byteOf_near (k : ℤ) (x : ℚ) (h0 : 0 ≤ x) (h1 : x ≤ 255) (hk : |(k : ℚ) - x| ≤ 1/2) :
    |((byteOf (k : ℚ) : ℕ) : ℚ) - x| ≤ 1/2 := by
  rw [abs_le] at hk
  have a : (-1 : ℚ) < k := by linarith
  have b : (k : ℚ) < 256 := by linarith
  have a' : -1 < k := by exact_mod_cast a
  have b' : k < 256 := by exact_mod_cast b
  have := byteOf_int k (by omega) (by omega)
  have e : ((byteOf (k : ℚ) : ℕ) : ℚ) = (k : ℚ) := by
    have : (((byteOf (k : ℚ) : ℕ) : ℤ) : ℚ) = (k : ℚ) := by rw [this]
    simpa using this
  rw [e, abs_le]; exact hk

theorem evenRound_def (x : ℚ) : evenRound x =
    if x - (⌊x⌋ : ℚ) < 1/2 then ⌊x⌋ else if x - (⌊x⌋ : ℚ) > 1/2 then ⌊x⌋ + 1
    else if ⌊x⌋ % 2 = 0 then ⌊x⌋ else ⌊x⌋ + 1 := rfl

theorem evenRound_near (x : ℚ) : |((evenRound x : ℤ) : ℚ) - x| ≤ 1 / 2 := by
  have h1 := Int.floor_le x
  have h2 := Int.lt_floor_add_one x
  rw [evenRound_def, abs_le]
  by_cases c1 : x - (⌊x⌋ : ℚ) < 1 / 2
  · rw [if_pos c1]; constructor <;> linarith
  · rw [if_neg c1]
    by_cases c2 : x - (⌊x⌋ : ℚ) > 1 / 2
    · rw [if_pos c2]; push_cast; constructor <;> linarith
    · rw [if_neg c2]
      have c1' := not_lt.mp c1
      have c2' := not_lt.mp c2
      split_ifs
      · constructor <;> linarith
      · push_cast; constructor <;> linarith

theorem evenRound_int (k : ℤ) : evenRound (k : ℚ) = k := by
  rw [evenRound_def]
  simp only [Int.floor_intCast, sub_self]
  rw [if_pos (by norm_num)]

theorem awayRound_nat (n : ℕ) : awayRound (n : ℚ) = n := by
  have := C17_round_int (n : ℤ)
  rwa [Int.cast_natCast] at this

theorem evenRound_nat (n : ℕ) : evenRound (n : ℚ) = n := by
  have := evenRound_int (n : ℤ)
  rwa [Int.cast_natCast] at this

theorem roundAway3_nat (c : RGB) (hc : c.1 ≤ 255 ∧ c.2.1 ≤ 255 ∧ c.2.2 ≤ 255) :
    roundAway3 ((c.1 : ℚ), (c.2.1 : ℚ), (c.2.2 : ℚ)) = c := by
  unfold roundAway3
  simp only [awayRound_nat, Int.cast_natCast, byteOf_nat _ hc.1, byteOf_nat _ hc.2.1,
    byteOf_nat _ hc.2.2]

theorem roundEven3_nat (c : RGB) (hc : c.1 ≤ 255 ∧ c.2.1 ≤ 255 ∧ c.2.2 ≤ 255) :
    roundEven3 ((c.1 : ℚ), (c.2.1 : ℚ), (c.2.2 : ℚ)) = c := by
  unfold roundEven3
  simp only [evenRound_nat, Int.cast_natCast, byteOf_nat _ hc.1, byteOf_nat _ hc.2.1,
    byteOf_nat _ hc.2.2]

/-! ### colours with byte channels -/

theorem chan_unit (n : ℕ) (h : n ≤ 255) : 0 ≤ (n : ℚ) / 255 ∧ (n : ℚ) / 255 ≤ 1 := by
  have h0 : (0 : ℚ) ≤ n := Nat.cast_nonneg n
  have h1 : (n : ℚ) ≤ 255 := by exact_mod_cast h
  constructor
  · exact div_nonneg h0 (by norm_num)
  · rw [div_le_one (by norm_num)]; exact h1

theorem hexToHls_range (c : RGB) (hc : c.1 ≤ 255 ∧ c.2.1 ≤ 255 ∧ c.2.2 ≤ 255) :
    (0 ≤ (hexToHls c).1 ∧ (hexToHls c).1 < 1) ∧
    (0 ≤ (hexToHls c).2.1 ∧ (hexToHls c).2.1 ≤ 1) ∧
    (0 ≤ (hexToHls c).2.2 ∧ (hexToHls c).2.2 ≤ 1) :=
  rgbToHls_range _ _ _ (chan_unit _ hc.1) (chan_unit _ hc.2.1) (chan_unit _ hc.2.2)

theorem hex_roundtrip (c : RGB) (hc : c.1 ≤ 255 ∧ c.2.1 ≤ 255 ∧ c.2.2 ≤ 255) :
    hlsToRgb (hexToHls c).1 (hexToHls c).2.1 (hexToHls c).2.2
      = ((c.1 : ℚ) / 255, (c.2.1 : ℚ) / 255, (c.2.2 : ℚ) / 255) :=
  roundtrip _ _ _ (chan_unit _ hc.1) (chan_unit _ hc.2.1) (chan_unit _ hc.2.2)

theorem scale_hex_roundtrip (c : RGB) (hc : c.1 ≤ 255 ∧ c.2.1 ≤ 255 ∧ c.2.2 ≤ 255) :
    scale (hlsToRgb (hexToHls c).1 (hexToHls c).2.1 (hexToHls c).2.2)
      = ((c.1 : ℚ), (c.2.1 : ℚ), (c.2.2 : ℚ)) := by
  rw [hex_roundtrip c hc]
  unfold scale
  simp only [div_mul_cancel₀ _ (by norm_num : (255 : ℚ) ≠ 0)]

theorem scale_range (v : ℚ × ℚ × ℚ)
    (h : (0 ≤ v.1 ∧ v.1 ≤ 1) ∧ (0 ≤ v.2.1 ∧ v.2.1 ≤ 1) ∧ (0 ≤ v.2.2 ∧ v.2.2 ≤ 1)) :
    (0 ≤ (scale v).1 ∧ (scale v).1 ≤ 255) ∧ (0 ≤ (scale v).2.1 ∧ (scale v).2.1 ≤ 255) ∧
    (0 ≤ (scale v).2.2 ∧ (scale v).2.2 ≤ 255) := by
  obtain ⟨⟨a1, a2⟩, ⟨b1, b2⟩, ⟨c1, c2⟩⟩ := h
  unfold scale
  refine ⟨⟨?_, ?_⟩, ⟨?_, ?_⟩, ⟨?_, ?_⟩⟩ <;> simp only <;> linarith

/-- the new lightness / saturation used by `ophslExact` are in [0,1] -/
theorem ophslExact_range (c : RGB) (hc : c.1 ≤ 255 ∧ c.2.1 ≤ 255 ∧ c.2.2 ≤ 255)
    (d : ℚ) (idx : ℕ) (sign : ℤ) :
    (0 ≤ (ophslExact c d idx sign).1 ∧ (ophslExact c d idx sign).1 ≤ 255) ∧
    (0 ≤ (ophslExact c d idx sign).2.1 ∧ (ophslExact c d idx sign).2.1 ≤ 255) ∧
    (0 ≤ (ophslExact c d idx sign).2.2 ∧ (ophslExact c d idx sign).2.2 ≤ 255) := by
  obtain ⟨_, hl, hs⟩ := hexToHls_range c hc
  unfold ophslExact
  simp only
  apply scale_range
  apply hlsToRgb_range
  · split_ifs
    · exact clamp01_range _
    · exact hl
  · split_ifs
    · exact clamp01_range _
    · exact hs

theorem ophslExact_zero (c : RGB) (hc : c.1 ≤ 255 ∧ c.2.1 ≤ 255 ∧ c.2.2 ≤ 255)
    (idx : ℕ) (sign : ℤ) :
    ophslExact c 0 idx sign = ((c.1 : ℚ), (c.2.1 : ℚ), (c.2.2 : ℚ)) := by
  obtain ⟨_, hl, hs⟩ := hexToHls_range c hc
  unfold ophslExact
  simp only [zero_div, mul_zero, add_zero, clamp01_id _ hl.1 hl.2, clamp01_id _ hs.1 hs.2, ite_self]
  exact scale_hex_roundtrip c hc

theorem spinExact_zero (c : RGB) (hc : c.1 ≤ 255 ∧ c.2.1 ≤ 255 ∧ c.2.2 ≤ 255) :
    spinExact c 0 = ((c.1 : ℚ), (c.2.1 : ℚ), (c.2.2 : ℚ)) := by
  obtain ⟨hh, _, _⟩ := hexToHls_range c hc
  unfold spinExact
  simp only [add_zero]
  rw [pmod_id _ (by linarith [hh.1]) (by linarith [hh.2]),
    mul_div_cancel_right₀ _ (by norm_num : (360 : ℚ) ≠ 0)]
  exact scale_hex_roundtrip c hc

theorem spinExact_wrap (c : RGB) (d : ℚ) (k : ℤ) : spinExact c (d + 360 * k) = spinExact c d := by
  unfold spinExact
  simp only [← add_assoc, pmod_add_mul]

/-! ### mix -/

theorem mix_weight (w : ℚ) : (((w / 100) * 2 - 1) + 1) / 2 = w / 100 := by ring

/-- a convex combination lies between its end points -/
theorem convex_between (a b t : ℚ) (h0 : 0 ≤ t) (h1 : t ≤ 1) :
    min a b ≤ a * t + b * (1 - t) ∧ a * t + b * (1 - t) ≤ max a b := by
  have h1' : 0 ≤ 1 - t := by linarith
  constructor
  · have p1 := mul_le_mul_of_nonneg_right (min_le_left a b) h0
    have p2 := mul_le_mul_of_nonneg_right (min_le_right a b) h1'
    nlinarith
  · have p1 := mul_le_mul_of_nonneg_right (le_max_left a b) h0
    have p2 := mul_le_mul_of_nonneg_right (le_max_right a b) h1'
    nlinarith

/-- truncation of a value in [0,255] -/
theorem byteOf_trunc (x : ℚ) (h0 : 0 ≤ x) (h1 : x ≤ 255) :
    ((byteOf x : ℕ) : ℚ) ≤ x ∧ x < ((byteOf x : ℕ) : ℚ) + 1 := by
  have e : ((byteOf x : ℕ) : ℚ) = (⌊x⌋ : ℚ) := by
    have := byteOf_floor x h0 h1
    have : (((byteOf x : ℕ) : ℤ) : ℚ) = (⌊x⌋ : ℚ) := by rw [this]
    simpa using this
  rw [e]; exact ⟨Int.floor_le x, Int.lt_floor_add_one x⟩

theorem byte_minmax (a b : ℕ) (ha : a ≤ 255) (hb : b ≤ 255) :
    (0 : ℚ) ≤ min (a : ℚ) b ∧ max (a : ℚ) b ≤ 255 := by
  have a0 : (0 : ℚ) ≤ a := Nat.cast_nonneg a
  have b0 : (0 : ℚ) ≤ b := Nat.cast_nonneg b
  have a1 : (a : ℚ) ≤ 255 := by exact_mod_cast ha
  have b1 : (b : ℚ) ≤ 255 := by exact_mod_cast hb
  exact ⟨le_min a0 b0, max_le a1 b1⟩

theorem mixExact_full (c1 c2 : RGB) :
    mixExact c1 c2 100 = ((c1.1 : ℚ), (c1.2.1 : ℚ), (c1.2.2 : ℚ)) := by
  unfold mixExact
  have e : ((((100 : ℚ) / 100) * 2 - 1) + 1) / 2 = 1 := by norm_num
  simp only [e, mul_one, sub_self, mul_zero, add_zero]

theorem mixExact_none (c1 c2 : RGB) :
    mixExact c1 c2 0 = ((c2.1 : ℚ), (c2.2.1 : ℚ), (c2.2.2 : ℚ)) := by
  unfold mixExact
  have e : ((((0 : ℚ) / 100) * 2 - 1) + 1) / 2 = 0 := by norm_num
  simp only [e, mul_one, sub_zero, mul_zero, zero_add]

/-- one channel of `mix`: the exact value is a convex combination of the two bytes and `byteOf` truncates it -/
theorem mix_chan (a b : ℕ) (ha : a ≤ 255) (hb : b ≤ 255) (w : ℚ) (w0 : 0 ≤ w) (w1 : w ≤ 100) :
    let e := (a : ℚ) * ((((w / 100) * 2 - 1) + 1) / 2) + (b : ℚ) * (1 - (((w / 100) * 2 - 1) + 1) / 2)
    ((byteOf e : ℕ) : ℚ) ≤ e ∧ e < ((byteOf e : ℕ) : ℚ) + 1 ∧ min (a : ℚ) b ≤ e ∧ e ≤ max (a : ℚ) b := by
  intro e
  have t0 : (0 : ℚ) ≤ (((w / 100) * 2 - 1) + 1) / 2 := by rw [mix_weight]; exact div_nonneg w0 (by norm_num)
  have t1 : (((w / 100) * 2 - 1) + 1) / 2 ≤ (1 : ℚ) := by
    rw [mix_weight, div_le_one (by norm_num)]; exact w1
  obtain ⟨c1, c2⟩ := convex_between (a : ℚ) b _ t0 t1
  obtain ⟨m0, m1⟩ := byte_minmax a b ha hb
  obtain ⟨b1, b2⟩ := byteOf_trunc e (le_trans m0 c1) (le_trans c2 m1)
  exact ⟨b1, b2, c1, c2⟩

/-- desaturating by 100 gives the grey of the same lightness -/
theorem ophslExact_grey (c : RGB) (hc : c.1 ≤ 255 ∧ c.2.1 ≤ 255 ∧ c.2.2 ≤ 255) :
    ophslExact c 100 2 (-1) =
      ((hexToHls c).2.1 * 255, (hexToHls c).2.1 * 255, (hexToHls c).2.1 * 255) := by
  obtain ⟨_, _, hs⟩ := hexToHls_range c hc
  have e : clamp01 ((hexToHls c).2.2 + ((-1 : ℤ) : ℚ) * (100 / 100)) = 0 := by
    apply clamp01_low; push_cast; linarith [hs.2]
  unfold ophslExact
  simp only [e, if_true, if_false, (by decide : ¬ (2 = 1)), hlsToRgb, scale]

end Lessm.ColorFn
