/-
  Helper lemmas: the LR-style parser with precedence-resolved conflicts reads the text of every
  canonical tree back to that tree.  Core Lean only.
-/
import Lessm.Model.Expr
set_option linter.unusedVariables false
namespace Lessm.Expr

section
variable {α : Type} (lvl : Op → Nat)

def S : E α → List (Item α)
  | .bin o l r => S r ++ [.pend l o]
  | _ => []
def last : E α → E α
  | .bin _ _ r => last r
  | e => e
def fold : List (Item α) → E α → E α
  | .pend l o :: s, c => fold s (.bin o l c)
  | _, c => c
def SpineGe (k : Nat) : List (Item α) → Prop
  | [] => True
  | .pend _ o :: st => k ≤ lvl o ∧ SpineGe k st
  | .mark :: _ => False
  | .nmark :: _ => False
def Blocks (k : Nat) : List (Item α) → Prop
  | .pend _ o :: _ => lvl o < k
  | _ => True

theorem SpineGe.mono {k k' : Nat} (h : k ≤ k') : ∀ {s : List (Item α)}, SpineGe lvl k' s → SpineGe lvl k s
  | [], _ => trivial
  | .pend _ o :: st, ⟨h1, h2⟩ => ⟨Nat.le_trans h h1, SpineGe.mono h h2⟩
  | .mark :: _, h => h.elim
  | .nmark :: _, h => h.elim
theorem SpineGe.append {k} : ∀ {s t : List (Item α)}, SpineGe lvl k s → SpineGe lvl k t → SpineGe lvl k (s ++ t)
  | [], _, _, ht => ht
  | .pend _ o :: s, t, ⟨h1, h2⟩, ht => ⟨h1, SpineGe.append h2 ht⟩
  | .mark :: _, _, h, _ => h.elim
  | .nmark :: _, _, h, _ => h.elim
theorem Blocks.mono {k k'} (h : k ≤ k') : ∀ {s : List (Item α)}, Blocks lvl k s → Blocks lvl k' s
  | [], _ => trivial
  | .pend _ o :: _, h1 => Nat.lt_of_lt_of_le h1 h
  | .mark :: _, _ => trivial
  | .nmark :: _, _ => trivial
theorem fold_append {k} : ∀ {s t : List (Item α)} {c}, SpineGe lvl k s → fold (s ++ t) c = fold t (fold s c)
  | [], _, _, _ => rfl
  | .pend l o :: s, t, c, ⟨_, h2⟩ => by simp only [List.cons_append, fold]; exact fold_append h2
  | .mark :: _, _, _, h => h.elim
  | .nmark :: _, _, _, h => h.elim
theorem reduceWhile_spine {look k} (hk : lvl look ≤ k) :
    ∀ {s st : List (Item α)} {c}, SpineGe lvl k s → Blocks lvl (lvl look) st →
      reduceWhile lvl look (s ++ st) c = (st, fold s c)
  | [], st, c, _, hb => by
      cases st with
      | nil => simp [reduceWhile, fold]
      | cons i st => cases i with
        | pend l o =>
          have : ¬ (lvl look ≤ lvl o) := Nat.not_le.mpr hb
          simp [reduceWhile, reduces, this, fold]
        | mark => simp [reduceWhile, fold]
        | nmark => simp [reduceWhile, fold]
  | .pend l o :: s, st, c, ⟨h1, h2⟩, hb => by
      have : lvl look ≤ lvl o := Nat.le_trans hk h1
      simp only [List.cons_append, reduceWhile, reduces, this, decide_true, if_true, fold]
      exact reduceWhile_spine hk h2 hb
  | .mark :: _, _, _, h, _ => h.elim
  | .nmark :: _, _, _, h, _ => h.elim
theorem reduceAll_spine {k} : ∀ {s st : List (Item α)} {c}, SpineGe lvl k s → reduceAll (s ++ st) c = reduceAll st (fold s c)
  | [], _, _, _ => rfl
  | .pend l o :: s, st, c, ⟨_, h2⟩ => by simp only [List.cons_append, reduceAll, fold]; exact reduceAll_spine h2
  | .mark :: _, _, _, h => h.elim
  | .nmark :: _, _, _, h => h.elim
theorem spineGe_S : ∀ e : E α, Canon lvl e →
    (∀ k, rootLvl lvl e = some k → SpineGe lvl k (S e)) ∧ (rootLvl lvl e = none → S e = [])
  | .leaf _, _ => ⟨fun _ h => by simp [rootLvl] at h, fun _ => rfl⟩
  | .paren _, _ => ⟨fun _ h => by simp [rootLvl] at h, fun _ => rfl⟩
  | .neg _, _ => ⟨fun _ h => by simp [rootLvl] at h, fun _ => rfl⟩
  | .bin o l r, ⟨_, hr, _, hrr⟩ => by
      refine ⟨fun k hk => ?_, fun h => by simp [rootLvl] at h⟩
      simp only [rootLvl, Option.some.injEq] at hk
      subst hk
      simp only [S]
      apply SpineGe.append
      · cases hroot : rootLvl lvl r with
        | none => rw [(spineGe_S r hr).2 hroot]; trivial
        | some k' => exact SpineGe.mono lvl (Nat.le_of_lt (hrr k' hroot)) ((spineGe_S r hr).1 k' hroot)
      · exact ⟨Nat.le_refl _, trivial⟩
theorem spineGe_any (e : E α) (h : Canon lvl e) :
    ∃ k, SpineGe lvl k (S e) ∧ (∀ k', rootLvl lvl e = some k' → k = k') := by
  cases hroot : rootLvl lvl e with
  | none => exact ⟨0, by rw [(spineGe_S lvl e h).2 hroot]; trivial, fun _ h => by simp at h⟩
  | some k => exact ⟨k, (spineGe_S lvl e h).1 k hroot, fun k' h => by simpa using h⟩
theorem fold_S_last : ∀ e : E α, Canon lvl e → fold (S e) (last e) = e
  | .leaf _, _ => rfl
  | .paren _, _ => rfl
  | .neg _, _ => rfl
  | .bin o l r, hc => by
      obtain ⟨_, hr, _, _⟩ := hc
      obtain ⟨k, hk, _⟩ := spineGe_any lvl r hr
      simp only [S, last]
      rw [fold_append lvl hk, fold_S_last r hr]
      rfl
theorem run_append (s) (a b : List (Tok α)) :
    run lvl s (a ++ b) = (run lvl s a).bind (fun s' => run lvl s' b) := by
  induction a generalizing s with
  | nil => simp [run]
  | cons t ts ih =>
    simp only [List.cons_append, run]
    cases h : step lvl s t with
    | none => simp
    | some s' => simp [ih]
/-- feeding the text of a canonical tree pushes exactly its right spine -/
theorem feed : ∀ e : E α, Canon lvl e → ∀ st, (∀ k, rootLvl lvl e = some k → Blocks lvl k st) →
    run lvl (st, none) (toks e) = some (S e ++ st, some (last e))
  | .leaf n, _, st, _ => by simp [toks, run, step, S, last]
  | .paren e, hc, st, _ => by
      have ih := feed e hc (.mark :: st) (fun _ _ => trivial)
      obtain ⟨k, hk, _⟩ := spineGe_any lvl e hc
      have h1 : run lvl (st, none) (toks (.paren e)) = run lvl (.mark :: st, none) (toks e ++ [.rp]) := by
        simp [toks, run, step]
      rw [h1, run_append, ih]
      simp only [Option.bind_some, run, step]
      rw [reduceAll_spine lvl hk, fold_S_last lvl e hc]
      simp [reduceAll, S, last]
  | .neg e, hc, st, _ => by
      have ih := feed e hc (.nmark :: st) (fun _ _ => trivial)
      obtain ⟨k, hk, _⟩ := spineGe_any lvl e hc
      have h1 : run lvl (st, none) (toks (.neg e)) = run lvl (.nmark :: st, none) (toks e ++ [.rp]) := by
        simp [toks, run, step]
      rw [h1, run_append, ih]
      simp only [Option.bind_some, run, step]
      rw [reduceAll_spine lvl hk, fold_S_last lvl e hc]
      simp [reduceAll, S, last]
  | .bin o l r, hc, st, hst => by
      obtain ⟨hl, hr, hll, hrr⟩ := hc
      have hb : Blocks lvl (lvl o) st := hst _ rfl
      have ihl := feed l hl st (fun k hk => Blocks.mono lvl (hll k hk) hb)
      simp only [toks]
      rw [run_append, ihl]
      simp only [Option.bind_some, run, step]
      obtain ⟨k, hk, hkroot⟩ := spineGe_any lvl l hl
      have hle : lvl o ≤ k ∨ S l = [] := by
        cases hroot : rootLvl lvl l with
        | none => exact Or.inr ((spineGe_S lvl l hl).2 hroot)
        | some k' => exact Or.inl (by rw [hkroot k' hroot]; exact hll k' hroot)
      have hred : reduceWhile lvl o (S l ++ st) (last l) = (st, l) := by
        rcases hle with hle | hnil
        · rw [reduceWhile_spine lvl hle hk hb, fold_S_last lvl l hl]
        · have := reduceWhile_spine lvl (look := o) (k := lvl o) (Nat.le_refl _)
            (s := []) (st := st) (c := last l) trivial hb
          rw [hnil]; simp only [List.nil_append] at this ⊢
          rw [this]; have := fold_S_last lvl l hl; rw [hnil] at this; simpa [fold] using this
      rw [hred]
      have ihr := feed r hr (.pend l o :: st) (fun k hk => hrr k hk)
      rw [ihr]
      simp [S, last]
/-- LR with precedence-resolved conflicts reads the text of every canonical tree back to that tree. -/
theorem parse_toks (e : E α) (h : Canon lvl e) : parse lvl (toks e) = some e := by
  obtain ⟨k, hk, _⟩ := spineGe_any lvl e h
  have := feed lvl e h [] (fun _ _ => trivial)
  simp only [parse, this, List.append_nil]
  have h2 := reduceAll_spine lvl (st := []) (c := last e) hk
  simp only [List.append_nil] at h2
  rw [h2, fold_S_last lvl e h]
  simp [reduceAll]
end

end Lessm.Expr
