/-
  Cross-model consistency: embeddings of the smaller fragments into the larger models, projections
  of the results to a common observation, and the lemmas behind Lessm/Props/Cross.lean.

  The four evaluator models and what they share:

    Nest   rules + declarations (literal values); selectors are token lists handled by `identParse`
    Media  Nest + `@media`; same selector machinery, same declarations
    Vars   rules + declarations + variable definitions; values are token lists with references;
           selectors are OPAQUE string pieces collected along the path (no `&`, no comma lists, no
           combinators: a nested selector is its ancestors' pieces followed by its own)
    Mixin  rules + declarations + calls (+ definitions at top level); values as in Vars, selectors as
           in Nest (`identParse`); there are NO variable definitions: names are bound by mixin
           parameters only

  Consequences for the statements:
    * Nest -> Media and Nest -> Mixin need no restriction on selectors (same `identParse`);
    * Nest -> Vars and Vars -> Mixin are stated for `plainSel` selectors: the shapes on which
      `identParse` is plain descendant concatenation, which is all that a Vars path expresses;
    * Vars -> Mixin is stated for sheets without variable definitions and without `@{x}` in selectors
      (Mixin has neither).  References in values are allowed: they are unbound on both sides, and both
      sides report the same `unknownVar` error, the first one in evaluation order.
-/
import Lessm.Props.C02
import Lessm.Props.C07
import Lessm.Lemmas.VarsLemmas
import Lessm.Lemmas.MixinLemmas

namespace Lessm.Cross
open Lessm.Sel

/-! ### the common observation -/

/-- one printed style rule: its selector list (token lists, as `identParse` produces them) and its
    declarations as `(property, value text)` -/
structure Obs where
  sels : List Sel
  decls : List (String × String)
deriving Repr, DecidableEq

/-- the selector a Vars path stands for: the pieces of the ancestors and the rule's own pieces, one
    descendant space between two levels -/
def joinPath : List (List String) → List String
  | [] => []
  | [p] => p
  | p :: q :: r => p ++ " " :: joinPath (q :: r)

/-- a Nest declaration as `(property, value text)` -/
def declS (d : Nest.Decl) : String × String := (d.prop, d.value)
/-- a Vars output declaration as `(property, value text)`: the strings of the value, concatenated
    (what `Mixin.valText` prints) -/
def declM (d : String × List String) : String × String := (d.1, String.join d.2)

def obsN (o : Nest.OutRule) : Obs := ⟨o.sels, o.decls.map declS⟩
def obsV (o : Vars.OutRule) : Obs := ⟨[joinPath o.path], o.decls.map declM⟩
def obsM (o : Mixin.OutRule) : Obs := ⟨o.sels, o.decls⟩

/-- a Nest rule as a Media observation outside every `@media` -/
def tripleOf (ctx : List Media.Query) (o : Nest.OutRule) : Media.Triple := ⟨ctx, o.sels, o.decls⟩

/-! ### the selector shapes all models agree on -/

/-- a token that `Identifier.parse` leaves alone: not `*`, not `,`, not `&`, not a combinator, not an
    encoded combinator `?c?` -/
def plainTok (t : Tok) : Bool :=
  !(t == "*" || t == "," || t == "&" || isComb t || isEncLike t)

/-- a selector of plain tokens, not empty, not ending in a blank (blanks inside are allowed: `.a .b`) -/
def plainSel (s : List Tok) : Bool :=
  !s.isEmpty && s.all plainTok && (s.getLast? != some " ")

/-! ### embeddings -/

mutual
/-- Nest into Vars: a literal value is one literal token, a selector token is a literal piece -/
def embedNVItem : Nest.Item → Vars.Item
  | .decl d => .decl d.prop [.lit d.value]
  | .rule sel body => .rule (sel.map Vars.STok.lit) (embedNV body)
def embedNV : List Nest.Item → List Vars.Item
  | [] => []
  | i :: is => embedNVItem i :: embedNV is
end

mutual
/-- Nest into Media: the identity on the shared constructors -/
def embedNMItem : Nest.Item → Media.Item
  | .decl d => .decl d
  | .rule sel body => .rule sel (embedNM body)
def embedNM : List Nest.Item → List Media.Item
  | [] => []
  | i :: is => embedNMItem i :: embedNM is
end

mutual
/-- Nest into Mixin, inside a rule -/
def embedNXItem : Nest.Item → Mixin.Item
  | .decl d => .decl d.prop [.lit d.value]
  | .rule sel body => .rule sel (embedNXItems body)
def embedNXItems : List Nest.Item → List Mixin.Item
  | [] => []
  | i :: is => embedNXItem i :: embedNXItems is
end

/-- Nest into Mixin, top level: `Mixin.Top` has no declarations; a top-level declaration prints
    nothing in Nest either -/
def embedNX : List Nest.Item → List Mixin.Top
  | [] => []
  | .decl _ :: r => embedNX r
  | .rule sel body :: r => .rule sel (embedNXItems body) :: embedNX r

/-- the text of a selector piece (an interpolation is outside the common fragment, see `commonVM`) -/
def pieceText : Vars.STok → Tok
  | .lit s => s
  | .interp n => "@{" ++ n ++ "}"

def selToks (sel : List Vars.STok) : List Tok := sel.map pieceText

mutual
/-- Vars into Mixin, inside a rule (a variable definition is outside the common fragment and has no
    image: see `commonVM`) -/
def embedVMItem : Vars.Item → List Mixin.Item
  | .decl p v => [.decl p v]
  | .vdef _ _ => []
  | .rule sel body => [.rule (selToks sel) (embedVMItems body)]
def embedVMItems : List Vars.Item → List Mixin.Item
  | [] => []
  | i :: is => embedVMItem i ++ embedVMItems is
end

/-- Vars into Mixin, top level (only rules have an image) -/
def embedVM : List Vars.Item → List Mixin.Top
  | [] => []
  | .rule sel body :: r => .rule (selToks sel) (embedVMItems body) :: embedVM r
  | _ :: r => embedVM r

/-! ### the fragments, as decidable predicates -/

mutual
/-- every selector of the tree is `plainSel` -/
def plainItemN : Nest.Item → Bool
  | .decl _ => true
  | .rule sel body => plainSel sel && plainSheetN body
def plainSheetN : List Nest.Item → Bool
  | [] => true
  | i :: is => plainItemN i && plainSheetN is
end

def noInterp (sel : List Vars.STok) : Bool :=
  sel.all fun t => match t with | .lit _ => true | .interp _ => false

mutual
/-- no variable definition, no interpolation, every selector `plainSel` -/
def commonItemVM : Vars.Item → Bool
  | .decl _ _ => true
  | .vdef _ _ => false
  | .rule sel body => noInterp sel && plainSel (selToks sel) && commonItemsVM body
def commonItemsVM : List Vars.Item → Bool
  | [] => true
  | i :: is => commonItemVM i && commonItemsVM is
end

def isRuleV : Vars.Item → Bool
  | .rule _ _ => true
  | _ => false

/-- the common fragment of Vars and Mixin: top level consists of rules, and `commonItemsVM` -/
def commonVM (sheet : List Vars.Item) : Bool := sheet.all isRuleV && commonItemsVM sheet

mutual
/-- nesting depth of rules (a declaration counts 1): what `Mixin.evalItems` needs as `gas` -/
def nestingN : Nest.Item → Nat
  | .decl _ => 1
  | .rule _ body => nestingNList body + 1
def nestingNList : List Nest.Item → Nat
  | [] => 0
  | i :: is => max (nestingN i) (nestingNList is)
end

mutual
def nestingV : Vars.Item → Nat
  | .decl _ _ => 1
  | .vdef _ _ => 1
  | .rule _ body => nestingVList body + 1
def nestingVList : List Vars.Item → Nat
  | [] => 0
  | i :: is => max (nestingV i) (nestingVList is)
end

/-! ### selectors: `identParse` on plain selectors is descendant concatenation -/

theorem plainTok_iff (t : Tok) : plainTok t = true ↔
    t ≠ "*" ∧ t ≠ "," ∧ t ≠ "&" ∧ isComb t = false ∧ isEncLike t = false := by
  simp [plainTok, and_assoc]

theorem encodeLoop_plain (toks : List Tok) (h : ∀ t ∈ toks, plainTok t = true) :
    ∀ cur done, encodeLoop toks cur done = ((toks.reverse ++ cur).reverse :: done).reverse := by
  induction toks with
  | nil => intro cur done; simp [encodeLoop]
  | cons t ts ih =>
    intro cur done
    have ht := (plainTok_iff t).mp (h t (by simp))
    have h1 : (t == "*") = false := by simpa using ht.1
    have h2 : (t == ",") = false := by simpa using ht.2.1
    simp only [encodeLoop, h1, h2, ht.2.2.2.1, Bool.false_eq_true, if_false]
    rw [ih (fun x hx => h x (by simp [hx]))]
    simp

theorem encode_plain (toks : List Tok) (h : ∀ t ∈ toks, plainTok t = true) :
    encode toks = [toks] := by
  unfold encode
  rw [encodeLoop_plain toks h]
  simp

theorem pairwiseFilter_id : ∀ l : Sel, (∀ t ∈ l, isEncLike t = false) → l.getLast? ≠ some " " →
    pairwiseFilter l = l
  | [], _, _ => rfl
  | [t], _, hl => by
      have : (t == " ") = false := by simpa using hl
      simp [pairwiseFilter, this]
  | t :: u :: rest, he, hl => by
      have hu : isEncLike u = false := he u (by simp)
      have ih := pairwiseFilter_id (u :: rest) (fun x hx => he x (by simp [hx]))
        (by simpa [List.getLast?_cons_cons] using hl)
      simp only [pairwiseFilter, hu, Bool.and_false, Bool.false_eq_true, if_false, ih]

/-- a parent selector that descendant concatenation can extend -/
def GoodSel (p : Sel) : Prop := p ≠ [] ∧ p.getLast? ≠ some " " ∧ ∀ t ∈ p, isEncLike t = false

theorem plainSel_iff (s : List Tok) : plainSel s = true ↔
    s ≠ [] ∧ (∀ t ∈ s, plainTok t = true) ∧ s.getLast? ≠ some " " := by
  simp [plainSel, and_assoc]

theorem GoodSel_of_plain {s : List Tok} (h : plainSel s = true) : GoodSel s := by
  obtain ⟨h1, h2, h3⟩ := (plainSel_iff s).mp h
  exact ⟨h1, h3, fun t ht => ((plainTok_iff t).mp (h2 t ht)).2.2.2.2⟩

theorem GoodSel_append {p s : Sel} (hp : GoodSel p) (hs : GoodSel s) : GoodSel (p ++ " " :: s) := by
  obtain ⟨_, _, p3⟩ := hp
  obtain ⟨s1, s2, s3⟩ := hs
  refine ⟨by simp, ?_, ?_⟩
  · cases s with
    | nil => exact absurd rfl s1
    | cons a r =>
      have e : (p ++ " " :: a :: r).getLast? = (a :: r).getLast? := by
        rw [List.getLast?_append, List.getLast?_cons_cons, List.getLast?_eq_some_getLast (l := a :: r) (by simp)]
        rfl
      rw [e]
      exact s2
  · intro t ht
    rcases List.mem_append.mp ht with h | h
    · exact p3 t h
    · rcases List.mem_cons.mp h with rfl | h
      · decide
      · exact s3 t h

theorem identParse_none_plain {s : List Tok} (h : plainSel s = true) : identParse none s = [s] := by
  obtain ⟨_, h2, _⟩ := (plainSel_iff s).mp h
  have hg := GoodSel_of_plain h
  simp only [identParse, encode_plain s h2, root, List.map_cons, List.map_nil,
    pairwiseFilter_id s hg.2.2 hg.2.1]

theorem identParse_some_plain {p : Sel} {s : List Tok} (hp : GoodSel p) (h : plainSel s = true) :
    identParse (some [p]) s = [p ++ " " :: s] := by
  obtain ⟨_, h2, _⟩ := (plainSel_iff s).mp h
  have hg := GoodSel_append hp (GoodSel_of_plain h)
  have h0 : countAmp s = 0 := by
    unfold countAmp
    rw [List.count_eq_zero]
    intro hm
    exact ((plainTok_iff "&").mp (h2 "&" hm)).2.2.1 rfl
  have hr : rootOne [p] s = [p ++ " " :: s] := by
    rw [Nest.C02_desc [p] s h0 (by
      intro q hq
      have : q = p := by simpa using hq
      subst this
      exact ⟨hp.1, hp.2.1⟩)]
    rfl
  simp only [identParse, encode_plain s h2, root, List.flatMap_cons, List.flatMap_nil,
    List.append_nil, hr, List.map_cons, List.map_nil, pairwiseFilter_id _ hg.2.2 hg.2.1]

theorem joinPath_snoc : ∀ (path : List (List String)) (s : List String), path ≠ [] →
    joinPath (path ++ [s]) = joinPath path ++ " " :: s
  | [], _, h => absurd rfl h
  | [p], s, _ => by simp [joinPath]
  | p :: q :: r, s, _ => by
      have ih := joinPath_snoc (q :: r) s (by simp)
      simp only [List.cons_append] at ih ⊢
      simp only [joinPath, ih, List.append_assoc, List.cons_append]

/-- the Vars path `path` and the Nest parent `parent` denote the same enclosing selector -/
def Rel (path : List (List String)) (parent : Option (List Sel)) : Prop :=
  (path = [] ∧ parent = none) ∨
  (path ≠ [] ∧ parent = some [joinPath path] ∧ GoodSel (joinPath path))

theorem identParse_rel {path : List (List String)} {parent : Option (List Sel)} {s : List Tok}
    (hr : Rel path parent) (h : plainSel s = true) :
    identParse parent s = [joinPath (path ++ [s])] ∧
      Rel (path ++ [s]) (some [joinPath (path ++ [s])]) := by
  rcases hr with ⟨rfl, rfl⟩ | ⟨hne, rfl, hg⟩
  · refine ⟨by simpa [joinPath] using identParse_none_plain h, Or.inr ⟨by simp, rfl, ?_⟩⟩
    simpa [joinPath] using GoodSel_of_plain h
  · have e := joinPath_snoc path s hne
    refine ⟨by rw [e]; exact identParse_some_plain hg h, Or.inr ⟨by simp, rfl, ?_⟩⟩
    rw [e]
    exact GoodSel_append hg (GoodSel_of_plain h)

theorem join_singleton (s : String) : String.join [s] = s := by
  simp [String.join]

/-! ### X1: Nest into Vars -/

theorem resolveSel_lits (sc : Vars.Scope) : ∀ sel : List String,
    Vars.resolveSel sc (sel.map Vars.STok.lit) = .ok sel
  | [] => rfl
  | s :: r => by
      simp only [List.map_cons, Vars.resolveSel, resolveSel_lits sc r]
      rfl

mutual
/-- what pass G makes of an embedded Nest tree: every selector is resolved at grammar time -/
def embedGItem : Nest.Item → Vars.GItem
  | .decl d => .decl d.prop [.lit d.value]
  | .rule sel body => .rule (sel.map Vars.STok.lit) (some sel) (embedG body)
def embedG : List Nest.Item → List Vars.GItem
  | [] => []
  | i :: is => embedGItem i :: embedG is
end

mutual
theorem passG_embedNV (gs : Vars.Scope) : ∀ i : Nest.Item,
    Vars.passG gs (embedNVItem i) = (gs, embedGItem i)
  | .decl d => by simp [embedNVItem, embedGItem, Vars.passG]
  | .rule sel body => by
      simp only [embedNVItem, embedGItem, Vars.passG, resolveSel_lits,
        passGList_embedNV ([] :: gs) body]
theorem passGList_embedNV (gs : Vars.Scope) : ∀ is : List Nest.Item,
    Vars.passGList gs (embedNV is) = (gs, embedG is)
  | [] => by simp [embedNV, embedG, Vars.passGList]
  | i :: is => by
      simp only [embedNV, embedG, Vars.passGList, passG_embedNV gs i, passGList_embedNV gs is]
end

def declV (d : Nest.Decl) : String × List String := (d.prop, [d.value])

def ownV : Nest.Item → List (String × List String)
  | .decl d => [declV d]
  | .rule _ _ => []

theorem srcDecls_cons_map (i : Nest.Item) (is : List Nest.Item) :
    (Nest.srcDecls (i :: is)).map declV = ownV i ++ (Nest.srcDecls is).map declV := by
  cases i <;> simp [Nest.srcDecls, ownV]

mutual
/-- the flattening of a Nest tree in the vocabulary of Vars (paths instead of combined selectors) -/
def flatV (path : List (List String)) : Nest.Item → List Vars.OutRule
  | .decl _ => []
  | .rule sel body =>
      (if Nest.srcDecls body = [] then [] else [⟨path ++ [sel], (Nest.srcDecls body).map declV⟩])
        ++ flatVList (path ++ [sel]) body
def flatVList (path : List (List String)) : List Nest.Item → List Vars.OutRule
  | [] => []
  | i :: is => flatV path i ++ flatVList path is
end

theorem expand_lit1 (es : Vars.Scope) (fuel : Nat) (s : String) :
    Vars.expand es fuel [.lit s] = .ok [.lit s] :=
  Mixin.expand_of_noRef es fuel _ rfl

mutual
theorem passEItem_embedG (fuel : Nat) (es : Vars.Scope) (path : List (List String)) :
    ∀ i : Nest.Item, Vars.passEItem fuel es path (embedGItem i) = .ok (es, ownV i, flatV path i)
  | .decl d => by
      simp only [embedGItem, Vars.passEItem, expand_lit1, ownV, flatV, declV]
      rfl
  | .rule sel body => by
      simp only [embedGItem, Vars.passEItem, ownV, flatV, bind, Except.bind, pure, Except.pure,
        passEList_embedG fuel ([] :: es) (path ++ [sel]) body]
      by_cases h : Nest.srcDecls body = [] <;> simp [h]
theorem passEList_embedG (fuel : Nat) (es : Vars.Scope) (path : List (List String)) :
    ∀ is : List Nest.Item, Vars.passEList fuel es path (embedG is)
      = .ok (es, (Nest.srcDecls is).map declV, flatVList path is)
  | [] => by simp [embedG, Vars.passEList, Nest.srcDecls, flatVList, pure, Except.pure]
  | i :: is => by
      simp only [embedG, Vars.passEList, bind, Except.bind, pure, Except.pure,
        passEItem_embedG fuel es path i, passEList_embedG fuel es path is, srcDecls_cons_map, flatVList]
end

theorem compile_embedNV (fuel : Nat) (ts : List Nest.Item) :
    Vars.compile fuel (embedNV ts) = .ok (flatVList [] ts) := by
  simp only [Vars.compile, passGList_embedNV, passEList_embedG, bind, Except.bind, pure, Except.pure]

theorem obsV_own (path : List (List String)) (ds : List Nest.Decl) :
    obsV ⟨path, ds.map declV⟩ = obsN ⟨[joinPath path], ds⟩ := by
  simp [obsV, obsN, declV, declM, declS]

mutual
theorem obs_flatV {path : List (List String)} {parent : Option (List Sel)} (hr : Rel path parent) :
    ∀ i : Nest.Item, plainItemN i = true → (flatV path i).map obsV = (Nest.flat parent i).map obsN
  | .decl _, _ => by simp [flatV, Nest.flat]
  | .rule sel body, h => by
      simp only [plainItemN, Bool.and_eq_true] at h
      obtain ⟨h1, h2⟩ := identParse_rel hr h.1
      simp only [flatV, Nest.flat, h1, List.map_append, obs_flatVList h2 body h.2]
      by_cases hd : Nest.srcDecls body = [] <;> simp [hd, obsV_own]
theorem obs_flatVList {path : List (List String)} {parent : Option (List Sel)} (hr : Rel path parent) :
    ∀ is : List Nest.Item, plainSheetN is = true →
      (flatVList path is).map obsV = (Nest.flatList parent is).map obsN
  | [], _ => by simp [flatVList, Nest.flatList]
  | i :: is, h => by
      simp only [plainSheetN, Bool.and_eq_true] at h
      simp only [flatVList, Nest.flatList, List.map_append, obs_flatV hr i h.1, obs_flatVList hr is h.2]
end

/-! ### X2: Nest into Media -/

theorem declsOf_embedNM : ∀ is : List Nest.Item, Media.declsOf (embedNM is) = Nest.srcDecls is
  | [] => rfl
  | .decl d :: r => by simp [embedNM, embedNMItem, Media.declsOf, Nest.srcDecls, declsOf_embedNM r]
  | .rule s b :: r => by simp [embedNM, embedNMItem, Media.declsOf, Nest.srcDecls, declsOf_embedNM r]

mutual
/-- nothing bubbles out of a media-free tree -/
theorem media_none_item (p : Option (List Sel)) : ∀ i : Nest.Item,
    (Media.evalItem p (embedNMItem i)).filter (·.isMedia) = []
  | .decl d => by simp [embedNMItem, Media.evalItem]
  | .rule sel body => by
      rw [embedNMItem, Media.evalItem_rule_B, media_none_list (some (identParse p sel)) body]
      rfl
theorem media_none_list (p : Option (List Sel)) : ∀ is : List Nest.Item,
    (Media.evalList p (embedNM is)).filter (·.isMedia) = []
  | [] => by simp [embedNM, Media.evalList]
  | i :: is => by
      simp only [embedNM, Media.evalList, List.filter_append, media_none_item p i,
        media_none_list p is, List.append_nil]
end

mutual
theorem media_obs_item (ctx : List Media.Query) (p : Option (List Sel)) : ∀ i : Nest.Item,
    Media.obsList ctx ((Media.evalItem p (embedNMItem i)).filter (fun b => !b.isMedia))
      = (Nest.flat p i).map (tripleOf ctx)
  | .decl d => by simp [embedNMItem, Media.evalItem, Media.obsList, Nest.flat]
  | .rule sel body => by
      rw [embedNMItem, Media.evalItem_rule_U, Media.obsList_optBlock]
      simp only [Media.selfRule, Media.obs, Nest.flat, List.map_append, declsOf_embedNM,
        media_obs_list ctx (some (identParse p sel)) body]
      by_cases h : Nest.srcDecls body = [] <;> simp [h, tripleOf]
theorem media_obs_list (ctx : List Media.Query) (p : Option (List Sel)) : ∀ is : List Nest.Item,
    Media.obsList ctx ((Media.evalList p (embedNM is)).filter (fun b => !b.isMedia))
      = (Nest.flatList p is).map (tripleOf ctx)
  | [] => by simp [embedNM, Media.evalList, Media.obsList, Nest.flatList]
  | i :: is => by
      simp only [embedNM, Media.evalList, List.filter_append, Media.obsList_append, Nest.flatList,
        List.map_append, media_obs_item ctx p i, media_obs_list ctx p is]
end

theorem filter_not_self {l : List Media.OBlock} (h : l.filter (·.isMedia) = []) :
    l.filter (fun b => !b.isMedia) = l := by
  rw [List.filter_eq_self]
  intro b hb
  have := List.filter_eq_nil_iff.mp h b hb
  simpa using this

theorem observe_embedNM (ts : List Nest.Item) :
    Media.observe (embedNM ts) = (Nest.flatList none ts).map (tripleOf []) := by
  unfold Media.observe Media.compileSheet
  rw [← filter_not_self (media_none_list none ts), media_obs_list]

/-! ### X5: Nest into Mixin -/

def toMN (o : Nest.OutRule) : Mixin.OutRule := ⟨o.sels, o.decls.map declS⟩

theorem nestingN_pos (i : Nest.Item) : 1 ≤ nestingN i := by
  cases i <;> simp [nestingN]

theorem valText_lit1 (s : String) : Mixin.valText [.lit s] = s := by
  simp [Mixin.valText, Vars.litText]

theorem evalItems_embedNX (tbl : Mixin.Table) : ∀ (gas depth : Nat) (inExp : Bool) (sc : Vars.Scope)
    (me : List Sel) (items : List Nest.Item), nestingNList items ≤ gas →
    Mixin.evalItems tbl gas depth inExp sc me (embedNXItems items)
      = .ok ((Nest.srcDecls items).map declS, (Nest.flatList (some me) items).map toMN) := by
  intro gas
  induction gas with
  | zero =>
    intro depth inExp sc me items h
    cases items with
    | nil => rw [embedNXItems, Mixin.evalItems.eq_1]; rfl
    | cons it rest =>
      have := nestingN_pos it
      simp only [nestingNList] at h
      omega
  | succ gas ih =>
    intro depth inExp sc me items
    induction items with
    | nil => intro _; rw [embedNXItems, Mixin.evalItems.eq_1]; rfl
    | cons it rest ihr =>
      intro h
      simp only [nestingNList] at h
      have hrest := ihr (by omega)
      cases it with
      | decl d =>
        rw [embedNXItems, embedNXItem, Mixin.evalItems.eq_3, hrest, expand_lit1]
        simp [Mixin.liftV, bind, Except.bind, pure, Except.pure, valText_lit1, Nest.srcDecls,
          Nest.flatList, Nest.flat, declS]
      | rule sel body =>
        have hb : nestingNList body ≤ gas := by simp only [nestingN] at h; omega
        rw [embedNXItems, embedNXItem, Mixin.evalItems.eq_4, hrest, ih depth inExp _ _ body hb]
        by_cases hd : Nest.srcDecls body = [] <;>
          simp [bind, Except.bind, pure, Except.pure, Nest.srcDecls, Nest.flatList, Nest.flat, hd, toMN]

theorem go_embedNX (tbl : Mixin.Table) (gas : Nat) : ∀ ts : List Nest.Item, nestingNList ts ≤ gas + 1 →
    Mixin.compile.go gas tbl (embedNX ts) = .ok ((Nest.flatList none ts).map toMN)
  | [], _ => rfl
  | .decl d :: r, h => by
      simp only [nestingNList] at h
      simp [embedNX, Nest.flatList, Nest.flat, go_embedNX tbl gas r (by omega)]
  | .rule sel body :: r, h => by
      simp only [nestingNList, nestingN] at h
      simp only [embedNX, Mixin.compile.go, evalItems_embedNX tbl gas 0 false _ _ body (by omega),
        go_embedNX tbl gas r (by omega), Nest.flatList, Nest.flat]
      by_cases hd : Nest.srcDecls body = [] <;> simp [bind, Except.bind, pure, Except.pure, hd, toMN]

theorem obsM_toMN (o : Nest.OutRule) : obsM (toMN o) = obsN o := rfl

/-! ### X3: Vars into Mixin -/

/-- a scope in which no variable is defined -/
def AllEmpty (sc : Vars.Scope) : Prop := ∀ f ∈ sc, f = []

theorem AllEmpty.push {sc : Vars.Scope} (h : AllEmpty sc) : AllEmpty ([] :: sc) := by
  intro f hf
  rcases List.mem_cons.mp hf with rfl | hf
  · rfl
  · exact h f hf

theorem lookup_allEmpty : ∀ {sc : Vars.Scope}, AllEmpty sc → ∀ n, Vars.lookup sc n = none
  | [], _, _ => rfl
  | f :: r, h, n => by
      have : f = [] := h f (by simp)
      subst this
      rw [Vars.lookup_nil_cons]
      exact lookup_allEmpty (fun g hg => h g (by simp [hg])) n

theorem substOnce_allEmpty {sc sc' : Vars.Scope} (h : AllEmpty sc) (h' : AllEmpty sc') :
    ∀ v : Vars.Value, Vars.substOnce sc v = Vars.substOnce sc' v
  | [] => rfl
  | .lit s :: r => by simp only [Vars.substOnce, substOnce_allEmpty h h' r]
  | .ref n :: r => by simp only [Vars.substOnce, lookup_allEmpty h, lookup_allEmpty h']

theorem substOnce_err {sc : Vars.Scope} (h : AllEmpty sc) :
    ∀ v : Vars.Value, Vars.hasRef v = true → ∃ e, Vars.substOnce sc v = .error e
  | [], hr => by simp [Vars.hasRef] at hr
  | .ref n :: r, _ => ⟨.unknownVar n, by simp [Vars.substOnce, lookup_allEmpty h]⟩
  | .lit s :: r, hr => by
      obtain ⟨e, he⟩ := substOnce_err h r (by simpa [Vars.hasRef] using hr)
      exact ⟨e, by simp [Vars.substOnce, he, bind, Except.bind]⟩

/-- where nothing is defined, substitution is decided in the first round: any two positive fuels and
    any two empty scopes give the same result -/
theorem expand_allEmpty {sc sc' : Vars.Scope} (h : AllEmpty sc) (h' : AllEmpty sc') (f g : Nat)
    (v : Vars.Value) : Vars.expand sc (f + 1) v = Vars.expand sc' (g + 1) v := by
  rw [Vars.expand, Vars.expand]
  by_cases hr : Vars.hasRef v = true
  · obtain ⟨e, he⟩ := substOnce_err h v hr
    have he' := he
    rw [substOnce_allEmpty h h' v] at he'
    simp only [hr, if_true, he, he']
  · simp only [hr, if_false, Bool.false_eq_true]

mutual
/-- what pass G makes of a sheet of the common fragment -/
def gOfItem : Vars.Item → Vars.GItem
  | .decl p v => .decl p v
  | .vdef n v => .vdef n v
  | .rule sel body => .rule sel (some (selToks sel)) (gOf body)
def gOf : List Vars.Item → List Vars.GItem
  | [] => []
  | i :: is => gOfItem i :: gOf is
end

theorem resolveSel_noInterp (sc : Vars.Scope) : ∀ sel : List Vars.STok, noInterp sel = true →
    Vars.resolveSel sc sel = .ok (selToks sel)
  | [], _ => rfl
  | .lit s :: r, h => by
      have hr : noInterp r = true := by simpa [noInterp] using h
      simp only [Vars.resolveSel, resolveSel_noInterp sc r hr]
      rfl
  | .interp n :: r, h => by simp [noInterp] at h

mutual
theorem passG_common (gs : Vars.Scope) : ∀ i : Vars.Item, commonItemVM i = true →
    Vars.passG gs i = (gs, gOfItem i)
  | .decl p v, _ => by simp [gOfItem, Vars.passG]
  | .vdef n v, h => by simp [commonItemVM] at h
  | .rule sel body, h => by
      simp only [commonItemVM, Bool.and_eq_true] at h
      simp only [gOfItem, Vars.passG, resolveSel_noInterp _ sel h.1.1,
        passGList_common ([] :: gs) body h.2]
theorem passGList_common (gs : Vars.Scope) : ∀ is : List Vars.Item, commonItemsVM is = true →
    Vars.passGList gs is = (gs, gOf is)
  | [], _ => by simp [gOf, Vars.passGList]
  | i :: is, h => by
      simp only [commonItemsVM, Bool.and_eq_true] at h
      simp only [gOf, Vars.passGList, passG_common gs i h.1, passGList_common gs is h.2]
end

def toMV (o : Vars.OutRule) : Mixin.OutRule := ⟨[joinPath o.path], o.decls.map declM⟩

/-- a result of Vars' pass E in the vocabulary of `Mixin.evalItems` -/
def resMV (r : Except Vars.Err (Vars.Scope × List (String × List String) × List Vars.OutRule)) :
    Except Mixin.Err (List (String × String) × List Mixin.OutRule) :=
  Mixin.liftV (r.map fun x => (x.2.1.map declM, x.2.2.map toMV))

theorem nestingV_pos (i : Vars.Item) : 1 ≤ nestingV i := by
  cases i <;> simp [nestingV]

theorem evalItems_embedVM (tbl : Mixin.Table) (fuel : Nat) (hf : 1 ≤ fuel) :
    ∀ (gas depth : Nat) (inExp : Bool) (sc es : Vars.Scope) (path : List (List String))
      (items : List Vars.Item),
      AllEmpty sc → AllEmpty es → path ≠ [] → GoodSel (joinPath path) →
      commonItemsVM items = true → nestingVList items ≤ gas →
      Mixin.evalItems tbl gas depth inExp sc [joinPath path] (embedVMItems items)
        = resMV (Vars.passEList fuel es path (gOf items)) := by
  obtain ⟨f, rfl⟩ : ∃ f, fuel = f + 1 := ⟨fuel - 1, by omega⟩
  intro gas
  induction gas with
  | zero =>
    intro depth inExp sc es path items _ _ _ _ _ h
    cases items with
    | nil => rw [embedVMItems, Mixin.evalItems.eq_1]; rfl
    | cons it rest =>
      have := nestingV_pos it
      simp only [nestingVList] at h
      omega
  | succ gas ih =>
    intro depth inExp sc es path items
    induction items with
    | nil => intros; rw [embedVMItems, Mixin.evalItems.eq_1]; rfl
    | cons it rest ihr =>
      intro hsc hes hne hg hc h
      simp only [nestingVList] at h
      simp only [commonItemsVM, Bool.and_eq_true] at hc
      have hrest := ihr hsc hes hne hg hc.2 (by omega)
      cases it with
      | vdef n v => simp [commonItemVM] at hc
      | decl p v =>
        rw [embedVMItems, embedVMItem, List.singleton_append, Mixin.evalItems.eq_3, hrest,
          expand_allEmpty hsc hes 63 f v]
        simp only [gOf, gOfItem, Vars.passEList, Vars.passEItem]
        cases Vars.expand es (f + 1) v with
        | error e => cases e <;> rfl
        | ok v' =>
          simp only [bind, Except.bind, pure, Except.pure, Mixin.liftV]
          cases Vars.passEList (f + 1) es path (gOf rest) with
          | error e => cases e <;> rfl
          | ok r =>
            obtain ⟨es2, d2, o2⟩ := r
            simp [resMV, Mixin.liftV, Except.map, Mixin.valText, declM]
      | rule sel body =>
        have hc1 := hc.1
        simp only [commonItemVM, Bool.and_eq_true] at hc1
        have hb : nestingVList body ≤ gas := by simp only [nestingV] at h; omega
        have hp := identParse_some_plain hg hc1.1.2
        have e := joinPath_snoc path (selToks sel) hne
        have hg' : GoodSel (joinPath (path ++ [selToks sel])) := by
          rw [e]; exact GoodSel_append hg (GoodSel_of_plain hc1.1.2)
        have hbody := ih depth inExp ([] :: sc) ([] :: es) (path ++ [selToks sel]) body hsc.push
          hes.push (by simp) hg' hc1.2 hb
        rw [embedVMItems, embedVMItem, List.singleton_append, Mixin.evalItems.eq_4, hrest, hp, ← e,
          hbody]
        simp only [gOf, gOfItem, Vars.passEList, Vars.passEItem, pure, Except.pure, bind, Except.bind]
        cases Vars.passEList (f + 1) ([] :: es) (path ++ [selToks sel]) (gOf body) with
        | error e => cases e <;> rfl
        | ok rb =>
          obtain ⟨es1, d1, o1⟩ := rb
          dsimp only
          cases Vars.passEList (f + 1) es path (gOf rest) with
          | error e => cases e <;> rfl
          | ok r =>
            obtain ⟨es2, d2, o2⟩ := r
            by_cases hd : d1 = [] <;>
              simp [resMV, Mixin.liftV, Except.map, hd, toMV]

/-- the Vars side of a sheet of the common fragment, top level -/
theorem go_embedVM (tbl : Mixin.Table) (fuel : Nat) (hf : 1 ≤ fuel) (gas : Nat) (es : Vars.Scope)
    (hes : AllEmpty es) : ∀ sheet : List Vars.Item,
      (∀ i ∈ sheet, isRuleV i = true) → commonItemsVM sheet = true → nestingVList sheet ≤ gas + 1 →
      Mixin.compile.go gas tbl (embedVM sheet)
        = Mixin.liftV ((Vars.passEList fuel es [] (gOf sheet)).map fun x => x.2.2.map toMV)
  | [], _, _, _ => rfl
  | .decl p v :: r, hr, _, _ => by simpa [isRuleV] using hr (.decl p v) (by simp)
  | .vdef n v :: r, hr, _, _ => by simpa [isRuleV] using hr (.vdef n v) (by simp)
  | .rule sel body :: r, hr, hc, h => by
      simp only [commonItemsVM, commonItemVM, Bool.and_eq_true] at hc
      simp only [nestingVList, nestingV] at h
      have hrest := go_embedVM tbl fuel hf gas es hes r (fun i hi => hr i (by simp [hi])) hc.2
        (by omega)
      have hp := identParse_none_plain hc.1.1.2
      have hg : GoodSel (joinPath [selToks sel]) := by
        simpa [joinPath] using GoodSel_of_plain hc.1.1.2
      have hbody := evalItems_embedVM tbl fuel hf gas 0 false [[], []] ([] :: es) [selToks sel] body
        (by intro f hf; simp at hf; exact hf) hes.push (by simp) hg hc.1.2 (by omega)
      simp only [joinPath] at hbody
      simp only [embedVM, Mixin.compile.go, hp, hbody, hrest, gOf, gOfItem, Vars.passEList,
        Vars.passEItem, pure, Except.pure, bind, Except.bind, List.nil_append]
      cases Vars.passEList fuel ([] :: es) [selToks sel] (gOf body) with
      | error e => cases e <;> rfl
      | ok rb =>
        obtain ⟨es1, d1, o1⟩ := rb
        dsimp only
        cases Vars.passEList fuel es [] (gOf r) with
        | error e => cases e <;> rfl
        | ok r =>
          obtain ⟨es2, d2, o2⟩ := r
          by_cases hd : d1 = [] <;>
            simp [resMV, Mixin.liftV, Except.map, hd, toMV, joinPath]

theorem commonVM_iff (sheet : List Vars.Item) : commonVM sheet = true ↔
    (∀ i ∈ sheet, isRuleV i = true) ∧ commonItemsVM sheet = true := by
  simp [commonVM]

theorem compile_embedVM (gas fuel : Nat) (sheet : List Vars.Item) (hf : 1 ≤ fuel)
    (hc : commonVM sheet = true) (hg : nestingVList sheet ≤ gas + 1) :
    Mixin.compile gas (embedVM sheet)
      = Mixin.liftV ((Vars.compile fuel sheet).map (List.map toMV)) := by
  obtain ⟨h1, h2⟩ := (commonVM_iff sheet).mp hc
  have hes : AllEmpty [[]] := by intro f hf; simpa using hf
  rw [Mixin.compile_eq_go, go_embedVM _ fuel hf gas [[]] hes sheet h1 h2 hg]
  simp only [Vars.compile, passGList_common [[]] sheet h2, bind, Except.bind, pure, Except.pure]
  cases Vars.passEList fuel [[]] [] (gOf sheet) with
  | error e => rfl
  | ok r => rfl

theorem obsM_toMV (o : Vars.OutRule) : obsM (toMV o) = obsV o := rfl

/-! ### X4: the side condition of C03 holds on the common fragment -/

theorem definedNames_common : ∀ is : List Vars.Item, commonItemsVM is = true →
    Vars.definedNames is = []
  | [], _ => rfl
  | .decl p v :: r, h => by
      simp only [commonItemsVM, Bool.and_eq_true] at h
      simp [Vars.definedNames, definedNames_common r h.2]
  | .vdef n v :: r, h => by simp [commonItemsVM, commonItemVM] at h
  | .rule s b :: r, h => by
      simp only [commonItemsVM, Bool.and_eq_true] at h
      simp [Vars.definedNames, definedNames_common r h.2]

theorem blockOKAux_common (defs : List (String × Vars.Value)) : ∀ is : List Vars.Item,
    commonItemsVM is = true → Vars.blockOKAux defs is = true
  | [], _ => rfl
  | i :: r, h => by
      simp only [commonItemsVM, Bool.and_eq_true] at h
      have hd := definedNames_common r h.2
      cases i with
      | vdef n v => simp [commonItemVM] at h
      | decl p v => simp [Vars.blockOKAux, hd, blockOKAux_common defs r h.2]
      | rule s b => simp [Vars.blockOKAux, hd, blockOKAux_common defs r h.2]

mutual
theorem blocksOK_common (defs : List (String × Vars.Value)) : ∀ i : Vars.Item,
    commonItemVM i = true → Vars.blocksOK defs i = true
  | .decl _ _, _ => by simp [Vars.blocksOK]
  | .vdef _ _, _ => by simp [Vars.blocksOK]
  | .rule s b, h => by
      simp only [commonItemVM, Bool.and_eq_true] at h
      simp [Vars.blocksOK, blockOKAux_common defs b h.2, blocksOKList_common defs b h.2]
theorem blocksOKList_common (defs : List (String × Vars.Value)) : ∀ is : List Vars.Item,
    commonItemsVM is = true → Vars.blocksOKList defs is = true
  | [], _ => rfl
  | i :: r, h => by
      simp only [commonItemsVM, Bool.and_eq_true] at h
      simp [Vars.blocksOKList, blocksOK_common defs i h.1, blocksOKList_common defs r h.2]
end

theorem topOKAux_common (defs : List (String × Vars.Value)) : ∀ (is before : List Vars.Item),
    commonItemsVM is = true → Vars.topOKAux defs before is = true
  | [], _, _ => rfl
  | i :: r, before, h => by
      simp only [commonItemsVM, Bool.and_eq_true] at h
      have hd := definedNames_common r h.2
      cases i with
      | vdef n v => simp [commonItemVM] at h
      | decl p v => simp [Vars.topOKAux, hd, topOKAux_common defs r _ h.2]
      | rule s b => simp [Vars.topOKAux, hd, topOKAux_common defs r _ h.2]

theorem VarOK_common (sheet : List Vars.Item) (hc : commonVM sheet = true) :
    Vars.VarOK sheet = true := by
  obtain ⟨h1, h2⟩ := (commonVM_iff sheet).mp hc
  simp only [Vars.VarOK, Bool.and_eq_true, topOKAux_common _ sheet [] h2,
    blocksOKList_common _ sheet h2, and_true, List.all_eq_true]
  intro i hi
  have := h1 i hi
  cases i <;> simp_all [isRuleV]

end Lessm.Cross
