/-
  Generic lemmas on context-free grammars over numbered symbols (`Lessm.Model.Cfg`):

  * the weight lemma: if a weight assignment is consistent with every production, every derived
    terminal string has the weight of the symbol it was derived from;
  * the prefix lemma: with a certificate of prefix lower bounds, no prefix of a derived string weighs
    less than the bound of the symbol;
  * inversion / append / split lemmas for `DerivesL`;
  * the executable check `LR.balanced` characterised by total weight and prefix weights.
-/
import Lessm.Model.Cfg
import Lessm.Model.LR

namespace Lessm.Cfg

/-! ### sums -/

theorem sumT_nil (tw : Nat → Int) : sumT tw [] = 0 := rfl

theorem sumT_cons (tw : Nat → Int) (a : Nat) (w : List Nat) :
    sumT tw (a :: w) = tw a + sumT tw w := by
  simp [sumT]

theorem sumT_append (tw : Nat → Int) (a b : List Nat) :
    sumT tw (a ++ b) = sumT tw a + sumT tw b := by
  simp [sumT, List.map_append, List.sum_append]

/-! ### inversion of `DerivesL` -/

theorem derivesL_nil_inv {G : Grammar} {w : List Nat} (h : DerivesL G [] w) : w = [] := by
  cases h; rfl

theorem derivesL_cons_inv {G : Grammar} {s : Sym} {ss : List Sym} {w : List Nat}
    (h : DerivesL G (s :: ss) w) :
    ∃ w1 w2, w = w1 ++ w2 ∧ Derives G s w1 ∧ DerivesL G ss w2 := by
  cases h with
  | cons _ _ w1 w2 h1 h2 => exact ⟨w1, w2, rfl, h1, h2⟩

theorem derivesL_single_inv {G : Grammar} {s : Sym} {w : List Nat}
    (h : DerivesL G [s] w) : Derives G s w := by
  obtain ⟨w1, w2, rfl, h1, h2⟩ := derivesL_cons_inv h
  rw [derivesL_nil_inv h2, List.append_nil]
  exact h1

theorem derivesL_single {G : Grammar} {s : Sym} {w : List Nat}
    (h : Derives G s w) : DerivesL G [s] w := by
  have := DerivesL.cons s [] w [] h DerivesL.nil
  simpa using this

theorem derivesL_append {G : Grammar} {b : List Sym} {v : List Nat} (hb : DerivesL G b v) :
    ∀ (a : List Sym) (u : List Nat), DerivesL G a u → DerivesL G (a ++ b) (u ++ v)
  | [], u, h => by
      rw [derivesL_nil_inv h]; simpa using hb
  | s :: ss, u, h => by
      obtain ⟨w1, w2, rfl, h1, h2⟩ := derivesL_cons_inv h
      rw [List.append_assoc, List.cons_append]
      exact DerivesL.cons s (ss ++ b) w1 (w2 ++ v) h1 (derivesL_append hb ss w2 h2)

theorem derivesL_split {G : Grammar} {b : List Sym} :
    ∀ (a : List Sym) (w : List Nat), DerivesL G (a ++ b) w →
      ∃ u v, w = u ++ v ∧ DerivesL G a u ∧ DerivesL G b v
  | [], w, h => ⟨[], w, rfl, DerivesL.nil, by simpa using h⟩
  | s :: ss, w, h => by
      rw [List.cons_append] at h
      obtain ⟨w1, w2, rfl, h1, h2⟩ := derivesL_cons_inv h
      obtain ⟨u, v, rfl, hu, hv⟩ := derivesL_split ss w2 h2
      exact ⟨w1 ++ u, v, by simp, DerivesL.cons s ss w1 u h1 hu, hv⟩

/-! ### the weight lemma -/

/-- the non-terminal weights `nw` are consistent with the terminal weights `tw` on every production -/
def Consistent (G : Grammar) (tw nw : Nat → Int) : Prop :=
  ∀ p ∈ G.prods, nw p.lhs = (p.rhs.map (wt tw nw)).sum

/-- **derives_weight**: under a consistent weight assignment the weight of a derived terminal string
    is the weight of the symbol (string) it was derived from -/
theorem derives_weight (G : Grammar) (tw nw : Nat → Int) (hc : Consistent G tw nw) :
    (∀ s w, Derives G s w → sumT tw w = wt tw nw s) ∧
    (∀ ss w, DerivesL G ss w → sumT tw w = (ss.map (wt tw nw)).sum) := by
  constructor
  · intro s w h
    refine Derives.rec (motive_1 := fun s w _ => sumT tw w = wt tw nw s)
      (motive_2 := fun ss w _ => sumT tw w = (ss.map (wt tw nw)).sum) ?_ ?_ ?_ ?_ h
    · intro a; simp [sumT, wt]
    · intro p hp w _ ih; rw [wt, hc p hp]; exact ih
    · simp [sumT]
    · intro s ss w1 w2 _ _ ih1 ih2; simp [sumT_append, ih1, ih2]
  · intro ss w h
    refine DerivesL.rec (motive_1 := fun s w _ => sumT tw w = wt tw nw s)
      (motive_2 := fun ss w _ => sumT tw w = (ss.map (wt tw nw)).sum) ?_ ?_ ?_ ?_ h
    · intro a; simp [sumT, wt]
    · intro p hp w _ ih; rw [wt, hc p hp]; exact ih
    · simp [sumT]
    · intro s ss w1 w2 _ _ ih1 ih2; simp [sumT_append, ih1, ih2]

/-- the executable check establishes consistency -/
theorem consistent_of_B {prods : List Rule} {twL nwL : List (Nat × Int)}
    (h : consistentB prods twL nwL = true) : Consistent ⟨prods⟩ (look twL) (look nwL) := by
  intro p hp
  unfold consistentB at h
  rw [List.all_eq_true] at h
  have := h p hp
  simpa using this

/-! ### the prefix lemma -/

/-- lower bound on the weight of every prefix of a string derived from a symbol -/
def lowSym (tw : Nat → Int) (low : Nat → Int) : Sym → Int
  | .t a => min 0 (tw a)
  | .nt a => low a

/-- the certificate of prefix lower bounds is closed under every production -/
def LowOk (G : Grammar) (tw nw low : Nat → Int) : Prop :=
  ∀ p ∈ G.prods, low p.lhs ≤ lowSeq tw nw low p.rhs 0 0

/-- the executable check establishes `LowOk` -/
theorem lowOk_of_B {prods : List Rule} {twL nwL lowL : List (Nat × Int)}
    (h : lowOkB prods twL nwL lowL = true) :
    LowOk ⟨prods⟩ (look twL) (look nwL) (look lowL) := by
  intro p hp
  unfold lowOkB at h
  rw [List.all_eq_true] at h
  have := h p hp
  simpa using this

theorem lowSeq_cons (tw nw low : Nat → Int) (s : Sym) (ss : List Sym) (acc best : Int) :
    lowSeq tw nw low (s :: ss) acc best
      = lowSeq tw nw low ss (acc + wt tw nw s) (min best (acc + lowSym tw low s)) := by
  cases s <;> rfl

/-- `lowSeq` never exceeds the running minimum it was started with -/
theorem lowSeq_le_best (tw nw low : Nat → Int) :
    ∀ (ss : List Sym) (acc best : Int), lowSeq tw nw low ss acc best ≤ best
  | [], _, best => Int.le_refl best
  | s :: ss, acc, best => by
      rw [lowSeq_cons]
      have := lowSeq_le_best tw nw low ss (acc + wt tw nw s) (min best (acc + lowSym tw low s))
      omega

theorem lowSeq_nonpos (tw nw low : Nat → Int) (ss : List Sym) : lowSeq tw nw low ss 0 0 ≤ 0 :=
  lowSeq_le_best tw nw low ss 0 0

/-- a prefix of a concatenation is a prefix of the left part or the left part followed by a prefix
    of the right part -/
theorem prefix_append_cases {α : Type} {p a b : List α} (h : p <+: a ++ b) :
    p <+: a ∨ ∃ p', p = a ++ p' ∧ p' <+: b := by
  obtain ⟨r, hr⟩ := h
  rcases List.append_eq_append_iff.mp hr with ⟨a', rfl, _⟩ | ⟨c', rfl, rfl⟩
  · exact Or.inl ⟨a', rfl⟩
  · exact Or.inr ⟨c', rfl, ⟨r, rfl⟩⟩

/-- the accumulator-generalised statement about symbol strings used in the induction -/
def PrefixL (tw nw low : Nat → Int) (ss : List Sym) (w : List Nat) : Prop :=
  ∀ (acc best : Int) (p : List Nat), p <+: w → p ≠ [] →
    lowSeq tw nw low ss acc best ≤ acc + sumT tw p

theorem prefixL_zero {tw nw low : Nat → Int} {ss : List Sym} {w : List Nat}
    (h : PrefixL tw nw low ss w) : ∀ p, p <+: w → lowSeq tw nw low ss 0 0 ≤ sumT tw p := by
  intro p hp
  by_cases hnil : p = []
  · subst hnil
    exact lowSeq_nonpos tw nw low ss
  · have := h 0 0 p hp hnil
    omega

/-- **derives_prefix**: under a consistent weight assignment and a closed certificate of prefix lower
    bounds, no prefix of a string derived from `s` weighs less than the bound of `s` (and no prefix of
    a string derived from a symbol string weighs less than its `lowSeq` bound) -/
theorem derives_prefix (G : Grammar) (tw nw low : Nat → Int) (hc : Consistent G tw nw)
    (hl : LowOk G tw nw low) :
    (∀ s w, Derives G s w → ∀ p, p <+: w → lowSym tw low s ≤ sumT tw p) ∧
    (∀ ss w, DerivesL G ss w → ∀ p, p <+: w → lowSeq tw nw low ss 0 0 ≤ sumT tw p) := by
  have hw := (derives_weight G tw nw hc).1
  have term : ∀ a : Nat, ∀ p, p <+: [a] → lowSym tw low (.t a) ≤ sumT tw p := by
    intro a p hp
    rcases List.prefix_cons_iff.mp hp with rfl | ⟨t, rfl, ht⟩
    · show min 0 (tw a) ≤ 0
      omega
    · have : t = [] := List.prefix_nil.mp ht
      subst this
      show min 0 (tw a) ≤ sumT tw [a]
      simp only [sumT, List.map_cons, List.map_nil, List.sum_cons, List.sum_nil]
      omega
  have rule : ∀ (p : Rule), p ∈ G.prods → ∀ (w : List Nat),
      PrefixL tw nw low p.rhs w →
      ∀ q, q <+: w → lowSym tw low (.nt p.lhs) ≤ sumT tw q := by
    intro p hp w ih q hq
    exact Int.le_trans (hl p hp) (prefixL_zero ih q hq)
  have nil : PrefixL tw nw low [] [] := by
    intro acc best p hp hne
    exact absurd (List.prefix_nil.mp hp) hne
  have cons : ∀ (s : Sym) (ss : List Sym) (w1 w2 : List Nat), Derives G s w1 →
      (∀ q, q <+: w1 → lowSym tw low s ≤ sumT tw q) →
      PrefixL tw nw low ss w2 → PrefixL tw nw low (s :: ss) (w1 ++ w2) := by
    intro s ss w1 w2 h1 ih1 ih2 acc best q hq hne
    rw [lowSeq_cons]
    have hb := lowSeq_le_best tw nw low ss (acc + wt tw nw s) (min best (acc + lowSym tw low s))
    have left : ∀ q, q <+: w1 →
        lowSeq tw nw low ss (acc + wt tw nw s) (min best (acc + lowSym tw low s))
          ≤ acc + sumT tw q := by
      intro q h
      have := ih1 q h
      omega
    rcases prefix_append_cases hq with h | ⟨q', rfl, hq'⟩
    · exact left q h
    · by_cases hq'nil : q' = []
      · subst hq'nil
        rw [List.append_nil]
        exact left w1 (List.prefix_refl w1)
      · have h2 := ih2 (acc + wt tw nw s) (min best (acc + lowSym tw low s)) q' hq' hq'nil
        rw [sumT_append, hw s w1 h1]
        omega
  constructor
  · intro s w h
    exact Derives.rec
      (motive_1 := fun s w _ => ∀ p, p <+: w → lowSym tw low s ≤ sumT tw p)
      (motive_2 := fun ss w _ => PrefixL tw nw low ss w)
      term (fun p hp w _ ih => rule p hp w ih) nil
      (fun s ss w1 w2 h1 _ ih1 ih2 => cons s ss w1 w2 h1 ih1 ih2) h
  · intro ss w h
    exact prefixL_zero (DerivesL.rec
      (motive_1 := fun s w _ => ∀ p, p <+: w → lowSym tw low s ≤ sumT tw p)
      (motive_2 := fun ss w _ => PrefixL tw nw low ss w)
      term (fun p hp w _ ih => rule p hp w ih) nil
      (fun s ss w1 w2 h1 _ ih1 ih2 => cons s ss w1 w2 h1 ih1 ih2) h)

/-! ### the executable balance check -/

open Lessm.LR in
/-- `balancedFrom` from a non-negative level: the total returns to zero and no prefix dips below -/
theorem balancedFrom_iff (tw : Nat → Int) :
    ∀ (w : List Nat) (acc : Int), 0 ≤ acc →
      (balancedFrom tw acc w = true ↔
        (acc + sumT tw w = 0 ∧ ∀ p, p <+: w → 0 ≤ acc + sumT tw p))
  | [], acc, hacc => by
      simp only [balancedFrom, sumT_nil, beq_iff_eq]
      constructor
      · intro h
        refine ⟨by omega, ?_⟩
        intro p hp
        rw [List.prefix_nil.mp hp, sumT_nil]; omega
      · intro h; omega
  | t :: r, acc, hacc => by
      simp only [balancedFrom]
      by_cases hlt : acc + tw t < 0
      · simp only [hlt, if_true]
        constructor
        · intro h; cases h
        · intro ⟨_, h⟩
          have := h [t] ⟨r, rfl⟩
          rw [sumT_cons, sumT_nil] at this
          omega
      · simp only [hlt, if_false]
        rw [balancedFrom_iff tw r (acc + tw t) (by omega)]
        constructor
        · intro ⟨h1, h2⟩
          refine ⟨by rw [sumT_cons]; omega, ?_⟩
          intro p hp
          rcases List.prefix_cons_iff.mp hp with rfl | ⟨p', rfl, hp'⟩
          · rw [sumT_nil]; omega
          · have := h2 p' hp'
            rw [sumT_cons]; omega
        · intro ⟨h1, h2⟩
          refine ⟨by rw [sumT_cons] at h1; omega, ?_⟩
          intro p hp
          have := h2 (t :: p) (List.prefix_cons_iff.mpr (Or.inr ⟨p, rfl, hp⟩))
          rw [sumT_cons] at this
          omega

open Lessm.LR in
/-- **balanced_iff**: the executable check says exactly "total weight zero and no prefix negative" -/
theorem balanced_iff (tw : Nat → Int) (w : List Nat) :
    balanced tw w = true ↔ (sumT tw w = 0 ∧ ∀ p, p <+: w → 0 ≤ sumT tw p) := by
  unfold balanced
  rw [balancedFrom_iff tw w 0 (by omega)]
  simp

end Lessm.Cfg

/-! ### the validating LR driver: stack invariant -/

namespace Lessm.LR
open Lessm.Cfg

/-- the grammar symbols on the stack, bottom to top -/
def symsOf : Stack → List Sym
  | [] => []
  | (_, some s) :: rest => symsOf rest ++ [s]
  | (_, none) :: rest => symsOf rest

/-- `popN` splits off the top `n` symbols in left-to-right order -/
theorem popN_syms : ∀ (n : Nat) (stack : Stack) (syms : List Sym) (rest : Stack),
    popN n stack = some (syms, rest) → symsOf stack = symsOf rest ++ syms
  | 0, stack, syms, rest, h => by
      simp only [popN, Option.some.injEq, Prod.mk.injEq] at h
      obtain ⟨rfl, rfl⟩ := h
      simp
  | n + 1, [], syms, rest, h => by simp [popN] at h
  | n + 1, (_, none) :: tl, syms, rest, h => by simp [popN] at h
  | n + 1, (_, some s) :: tl, syms, rest, h => by
      simp only [popN, Option.map_eq_some_iff] at h
      obtain ⟨⟨p1, p2⟩, hp, heq⟩ := h
      simp only [Prod.mk.injEq] at heq
      obtain ⟨rfl, rfl⟩ := heq
      have := popN_syms n tl p1 p2 hp
      simp [symsOf, this]

/-- the stack derives the consumed part of the input -/
def Inv (G : Grammar) (w0 : List Nat) (stack : Stack) (input : List Nat) : Prop :=
  ∃ u, DerivesL G (symsOf stack) u ∧ u ++ input = w0

/-- **run_sound**: if the validating parse loop accepts from a configuration whose stack derives the
    consumed input, the whole input is a sentence of the grammar — whatever the tables -/
theorem run_sound (prods : List Rule) (action goto : Table) (eof start : Nat) (w0 : List Nat) :
    ∀ (fuel : Nat) (stack : Stack) (input : List Nat) (pos : Nat),
      run prods action goto eof start fuel stack input pos = .accept →
      Inv ⟨prods⟩ w0 stack input → Derives ⟨prods⟩ (.nt start) w0
  | 0, _, _, _, h, _ => by simp [run] at h
  | fuel + 1, [], input, pos, h, _ => by simp [run] at h
  | fuel + 1, (st, x) :: tl, input, pos, h, hinv => by
      simp only [run] at h
      cases hl : lookup2 action st (input.headD eof) with
      | none => rw [hl] at h; cases h
      | some a =>
        rw [hl] at h
        simp only at h
        by_cases hpos : a > 0
        · rw [if_pos hpos] at h
          cases input with
          | nil => cases h
          | cons t rest =>
            simp only at h
            refine run_sound prods action goto eof start w0 fuel _ _ _ h ?_
            obtain ⟨u, hu, hw⟩ := hinv
            refine ⟨u ++ [t], ?_, by simpa using hw⟩
            exact derivesL_append (derivesL_single (Derives.term t)) _ _ hu
        · rw [if_neg hpos] at h
          by_cases hneg : a < 0
          · rw [if_pos hneg] at h
            cases hp : prods[(-a).toNat - 1]? with
            | none => rw [hp] at h; cases h
            | some p =>
              rw [hp] at h
              simp only at h
              cases hpop : popN p.rhs.length ((st, x) :: tl) with
              | none => rw [hpop] at h; cases h
              | some pr =>
                obtain ⟨syms, rest'⟩ := pr
                cases rest' with
                | nil => rw [hpop] at h; cases h
                | cons top rest =>
                  obtain ⟨st', x'⟩ := top
                  rw [hpop] at h
                  simp only at h
                  by_cases hsyms : (syms == p.rhs) = true
                  · rw [if_pos hsyms] at h
                    cases hg : lookup2 goto st' p.lhs with
                    | none => rw [hg] at h; cases h
                    | some g =>
                      rw [hg] at h
                      simp only at h
                      refine run_sound prods action goto eof start w0 fuel _ _ _ h ?_
                      obtain ⟨u, hu, hw⟩ := hinv
                      have hs := popN_syms _ _ _ _ hpop
                      have hsyms' : syms = p.rhs := by simpa using hsyms
                      rw [hs, hsyms'] at hu
                      obtain ⟨u1, u2, rfl, h1, h2⟩ := derivesL_split _ _ hu
                      have hmem : p ∈ prods := List.mem_of_getElem? hp
                      refine ⟨u1 ++ u2, ?_, hw⟩
                      exact derivesL_append
                        (derivesL_single (Derives.rule (G := ⟨prods⟩) p hmem u2 h2)) _ _ h1
                  · rw [if_neg hsyms] at h; cases h
          · rw [if_neg hneg] at h
            split at h
            · rename_i _ _ s _ heq
              rw [heq] at hinv
              by_cases hs : (s == start) = true
              · have hs' : s = start := by simpa using hs
                subst hs'
                obtain ⟨u, hu, hw⟩ := hinv
                simp only [symsOf, List.nil_append, List.append_nil] at hu hw
                subst hw
                exact derivesL_single_inv hu
              · rw [if_neg hs] at h; cases h
            · cases h
end Lessm.LR
